(* C19 -- proofs about ReadPath.v: what every read exit returns, for every stored text *)
From SG Require Import Base.Prelude Base.Bytes C19.Json C19.Reserved C19.ReservedProofs C19.Accept C19.AcceptProofs C19.ReadPath.
Open Scope N_scope.

(* ================= the injected properties ================= *)
Fixpoint nodupb (l : list bytes) : bool :=
  match l with [] => true | k :: r => negb (mem k r) && nodupb r end.

Lemma nodupb_sound : forall l, nodupb l = true -> NoDup l.
Proof.
  induction l as [|k r IH]; intros H; [constructor|]. cbn [nodupb] in H. apply andb_true_iff in H as [H1 H2].
  constructor; [|now apply IH]. intros Hin. apply mem_In in Hin. rewrite Hin in H1. discriminate.
Qed.

Lemma injected_NoDup : forall x mt, NoDup (injected x mt).
Proof.
  intros x [cv del ex atm]. apply nodupb_sound.
  destruct x as [[] []| | | |[]| |], cv, del, ex, atm; vm_compute; reflexivity.
Qed.

Lemma injected_read_keys : forall x mt k, In k (injected x mt) -> In k read_keys.
Proof.
  intros x [cv del ex atm] k H.
  assert (Hall : forallb (fun k => mem k read_keys) (injected x {| m_cv := cv; m_deleted := del; m_exp := ex; m_atts := atm |}) = true).
  { destruct x as [[] []| | | |[]| |], cv, del, ex, atm; vm_compute; reflexivity. }
  rewrite forallb_forall in Hall. apply mem_In. now apply Hall.
Qed.

(* every exit adds _id and _rev, except the replication message, whose id and revision travel in its properties *)
Lemma injected_id_rev : forall x mt, x <> XBlipCE -> x <> XBlipEE -> In k_id (injected x mt) /\ In k_rev (injected x mt).
Proof.
  intros x mt H1 H2. destruct x; try congruence; cbn [injected app]; split; cbn [In]; tauto.
Qed.

Lemma NoDup_app_intro {A} : forall (l1 l2 : list A), NoDup l1 -> NoDup l2 -> (forall a, In a l1 -> ~ In a l2) -> NoDup (l1 ++ l2).
Proof.
  induction l1 as [|x l1 IH]; intros l2 H1 H2 Hd; [exact H2|]. inversion H1 as [|y ys Hn Hnd]; subst.
  cbn [app]. constructor.
  - intros Hin. apply in_app_iff in Hin as [Hin|Hin]; [contradiction|]. apply (Hd x); [now left|exact Hin].
  - apply IH; [exact Hnd|exact H2|]. intros a Ha. apply Hd. now right.
Qed.

Section Values.
  Variable V : Type.
  Variable canon : V -> V.

  Notation sdoc := (sdoc V).
  Notation ov := (ov V).

  Definition gw (k : bytes) : bytes * ov := (k, OG).

  Lemma map_fst_gw : forall l, map fst (map gw l) = l.
  Proof. intros l. rewrite map_map. cbn [gw fst]. apply map_id. Qed.

  Lemma in_gw : forall l k o, In (k, o) (map gw l) <-> In k l /\ o = OG.
  Proof.
    intros l k o. rewrite in_map_iff. split.
    - intros [k' [He Hin]]. inversion He; subst. now split.
    - intros [Hin ->]. now exists k.
  Qed.

  Lemma dedupe_user : forall (f : V -> V) (ms : list (bytes * V)),
    dedupe_k fst (map (fun m => (fst m, OU (f (snd m)))) ms) = map (fun m => (fst m, OU (f (snd m)))) (dedupe_k fst ms).
  Proof.
    intros f ms. rewrite (dedupe_k_map (@fst bytes ov) (fun m : bytes * V => (fst m, OU (f (snd m)))) ms).
    reflexivity.
  Qed.

  Lemma in_user : forall (f : V -> V) (ms : list (bytes * V)) k o,
    In (k, o) (map (fun m => (fst m, OU (f (snd m)))) ms) <-> exists v, In (k, v) ms /\ o = OU (f v).
  Proof.
    intros f ms k o. rewrite in_map_iff. split.
    - intros [[k' v] [He Hin]]. cbn [fst snd] in He. inversion He; subst. now exists v.
    - intros [v [Hin ->]]. now exists (k, v).
  Qed.

  Lemma map_fst_user : forall (f : V -> V) (ms : list (bytes * V)), map fst (map (fun m => (fst m, OU (f (snd m)))) ms) = map fst ms.
  Proof. intros. rewrite map_map. reflexivity. Qed.

  (* ---------- the general statement: the parsed response is the parsed stored body with the gateway's properties
     laid over it -- for ANY stored text (duplicate names, reserved names, any order) ---------- *)
  Theorem read_parsed : forall x mt (d : sdoc) out, read canon x mt d = Some out ->
    forall k o, In (k, o) (parsed out) <->
      (In k (injected x mt) /\ o = OG) \/
      (~ In k (injected x mt) /\ exists v, In (k, v) (dedupe_k fst (sd_ms d)) /\ o = OU (cn canon x v)).
  Proof.
    intros x mt d out H k o. unfold read in H. unfold parsed, cn.
    pose proof (injected_NoDup x mt) as Hnd. set (inj := injected x mt) in *.
    assert (Hg : dedupe_k fst (map gw inj) = map gw inj) by (apply dedupe_k_id; now rewrite map_fst_gw).
    destruct (splices x).
    - destruct (sd_trailing d); [discriminate|]. inversion H; subst out. clear H.
      fold gw. rewrite dedupe_k_app, Hg, in_gw, map_fst_gw. cbn [fst].
      rewrite (dedupe_user (fun v => v)), (in_user (fun v => v)). split.
      + intros [Hg'|[[v [Hin ->]] Hn]]; [now left|right; split; [exact Hn|now exists v]].
      + intros [Hg'|[Hn [v [Hin ->]]]]; [now left|right; split; [now exists v|exact Hn]].
    - inversion H; subst out. clear H. fold gw.
      set (kept := filter (fun m => negb (mem (fst m) inj)) (dedupe_k fst (sd_ms d))).
      assert (Hkn : NoDup (map fst kept)) by (apply NoDup_map_filter, dedupe_k_NoDup).
      rewrite dedupe_k_id.
      2:{ rewrite map_app, map_fst_user, map_fst_gw. apply NoDup_app_intro; [exact Hkn|exact Hnd|].
          intros a Ha Hin. apply in_map_iff in Ha as [m [<- Hm]]. apply filter_In in Hm as [_ Hm].
          apply negb_true_iff in Hm. apply mem_In in Hin. congruence. }
      rewrite in_app_iff, in_gw, (in_user canon). split.
      + intros [[v [Hin ->]]|Hg']; [|now left]. apply filter_In in Hin as [Hin Hm]. cbn [fst] in Hm.
        right. split; [|now exists v]. intros Hi. apply mem_In in Hi. rewrite Hi in Hm. discriminate.
      + intros [Hg'|[Hn [v [Hin ->]]]]; [now right|left]. exists v. split; [|reflexivity].
        apply filter_In. split; [exact Hin|]. cbn [fst]. apply negb_true_iff.
        destruct (mem k inj) eqn:E; [apply mem_In in E; contradiction|reflexivity].
  Qed.

  (* ---------- a stored body with distinct names, none of them injected, nothing after the object: the response has
     no duplicate member, every stored member comes back, and the rest is exactly what the exit injects ---------- *)
  Theorem read_clean : forall x mt (d : sdoc), NoDup (map fst (sd_ms d)) -> sd_trailing d = false ->
    (forall k, In k (map fst (sd_ms d)) -> ~ In k (injected x mt)) ->
    exists out, read canon x mt d = Some out /\ NoDup (map fst out) /\
      forall k o, In (k, o) out <->
        (In k (injected x mt) /\ o = OG) \/ (exists v, In (k, v) (sd_ms d) /\ o = OU (cn canon x v)).
  Proof.
    intros x mt d Hnd Htr Hdis.
    assert (Hsome : exists out, read canon x mt d = Some out).
    { unfold read. rewrite Htr. destruct (splices x); eexists; reflexivity. }
    destruct Hsome as [out Hout]. exists out. split; [exact Hout|].
    assert (Hnd_out : NoDup (map fst out)).
    { unfold read in Hout. rewrite Htr in Hout. pose proof (injected_NoDup x mt) as Hi.
      destruct (splices x); inversion Hout; subst out; fold gw; rewrite map_app, map_fst_gw.
      - rewrite (map_fst_user (fun v => v)). apply NoDup_app_intro; [exact Hnd|exact Hi|exact Hdis].
      - rewrite map_fst_user. apply NoDup_app_intro; [apply NoDup_map_filter, dedupe_k_NoDup|exact Hi|].
        intros a Ha Hin. apply in_map_iff in Ha as [m [<- Hm]]. apply filter_In in Hm as [_ Hm].
        apply negb_true_iff in Hm. apply mem_In in Hin. congruence. }
    split; [exact Hnd_out|]. intros k o.
    pose proof (read_parsed x mt d out Hout k o) as Hp. unfold parsed in Hp. rewrite (dedupe_k_id fst out Hnd_out) in Hp.
    rewrite (dedupe_k_id fst (sd_ms d) Hnd) in Hp. rewrite Hp. split.
    - intros [Hg|[_ Hu]]; [now left|now right].
    - intros [Hg|[v [Hin ->]]]; [now left|right]. split; [|now exists v].
      apply Hdis. apply in_map_iff. now exists (k, v).
  Qed.

  (* map exits answer whatever follows the object; splice exits cannot *)
  Theorem read_trailing : forall x mt ms, read canon x mt {| sd_ms := ms; sd_trailing := true |} = None <-> splices x = true.
  Proof.
    intros x mt ms. unfold read. cbn [sd_trailing]. destruct (splices x); split; congruence.
  Qed.

  (* ---------- a stored member whose name the exit injects: replaced (map exits) or doubled (splice exits) ---------- *)
  Theorem read_shadows : forall x mt (d : sdoc) out k, read canon x mt d = Some out -> In k (injected x mt) ->
    forall o, In (k, o) (parsed out) -> o = OG.
  Proof.
    intros x mt d out k H Hin o Ho. apply (read_parsed x mt d out H) in Ho as [[_ ->]|[Hn _]]; [reflexivity|contradiction].
  Qed.

  Theorem read_doubles : forall x mt ms k v, splices x = true -> In k (injected x mt) -> In (k, v) ms ->
    exists out, read canon x mt {| sd_ms := ms; sd_trailing := false |} = Some out /\ ~ NoDup (map fst out).
  Proof.
    intros x mt ms k v Hs Hin Hm. unfold read. cbv zeta. rewrite Hs. cbn [sd_trailing sd_ms]. eexists. split; [reflexivity|].
    fold gw. rewrite map_app, map_fst_gw, (map_fst_user (fun v => v)). intros Hnd.
    destruct (in_split _ _ Hin) as [l1 [l2 Hl]]. rewrite Hl in Hnd.
    assert (Hk : In k (map fst ms)) by (apply in_map_iff; now exists (k, v)).
    apply in_split in Hk as [m1 [m2 Hk]]. rewrite Hk in Hnd.
    rewrite <- app_assoc in Hnd. apply NoDup_remove_2 in Hnd. apply Hnd.
    apply in_app_iff. right. apply in_app_iff. right. apply in_app_iff. right. now left.
  Qed.
End Values.
