(* C01, layer 3: paging by last_seq.  A page of n rows followed by the rest requested from the
   page's last token is the unpaged answer (simple since tokens; any active_only, any high
   sequence, any requester). *)
From Coq Require Import Sorting.Sorted.
From SG Require Import Base.Prelude C20.SeqIdGen C20.SeqId C20.SeqIdOrder.
From SG Require Import C01.ChanCache C01.ChanCacheLists C01.ChanCacheTruth.
From SG Require Import C01.Merge C01.MergeProofs C01.MergePaging C01.Visible.
Open Scope N_scope.

Lemma safe_simple s : SafeSequence (mk 0 0 s) = s.
Proof. reflexivity. Qed.

Lemma truth_later B s s' : NoDup (map e_seq B) -> s <= s' ->
  truth B s' = filter (fun e => s' <? e_seq e) (truth B s).
Proof.
  intros Hn Hle. apply sorted_ext_eq; [apply truth_sorted; auto | apply sorted_filter, truth_sorted; auto|].
  intros x; rewrite filter_In, !truth_In, N.ltb_lt. intuition lia.
Qed.

Lemma feed_of_later c hist s s' : NoDup (map h_seq hist) -> s <= s' ->
  feed_of c s' hist = filter (gt (mk 0 0 s')) (feed_of c s hist).
Proof.
  intros Hn Hle. unfold feed_of. rewrite (truth_later _ s s') by (auto; apply chan_log_NoDup; auto).
  induction (truth (chan_log c hist) s) as [|e l IH]; cbn [filter map]; auto.
  unfold gt at 1. cbn [row_of r_seq]. rewrite before_simple.
  destruct (s' <? e_seq e); cbn [map]; rewrite IH; reflexivity.
Qed.

Lemma stamp_zero_id g : LowSeq (r_seq g) = 0 -> stamp_row 0 g = g.
Proof. destruct g as [[t l s] i r d rm rv al]; cbn; intros ->; reflexivity. Qed.

Section Paging.
  Variables (hist : list hop) (user : option (list N)) (user_doc user_seq : N) (req : list N).
  Variables (ao : bool) (hi : N).
  Hypothesis Hseq : NoDup (map h_seq hist).

  Let feeds (s : N) := map (fun c => feed_of c s hist) (visible user req) ++ user_feed user_doc user_seq (mk 0 0 s).
  Let X (since : seqid) (lim : nat) := expected_changes hist user user_doc user_seq req since lim ao hi.

  Lemma X_simple s lim : X (mk 0 0 s) lim = map (stamp_row 0) (take lim (filter (keep ao hi) (merge_all (total (feeds s)) (feeds s)))).
  Proof. unfold X, expected_changes, merge_feeds. rewrite merge_loop_eq, safe_simple. reflexivity. Qed.

  Lemma feeds_rows_simple s f x : In f (feeds s) -> In x f -> exists q, r_seq x = mk 0 0 q /\ s < q.
  Proof.
    unfold feeds. intros Hf Hx. apply in_app_or in Hf as [Hf|Hf].
    - apply in_map_iff in Hf as [c [<- _]]. unfold feed_of in Hx. apply in_map_iff in Hx as [e [<- He]].
      apply truth_In in He. exists (e_seq e); cbn; intuition.
    - unfold user_feed in Hf. destruct Hf as [<-|[]].
      destruct ((0 <? user_seq) && before (mk 0 0 s) (mk 0 0 user_seq)) eqn:E; [|destruct Hx].
      destruct Hx as [<-|[]]. exists user_seq; cbn. split; auto.
      apply andb_true_iff in E as [_ E]. rewrite before_simple in E. lia.
  Qed.

  Lemma merged_simple s g : In g (merge_all (total (feeds s)) (feeds s)) -> exists q, r_seq g = mk 0 0 q /\ s < q.
  Proof.
    intros Hg. apply merge_all_tokens in Hg as [f [x [Hf [Hx <-]]]]. eapply feeds_rows_simple; eauto.
  Qed.

  Lemma feeds_sorted_s s : feeds_sorted (feeds s).
  Proof. exact (expected_feeds_sorted hist user user_doc user_seq req (mk 0 0 s) Hseq). Qed.

  Lemma feeds_later s s' : s <= s' -> feeds s' = cut (mk 0 0 s') (feeds s).
  Proof.
    intros Hle. unfold feeds, cut. rewrite map_app, map_map. f_equal.
    - apply map_ext. intros c. apply feed_of_later; auto.
    - unfold user_feed. cbn [map]. f_equal. rewrite !before_simple.
      destruct (0 <? user_seq) eqn:E0; cbn [andb]; [|reflexivity].
      destruct (s <? user_seq) eqn:E1.
      + cbn [filter]. unfold gt. cbn [r_seq]. rewrite before_simple. destruct (s' <? user_seq); reflexivity.
      + cbn [filter]. destruct (s' <? user_seq) eqn:E2; auto. lia.
  Qed.

  Theorem resume_paging s0 n last :
    n <> 0%nat -> last_opt (X (mk 0 0 s0) n) = Some last ->
    X (mk 0 0 s0) n ++ X (r_seq last) 0 = X (mk 0 0 s0) 0.
  Proof.
    intros Hn Hl. rewrite !X_simple in *.
    set (P := merge_all (total (feeds s0)) (feeds s0)) in *.
    set (Q := filter (keep ao hi) P) in *.
    assert (forall g, In g Q -> stamp_row 0 g = g) as Hst.
    { intros g Hg. apply filter_In in Hg as [Hg _]. apply merged_simple in Hg as [q [E _]].
      apply stamp_zero_id. rewrite E; reflexivity. }
    assert (forall l, (forall g, In g l -> In g Q) -> map (stamp_row 0) l = l) as Hmap.
    { induction l as [|a l IH]; cbn; auto. intros H. rewrite Hst, IH; auto. }
    destruct n as [|n]; [congruence|]. cbn [take] in *.
    rewrite (Hmap (firstn (S n) Q)) in * by (intros g; apply firstn_incl).
    rewrite (Hmap Q) by auto.
    assert (In last Q) as HlQ by (eapply firstn_incl, last_opt_In; eauto).
    pose proof HlQ as Hl2. apply filter_In in Hl2 as [HlP _]. apply merged_simple in HlP as [s' [Es Hlt]].
    rewrite Es, X_simple. cbn [take].
    rewrite (feeds_later s0 s') by lia.
    assert (merge_all (total (cut (mk 0 0 s') (feeds s0))) (cut (mk 0 0 s') (feeds s0)) = filter (gt (mk 0 0 s')) P) as ->.
    { unfold P. rewrite <- (merge_cut (mk 0 0 s') (total (feeds s0)) (feeds s0) (feeds_sorted_s s0) (Nat.le_refl _)).
      apply merge_all_fuel; auto. apply total_cut_le. }
    assert (filter (keep ao hi) (filter (gt (mk 0 0 s')) P) = filter (gt (mk 0 0 s')) Q) as ->.
    { unfold Q. clear. induction P as [|a l IH]; cbn [filter]; auto.
      destruct (gt (mk 0 0 s') a) eqn:E1, (keep ao hi a) eqn:E2; cbn [filter]; rewrite ?E1, ?E2, IH; reflexivity. }
    rewrite Hmap by (intros g Hg; apply filter_In in Hg; tauto).
    rewrite <- Es. apply rsorted_page_rest; auto.
    unfold Q. apply rsorted_filter, merge_sorted, feeds_sorted_s.
  Qed.
End Paging.
