(* C01: the cache invariant cc_inv and its preservation by addToCache / pruning / purge. *)
From Coq Require Import Sorting.Sorted Sorting.Permutation.
From SG Require Import Base.Prelude C01.ChanCache C01.ChanCacheLists C01.ChanCacheTruth.
Open Scope N_scope.

(* B: every write that concerns the channel (what a query sees); F: the entries delivered so far *)
Record cc_inv (B F : list entry) (c : cc) : Prop := {
  inv_sorted : sorted (logs c);                                   (* strictly ascending by sequence *)
  inv_nodup : NoDup (map e_doc (logs c));                         (* one entry per document *)
  inv_docs : forall d, In d (docs c) <-> In d (map e_doc (logs c)); (* cachedDocIDs = documents cached *)
  inv_len : (length (logs c) <= maxlen c)%nat;                    (* length bound *)
  inv_max : (1 <= maxlen c)%nat;
  inv_ge : forall x, In x (logs c) -> vfrom c <= e_seq x;
  inv_sound : forall x, In x (logs c) -> In x B;                  (* only real entries of the channel *)
  inv_complete : forall f, In f F -> is_latest B f = true -> vfrom c <= e_seq f -> In f (logs c)
                                                                  (* complete from validFrom upwards *)
}.

Lemma init_inv B F vf maxl minl : (1 <= maxl)%nat ->
  (forall f, In f F -> is_latest B f = true -> e_seq f < vf) -> cc_inv B F (init vf maxl minl).
Proof.
  intros Hm HF; constructor; cbn; auto using sorted_nil; try tauto; try constructor; try lia.
  intros f Hf Hl Hv; apply HF in Hf; auto; lia.
Qed.

(* the cached entry of a document whose latest write was delivered IS that write *)
Lemma cached_is_latest B F c x f :
  truth_wf B F -> cc_inv B F c -> In x (logs c) -> In f F -> is_latest B f = true ->
  e_doc f = e_doc x -> x = f.
Proof.
  intros [Hn Hi] I Hx Hf Lf Hd.
  destruct (N.le_gt_cases (vfrom c) (e_seq f)) as [Hv|Hv].
  - pose proof (inv_complete _ _ _ I f Hf Lf Hv) as Hfl.
    apply (NoDup_map_inj e_doc (logs c)); auto. exact (inv_nodup _ _ _ I).
  - exfalso. pose proof (inv_ge _ _ _ I x Hx). pose proof (inv_sound _ _ _ I x Hx) as Bx.
    rewrite is_latest_spec in Lf. specialize (Lf x Bx (eq_sym Hd)). lia.
Qed.

Lemma cached_latest_quiescent B F c x :
  truth_wf B F -> cc_inv B F c -> (forall b, In b B -> In b F) -> In x (logs c) -> is_latest B x = true.
Proof.
  intros W I Q Hx. pose proof (inv_sound _ _ _ I x Hx) as Bx.
  destruct (exists_latest B x Bx) as [f [Bf [Hd [_ Lf]]]].
  rewrite (cached_is_latest B F c x f); auto.
Qed.

(* ---------- dropping a prefix (length and age pruning) ---------- *)
Lemma drop_prefix_inv B F c gone kept g :
  cc_inv B F c -> logs c = gone ++ kept -> last_opt gone = Some g ->
  cc_inv B F (mkC kept (e_seq g + 1) (docs_del (map e_doc gone) (docs c)) (maxlen c) (minlen c)).
Proof.
  intros I E Hg. destruct I as [Is In_ Id Il Im Ig Iso Ic]. rewrite E in *.
  apply sorted_app in Is as [Hs1 [Hs2 Hs3]].
  apply NoDup_map_app in In_ as [Hn1 [Hn2 Hn3]].
  pose proof (last_opt_In _ _ Hg) as Hgin.
  constructor; cbn; auto.
  - intros d; rewrite docs_del_In, Id, map_app, in_app_iff; split.
    + tauto.
    + intros Hd; split; auto. intros Hd2.
      apply in_map_iff in Hd as [a [<- Ha]]; apply in_map_iff in Hd2 as [b [Eb Hb]].
      apply (Hn3 b a); auto.
  - rewrite app_length in Il; lia.
  - intros x Hx; specialize (Hs3 g x Hgin Hx); lia.
  - intros x Hx; apply Iso, in_or_app; auto.
  - intros f Hf Lf Hv.
    assert (vfrom c <= e_seq g) by (apply Ig, in_or_app; auto).
    assert (In f (gone ++ kept)) as Hin by (apply Ic; auto; lia).
    apply in_app_or in Hin as [Hin|]; auto.
    pose proof (sorted_last_max _ _ Hs1 Hg f Hin); lia.
Qed.

(* invariant without the length bound, used between _appendChange and _pruneCacheLength *)
Definition grow (c : cc) : cc := mkC (logs c) (vfrom c) (docs c) (S (maxlen c)) (minlen c).

Lemma prune_len_grow_inv B F c :
  cc_inv B F (grow c) -> (1 <= maxlen c)%nat -> cc_inv B F (prune_len c).
Proof.
  intros I Hm. unfold prune_len.
  destruct (maxlen c <? length (logs c))%nat eqn:E.
  - apply Nat.ltb_lt in E.
    set (p := (length (logs c) - maxlen c)%nat).
    assert (length (logs (grow c)) <= S (maxlen c))%nat as Hl by (apply (inv_len _ _ _ I)).
    cbn in Hl. assert (p = 1%nat) by (unfold p; lia).
    destruct (last_opt (firstn p (logs c))) as [g|] eqn:Hg.
    + pose proof (drop_prefix_inv B F (grow c) (firstn p (logs c)) (skipn p (logs c)) g I
                    (eq_sym (firstn_skipn p (logs c))) Hg) as I'.
      destruct I' as [Is In_ Id Il Im Ig Iso Ic]; cbn in *.
      constructor; cbn; auto. rewrite skipn_length; lia.
    + apply last_opt_none in Hg. destruct (logs c) eqn:El; cbn in *; [lia|]. rewrite H in Hg; discriminate.
  - apply Nat.ltb_ge in E. destruct I as [Is In_ Id Il Im Ig Iso Ic]; cbn in *.
    destruct c; constructor; cbn in *; auto.
Qed.

(* ---------- _appendChange ---------- *)
Section Append.
  Variables (B F : list entry) (c : cc) (e : entry).
  Hypothesis W : truth_wf B F.
  Hypothesis I : cc_inv B F c.
  Hypothesis He : In e B.
  Hypothesis Hv : vfrom c <= e_seq e.

  Let fresh_seq : forall x, In x (logs c) -> e_doc x <> e_doc e -> e_seq x <> e_seq e.
  Proof.
    intros x Hx Hd Hs. apply Hd. f_equal. exact (seq_inj B x e (tw_seq _ _ W) (inv_sound _ _ _ I x Hx) He Hs).
  Qed.

  (* the result of replacing the document's older entry (if any) by e, inserted in order *)
  Lemma replace_inv l' :
    (forall x, In x l' <-> x = e \/ (In x (logs c) /\ e_doc x <> e_doc e)) ->
    sorted l' -> (length l' <= S (length (logs c)))%nat ->
    (forall x, In x (logs c) -> e_doc x = e_doc e -> e_seq x < e_seq e) ->
    forall ds, (forall d, In d ds <-> d = e_doc e \/ In d (docs c)) ->
    cc_inv B (e :: F) (grow (mkC l' (vfrom c) ds (maxlen c) (minlen c))).
  Proof.
    intros Hin Hs Hlen Hold ds Hds.
    pose proof I as [Is In_ Id Il Im Ig Iso Ic].
    constructor; cbn; auto; try lia.
    - (* one entry per document *)
      assert (forall a b, In a l' -> In b l' -> e_doc a = e_doc b -> a = b) as Hinj.
      { intros a b Ha Hb Hd. apply Hin in Ha, Hb.
        destruct Ha as [->|[Ha Na]], Hb as [->|[Hb Nb]]; auto; try congruence.
        apply (NoDup_map_inj e_doc (logs c)); auto. }
      clear - Hs Hinj. induction l' as [|a l IH]; cbn; [constructor|].
      apply sorted_cons_inv in Hs as [Hs Ha]. constructor.
      + intros Hd; apply in_map_iff in Hd as [b [Hd Hb]].
        assert (b = a) by (apply Hinj; cbn; auto). subst b. apply Ha in Hb; lia.
      + apply IH; auto. intros x y Hx Hy; apply Hinj; cbn; auto.
    - intros d; rewrite Hds, Id, !in_map_iff; split.
      + intros [->|[x [<- Hx]]]; [exists e; split; auto; apply Hin; auto|].
        destruct (N.eq_dec (e_doc x) (e_doc e)) as [Ed|Ed]; [exists e | exists x]; split; auto; apply Hin; auto.
      + intros [x [<- Hx]]; apply Hin in Hx as [->|[Hx _]]; eauto.
    - intros x Hx; apply Hin in Hx as [->|[Hx _]]; auto.
    - intros x Hx; apply Hin in Hx as [->|[Hx _]]; auto.
    - intros f [<-|Hf] Lf Hvf; [apply Hin; auto|].
      pose proof (Ic f Hf Lf Hvf) as Hfl. apply Hin.
      destruct (N.eq_dec (e_doc f) (e_doc e)) as [Ed|Ed]; [|auto].
      exfalso. rewrite is_latest_spec in Lf. specialize (Lf e He (eq_sym Ed)). specialize (Hold f Hfl Ed). lia.
  Qed.

  Lemma ignore_inv cur :
    In cur (logs c) -> e_doc cur = e_doc e -> e_seq e <= e_seq cur -> cc_inv B (e :: F) (grow c).
  Proof.
    intros Hc Hd Hs. pose proof I as [Is In_ Id Il Im Ig Iso Ic].
    constructor; cbn; auto.
    intros f [<-|Hf] Lf Hvf; auto.
    rewrite is_latest_spec in Lf. specialize (Lf cur (Iso cur Hc) Hd).
    assert (cur = e); [|subst; auto]. apply (seq_inj B cur e (tw_seq _ _ W) (Iso cur Hc) He). lia.
  Qed.

  Lemma insert_change_inv : cc_inv B (e :: F) (grow (insert_change c e)).
  Proof.
    pose proof I as [Is In_ Id Il Im Ig Iso Ic].
    unfold insert_change.
    destruct (memN (e_doc e) (docs c)) eqn:Em.
    - apply memN_In in Em.
      destruct (find_doc (e_doc e) (logs c)) as [cur|] eqn:Ef.
      + apply find_doc_some in Ef as [Hc Hd].
        destruct (e_seq e <=? e_seq cur) eqn:El.
        * apply (ignore_inv cur); auto; lia.
        * apply (replace_inv (ins e (remove_doc (e_doc e) (logs c)))).
          -- intros x; rewrite ins_In, remove_doc_In; tauto.
          -- apply ins_sorted; [apply sorted_filter; auto|].
             intros x Hx; apply remove_doc_In in Hx as [Hx Hn]; auto.
          -- rewrite ins_length. unfold remove_doc. pose proof (filter_length_le (fun x => negb (e_doc x =? e_doc e)) (logs c)). lia.
          -- intros x Hx Hdx. assert (x = cur) by (apply (NoDup_map_inj e_doc (logs c)); auto; congruence). subst; lia.
          -- intros d; split; [auto|]. intros [->|]; auto.
      + exfalso. apply find_doc_none in Ef. apply Ef, Id; auto.
    - apply memN_false in Em.
      assert (forall x, In x (logs c) -> e_doc x <> e_doc e) as Hnd.
      { intros x Hx Hd; apply Em, Id; rewrite <- Hd; apply in_map; auto. }
      apply (replace_inv (ins e (logs c))).
      + intros x; rewrite ins_In; split; [intros [|]; auto | tauto].
      + apply ins_sorted; auto.
      + rewrite ins_length; lia.
      + intros x Hx Hd; exfalso; eapply Hnd; eauto.
      + intros d; apply doc_add_In.
  Qed.

  Lemma append_change_inv : cc_inv B (e :: F) (grow (append_change c e)).
  Proof.
    pose proof I as [Is In_ Id Il Im Ig Iso Ic].
    unfold append_change.
    destruct (last_opt (logs c)) as [l|] eqn:El.
    - destruct (e_seq e <=? e_seq l) eqn:Ele; [apply insert_change_inv|].
      assert (forall x, In x (logs c) -> e_seq x < e_seq e) as Hlt.
      { intros x Hx; pose proof (sorted_last_max _ _ Is El x Hx); lia. }
      destruct (memN (e_doc e) (docs c) && has_doc (e_doc e) (logs c)) eqn:Em.
      + apply andb_true_iff in Em as [Em Eh]. apply memN_In in Em.
        apply (replace_inv (remove_doc (e_doc e) (logs c) ++ [e])).
        * intros x; rewrite in_app_iff, remove_doc_In; cbn; intuition.
        * apply sorted_app; repeat split; [apply sorted_filter; auto | apply sorted_one|].
          intros a b Ha [<-|[]]; apply remove_doc_In in Ha as [Ha _]; auto.
        * rewrite app_length; cbn. unfold remove_doc. pose proof (filter_length_le (fun x => negb (e_doc x =? e_doc e)) (logs c)). lia.
        * intros x Hx _; auto.
        * intros d; split; [auto|]. intros [->|]; auto.
      + assert (forall x, In x (logs c) -> e_doc x <> e_doc e) as Hnd.
        { intros x Hx Hd. apply andb_false_iff in Em as [Em|Em].
          - apply memN_false in Em; apply Em, Id; rewrite <- Hd; apply in_map; auto.
          - assert (has_doc (e_doc e) (logs c) = true); [|congruence]. apply has_doc_In; rewrite <- Hd; apply in_map; auto. }
        apply (replace_inv (logs c ++ [e])).
        * intros x; rewrite in_app_iff; cbn; split; [intros [|[|[]]]; auto | intros [|[]]; auto].
        * apply sorted_app; repeat split; [auto | apply sorted_one|]. intros a b Ha [<-|[]]; auto.
        * rewrite app_length; cbn; lia.
        * intros x Hx Hd; exfalso; eapply Hnd; eauto.
        * intros d; apply doc_add_In.
    - apply last_opt_none in El.
      replace (if e_seq e <? vfrom c then e_seq e else vfrom c) with (vfrom c) by (destruct (e_seq e <? vfrom c) eqn:E; auto; lia).
      apply (replace_inv [e]); rewrite ?El.
      + intros x; cbn; split; [intros [|[]]; auto | intros [|[[] _]]; auto].
      + apply sorted_one.
      + cbn; lia.
      + intros x [].
      + intros d; apply doc_add_In.
  Qed.
End Append.

Lemma inv_F_weaken B F c f : cc_inv B F c -> (is_latest B f = true -> vfrom c <= e_seq f -> In f (logs c)) -> cc_inv B (f :: F) c.
Proof.
  intros [Is In_ Id Il Im Ig Iso Ic] H; constructor; auto. intros g [<-|Hg]; auto.
Qed.

Lemma add_to_cache_inv B F c e r :
  truth_wf B F -> cc_inv B F c -> In (delivered e r) B ->
  cc_inv B (delivered e r :: F) (add_to_cache c e r).
Proof.
  intros W I He. unfold add_to_cache.
  assert (e_seq (delivered e r) = e_seq e) as Es by (destruct r; reflexivity).
  destruct (e_seq e <? vfrom c) eqn:E.
  - apply inv_F_weaken; auto. intros _ Hv; lia.
  - apply prune_len_grow_inv.
    + fold (delivered e r). apply append_change_inv; auto. lia.
    + unfold append_change, insert_change. pose proof (inv_max _ _ _ I).
      repeat match goal with |- context[match ?x with _ => _ end] => destruct x end; cbn; auto.
Qed.

(* ---------- pruneCacheAge ---------- *)
Lemma prune_age_loop_inv B F aged fuel : forall c, cc_inv B F c -> cc_inv B F (prune_age_loop fuel aged c).
Proof.
  induction fuel as [|n IH]; intros c I; cbn [prune_age_loop]; auto.
  destruct (logs c) as [|x r] eqn:El; auto.
  match goal with |- context[if ?b then _ else _] => destruct b end; auto.
  apply IH. pose proof (drop_prefix_inv B F c [x] r x I El eq_refl) as H. exact H.
Qed.

Lemma prune_age_inv B F c aged : cc_inv B F c -> cc_inv B F (prune_age c aged).
Proof. intros I; unfold prune_age; destruct (maxlen c <=? minlen c)%nat; auto using prune_age_loop_inv. Qed.

(* ---------- Remove (purge); the documents leave the ground truth as well ---------- *)
Lemma not_docs_In ds l x : In x (not_docs ds l) <-> In x l /\ ~ In (e_doc x) ds.
Proof. unfold not_docs; rewrite filter_In, negb_true_iff, memN_false; tauto. Qed.

Lemma is_latest_not_docs ds B f : ~ In (e_doc f) ds -> is_latest (not_docs ds B) f = is_latest B f.
Proof.
  intros Hf. apply eq_true_iff_eq. rewrite !is_latest_spec. split; intros H x Hx Hd.
  - apply H; auto. apply not_docs_In; split; auto. congruence.
  - apply not_docs_In in Hx as [Hx _]; auto.
Qed.

Lemma truth_wf_not_docs ds B F : truth_wf B F -> truth_wf (not_docs ds B) (not_docs ds F).
Proof.
  intros [Hn Hi]; constructor.
  - apply NoDup_map_filter; auto.
  - intros f Hf; apply not_docs_In in Hf as [Hf Hd]; apply not_docs_In; auto.
Qed.

Lemma purge_inv B F c ds :
  cc_inv B F c -> cc_inv (not_docs ds B) (not_docs ds F) (fst (purge c ds)).
Proof.
  intros [Is In_ Id Il Im Ig Iso Ic]. unfold purge; cbn [fst].
  set (found := filter (fun d => memN d (docs c)) ds).
  assert (forall x, In x (logs c) -> (memN (e_doc x) found = true <-> In (e_doc x) ds)) as Hf.
  { intros x Hx; unfold found; rewrite memN_In, filter_In, memN_In, Id. split; [tauto|].
    intros H; split; auto. apply in_map; auto. }
  constructor; cbn; auto.
  - apply sorted_filter; auto.
  - apply NoDup_map_filter; auto.
  - intros d; rewrite docs_del_In, Id, !in_map_iff; split.
    + intros [[x [<- Hx]] Hn]. exists x; split; auto. apply filter_In; split; auto.
      apply negb_true_iff. destruct (memN (e_doc x) found) eqn:E; auto.
      exfalso; apply Hn. exists x; split; auto. apply filter_In; auto.
    + intros [x [<- Hx]]; apply filter_In in Hx as [Hx Hn]. split; [eauto|].
      intros [y [Ey Hy]]; apply filter_In in Hy as [Hy Hm].
      assert (y = x) by (apply (NoDup_map_inj e_doc (logs c)); auto). subst y.
      rewrite Hm in Hn; discriminate.
  - pose proof (filter_length_le (fun x => negb (memN (e_doc x) found)) (logs c)); lia.
  - intros x Hx; apply filter_In in Hx as [Hx _]; auto.
  - intros x Hx; apply filter_In in Hx as [Hx Hn]. apply not_docs_In; split; auto.
    intros Hd; apply (Hf x Hx) in Hd; rewrite Hd in Hn; discriminate.
  - intros f Hfi Lf Hv. apply not_docs_In in Hfi as [Hfi Hd]. rewrite is_latest_not_docs in Lf; auto.
    pose proof (Ic f Hfi Lf Hv) as Hin. apply filter_In; split; auto.
    apply negb_true_iff. destruct (memN (e_doc f) found) eqn:E; auto. apply (Hf f Hin) in E; tauto.
Qed.

(* ---------- a write reaches the bucket ---------- *)
Lemma write_inv B F c e : cc_inv B F c -> cc_inv (e :: B) F c.
Proof.
  intros [Is In_ Id Il Im Ig Iso Ic]; constructor; auto.
  - intros x Hx; right; auto.
  - intros f Hf Lf Hv; apply Ic; auto.
    unfold is_latest in *; cbn in Lf; apply andb_true_iff in Lf; tauto.
Qed.
