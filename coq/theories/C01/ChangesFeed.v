(* C01: executable model of
     - db/changes.go changesFeed: the per-channel goroutine, i.e. the pagination loop over
       ChannelQueryLimit (repeated SingleChannelCache.GetChanges calls with a page limit until fewer
       than the limit come back or the request limit is reached), the TriggeredBy stamping of the
       rows and the suppression of deleted / removed rows during a back-fill;
     - db/channel_cache_single.go bypassChannelCache (handed out by db/channel_cache.go
       getChannelCache when MaxNumChannels caches exist already): every GetChanges is ONE channel
       query from since+1 to MaxUint64; nothing is cached.

   One iteration of the loop, as written:
       paginationOptions.Limit = queryLimit                       if requestLimit == 0 || ActiveOnly
                               = min(requestLimit-itemsSent, queryLimit)   otherwise
       changes = GetChanges(paginationOptions)
       for each entry: if Sequence >= TriggeredBy { TriggeredBy = 0 }; row token (TriggeredBy, 0, Sequence);
                       lastSeq = Sequence; skip the row if TriggeredBy > 0 && (Deleted || Removed)
       if len(changes) < paginationOptions.Limit { return }
       if !ActiveOnly { itemsSent += sent; if requestLimit > 0 && itemsSent >= requestLimit { return } }
       paginationOptions.Since.Seq = lastSeq
   The loop is modelled as ONE atomic step (no write is delivered between two pages); cancellation
   (ChangesCtx) and the error entry are not modelled.  Continuous / long-poll wake-ups are outside
   the model. *)
From SG Require Import Base.Prelude C20.SeqIdGen C20.SeqId.
From SG Require Import C01.ChanCache C01.Merge.
Open Scope N_scope.

Definition max64 : N := 18446744073709551615.       (* math.MaxUint64 *)

(* the two implementations of the SingleChannelCache interface *)
Inductive scache := SCache (c : cc) | SBypass.

Definition bypass_get_changes (B : list entry) (since : N) (limit : nat) (ao : bool) : list entry :=
  query B (since + 1) max64 limit ao.

Definition sc_get_changes (B : list entry) (sc : scache) (since : N) (limit : nat) (ao : bool)
  : scache * list entry :=
  match sc with
  | SCache c => let '(c', rows) := get_changes B c since limit ao in (SCache c', rows)
  | SBypass => (SBypass, bypass_get_changes B since limit ao)
  end.

(* the bypass cache is the degenerate channel cache: nothing cached, valid from MaxUint64, no room *)
Definition degenerate_cache : cc := mkC [] max64 [] 0 0.

(* makeChangeEntry *)
Definition feed_row (ch t : N) (e : entry) : row :=
  mkR (mk t 0 (e_seq e)) (e_doc e) (e_rev e) (e_del e) (if e_rm e then [ch] else []) false false.

Definition skip_row (t : N) (e : entry) : bool := (0 <? t) && (e_del e || e_rm e).

(* the inner loop over one page; [t] is options.Since.TriggeredBy, cleared for good once an entry
   reaches it *)
Fixpoint emit (ch t : N) (l : list entry) : N * list row :=
  match l with
  | [] => (t, [])
  | e :: r =>
      let t1 := if t <=? e_seq e then 0 else t in
      let '(t2, rows) := emit ch t1 r in
      (t2, if skip_row t1 e then rows else feed_row ch t1 e :: rows)
  end.

Fixpoint feed_loop (fuel : nat) (B : list entry) (ch : N) (reqlimit qlimit : nat) (ao : bool)
  (sc : scache) (since lastseq trig : N) (sent : nat) : scache * list row :=
  match fuel with
  | O => (sc, [])
  | S k =>
      let lim := if (reqlimit =? 0)%nat || ao then qlimit else Nat.min (reqlimit - sent) qlimit in
      let '(sc1, changes) := sc_get_changes B sc since lim ao in
      let '(trig1, rows) := emit ch trig changes in
      let lastseq1 := match last_opt changes with Some e => e_seq e | None => lastseq end in
      if (length changes <? lim)%nat then (sc1, rows)
      else
        let sent1 := if ao then sent else (sent + length rows)%nat in
        if negb ao && (0 <? reqlimit)%nat && (reqlimit <=? sent1)%nat then (sc1, rows)
        else
          let '(sc2, more) := feed_loop k B ch reqlimit qlimit ao sc1 lastseq1 lastseq1 trig1 sent1 in
          (sc2, rows ++ more)
  end.

(* changesFeed(singleChannelCache, options): pagination starts at the safe sequence; every
   continuing iteration consumes at least one entry of B, hence the fuel *)
Definition changes_feed (B : list entry) (ch : N) (sc : scache) (since : seqid)
  (reqlimit : nat) (ao : bool) (qlimit : nat) : scache * list row :=
  feed_loop (S (length B)) B ch reqlimit qlimit ao sc (SafeSequence since) 0 (TriggeredBy since) 0.

(* ---------- the component state machine, extended ---------- *)
Inductive xop :=
| XBase (o : op)
| XFeed (t l s : N) (reqlimit : nat) (ao : bool) (qlimit : nat)        (* changesFeed over the channel cache *)
| XBypassGet (since : N) (limit : nat) (ao : bool)                       (* bypassChannelCache.GetChanges *)
| XBypassFeed (t l s : N) (reqlimit : nat) (ao : bool) (qlimit : nat).  (* changesFeed over a bypass cache *)

Inductive xout := XO (o : out) | XFeedRows (rows : list row).

Definition comp_chan : N := 7.    (* the channel of the component traces, for Removed sets *)

Definition xstep (s : sys) (o : xop) : sys * xout :=
  match o with
  | XBase b => let '(s', r) := step s b in (s', XO r)
  | XFeed t l q reqlimit ao qlimit =>
      let '(sc, rows) := changes_feed (s_B s) comp_chan (SCache (s_c s)) (mk t l q) reqlimit ao qlimit in
      (mkS (match sc with SCache c' => c' | SBypass => s_c s end) (s_B s) (s_F s), XFeedRows rows)
  | XBypassGet since limit ao => (s, XO (RRows (bypass_get_changes (s_B s) since limit ao)))
  | XBypassFeed t l q reqlimit ao qlimit =>
      (s, XFeedRows (snd (changes_feed (s_B s) comp_chan SBypass (mk t l q) reqlimit ao qlimit)))
  end.

Fixpoint xrun (s : sys) (ops : list xop) : sys :=
  match ops with
  | [] => s
  | o :: r => xrun (fst (xstep s o)) r
  end.
