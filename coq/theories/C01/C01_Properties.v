(* C01 -- Changes feed returns exactly the changes visible to the requester.
   Nothing but the property theorems; each is closed by a lemma proved elsewhere and followed by
   Print Assumptions.

   Layer 1 (db/channel_cache_single.go): B is the list of all writes that concern one channel (what
   a channel query sees), F the entries the caching feed has delivered so far, [truth B since] the
   latest entry per document after [since] in ascending order.  The theorems quantify over ALL
   operation lists (write / deliver in any order incl. late and duplicate / back-fill prepend /
   age prune with any ageing pattern / purge / cached read / read with any since, limit,
   active_only), every initial validFrom and every ChannelCacheMaxLength >= 1.
   Layer 2 (merge loop of SimpleMultiChangesFeed in db/changes.go) over all lists of feeds.
   Layer 3: expected_changes, the answer computed from the write history alone.

   PARTIAL with respect to the property text: the last sentence (a continuous or long-poll request
   eventually delivers every change) is about change_listener wake-ups, which are not modelled;
   resume-by-paging is proved for simple since tokens (C01_resume_paging_partial; the full statement
   is kept as C01_resume_paging_full_statement and checked on the real database by the harness
   monitor changes.resume_paging); grant-triggered back-fill and revocation feeds are out of scope
   (C13). *)
From Coq Require Import Sorting.Sorted.
From SG Require Import Base.Prelude C20.SeqIdGen C20.SeqId.
From SG Require Import C01.ChanCache C01.ChanCacheLists C01.ChanCacheTruth C01.ChanCacheInv C01.ChanCacheStep C01.ChanCacheRead.
From SG Require Import C01.Merge C01.MergeProofs C01.Visible C01.VisiblePaging.
Open Scope N_scope.

(* ---------- layer 1: the per-channel cache ---------- *)

(* cc_inv after EVERY operation list: strictly ascending, one entry per document, document index
   exact, length bound, nothing below validFrom, only real entries, complete from validFrom upwards *)
Theorem C01_cache_invariant_all_op_lists : forall vf maxl minl ops,
  (1 <= maxl)%nat -> wf_ops (init_sys vf maxl minl) ops ->
  let s := run (init_sys vf maxl minl) ops in
  let c := s_c s in
  sorted (logs c) /\ NoDup (map e_doc (logs c)) /\
  (forall d, In d (docs c) <-> In d (map e_doc (logs c))) /\
  (length (logs c) <= maxl)%nat /\
  (forall x, In x (logs c) -> vfrom c <= e_seq x /\ In x (s_B s)) /\
  (forall f, In f (s_F s) -> is_latest (s_B s) f = true -> vfrom c <= e_seq f -> In f (logs c)).
Proof.
  intros vf maxl minl ops Hm Hw s c.
  pose proof (run_inv ops _ (init_sys_inv vf maxl minl Hm) Hw) as [W I]. fold s in W, I. fold c in I.
  assert (maxlen c = maxl) as Em by (unfold c, s; rewrite run_maxlen; reflexivity).
  destruct I as [Is In_ Id Il Imx Ig Iso Ic]. rewrite Em in Il.
  split; [exact Is|split; [exact In_|split; [exact Id|split; [exact Il|split; [intros x Hx; split; auto|exact Ic]]]]].
Qed.
Print Assumptions C01_cache_invariant_all_op_lists.

(* a read never invents, repeats or mis-orders anything -- no quiescence assumed, any limit, any
   active_only, any cache state *)
Theorem C01_get_changes_sound : forall B F c since limit ao,
  truth_wf B F -> cc_inv B F c ->
  let rows := snd (get_changes B c since limit ao) in
  sorted rows /\ NoDup (map e_doc rows) /\ (forall x, In x rows -> In x B /\ since < e_seq x).
Proof. exact get_changes_sound. Qed.
Print Assumptions C01_get_changes_sound.

Theorem C01_get_changes_limit_bound : forall B c since limit,
  limit <> 0%nat -> (length (snd (get_changes B c since limit false)) <= limit)%nat.
Proof. exact get_changes_limit_bound. Qed.
Print Assumptions C01_get_changes_limit_bound.

(* ... and misses nothing that was delivered and is still current -- no quiescence assumed *)
Theorem C01_get_changes_complete : forall B F c since ao,
  truth_wf B F -> cc_inv B F c ->
  forall f, In f F -> is_latest B f = true -> since < e_seq f -> (ao = true -> is_active f = true) ->
  In f (snd (get_changes B c since 0 ao)).
Proof. exact get_changes_complete. Qed.
Print Assumptions C01_get_changes_complete.

(* once everything written has been delivered the answer IS the truth, cut at the limit *)
Theorem C01_get_changes_quiescent : forall B F c since n,
  truth_wf B F -> cc_inv B F c -> quiescent B F ->
  snd (get_changes B c since n false) = take n (truth B since).
Proof. exact get_changes_quiescent_limit. Qed.
Print Assumptions C01_get_changes_quiescent.

Theorem C01_get_changes_quiescent_active_only : forall B F c since,
  truth_wf B F -> cc_inv B F c -> quiescent B F ->
  filter is_active (snd (get_changes B c since 0 true)) = filter is_active (truth B since).
Proof. exact get_changes_quiescent_active_only. Qed.
Print Assumptions C01_get_changes_quiescent_active_only.

Theorem C01_get_cached_exact : forall B F c since,
  truth_wf B F -> cc_inv B F c -> quiescent B F ->
  fst (get_cached c since 0) <= since + 1 -> snd (get_cached c since 0) = truth B since.
Proof. exact get_cached_exact. Qed.
Print Assumptions C01_get_cached_exact.

(* the answer does not depend on cache state: any two caches of the channel (cold, warm, tiny,
   whatever their histories and sizes) answer alike *)
Theorem C01_cache_state_independent : forall B F c1 c2 since n,
  truth_wf B F -> cc_inv B F c1 -> cc_inv B F c2 -> quiescent B F ->
  snd (get_changes B c1 since n false) = snd (get_changes B c2 since n false).
Proof.
  intros. rewrite (get_changes_quiescent_limit B F c1), (get_changes_quiescent_limit B F c2); auto.
Qed.
Print Assumptions C01_cache_state_independent.

(* headline for layer 1: after ANY operation list that leaves nothing undelivered, a read from any
   position with any limit returns exactly the latest entry per document after that position *)
Theorem C01_read_after_any_history : forall vf maxl minl ops since n,
  (1 <= maxl)%nat -> wf_ops (init_sys vf maxl minl) ops ->
  let s := run (init_sys vf maxl minl) ops in
  quiescent (s_B s) (s_F s) ->
  snd (get_changes (s_B s) (s_c s) since n false) = take n (truth (s_B s) since).
Proof.
  intros vf maxl minl ops since n Hm Hw s Q.
  pose proof (run_inv ops _ (init_sys_inv vf maxl minl Hm) Hw) as [W I].
  apply (get_changes_quiescent_limit _ (s_F s)); auto.
Qed.
Print Assumptions C01_read_after_any_history.

(* ---------- layer 2: the merge loop ---------- *)
Theorem C01_merge_ascending_no_duplicates : forall fuel feeds, feeds_sorted feeds ->
  rsorted (merge_all fuel feeds) /\ NoDup (map r_seq (merge_all fuel feeds)).
Proof. intros; split; [apply merge_sorted | apply merge_nodup]; auto. Qed.
Print Assumptions C01_merge_ascending_no_duplicates.

Theorem C01_merge_union : forall feeds m,
  (exists r, In r (merge_all (total feeds) feeds) /\ r_seq r = m) <->
  (exists f x, In f feeds /\ In x f /\ r_seq x = m).
Proof. exact merge_union. Qed.
Print Assumptions C01_merge_union.

Theorem C01_merge_removed : forall feeds m c, feeds_sorted feeds ->
  ((exists r, In r (merge_all (total feeds) feeds) /\ r_seq r = m /\ In c (r_rm r)) <->
   (exists f x, In f feeds /\ In x f /\ r_seq x = m /\ In c (r_rm x))).
Proof. exact merge_removed. Qed.
Print Assumptions C01_merge_removed.

Theorem C01_merge_all_removed : forall fuel feeds, feeds_sorted feeds ->
  forall r, In r (merge_all fuel feeds) -> r_allrm r = true ->
  forall f x, In f feeds -> In x f -> r_seq x = r_seq r -> r_rm x <> [].
Proof. exact merge_all_removed. Qed.
Print Assumptions C01_merge_all_removed.

Theorem C01_merge_loop_is_filter_limit_stamp : forall fuel feeds ao hi limit low,
  merge_loop fuel feeds ao hi limit low =
  map (stamp_row low) (take limit (filter (keep ao hi) (merge_all fuel feeds))).
Proof. exact merge_loop_eq. Qed.
Print Assumptions C01_merge_loop_is_filter_limit_stamp.

Theorem C01_merge_limit : forall feeds ao hi limit low,
  limit <> 0%nat -> (length (merge_feeds feeds ao hi limit low) <= limit)%nat.
Proof. exact merge_limit. Qed.
Print Assumptions C01_merge_limit.

Theorem C01_merge_filters : forall feeds ao hi limit low r,
  In r (merge_feeds feeds ao hi limit low) ->
  exists g, In g (merge_all (total feeds) feeds) /\ r = stamp_row low g /\
    (Seq (r_seq g) <= hi \/ (r_revoked g = true /\ TriggeredBy (r_seq g) <= hi)) /\
    (ao = true -> r_del g = false /\ r_allrm g = false).
Proof. exact merge_filters. Qed.
Print Assumptions C01_merge_filters.

(* ---------- layer 3: the answer computed from the write history ---------- *)
Theorem C01_expected_ascending_no_duplicates : forall hist user user_doc user_seq req since ao hi limit,
  NoDup (map h_seq hist) ->
  exists groups, rsorted groups /\ NoDup (map r_seq groups) /\
    expected_changes hist user user_doc user_seq req since limit ao hi
    = map (stamp_row 0) (take limit (filter (keep ao hi) groups)).
Proof. intros; apply expected_ascending; auto. Qed.
Print Assumptions C01_expected_ascending_no_duplicates.

Theorem C01_expected_only_visible : forall hist user user_doc user_seq req since ao hi limit r,
  In r (expected_changes hist user user_doc user_seq req since limit ao hi) ->
  (r_id r = user_doc /\ Seq (r_seq r) = user_seq /\ 0 < user_seq) \/
  exists c e, In c (visible user req) /\ In e (chan_log c hist) /\ is_latest (chan_log c hist) e = true /\
    SafeSequence since < e_seq e /\ Seq (r_seq r) = e_seq e /\ r_id r = e_doc e /\ r_rev r = e_rev e /\
    r_del r = e_del e /\ e_seq e <= hi.
Proof. intros; eapply expected_only_visible; eauto. Qed.
Print Assumptions C01_expected_only_visible.

Theorem C01_expected_complete : forall hist user user_doc user_seq req since hi c e,
  NoDup (map h_seq hist) ->
  In c (visible user req) -> In e (truth (chan_log c hist) (SafeSequence since)) -> e_seq e <= hi ->
  exists r, In r (expected_changes hist user user_doc user_seq req since 0 false hi) /\
            r_seq r = mk 0 0 (e_seq e) /\ (e_rm e = true -> In c (r_rm r)).
Proof. intros; apply expected_complete; auto. Qed.
Print Assumptions C01_expected_complete.

(* whatever the state of the channel caches (each satisfying cc_inv, nothing undelivered), merging
   their answers gives the answer computed from the history *)
Theorem C01_changes_end_to_end : forall hist caches user user_doc user_seq req since limit ao hi,
  map fst caches = visible user req ->
  (forall c cache, In (c, cache) caches ->
     exists F, truth_wf (chan_log c hist) F /\ cc_inv (chan_log c hist) F cache /\ quiescent (chan_log c hist) F) ->
  multi_feed hist caches user_doc user_seq since limit ao hi
  = expected_changes hist user user_doc user_seq req since limit ao hi.
Proof. exact changes_end_to_end. Qed.
Print Assumptions C01_changes_end_to_end.

(* paging by last_seq.  Full statement: for ANY since token; proved part: simple (non-compound)
   since tokens -- every token the server hands out in the modelled scope (no skipped sequences, no
   back-fill) is simple, and the page's last token, from which the rest is requested, always is.
   The compound case is checked on the real database by the monitor changes.resume_paging. *)
Definition C01_resume_paging_full_statement : Prop :=
  forall hist user user_doc user_seq req ao hi since n last,
    NoDup (map h_seq hist) -> n <> 0%nat ->
    last_opt (expected_changes hist user user_doc user_seq req since n ao hi) = Some last ->
    expected_changes hist user user_doc user_seq req since n ao hi
      ++ expected_changes hist user user_doc user_seq req (r_seq last) 0 ao hi
    = expected_changes hist user user_doc user_seq req since 0 ao hi.

Theorem C01_resume_paging_partial : forall hist user user_doc user_seq req ao hi s0 n last,
  NoDup (map h_seq hist) -> n <> 0%nat ->
  last_opt (expected_changes hist user user_doc user_seq req (mk 0 0 s0) n ao hi) = Some last ->
  expected_changes hist user user_doc user_seq req (mk 0 0 s0) n ao hi
    ++ expected_changes hist user user_doc user_seq req (r_seq last) 0 ao hi
  = expected_changes hist user user_doc user_seq req (mk 0 0 s0) 0 ao hi.
Proof. intros; apply resume_paging; auto. Qed.
Print Assumptions C01_resume_paging_partial.

(* ---------- non-vacuity ---------- *)
Example C01_nonvacuous :
  let e1 := mkE 1 1 1 false false in let e2 := mkE 2 2 2 false false in
  let e3 := mkE 3 1 3 true false in let e4 := mkE 4 3 4 false false in
  let ops := [OWrite e1; OWrite e2; OAdd e2 false; OAdd e1 false; OWrite e3; OAdd (mkE 3 1 3 false false) true;
              OWrite e4; OAdd e4 false] in
  let s := run (init_sys 1 1 1) ops in
  wf_ops (init_sys 1 1 1) ops /\ quiescent (s_B s) (s_F s) /\
  vfrom (s_c s) = 4 /\ logs (s_c s) = [e4] /\
  snd (get_changes (s_B s) (s_c s) 0 0 false) = [e2; e3; e4] /\ truth (s_B s) 0 = [e2; e3; e4] /\
  expected_changes [HW 1 1 1 [2] false; HW 2 2 2 [2;3] false; HW 1 3 3 [3] false] (Some [2]) 101 0 [0] (mk 0 0 0) 0 false 3
    = [mkR (mk 0 0 2) 2 2 false [] false false; mkR (mk 0 0 3) 1 3 false [2] false true].
Proof.
  cbv zeta. split; [|split].
  - cbn. repeat split; auto; intros H; repeat (destruct H as [H|H]; [discriminate|]); auto.
  - intros b Hb. vm_compute in Hb. vm_compute. intuition.
  - vm_compute. repeat split; reflexivity.
Qed.
