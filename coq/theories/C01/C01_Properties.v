(* C01 -- Changes feed returns exactly the changes visible to the requester.
   Nothing but the property theorems; each is closed by a lemma proved elsewhere and followed by
   Print Assumptions.

   Layer 1 (db/channel_cache_single.go): B is the list of all writes that concern one channel (what
   a channel query sees), F the entries the caching feed has delivered so far, [truth B since] the
   latest entry per document after [since] in ascending order.  The theorems quantify over ALL
   operation lists (write / deliver in any order incl. late and duplicate / back-fill prepend /
   age prune with any ageing pattern / purge / cached read / read with any since, limit,
   active_only), every initial validFrom and every ChannelCacheMaxLength >= 1.
   Layer 2 (merge loop of SimpleMultiChangesFeed in db/changes.go) over all lists of feeds.
   Layer 3: expected_changes, the answer computed from the write history alone.

   Layer 1b (db/changes.go changesFeed, db/channel_cache_single.go bypassChannelCache): the
   pagination loop over ChannelQueryLimit and the bypass cache (ChangesFeed.v).
   Layer 3 with tokens: expected_tok, the answer to a request carrying ANY since token on a server
   with any low sequence (VisibleTok.v); resume-by-paging from every token the server hands out.

   PARTIAL with respect to the property text: the last sentence (a continuous or long-poll request
   eventually delivers every change) is about change_listener wake-ups, which are not modelled;
   grant-triggered back-fill and revocation feeds are out of scope (C13): in the modelled scope no
   row carries a TriggeredBy, a TriggeredBy token sent by a client is honoured as the code does.
   Resume-by-paging (C01_resume_paging) is proved for every canonical since token (what
   parseIntegerSequenceID returns for a token printed by intSeqToString, C20) and an unchanged low
   sequence; both hypotheses are necessary (C01_resume_paging_noncanonical_refuted,
   C01_resume_after_low_change_resends, both replayed on the real database by the harness), and the
   earlier statement over ALL since tokens is false (C01_resume_paging_full_statement_refuted). *)
From Coq Require Import Sorting.Sorted.
From SG Require Import Base.Prelude C20.SeqIdGen C20.SeqId C20.SeqIdOrder C20.SeqIdCodec.
From SG Require Import C01.ChanCache C01.ChanCacheLists C01.ChanCacheTruth C01.ChanCacheInv C01.ChanCacheStep C01.ChanCacheRead.
From SG Require Import C01.Merge C01.MergeProofs C01.Visible C01.VisiblePaging.
From SG Require Import C01.VisibleTok C01.VisibleResume C01.ChangesFeed C01.ChangesFeedProofs C01.MergePrefix C01.Notify C01.Dedup.
Open Scope N_scope.

(* ---------- layer 1: the per-channel cache ---------- *)

(* cc_inv after EVERY operation list: strictly ascending, one entry per document, document index
   exact, length bound, nothing below validFrom, only real entries, complete from validFrom upwards *)
Theorem C01_cache_invariant_all_op_lists : forall vf maxl minl ops,
  (1 <= maxl)%nat -> wf_ops (init_sys vf maxl minl) ops ->
  let s := run (init_sys vf maxl minl) ops in
  let c := s_c s in
  sorted (logs c) /\ NoDup (map e_doc (logs c)) /\
  (forall d, In d (docs c) <-> In d (map e_doc (logs c))) /\
  (length (logs c) <= maxl)%nat /\
  (forall x, In x (logs c) -> vfrom c <= e_seq x /\ In x (s_B s)) /\
  (forall f, In f (s_F s) -> is_latest (s_B s) f = true -> vfrom c <= e_seq f -> In f (logs c)).
Proof.
  intros vf maxl minl ops Hm Hw s c.
  pose proof (run_inv ops _ (init_sys_inv vf maxl minl Hm) Hw) as [W I]. fold s in W, I. fold c in I.
  assert (maxlen c = maxl) as Em by (unfold c, s; rewrite run_maxlen; reflexivity).
  destruct I as [Is In_ Id Il Imx Ig Iso Ic]. rewrite Em in Il.
  split; [exact Is|split; [exact In_|split; [exact Id|split; [exact Il|split; [intros x Hx; split; auto|exact Ic]]]]].
Qed.
Print Assumptions C01_cache_invariant_all_op_lists.

(* a read never invents, repeats or mis-orders anything -- no quiescence assumed, any limit, any
   active_only, any cache state *)
Theorem C01_get_changes_sound : forall B F c since limit ao,
  truth_wf B F -> cc_inv B F c ->
  let rows := snd (get_changes B c since limit ao) in
  sorted rows /\ NoDup (map e_doc rows) /\ (forall x, In x rows -> In x B /\ since < e_seq x).
Proof. exact get_changes_sound. Qed.
Print Assumptions C01_get_changes_sound.

Theorem C01_get_changes_limit_bound : forall B c since limit,
  limit <> 0%nat -> (length (snd (get_changes B c since limit false)) <= limit)%nat.
Proof. exact get_changes_limit_bound. Qed.
Print Assumptions C01_get_changes_limit_bound.

(* ... and misses nothing that was delivered and is still current -- no quiescence assumed *)
Theorem C01_get_changes_complete : forall B F c since ao,
  truth_wf B F -> cc_inv B F c ->
  forall f, In f F -> is_latest B f = true -> since < e_seq f -> (ao = true -> is_active f = true) ->
  In f (snd (get_changes B c since 0 ao)).
Proof. exact get_changes_complete. Qed.
Print Assumptions C01_get_changes_complete.

(* once everything written has been delivered the answer IS the truth, cut at the limit *)
Theorem C01_get_changes_quiescent : forall B F c since n,
  truth_wf B F -> cc_inv B F c -> quiescent B F ->
  snd (get_changes B c since n false) = take n (truth B since).
Proof. exact get_changes_quiescent_limit. Qed.
Print Assumptions C01_get_changes_quiescent.

Theorem C01_get_changes_quiescent_active_only : forall B F c since,
  truth_wf B F -> cc_inv B F c -> quiescent B F ->
  filter is_active (snd (get_changes B c since 0 true)) = filter is_active (truth B since).
Proof. exact get_changes_quiescent_active_only. Qed.
Print Assumptions C01_get_changes_quiescent_active_only.

Theorem C01_get_cached_exact : forall B F c since,
  truth_wf B F -> cc_inv B F c -> quiescent B F ->
  fst (get_cached c since 0) <= since + 1 -> snd (get_cached c since 0) = truth B since.
Proof. exact get_cached_exact. Qed.
Print Assumptions C01_get_cached_exact.

(* the answer does not depend on cache state: any two caches of the channel (cold, warm, tiny,
   whatever their histories and sizes) answer alike *)
Theorem C01_cache_state_independent : forall B F c1 c2 since n,
  truth_wf B F -> cc_inv B F c1 -> cc_inv B F c2 -> quiescent B F ->
  snd (get_changes B c1 since n false) = snd (get_changes B c2 since n false).
Proof.
  intros. rewrite (get_changes_quiescent_limit B F c1), (get_changes_quiescent_limit B F c2); auto.
Qed.
Print Assumptions C01_cache_state_independent.

(* headline for layer 1: after ANY operation list that leaves nothing undelivered, a read from any
   position with any limit returns exactly the latest entry per document after that position *)
Theorem C01_read_after_any_history : forall vf maxl minl ops since n,
  (1 <= maxl)%nat -> wf_ops (init_sys vf maxl minl) ops ->
  let s := run (init_sys vf maxl minl) ops in
  quiescent (s_B s) (s_F s) ->
  snd (get_changes (s_B s) (s_c s) since n false) = take n (truth (s_B s) since).
Proof.
  intros vf maxl minl ops since n Hm Hw s Q.
  pose proof (run_inv ops _ (init_sys_inv vf maxl minl Hm) Hw) as [W I].
  apply (get_changes_quiescent_limit _ (s_F s)); auto.
Qed.
Print Assumptions C01_read_after_any_history.

(* ---------- layer 2: the merge loop ---------- *)
Theorem C01_merge_ascending_no_duplicates : forall fuel feeds, feeds_sorted feeds ->
  rsorted (merge_all fuel feeds) /\ NoDup (map r_seq (merge_all fuel feeds)).
Proof. intros; split; [apply merge_sorted | apply merge_nodup]; auto. Qed.
Print Assumptions C01_merge_ascending_no_duplicates.

Theorem C01_merge_union : forall feeds m,
  (exists r, In r (merge_all (total feeds) feeds) /\ r_seq r = m) <->
  (exists f x, In f feeds /\ In x f /\ r_seq x = m).
Proof. exact merge_union. Qed.
Print Assumptions C01_merge_union.

Theorem C01_merge_removed : forall feeds m c, feeds_sorted feeds ->
  ((exists r, In r (merge_all (total feeds) feeds) /\ r_seq r = m /\ In c (r_rm r)) <->
   (exists f x, In f feeds /\ In x f /\ r_seq x = m /\ In c (r_rm x))).
Proof. exact merge_removed. Qed.
Print Assumptions C01_merge_removed.

Theorem C01_merge_all_removed : forall fuel feeds, feeds_sorted feeds ->
  forall r, In r (merge_all fuel feeds) -> r_allrm r = true ->
  forall f x, In f feeds -> In x f -> r_seq x = r_seq r -> r_rm x <> [].
Proof. exact merge_all_removed. Qed.
Print Assumptions C01_merge_all_removed.

Theorem C01_merge_loop_is_filter_limit_stamp : forall fuel feeds ao hi limit low,
  merge_loop fuel feeds ao hi limit low =
  map (stamp_row low) (take limit (filter (keep ao hi) (merge_all fuel feeds))).
Proof. exact merge_loop_eq. Qed.
Print Assumptions C01_merge_loop_is_filter_limit_stamp.

Theorem C01_merge_limit : forall feeds ao hi limit low,
  limit <> 0%nat -> (length (merge_feeds feeds ao hi limit low) <= limit)%nat.
Proof. exact merge_limit. Qed.
Print Assumptions C01_merge_limit.

Theorem C01_merge_filters : forall feeds ao hi limit low r,
  In r (merge_feeds feeds ao hi limit low) ->
  exists g, In g (merge_all (total feeds) feeds) /\ r = stamp_row low g /\
    (Seq (r_seq g) <= hi \/ (r_revoked g = true /\ TriggeredBy (r_seq g) <= hi)) /\
    (ao = true -> r_del g = false /\ r_allrm g = false).
Proof. exact merge_filters. Qed.
Print Assumptions C01_merge_filters.

(* ---------- layer 3: the answer computed from the write history ---------- *)
Theorem C01_expected_ascending_no_duplicates : forall hist user user_doc user_seq req since ao hi limit,
  NoDup (map h_seq hist) ->
  exists groups, rsorted groups /\ NoDup (map r_seq groups) /\
    expected_changes hist user user_doc user_seq req since limit ao hi
    = map (stamp_row 0) (take limit (filter (keep ao hi) groups)).
Proof. intros; apply expected_ascending; auto. Qed.
Print Assumptions C01_expected_ascending_no_duplicates.

Theorem C01_expected_only_visible : forall hist user user_doc user_seq req since ao hi limit r,
  In r (expected_changes hist user user_doc user_seq req since limit ao hi) ->
  (r_id r = user_doc /\ Seq (r_seq r) = user_seq /\ 0 < user_seq) \/
  exists c e, In c (visible user req) /\ In e (chan_log c hist) /\ is_latest (chan_log c hist) e = true /\
    SafeSequence since < e_seq e /\ Seq (r_seq r) = e_seq e /\ r_id r = e_doc e /\ r_rev r = e_rev e /\
    r_del r = e_del e /\ e_seq e <= hi.
Proof. intros; eapply expected_only_visible; eauto. Qed.
Print Assumptions C01_expected_only_visible.

Theorem C01_expected_complete : forall hist user user_doc user_seq req since hi c e,
  NoDup (map h_seq hist) ->
  In c (visible user req) -> In e (truth (chan_log c hist) (SafeSequence since)) -> e_seq e <= hi ->
  exists r, In r (expected_changes hist user user_doc user_seq req since 0 false hi) /\
            r_seq r = mk 0 0 (e_seq e) /\ (e_rm e = true -> In c (r_rm r)).
Proof. intros; apply expected_complete; auto. Qed.
Print Assumptions C01_expected_complete.

(* whatever the state of the channel caches (each satisfying cc_inv, nothing undelivered), merging
   their answers gives the answer computed from the history *)
Theorem C01_changes_end_to_end : forall hist caches user user_doc user_seq req since limit ao hi,
  map fst caches = visible user req ->
  (forall c cache, In (c, cache) caches ->
     exists F, truth_wf (chan_log c hist) F /\ cc_inv (chan_log c hist) F cache /\ quiescent (chan_log c hist) F) ->
  multi_feed hist caches user_doc user_seq since limit ao hi
  = expected_changes hist user user_doc user_seq req since limit ao hi.
Proof. exact changes_end_to_end. Qed.
Print Assumptions C01_changes_end_to_end.

(* paging by last_seq, first version: simple (non-compound) since tokens, no skipped sequences.
   The statement over ALL since tokens was kept as the goal; it is FALSE (refuted below): the right
   statement quantifies over the tokens a server hands out (C01_resume_paging). *)
Definition C01_resume_paging_full_statement : Prop :=
  forall hist user user_doc user_seq req ao hi since n last,
    NoDup (map h_seq hist) -> n <> 0%nat ->
    last_opt (expected_changes hist user user_doc user_seq req since n ao hi) = Some last ->
    expected_changes hist user user_doc user_seq req since n ao hi
      ++ expected_changes hist user user_doc user_seq req (r_seq last) 0 ao hi
    = expected_changes hist user user_doc user_seq req since 0 ao hi.

Theorem C01_resume_paging_partial : forall hist user user_doc user_seq req ao hi s0 n last,
  NoDup (map h_seq hist) -> n <> 0%nat ->
  last_opt (expected_changes hist user user_doc user_seq req (mk 0 0 s0) n ao hi) = Some last ->
  expected_changes hist user user_doc user_seq req (mk 0 0 s0) n ao hi
    ++ expected_changes hist user user_doc user_seq req (r_seq last) 0 ao hi
  = expected_changes hist user user_doc user_seq req (mk 0 0 s0) 0 ao hi.
Proof. intros; apply resume_paging; auto. Qed.
Print Assumptions C01_resume_paging_partial.

(* ---------- resuming from ANY position the server handed out ---------- *)
(* what the next request carries after a row: the row's token printed by the server and parsed back
   (C20: parse (print_token t) = POk (canon t)); it is canonical *)
Theorem C01_resume_token_is_parsed_print : forall r, wf64 (r_seq r) ->
  parse (print_token (r_seq r)) = POk (resume_token r) /\ canonical (resume_token r).
Proof. intros r H. split; [apply parse_print, H | apply canon_idem]. Qed.
Print Assumptions C01_resume_token_is_parsed_print.

(* the token-level answer extends expected_changes ... *)
Theorem C01_expected_tok_extends : forall hist user udoc useq req since limit ao hi,
  TriggeredBy since = 0 ->
  expected_tok hist user udoc useq req since limit ao hi 0
  = expected_changes hist user udoc useq req since limit ao hi.
Proof. exact expected_tok_simple. Qed.
Print Assumptions C01_expected_tok_extends.

(* ... for a canonical token (simple s, low::s, trig:s, low:trig:s as printed) it is the answer from
   ONE plain sequence number, stamped with the server's low sequence: every theorem about
   expected_changes (only visible, complete, ascending, cache independent) transfers *)
Theorem C01_expected_tok_canonical : forall hist user udoc useq req since limit ao hi low,
  canonical since ->
  expected_tok hist user udoc useq req since limit ao hi low
  = map (stamp_row low)
        (expected_changes hist user udoc useq req (mk 0 0 (chan_since (norm_since low since))) limit ao hi).
Proof. exact expected_tok_canonical. Qed.
Print Assumptions C01_expected_tok_canonical.

(* the tokens handed out: low::seq with the server's low sequence, never a TriggeredBy (no back-fill in scope) *)
Theorem C01_handed_out_tokens : forall hist user udoc useq req since limit ao hi low r,
  canonical since ->
  In r (expected_tok hist user udoc useq req since limit ao hi low) ->
  exists q, r_seq r = mk 0 low q /\ chan_since (norm_since low since) < q.
Proof. exact expected_tok_tokens. Qed.
Print Assumptions C01_handed_out_tokens.

(* increasing order without duplicates for EVERY since token, canonical or not *)
Theorem C01_expected_tok_ascending_no_duplicates : forall hist user udoc useq req since limit ao hi low,
  NoDup (map h_seq hist) ->
  exists groups, rsorted groups /\ NoDup (map r_seq groups) /\
    expected_tok hist user udoc useq req since limit ao hi low
    = map (stamp_row low) (take limit (filter (keep ao hi) groups)).
Proof. exact expected_tok_ascending. Qed.
Print Assumptions C01_expected_tok_ascending_no_duplicates.

(* cache-state independence for every since token and every low sequence *)
Theorem C01_changes_end_to_end_tokens : forall hist caches user user_doc user_seq req since limit ao hi low,
  map fst caches = visible user req ->
  (forall c cache, In (c, cache) caches ->
     exists F, truth_wf (chan_log c hist) F /\ cc_inv (chan_log c hist) F cache /\ quiescent (chan_log c hist) F) ->
  multi_feed_tok hist caches user_doc user_seq since limit ao hi low
  = expected_tok hist user user_doc user_seq req since limit ao hi low.
Proof. exact changes_end_to_end_tok. Qed.
Print Assumptions C01_changes_end_to_end_tokens.

(* FULL paging statement: from ANY canonical since token -- simple, low::seq, trig:seq, low:trig:seq --
   a page of n rows followed by the request resumed from the token of the page's last row (as printed
   and parsed back) is the unpaged answer; any requester, any active_only, any high sequence, any low
   sequence (unchanged between the two requests) *)
Theorem C01_resume_paging : forall hist user user_doc user_seq req ao hi low since0 n last,
  NoDup (map h_seq hist) -> canonical since0 -> n <> 0%nat ->
  last_opt (expected_tok hist user user_doc user_seq req since0 n ao hi low) = Some last ->
  expected_tok hist user user_doc user_seq req since0 n ao hi low
    ++ expected_tok hist user user_doc user_seq req (resume_token last) 0 ao hi low
  = expected_tok hist user user_doc user_seq req since0 0 ao hi low.
Proof. intros; apply resume_paging_tok; auto. Qed.
Print Assumptions C01_resume_paging.

(* the hypotheses are necessary.  (1) a token no server prints ("9::0"): the channel feeds read from
   the safe sequence 0, the user pseudo-feed is tested with SequenceID.Before against 9 *)
Theorem C01_resume_paging_noncanonical_refuted :
  exists hist user udoc useq req since0 n last ao hi low,
    NoDup (map h_seq hist) /\ n <> 0%nat /\ ~ canonical since0 /\
    last_opt (expected_tok hist user udoc useq req since0 n ao hi low) = Some last /\
    expected_tok hist user udoc useq req since0 n ao hi low
      ++ expected_tok hist user udoc useq req (resume_token last) 0 ao hi low
    <> expected_tok hist user udoc useq req since0 0 ao hi low.
Proof. exact resume_paging_noncanonical_refuted. Qed.
Print Assumptions C01_resume_paging_noncanonical_refuted.

(* hence the statement over ALL since tokens, kept above as the former goal, is false *)
Theorem C01_resume_paging_full_statement_refuted : ~ C01_resume_paging_full_statement.
Proof.
  intros H.
  specialize (H [HW 1 4 1 [2] false; HW 2 6 2 [2] false] (Some [2]) 101 5 [0] false 6 (mk 0 9 0) 1%nat
                (mkR (mk 0 0 4) 1 1 false [] false false)).
  assert (NoDup (map h_seq [HW 1 4 1 [2] false; HW 2 6 2 [2] false])) as Hn
    by (repeat constructor; cbn; intuition discriminate).
  specialize (H Hn). vm_compute in H. specialize (H ltac:(discriminate) eq_refl). discriminate.
Qed.
Print Assumptions C01_resume_paging_full_statement_refuted.

(* (2) the low sequence changes between the two requests: rows are sent again (by design) *)
Theorem C01_resume_after_low_change_resends :
  exists hist since0 n last low1 low2 r,
    NoDup (map h_seq hist) /\ canonical since0 /\
    last_opt (expected_tok hist None 0 0 [0] since0 n false 6 low1) = Some last /\
    In r (expected_tok hist None 0 0 [0] since0 n false 6 low1) /\
    exists r', In r' (expected_tok hist None 0 0 [0] (resume_token last) 0 false 6 low2) /\
               r_id r' = r_id r /\ Seq (r_seq r') = Seq (r_seq r).
Proof. exact resume_after_low_change_resends. Qed.
Print Assumptions C01_resume_after_low_change_resends.

(* ---------- layer 1b: the pagination loop of changesFeed ---------- *)
(* cc_inv and the ground-truth bookkeeping after EVERY operation list in which runs of changesFeed
   (any since token, request limit, active_only, query limit) over the cache and over a bypass cache
   are interleaved with the cache operations *)
Theorem C01_feed_invariant_all_op_lists : forall vf maxl minl ops,
  (1 <= maxl)%nat -> wf_xops (init_sys vf maxl minl) ops ->
  let s := xrun (init_sys vf maxl minl) ops in
  truth_wf (s_B s) (s_F s) /\ cc_inv (s_B s) (s_F s) (s_c s).
Proof.
  intros vf maxl minl ops Hm Hw s.
  destruct (xrun_inv ops _ (init_sys_inv vf maxl minl Hm) Hw) as [W I]. split; auto.
Qed.
Print Assumptions C01_feed_invariant_all_op_lists.

(* paginate_eq: for any query limit >= 1 the loop returns the same rows as ONE unlimited GetChanges
   call, cut at the request limit *)
Theorem C01_paginate_eq : forall B F ch c since reqlimit qlimit,
  truth_wf B F -> cc_inv B F c -> quiescent B F -> seq_bounded B ->
  (1 <= qlimit)%nat -> TriggeredBy since = 0 ->
  snd (changes_feed B ch (SCache c) since reqlimit false qlimit)
  = map (feed_row ch 0) (take reqlimit (snd (get_changes B c (SafeSequence since) 0 false))).
Proof. exact paginate_eq_cache. Qed.
Print Assumptions C01_paginate_eq.

(* active_only: the loop (which leaves the request limit to the merge loop) returns the rows of one
   unlimited active_only call and leaves the cache untouched *)
Theorem C01_paginate_eq_active_only : forall B F ch c since reqlimit qlimit,
  truth_wf B F -> cc_inv B F c -> quiescent B F -> seq_bounded B -> (1 <= qlimit)%nat ->
  snd (changes_feed B ch (SCache c) since reqlimit true qlimit)
  = snd (emit ch (TriggeredBy since) (snd (get_changes B c (SafeSequence since) 0 true))) /\
  fst (changes_feed B ch (SCache c) since reqlimit true qlimit) = SCache c.
Proof. exact paginate_eq_active_only_cache. Qed.
Print Assumptions C01_paginate_eq_active_only.

(* what one unlimited active_only call returns: the active part of the truth below validFrom (the
   query filters), everything from validFrom upwards (the cache does not) *)
Theorem C01_get_changes_active_only_exact : forall B F c since,
  truth_wf B F -> quiescent B F -> cc_inv B F c ->
  snd (get_changes B c since 0 true) = filter (gfilter (vfrom c)) (truth B since).
Proof. intros; apply (get_changes_ao_unlimited B F); auto. Qed.
Print Assumptions C01_get_changes_active_only_exact.

(* any since token, TriggeredBy included, either cache implementation: the rows are the emission
   (stamping, back-fill filter) of a prefix of the truth -- all of it unless the request limit was reached *)
Theorem C01_paginate_prefix : forall B F ch sc since reqlimit qlimit,
  truth_wf B F -> quiescent B F -> seq_bounded B -> sc_inv B F sc -> (1 <= qlimit)%nat ->
  let out := snd (changes_feed B ch sc since reqlimit false qlimit) in
  exists k, out = snd (emit ch (TriggeredBy since) (firstn k (truth B (SafeSequence since)))) /\
    ((length (truth B (SafeSequence since)) <= k)%nat \/ (reqlimit <> 0%nat /\ (reqlimit <= length out)%nat)).
Proof. intros; apply (paginate_prefix B F); auto. Qed.
Print Assumptions C01_paginate_prefix.

(* headline: after ANY operation list (feeds included) that leaves nothing undelivered *)
Theorem C01_feed_after_any_history : forall vf maxl minl ops since reqlimit qlimit,
  (1 <= maxl)%nat -> wf_xops (init_sys vf maxl minl) ops ->
  let s := xrun (init_sys vf maxl minl) ops in
  quiescent (s_B s) (s_F s) -> seq_bounded (s_B s) -> (1 <= qlimit)%nat -> TriggeredBy since = 0 ->
  snd (changes_feed (s_B s) comp_chan (SCache (s_c s)) since reqlimit false qlimit)
  = map (feed_row comp_chan 0) (take reqlimit (truth (s_B s) (SafeSequence since))) /\
  snd (changes_feed (s_B s) comp_chan SBypass since reqlimit false qlimit)
  = map (feed_row comp_chan 0) (take reqlimit (truth (s_B s) (SafeSequence since))).
Proof. exact feed_after_any_history. Qed.
Print Assumptions C01_feed_after_any_history.

(* ---------- the bypass cache (MaxNumChannels exceeded: every read is a query) ---------- *)
Theorem C01_bypass_is_degenerate_cache : forall B since n ao, since + 1 < max64 ->
  get_changes B degenerate_cache since n ao = (degenerate_cache, bypass_get_changes B since n ao).
Proof. exact bypass_is_degenerate. Qed.
Print Assumptions C01_bypass_is_degenerate_cache.

(* it answers like ANY channel cache satisfying cc_inv, once nothing is undelivered *)
Theorem C01_bypass_equals_cached : forall B F c since n,
  truth_wf B F -> quiescent B F -> seq_bounded B -> cc_inv B F c ->
  bypass_get_changes B since n false = snd (get_changes B c since n false).
Proof. intros; apply (bypass_equals_cached B F); auto. Qed.
Print Assumptions C01_bypass_equals_cached.

Theorem C01_bypass_equals_cached_active_only : forall B F c since,
  truth_wf B F -> quiescent B F -> seq_bounded B -> cc_inv B F c ->
  bypass_get_changes B since 0 true = filter is_active (snd (get_changes B c since 0 true)).
Proof. intros; apply (bypass_equals_cached_active_only B F); auto. Qed.
Print Assumptions C01_bypass_equals_cached_active_only.

(* and the feeds over the two agree, whatever their query limits *)
Theorem C01_bypass_feed_equals_cached_feed : forall B F ch c since reqlimit q1 q2,
  truth_wf B F -> quiescent B F -> seq_bounded B -> cc_inv B F c ->
  (1 <= q1)%nat -> (1 <= q2)%nat -> TriggeredBy since = 0 ->
  snd (changes_feed B ch SBypass since reqlimit false q1)
  = snd (changes_feed B ch (SCache c) since reqlimit false q2).
Proof. intros; apply (bypass_feed_equals_cached_feed B F); auto. Qed.
Print Assumptions C01_bypass_feed_equals_cached_feed.

(* ---------- end to end with the real shape of the per-channel feeds ---------- *)
(* every channel served by its own changesFeed loop -- request limit passed down, any query limit,
   channel cache or bypass cache per channel -- merged with the limit: the answer computed from the
   history.  (Plain requests; with active_only the per-channel feeds depend on the query's filter.) *)
Theorem C01_changes_end_to_end_paginated : forall hist caches user user_doc user_seq req since limit hi low qlimit,
  NoDup (map h_seq hist) -> (1 <= qlimit)%nat ->
  map fst caches = visible user req ->
  (forall c sc, In (c, sc) caches ->
     exists F, truth_wf (chan_log c hist) F /\ sc_inv (chan_log c hist) F sc /\
               quiescent (chan_log c hist) F /\ seq_bounded (chan_log c hist)) ->
  multi_feed_pag hist caches user_doc user_seq since limit hi low qlimit
  = expected_tok hist user user_doc user_seq req since limit false hi low.
Proof. exact changes_end_to_end_paginated. Qed.
Print Assumptions C01_changes_end_to_end_paginated.

(* ---------- wake-up: which channels AddToCache reports as changed ---------- *)
(* every channel the entry concerns (the document is in it, or leaves it at this very sequence) and
   the wildcard channel, nothing else -- whether or not a per-channel cache exists for them.  The
   listeners of exactly these ids are notified; the wait loop itself is not modelled (harness stream
   "wakeup": parked continuous / long-poll feeds on bypassed and evicted channels). *)
Theorem C01_notified_channels_complete : forall active seq chs c,
  In c (fst (add_to_cache_all active seq chs)) <->
  c = nstar \/ exists r, In (c, r) chs /\ (r = None \/ r = Some seq).
Proof. exact notified_channels_complete. Qed.
Print Assumptions C01_notified_channels_complete.

Theorem C01_notified_independent_of_caches : forall a1 a2 seq chs,
  fst (add_to_cache_all a1 seq chs) = fst (add_to_cache_all a2 seq chs).
Proof. exact notified_independent_of_caches. Qed.
Print Assumptions C01_notified_independent_of_caches.

Theorem C01_cache_adds_are_notified : forall active seq chs c,
  (exists rm, In (c, rm) (snd (add_to_cache_all active seq chs))) <->
  In c active /\ In c (fst (add_to_cache_all active seq chs)).
Proof. exact cache_adds_are_notified. Qed.
Print Assumptions C01_cache_adds_are_notified.

(* ---------- deduplicated mutations: what DocChanged reconstructs from recent_sequences ---------- *)
(* every entry DocChanged hands on for a document mutation is addressed to the document's OWN
   collection (a channel is identified by collection id + name: an entry without it would be cached
   for, and wake the listeners of, a channel of another collection) *)
Theorem C01_dedup_keeps_collection : forall coll doc sd next skipped x,
  In x (flat_map to_caches (doc_changed coll doc sd next skipped)) -> fst (fst x) = coll.
Proof. exact dedup_keeps_collection. Qed.
Print Assumptions C01_dedup_keeps_collection.

(* a removal whose own mutation the caching feed deduplicated (its sequence is only listed in
   recent_sequences, still expected by the cache or already skipped) is reconstructed and reaches the
   cache of the channel the document left, with the sequence and revision the channel query returns *)
Theorem C01_dedup_delivers_removal : forall coll doc sd next skipped c s rv dl,
  In (c, Some (s, rv, dl)) (sd_chans sd) ->
  (forall c' rv' dl', In (c', Some (s, rv', dl')) (sd_chans sd) -> rv' = rv) ->
  In s (sd_recent sd) -> s < current_seq sd ->
  (next <= s \/ In s skipped) ->
  exists d, In (coll, c, (s, doc, rv, true, d)) (flat_map to_caches (doc_changed coll doc sd next skipped)).
Proof. exact dedup_delivers_removal. Qed.
Print Assumptions C01_dedup_delivers_removal.

(* FULL: it IS the entry the channel query returns for the document, Deleted flag included -- the code
   as repaired by commit 1bb148f ([doc_changed] = [doc_changed_gen true]); for the code before the
   repair the statement is refuted in C01_Refuted.v *)
Theorem C01_dedup_removal_is_query_entry : forall coll doc sd next skipped c s rv dl,
  In (c, Some (s, rv, dl)) (sd_chans sd) ->
  (forall c' rv' dl', In (c', Some (s, rv', dl')) (sd_chans sd) -> rv' = rv /\ dl' = dl) ->
  In s (sd_recent sd) -> s < current_seq sd -> (next <= s \/ In s skipped) ->
  In (coll, c, (s, doc, rv, true, dl)) (flat_map to_caches (doc_changed coll doc sd next skipped)).
Proof. exact dedup_removal_is_query_entry. Qed.
Print Assumptions C01_dedup_removal_is_query_entry.

Theorem C01_dedup_delivers_current : forall coll doc sd next skipped c,
  In (c, None) (sd_chans sd) ->
  In (coll, c, (sd_seq sd, doc, sd_rev sd, false, sd_del sd)) (flat_map to_caches (doc_changed coll doc sd next skipped)).
Proof. exact dedup_delivers_current. Qed.
Print Assumptions C01_dedup_delivers_current.

(* nothing is invented: the current revision for a channel of the document's map, or a removal the map records *)
Theorem C01_dedup_sound : forall coll doc sd next skipped coll' c s d rv rm dl,
  In (coll', c, (s, d, rv, rm, dl)) (flat_map to_caches (doc_changed coll doc sd next skipped)) ->
  d = doc /\ ((s = sd_seq sd /\ rv = sd_rev sd /\ dl = sd_del sd /\ exists r, In (c, r) (sd_chans sd)) \/
              (rm = true /\ (exists rv' dl', In (c, Some (s, rv', dl')) (sd_chans sd)) /\
               (dl = true -> exists c' rv', In (c', Some (s, rv', true)) (sd_chans sd)))).
Proof. exact dedup_sound. Qed.
Print Assumptions C01_dedup_sound.

(* ---------- non-vacuity ---------- *)
Example C01_nonvacuous :
  let e1 := mkE 1 1 1 false false in let e2 := mkE 2 2 2 false false in
  let e3 := mkE 3 1 3 true false in let e4 := mkE 4 3 4 false false in
  let ops := [OWrite e1; OWrite e2; OAdd e2 false; OAdd e1 false; OWrite e3; OAdd (mkE 3 1 3 false false) true;
              OWrite e4; OAdd e4 false] in
  let s := run (init_sys 1 1 1) ops in
  wf_ops (init_sys 1 1 1) ops /\ quiescent (s_B s) (s_F s) /\
  vfrom (s_c s) = 4 /\ logs (s_c s) = [e4] /\
  snd (get_changes (s_B s) (s_c s) 0 0 false) = [e2; e3; e4] /\ truth (s_B s) 0 = [e2; e3; e4] /\
  expected_changes [HW 1 1 1 [2] false; HW 2 2 2 [2;3] false; HW 1 3 3 [3] false] (Some [2]) 101 0 [0] (mk 0 0 0) 0 false 3
    = [mkR (mk 0 0 2) 2 2 false [] false false; mkR (mk 0 0 3) 1 3 false [2] false true] /\
  (* a feed that needs three pages (query limit 2, five entries, cache of one) and a low::seq token resumed *)
  (let B := [mkE 5 5 5 false false; mkE 4 4 4 false false; mkE 3 3 3 false false; mkE 2 2 2 false false; mkE 1 1 1 false false] in
   snd (changes_feed B 7 (SCache (mkC [mkE 5 5 5 false false] 5 [5] 1 1)) (mk 0 0 0) 0 false 2)
     = map (feed_row 7 0) (rev B) /\
   snd (changes_feed B 7 SBypass (mk 0 0 0) 4 false 3) = map (feed_row 7 0) (firstn 4 (rev B))) /\
  canonical (mk 0 2 5) /\ canonical (mk 9 4 7) /\ resume_token (mkR (mk 0 2 5) 1 1 false [] false false) = mk 0 2 5.
Proof.
  cbv zeta. split; [|split; [|split]].
  - cbn. repeat split; auto; intros H; repeat (destruct H as [H|H]; [discriminate|]); auto.
  - intros b Hb. vm_compute in Hb. vm_compute. intuition.
  - vm_compute. repeat split; reflexivity.
  - vm_compute. repeat split; reflexivity.
Qed.
