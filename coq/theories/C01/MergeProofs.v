(* C01, layer 2: laws of the merge loop, for all lists of feeds. *)
From Coq Require Import Sorting.Sorted.
From SG Require Import Base.Prelude C20.SeqIdGen C20.SeqId C20.SeqIdOrder C01.ChanCache C01.Merge.
Open Scope N_scope.

Definition rlt (a b : row) : Prop := before (r_seq a) (r_seq b) = true.
Definition rsorted (f : list row) : Prop := StronglySorted rlt f.
Definition feeds_sorted (feeds : list (list row)) : Prop := forall f, In f feeds -> rsorted f.

Lemma seqid_eqb_eq a b : seqid_eqb a b = true <-> a = b.
Proof.
  destruct a as [t l s], b as [t2 l2 s2]; unfold seqid_eqb; cbn.
  rewrite !andb_true_iff, !N.eqb_eq. split; [intros [[-> ->] ->]; auto | intros H; inv H; auto].
Qed.

Lemma seqid_eqb_refl a : seqid_eqb a a = true.
Proof. apply seqid_eqb_eq; auto. Qed.

(* ---------- channel sets ---------- *)
Lemma set_add_In x l y : In y (set_add x l) <-> y = x \/ In y l.
Proof.
  induction l as [|z l IH]; cbn; [intuition|].
  destruct (x <? z) eqn:E1; cbn; [intuition|].
  destruct (x =? z) eqn:E2; cbn.
  - apply N.eqb_eq in E2; subst; intuition.
  - rewrite IH; intuition.
Qed.

Lemma set_union_In a b y : In y (set_union a b) <-> In y a \/ In y b.
Proof.
  unfold set_union; induction b as [|x b IH]; cbn; [intuition|].
  rewrite set_add_In, IH; intuition.
Qed.

Lemma fold_union_In l : forall acc c,
  In c (fold_left (fun acc h => set_union acc (r_rm h)) l acc) <-> In c acc \/ exists h, In h l /\ In c (r_rm h).
Proof.
  induction l as [|x l IH]; cbn; intros acc c.
  - split; auto. intros [|[h [[] _]]]; auto.
  - rewrite IH, set_union_In. split.
    + intros [[|]|[h [Hh Hc]]]; eauto.
    + intros [|[h [[<-|Hh] Hc]]]; eauto.
Qed.

(* ---------- heads, pop ---------- *)
Lemma heads_In feeds h : In h (heads feeds) <-> exists t, In (h :: t) feeds.
Proof.
  unfold heads; rewrite in_flat_map; split.
  - intros [f [Hf Hh]]; destruct f as [|a t]; [destruct Hh|]. destruct Hh as [<-|[]]; eauto.
  - intros [t Ht]; exists (h :: t); cbn; auto.
Qed.

Lemma pop_incl m f x : In x (pop m f) -> In x f.
Proof. destruct f as [|h t]; cbn; auto. destruct (seqid_eqb (r_seq h) m); cbn; auto. Qed.

Lemma pop_keeps m f x : In x f -> r_seq x <> m -> In x (pop m f).
Proof.
  destruct f as [|h t]; cbn; auto. destruct (seqid_eqb (r_seq h) m) eqn:E; auto.
  apply seqid_eqb_eq in E. intros [<-|]; auto; congruence.
Qed.

Lemma pop_sorted m f : rsorted f -> rsorted (pop m f).
Proof. destruct f as [|h t]; cbn; auto. destruct (seqid_eqb (r_seq h) m); auto. intros H; inv H; auto. Qed.

Lemma pop_length m f : (length (pop m f) <= length f)%nat.
Proof. destruct f as [|h t]; cbn; auto. destruct (seqid_eqb (r_seq h) m); cbn; lia. Qed.

Lemma total_cons f fs : total (f :: fs) = (length f + total fs)%nat.
Proof. unfold total; cbn; rewrite app_length; auto. Qed.

Lemma total_pop_le m feeds : (total (map (pop m) feeds) <= total feeds)%nat.
Proof.
  induction feeds as [|f fs IH]; cbn [map]; auto. rewrite !total_cons. pose proof (pop_length m f). lia.
Qed.

Lemma total_pop_lt m feeds :
  In m (heads feeds) -> (total (map (pop (r_seq m)) feeds) < total feeds)%nat.
Proof.
  induction feeds as [|f fs IH]; [intros []|]. cbn [map]. rewrite !total_cons.
  unfold heads; cbn [flat_map]. intros H; apply in_app_or in H as [H|H].
  - destruct f as [|h t]; [destruct H|]. destruct H as [<-|[]]. cbn [pop]. rewrite seqid_eqb_refl.
    pose proof (total_pop_le (r_seq h) fs). cbn [length]. lia.
  - specialize (IH H). pose proof (pop_length (r_seq m) f). lia.
Qed.

(* ---------- the minimal head ---------- *)
Definition min_inv (best : option row) (seen : list row) : Prop :=
  match best with
  | None => seen = []
  | Some b => In b seen /\ forall p, In p seen -> before (r_seq p) (r_seq b) = false
  end.

Lemma min_fold_spec hs : forall seen best,
  min_inv best seen -> min_inv (fold_left min_step hs best) (seen ++ hs).
Proof.
  induction hs as [|h r IH]; intros seen best I; cbn [fold_left]; [rewrite app_nil_r; auto|].
  replace (seen ++ h :: r) with ((seen ++ [h]) ++ r) by (rewrite <- app_assoc; auto).
  apply IH. unfold min_step. destruct best as [b|]; cbn in *.
  - destruct I as [Hb Hmin]. destruct (before (r_seq h) (r_seq b)) eqn:E; cbn.
    + split; [apply in_or_app; cbn; auto|]. intros p Hp; apply in_app_or in Hp as [Hp|[<-|[]]].
      * destruct (before (r_seq p) (r_seq h)) eqn:E2; auto.
        specialize (Hmin p Hp). rewrite (before_trans _ _ _ E2 E) in Hmin; discriminate.
      * apply before_irrefl.
    + split; [apply in_or_app; auto|]. intros p Hp; apply in_app_or in Hp as [Hp|[<-|[]]]; auto.
  - subst seen; cbn. split; auto. intros p [<-|[]]; apply before_irrefl.
Qed.

Lemma min_row_some hs m :
  min_row hs = Some m -> In m hs /\ forall p, In p hs -> before (r_seq p) (r_seq m) = false.
Proof.
  intros H. pose proof (min_fold_spec hs [] None eq_refl) as I. cbn [app] in I.
  unfold min_row in H; rewrite H in I; exact I.
Qed.

Lemma min_row_none hs : min_row hs = None -> hs = [].
Proof.
  intros H. pose proof (min_fold_spec hs [] None eq_refl) as I. cbn [app] in I.
  unfold min_row in H; rewrite H in I; exact I.
Qed.

(* after the minimal token has been cleared, everything left is strictly greater *)
Lemma pop_gt m f :
  rsorted f -> (forall h t, f = h :: t -> before (r_seq h) m = false) ->
  forall x, In x (pop m f) -> before m (r_seq x) = true.
Proof.
  destruct f as [|h t]; [intros _ _ x []|]. intros Hs Hh x. specialize (Hh h t eq_refl).
  inv Hs. rewrite Forall_forall in H2. cbn [pop]. destruct (seqid_eqb (r_seq h) m) eqn:E.
  - apply seqid_eqb_eq in E; subst m. intros Hx; apply H2; auto.
  - assert (r_seq h <> m) as Hne by (intros Heq; apply seqid_eqb_eq in Heq; congruence).
    assert (before m (r_seq h) = true) as Hm.
    { destruct (before_total (r_seq h) m Hne) as [H|H]; [congruence | auto]. }
    intros [<-|Hx]; auto. eapply before_trans; eauto. apply H2; auto.
Qed.

Lemma group_seq m hs : r_seq (group m hs) = r_seq m. Proof. reflexivity. Qed.

(* every merged token is a token of some input row *)
Lemma merge_all_tokens fuel : forall feeds r,
  In r (merge_all fuel feeds) -> exists f x, In f feeds /\ In x f /\ r_seq x = r_seq r.
Proof.
  induction fuel as [|k IH]; intros feeds r; cbn [merge_all]; [intros []|].
  destruct (min_row (heads feeds)) as [m|] eqn:Em; [|intros []].
  intros [<-|Hr].
  - apply min_row_some in Em as [Hm _]. apply heads_In in Hm as [t Ht].
    exists (m :: t), m; cbn; auto.
  - apply IH in Hr as [f' [x [Hf' [Hx Hs]]]]. apply in_map_iff in Hf' as [f [<- Hf]].
    exists f, x; repeat split; auto. eapply pop_incl; eauto.
Qed.

(* identity, revision, deletion flag of a merged row are those of an input row with its token *)
Lemma merge_all_origin fuel : forall feeds g,
  In g (merge_all fuel feeds) ->
  exists f x, In f feeds /\ In x f /\ r_seq x = r_seq g /\ r_id x = r_id g /\ r_rev x = r_rev g /\
              r_del x = r_del g /\ r_revoked x = r_revoked g.
Proof.
  induction fuel as [|k IH]; intros feeds g; cbn [merge_all]; [intros []|].
  destruct (min_row (heads feeds)) as [m|] eqn:Em; [|intros []].
  intros [<-|Hr].
  - apply min_row_some in Em as [Hm _]. apply heads_In in Hm as [t Ht].
    exists (m :: t), m; cbn; repeat split; auto.
  - apply IH in Hr as [f' [x [Hf' [Hx Hs]]]]. apply in_map_iff in Hf' as [f [<- Hf]].
    exists f, x; split; auto. split; auto. eapply pop_incl; eauto.
Qed.

Lemma merge_all_gt k feeds m :
  feeds_sorted feeds -> min_row (heads feeds) = Some m ->
  forall r, In r (merge_all k (map (pop (r_seq m)) feeds)) -> before (r_seq m) (r_seq r) = true.
Proof.
  intros Hs Em r Hr. apply min_row_some in Em as [_ Hmin].
  apply merge_all_tokens in Hr as [f' [x [Hf' [Hx <-]]]]. apply in_map_iff in Hf' as [f [<- Hf]].
  apply (pop_gt (r_seq m) f); auto. intros h t ->. apply Hmin, heads_In; eauto.
Qed.

Lemma feeds_sorted_pop m feeds : feeds_sorted feeds -> feeds_sorted (map (pop m) feeds).
Proof. intros H f' Hf'; apply in_map_iff in Hf' as [f [<- Hf]]; apply pop_sorted; auto. Qed.

(* ---------- merge_sorted / merge_nodup ---------- *)
Theorem merge_sorted fuel : forall feeds, feeds_sorted feeds -> rsorted (merge_all fuel feeds).
Proof.
  induction fuel as [|k IH]; intros feeds Hs; cbn [merge_all]; [constructor|].
  destruct (min_row (heads feeds)) as [m|] eqn:Em; [|constructor].
  constructor; [apply IH, feeds_sorted_pop; auto|].
  apply Forall_forall; intros r Hr. unfold rlt; rewrite group_seq. eapply merge_all_gt; eauto.
Qed.

Lemma rsorted_NoDup l : rsorted l -> NoDup (map r_seq l).
Proof.
  induction l as [|a l IH]; cbn; [constructor|]; intros H; inv H. constructor; auto.
  rewrite Forall_forall in H3. intros Hin; apply in_map_iff in Hin as [b [E Hb]].
  specialize (H3 b Hb); unfold rlt in H3. rewrite E, before_irrefl in H3; discriminate.
Qed.

Theorem merge_nodup fuel feeds : feeds_sorted feeds -> NoDup (map r_seq (merge_all fuel feeds)).
Proof. intros H; apply rsorted_NoDup, merge_sorted, H. Qed.

(* ---------- merge_union: with enough fuel every input token comes out ---------- *)
Lemma in_feed_total f feeds : In f feeds -> (length f <= total feeds)%nat.
Proof.
  induction feeds as [|g gs IH]; [intros []|]. rewrite total_cons. intros [->|H]; [lia | specialize (IH H); lia].
Qed.

Theorem merge_covers fuel : forall feeds, (total feeds <= fuel)%nat ->
  forall f x, In f feeds -> In x f -> exists r, In r (merge_all fuel feeds) /\ r_seq r = r_seq x.
Proof.
  induction fuel as [|k IH]; intros feeds Ht f x Hf Hx.
  - pose proof (in_feed_total f feeds Hf). destruct f; [destruct Hx | cbn in *; lia].
  - cbn [merge_all]. destruct (min_row (heads feeds)) as [m|] eqn:Em.
    + destruct (seqid_eqb (r_seq x) (r_seq m)) eqn:E.
      * apply seqid_eqb_eq in E. eexists; split; [left; reflexivity|]. rewrite group_seq; auto.
      * assert (r_seq x <> r_seq m) as Hne by (intros Heq; apply seqid_eqb_eq in Heq; congruence).
        destruct (IH (map (pop (r_seq m)) feeds)) with (f := pop (r_seq m) f) (x := x) as [r [Hr Hs]].
        -- apply min_row_some in Em as [Hm _]. pose proof (total_pop_lt m feeds Hm). lia.
        -- apply in_map; auto.
        -- apply pop_keeps; auto.
        -- exists r; split; auto. right; auto.
    + exfalso. apply min_row_none in Em. destruct f as [|h t]; [destruct Hx|].
      assert (In h (heads feeds)) by (apply heads_In; eauto). rewrite Em in *; auto.
Qed.

Theorem merge_union feeds m :
  (exists r, In r (merge_all (total feeds) feeds) /\ r_seq r = m) <->
  (exists f x, In f feeds /\ In x f /\ r_seq x = m).
Proof.
  split.
  - intros [r [Hr <-]]. apply merge_all_tokens in Hr; auto.
  - intros [f [x [Hf [Hx <-]]]]. eapply merge_covers; eauto.
Qed.

(* ---------- merge_removed: Removed of a row = union over the input rows with its token ---------- *)
Lemma same_as_In m hs h : In h (same_as m hs) <-> In h hs /\ r_seq h = r_seq m.
Proof. unfold same_as; rewrite filter_In, seqid_eqb_eq; tauto. Qed.

Lemma merge_removed_sound fuel : forall feeds r c,
  In r (merge_all fuel feeds) -> In c (r_rm r) ->
  exists f x, In f feeds /\ In x f /\ r_seq x = r_seq r /\ In c (r_rm x).
Proof.
  induction fuel as [|k IH]; intros feeds r c; cbn [merge_all]; [intros []|].
  destruct (min_row (heads feeds)) as [m|] eqn:Em; [|intros []].
  intros [<-|Hr] Hc.
  - cbn [group r_rm] in Hc. apply fold_union_In in Hc as [[]|[h [Hh Hc]]].
    apply same_as_In in Hh as [Hh Hs]. apply heads_In in Hh as [t Ht].
    exists (h :: t), h; cbn; auto.
  - destruct (IH _ _ _ Hr Hc) as [f' [x [Hf' [Hx Hs]]]]. apply in_map_iff in Hf' as [f [<- Hf]].
    exists f, x; repeat split; try tauto. eapply pop_incl; eauto.
Qed.

(* a row carrying the minimal token sits at the head of its (ascending) feed *)
Lemma min_token_is_head feeds m f x :
  feeds_sorted feeds -> min_row (heads feeds) = Some m -> In f feeds -> In x f -> r_seq x = r_seq m ->
  In x (heads feeds).
Proof.
  intros Hs Em Hf Hx E. apply min_row_some in Em as [_ Hmin].
  destruct f as [|h t]; [destruct Hx|]. destruct Hx as [<-|Hx]; [apply heads_In; eauto|].
  exfalso. specialize (Hs _ Hf). inv Hs. rewrite Forall_forall in H2. specialize (H2 x Hx). unfold rlt in H2.
  rewrite E in H2. rewrite Hmin in H2; [discriminate | apply heads_In; eauto].
Qed.

Lemma merge_removed_complete fuel : forall feeds, feeds_sorted feeds -> (total feeds <= fuel)%nat ->
  forall f x c, In f feeds -> In x f -> In c (r_rm x) ->
  exists r, In r (merge_all fuel feeds) /\ r_seq r = r_seq x /\ In c (r_rm r).
Proof.
  induction fuel as [|k IH]; intros feeds Hs Ht f x c Hf Hx Hc.
  - pose proof (in_feed_total f feeds Hf). destruct f; [destruct Hx | cbn in *; lia].
  - cbn [merge_all]. destruct (min_row (heads feeds)) as [m|] eqn:Em.
    + destruct (seqid_eqb (r_seq x) (r_seq m)) eqn:E.
      * apply seqid_eqb_eq in E. eexists; split; [left; reflexivity|]. split; [rewrite group_seq; auto|].
        cbn [group r_rm]. apply fold_union_In; right. exists x; split; auto.
        apply same_as_In; split; auto. eapply min_token_is_head; eauto.
      * assert (r_seq x <> r_seq m) as Hne by (intros Heq; apply seqid_eqb_eq in Heq; congruence).
        destruct (IH (map (pop (r_seq m)) feeds)) with (f := pop (r_seq m) f) (x := x) (c := c) as [r [Hr Hs']]; auto.
        -- apply feeds_sorted_pop; auto.
        -- apply min_row_some in Em as [Hm _]. pose proof (total_pop_lt m feeds Hm). lia.
        -- apply in_map; auto.
        -- apply pop_keeps; auto.
        -- exists r; split; auto. right; auto.
    + exfalso. apply min_row_none in Em. destruct f as [|h t]; [destruct Hx|].
      assert (In h (heads feeds)) by (apply heads_In; eauto). rewrite Em in *; auto.
Qed.

Theorem merge_removed feeds m c : feeds_sorted feeds ->
  ((exists r, In r (merge_all (total feeds) feeds) /\ r_seq r = m /\ In c (r_rm r)) <->
   (exists f x, In f feeds /\ In x f /\ r_seq x = m /\ In c (r_rm x))).
Proof.
  intros Hs; split.
  - intros [r [Hr [<- Hc]]]. eapply merge_removed_sound; eauto.
  - intros [f [x [Hf [Hx [<- Hc]]]]]. eapply merge_removed_complete; eauto.
Qed.

(* allRemoved: every input row with the token is a removal *)
Theorem merge_all_removed fuel : forall feeds, feeds_sorted feeds ->
  forall r, In r (merge_all fuel feeds) -> r_allrm r = true ->
  forall f x, In f feeds -> In x f -> r_seq x = r_seq r -> r_rm x <> [].
Proof.
  induction fuel as [|k IH]; intros feeds Hs r; cbn [merge_all]; [intros []|].
  destruct (min_row (heads feeds)) as [m|] eqn:Em; [|intros []].
  intros [<-|Hr] Ha f x Hf Hx E.
  - cbn [group r_allrm r_seq] in *. apply andb_true_iff in Ha as [_ Ha]. rewrite forallb_forall in Ha.
    assert (In x (same_as m (heads feeds))) as Hin by (apply same_as_In; split; auto; eapply min_token_is_head; eauto).
    specialize (Ha x Hin). destruct (r_rm x); [discriminate | congruence].
  - pose proof (merge_all_gt k feeds m Hs Em r Hr) as Hgt.
    assert (r_seq x <> r_seq m) as Hne by (intros Heq; rewrite <- E, Heq, before_irrefl in Hgt; discriminate).
    apply (IH (map (pop (r_seq m)) feeds) (feeds_sorted_pop _ _ Hs) r Hr Ha (pop (r_seq m) f) x); auto.
    + apply in_map; auto.
    + apply pop_keeps; auto.
Qed.

(* ---------- the loop = filter, then limit, then stamp ---------- *)
Theorem merge_loop_eq fuel : forall feeds ao hi limit low,
  merge_loop fuel feeds ao hi limit low =
  map (stamp_row low) (take limit (filter (keep ao hi) (merge_all fuel feeds))).
Proof.
  induction fuel as [|k IH]; intros feeds ao hi limit low; cbn [merge_loop merge_all].
  - destruct limit; reflexivity.
  - destruct (min_row (heads feeds)) as [m|]; [|destruct limit; reflexivity].
    cbn [filter]. destruct (keep ao hi (group m (heads feeds))).
    + destruct limit as [|[|l]]; cbn [take firstn map]; rewrite ?IH; reflexivity.
    + apply IH.
Qed.

Theorem merge_limit feeds ao hi limit low :
  limit <> 0%nat -> (length (merge_feeds feeds ao hi limit low) <= limit)%nat.
Proof.
  intros H. unfold merge_feeds. rewrite merge_loop_eq, map_length.
  destruct limit; [congruence|]. cbn [take]. apply firstn_le_length.
Qed.

(* nothing above the cached high sequence (unless a revocation triggered at or below it); with
   active_only no deleted or all-removed row *)
Theorem merge_filters feeds ao hi limit low r :
  In r (merge_feeds feeds ao hi limit low) ->
  exists g, In g (merge_all (total feeds) feeds) /\ r = stamp_row low g /\
    (Seq (r_seq g) <= hi \/ (r_revoked g = true /\ TriggeredBy (r_seq g) <= hi)) /\
    (ao = true -> r_del g = false /\ r_allrm g = false).
Proof.
  unfold merge_feeds. rewrite merge_loop_eq. intros H. apply in_map_iff in H as [g [<- Hg]].
  assert (In g (filter (keep ao hi) (merge_all (total feeds) feeds))) as Hf.
  { destruct limit; cbn [take] in Hg; auto. rewrite <- (firstn_skipn (S limit)); apply in_or_app; auto. }
  apply filter_In in Hf as [Hg' Hk]. exists g; repeat split; auto.
  - unfold keep in Hk. apply andb_true_iff in Hk as [_ Hk]. rewrite negb_true_iff, andb_false_iff, negb_false_iff, andb_true_iff in Hk.
    destruct Hk as [Hk|[Hk1 Hk2]]; [left; lia | right; split; auto; lia].
  - unfold keep in Hk. apply andb_true_iff in Hk as [Hk _]. subst ao. cbn in Hk. apply negb_true_iff, orb_false_iff in Hk; tauto.
  - unfold keep in Hk. apply andb_true_iff in Hk as [Hk _]. subst ao. cbn in Hk. apply negb_true_iff, orb_false_iff in Hk; tauto.
Qed.
