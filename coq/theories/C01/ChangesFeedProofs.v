(* C01: the pagination loop of changesFeed and the bypass cache.

   At quiescence (everything written has been delivered) every implementation of
   SingleChannelCache answers a page request with a prefix of ONE list, the full answer from that
   position ([sc_full]): the truth for plain requests; for active_only the active part of the truth
   (bypass cache) or the active part below validFrom followed by everything cached (channel cache).
   The loop walks that list page by page: its output is the emission of a prefix of the full answer,
   the whole of it unless the request limit was reached. *)
From Coq Require Import Sorting.Sorted Sorting.Permutation.
From SG Require Import Base.Prelude C20.SeqIdGen C20.SeqId.
From SG Require Import C01.ChanCache C01.ChanCacheLists C01.ChanCacheTruth C01.ChanCacheInv C01.ChanCacheStep C01.ChanCacheRead.
From SG Require Import C01.Merge C01.ChangesFeed.
Open Scope N_scope.

(* ---------- lists ---------- *)
Lemma filter_none {A} (f : A -> bool) l : (forall x, In x l -> f x = false) -> filter f l = [].
Proof.
  induction l as [|a l IH]; cbn; auto. intros H. rewrite (H a) by auto. apply IH; auto.
Qed.

Lemma firstn_plus {A} a b (l : list A) : firstn (a + b) l = firstn a l ++ firstn b (skipn a l).
Proof.
  revert l; induction a as [|a IH]; intros l; [reflexivity|]. destruct l as [|x l]; cbn.
  - rewrite firstn_nil. reflexivity.
  - f_equal. apply IH.
Qed.

Lemma firstn_length_self {A} n (l : list A) : firstn (length (firstn n l)) l = firstn n l.
Proof.
  rewrite firstn_length. destruct (Nat.le_gt_cases n (length l)).
  - rewrite Nat.min_l by lia. reflexivity.
  - rewrite Nat.min_r by lia. rewrite firstn_all, firstn_all2 by lia. reflexivity.
Qed.

Lemma last_opt_nonempty {A} (l : list A) : l <> [] -> exists x, last_opt l = Some x.
Proof.
  intros H. destruct (last_opt l) eqn:E; eauto. apply last_opt_none in E. congruence.
Qed.

Lemma sorted_prefix_later G k x :
  sorted G -> last_opt (firstn k G) = Some x ->
  filter (fun e => e_seq x <? e_seq e) G = skipn k G.
Proof.
  intros Hs Hl. rewrite <- (firstn_skipn k G) at 1. rewrite filter_app.
  pose proof (last_opt_In _ _ Hl) as Hx.
  rewrite filter_none, filter_all; auto.
  - intros y Hy. apply N.ltb_lt. eapply sorted_firstn_skipn; eauto.
  - intros y Hy. apply N.ltb_ge. apply (sorted_last_max (firstn k G) x); auto. apply sorted_firstn; auto.
Qed.

Lemma sorted_incl_length l B :
  sorted l -> (forall x, In x l -> In x B) -> (length l <= length B)%nat.
Proof.
  intros Hs Hi. apply NoDup_incl_length; [|exact Hi].
  apply sorted_NoDup_seq in Hs. eapply NoDup_map_inv; eauto.
Qed.

(* ---------- emission ---------- *)
Lemma emit_app ch : forall a b t,
  emit ch t (a ++ b) = (fst (emit ch (fst (emit ch t a)) b), snd (emit ch t a) ++ snd (emit ch (fst (emit ch t a)) b)).
Proof.
  induction a as [|e a IH]; intros b t.
  - cbn. destruct (emit ch t b); reflexivity.
  - cbn [app emit]. rewrite IH. set (t1 := if t <=? e_seq e then 0 else t).
    destruct (emit ch t1 a) as [t2 r2]; cbn [fst snd].
    destruct (emit ch t2 b) as [t3 r3]; cbn [fst snd].
    destruct (skip_row t1 e); reflexivity.
Qed.

Lemma emit_zero ch l : emit ch 0 l = (0, map (feed_row ch 0) l).
Proof.
  induction l as [|e l IH]; [reflexivity|]. cbn [emit map].
  assert ((if 0 <=? e_seq e then 0 else 0) = 0) as -> by (destruct (0 <=? e_seq e); reflexivity).
  rewrite IH. reflexivity.
Qed.

Lemma emit_length ch : forall l t, (length (snd (emit ch t l)) <= length l)%nat.
Proof.
  induction l as [|e l IH]; intros t; cbn [emit]; [cbn; lia|].
  set (t1 := if t <=? e_seq e then 0 else t). specialize (IH t1).
  destruct (emit ch t1 l) as [t2 r2]; cbn [snd] in *. destruct (skip_row t1 e); cbn [length]; lia.
Qed.

(* ---------- the bypass cache ---------- *)
Definition seq_bounded (B : list entry) : Prop := forall b, In b B -> e_seq b <= max64.

Lemma qall_max B s : seq_bounded B -> qall B (s + 1) max64 = truth B s.
Proof.
  intros Hb. unfold qall, truth. f_equal. apply filter_ext_in. intros e He.
  apply latest_In in He as [He _]. specialize (Hb e He). lia.
Qed.

Lemma bypass_plain B s n : seq_bounded B -> bypass_get_changes B s n false = take n (truth B s).
Proof. intros Hb. unfold bypass_get_changes, query. rewrite qall_max; auto. Qed.

Lemma bypass_active B s n : seq_bounded B ->
  bypass_get_changes B s n true = take n (filter is_active (truth B s)).
Proof. intros Hb. unfold bypass_get_changes, query. rewrite qall_max; auto. Qed.

(* the bypass cache is the degenerate channel cache *)
Lemma bypass_is_degenerate B s n ao : s + 1 < max64 ->
  get_changes B degenerate_cache s n ao = (degenerate_cache, bypass_get_changes B s n ao).
Proof.
  intros Hs. unfold get_changes, degenerate_cache, get_cached; cbn [logs vfrom maxlen].
  destruct (N.leb_spec max64 (s + 1)); [lia|].
  assert (gc_rows (query B (s + 1) max64 n ao) [] n = query B (s + 1) max64 n ao) as ->.
  { unfold gc_rows. cbn [length Nat.eqb negb]. rewrite andb_false_r. reflexivity. }
  unfold bypass_get_changes. destruct ao; reflexivity.
Qed.

(* ---------- active_only reads of the channel cache ---------- *)
Definition gfilter (v : N) (e : entry) : bool := is_active e || (v <=? e_seq e).

Lemma get_changes_ao_state B c s n : fst (get_changes B c s n true) = c.
Proof.
  unfold get_changes. destruct (get_cached c s 0) as [cvf fc]. destruct (cvf <=? s + 1); reflexivity.
Qed.

Lemma gc_rows_limit_ao q fc n :
  n <> 0%nat -> gc_rows (take n q) fc n = take n (gc_rows q fc 0).
Proof.
  intros Hn. destruct n as [|n]; [congruence|]. cbn [take]. rewrite gc_rows_zero.
  destruct (Nat.le_gt_cases (S n) (length q)) as [Hq|Hq].
  - assert (length (firstn (S n) q) = S n) as El by (rewrite firstn_length; lia).
    unfold gc_rows. rewrite El, Nat.ltb_irrefl. cbn [Nat.eqb orb andb].
    destruct fc as [|x r]; auto.
    rewrite firstn_app. replace (S n - length q)%nat with 0%nat by lia. cbn [firstn]. rewrite app_nil_r; auto.
  - rewrite (firstn_all2 q) by lia. unfold gc_rows. cbn [Nat.eqb orb].
    assert ((length q <? S n)%nat = true) as -> by (apply Nat.ltb_lt; lia). cbn [andb negb].
    destruct fc as [|x r].
    + cbn [length Nat.eqb negb]. symmetry; apply firstn_all2; lia.
    + cbn [length Nat.eqb negb]. rewrite firstn_app, (firstn_all2 q) by lia. f_equal.
      set (room := (S n - length q)%nat). set (d := dedupe q (x :: r)).
      destruct (room <? length d)%nat eqn:E; auto. apply Nat.ltb_ge in E. rewrite firstn_all, firstn_all2; auto.
Qed.

Lemma get_changes_ao_limit B c s n : n <> 0%nat ->
  snd (get_changes B c s n true) =
  if fst (get_cached c s 0) <=? s + 1 then snd (get_changes B c s 0 true)
  else take n (snd (get_changes B c s 0 true)).
Proof.
  intros Hn. unfold get_changes. destruct (get_cached c s 0) as [cvf fc]; cbn [fst].
  destruct (cvf <=? s + 1); cbn [snd]; auto.
  unfold query. cbn [take]. apply gc_rows_limit_ao; auto.
Qed.

Section Quiescent.
  Variables (B F : list entry).
  Hypothesis W : truth_wf B F.
  Hypothesis Q : quiescent B F.

  Lemma get_changes_ao_shape c s n x : cc_inv B F c ->
    In x (snd (get_changes B c s n true)) -> gfilter (vfrom c) x = true.
  Proof.
    intros I. unfold get_changes, gfilter.
    destruct (get_cached c s 0) as [cvf fc] eqn:EG.
    assert (forall y, In y fc -> In y (logs c)) as Fin.
    { pose proof (get_cached_rows c s 0) as E. rewrite EG in E; cbn [snd take] in E. subst fc.
      intros y. rewrite drop_le_filter by apply (inv_sorted _ _ _ I). intros H; apply filter_In in H; tauto. }
    assert (forall y, In y (logs c) -> is_active y || (vfrom c <=? e_seq y) = true) as Hl.
    { intros y Hy. pose proof (inv_ge _ _ _ I y Hy). apply orb_true_iff; right. apply N.leb_le; auto. }
    destruct (cvf <=? s + 1); cbn [snd]; [intros H; auto|].
    destruct (gc_rows_shape (query B (s + 1) cvf n true) fc n) as [rest [-> [k [j [Er _]]]]].
    intros H; apply in_app_or in H as [H|H].
    - unfold query in H. apply take_incl, filter_In in H as [_ H]. rewrite H; reflexivity.
    - apply Hl, Fin. rewrite Er in H; apply firstn_incl, skipn_incl in H; auto.
  Qed.

  (* a cached entry after [since] is always returned by an unlimited read *)
  Lemma get_changes_returns_cached c s ao f : cc_inv B F c ->
    In f (logs c) -> s < e_seq f -> In f (snd (get_changes B c s 0 ao)).
  Proof.
    intros I Hf Hs. unfold get_changes.
    replace (if ao then 0%nat else 0%nat) with 0%nat by (destruct ao; auto).
    destruct (get_cached c s 0) as [cvf fc] eqn:EG.
    pose proof (get_cached_rows c s 0) as Efc; rewrite EG in Efc; cbn [snd take] in Efc.
    assert (cvf = fst (get_cached c s 0)) as Ecvf by (rewrite EG; auto).
    destruct (cvf <=? s + 1) eqn:Eh; cbn [snd].
    - rewrite Efc. apply drop_le_In; [apply (inv_sorted _ _ _ I)|]. auto.
    - apply N.leb_gt in Eh. rewrite Ecvf in Eh.
      destruct (cached_miss B F c s _ I Eh) as [Ev [Ed Hall]]. rewrite <- Ecvf in Ev. rewrite Ed in Efc. subst fc.
      set (q := query B (s + 1) cvf 0 ao). rewrite gc_rows_zero.
      destruct (logs c) as [|l0 L] eqn:EL; [destruct Hf|]. rewrite <- EL in *.
      destruct (existsb (fun y => e_seq y =? e_seq f) q) eqn:Ex.
      + apply existsb_exists in Ex as [y [Hy Ey]]. apply N.eqb_eq in Ey.
        assert (y = f) as <-.
        { apply (seq_inj B); auto; [apply (tw_seq _ _ W) | | eapply inv_sound; eauto].
          apply (query_In B (s + 1) cvf 0%nat ao), qall_In in Hy. tauto. }
        apply in_or_app; left; auto.
      + apply in_or_app; right. apply dedupe_keeps; auto. intros y Hy.
        assert (e_seq y <> e_seq f) as Hne.
        { intros E. assert (existsb (fun y => e_seq y =? e_seq f) q = true); [|congruence].
          apply existsb_exists. exists y; split; auto. apply N.eqb_eq; auto. }
        apply (query_In B (s + 1) cvf 0%nat ao), qall_In in Hy. pose proof (inv_ge _ _ _ I f Hf). lia.
  Qed.

  (* the full active_only answer of the channel cache: the active part of the truth below
     validFrom, everything from validFrom upwards *)
  Theorem get_changes_ao_unlimited c s : cc_inv B F c ->
    snd (get_changes B c s 0 true) = filter (gfilter (vfrom c)) (truth B s).
  Proof.
    intros I. destruct (get_changes_sound B F c s 0%nat true W I) as [Hs [_ Hin]].
    apply sorted_ext_eq; auto. { apply sorted_filter, truth_sorted, (tw_seq _ _ W). }
    intros x; rewrite filter_In, truth_In; split.
    - intros H. destruct (Hin x H). repeat split; auto.
      + eapply get_changes_rows_latest; eauto.
      + eapply get_changes_ao_shape; eauto.
    - intros [[Bx [Lx Hx]] Hg]. unfold gfilter in Hg. apply orb_true_iff in Hg as [Ha|Hv].
      + apply (get_changes_complete B F c s true W I); auto.
      + apply get_changes_returns_cached; auto. apply (inv_complete _ _ _ I); auto. apply N.leb_le; auto.
  Qed.

  (* ---------- one interface, two implementations ---------- *)
  Hypothesis Hb : seq_bounded B.

  Definition sc_inv (sc : scache) : Prop :=
    match sc with SCache c => cc_inv B F c | SBypass => True end.

  Definition sc_full (sc : scache) (s : N) (ao : bool) : list entry :=
    match ao, sc with
    | false, _ => truth B s
    | true, SCache c => filter (gfilter (vfrom c)) (truth B s)
    | true, SBypass => filter is_active (truth B s)
    end.

  Lemma sc_full_sub sc s ao x : In x (sc_full sc s ao) -> In x (truth B s).
  Proof. unfold sc_full. destruct ao, sc; auto; intros H; apply filter_In in H; tauto. Qed.

  Lemma sc_full_sorted sc s ao : sorted (sc_full sc s ao).
  Proof.
    pose proof (truth_sorted B s (tw_seq _ _ W)). unfold sc_full. destruct ao, sc; auto; apply sorted_filter; auto.
  Qed.

  Lemma truth_later' s s' : s <= s' -> truth B s' = filter (fun e => s' <? e_seq e) (truth B s).
  Proof.
    intros Hle. apply sorted_ext_eq; [apply truth_sorted, (tw_seq _ _ W) | apply sorted_filter, truth_sorted, (tw_seq _ _ W)|].
    intros x; rewrite filter_In, !truth_In, N.ltb_lt. intuition lia.
  Qed.

  Lemma filter_comm {A} (f g : A -> bool) l : filter f (filter g l) = filter g (filter f l).
  Proof.
    induction l as [|a l IH]; cbn; auto. destruct (f a) eqn:Ef, (g a) eqn:Eg; cbn; rewrite ?Ef, ?Eg, IH; auto.
  Qed.

  Lemma sc_full_later sc s s' ao : s <= s' ->
    sc_full sc s' ao = filter (fun e => s' <? e_seq e) (sc_full sc s ao).
  Proof.
    intros Hle. unfold sc_full. rewrite (truth_later' s s' Hle). destruct ao, sc; auto; apply filter_comm.
  Qed.

  Lemma sc_full_length sc s ao : (length (sc_full sc s ao) <= length B)%nat.
  Proof.
    apply sorted_incl_length; [apply sc_full_sorted|]. intros x Hx. apply sc_full_sub, truth_In in Hx. tauto.
  Qed.

  (* one GetChanges call with a page limit *)
  Lemma sc_page sc s n ao : sc_inv sc -> n <> 0%nat ->
    sc_inv (fst (sc_get_changes B sc s n ao)) /\
    (ao = true -> fst (sc_get_changes B sc s n ao) = sc) /\
    (snd (sc_get_changes B sc s n ao) = firstn n (sc_full sc s ao) \/
     (ao = true /\ snd (sc_get_changes B sc s n ao) = sc_full sc s ao)).
  Proof.
    intros I Hn. destruct sc as [c|]; cbn [sc_get_changes sc_inv] in *.
    - pose proof (get_changes_inv B F c s n ao W I) as I'.
      destruct (get_changes B c s n ao) as [c' rows] eqn:EG; cbn [fst snd] in *.
      assert (rows = snd (get_changes B c s n ao)) as Er by (rewrite EG; auto).
      assert (c' = fst (get_changes B c s n ao)) as Ec by (rewrite EG; auto).
      split; [exact I'|]. split.
      + intros ->. rewrite Ec, get_changes_ao_state. reflexivity.
      + destruct ao; cbn [sc_full].
        * rewrite Er, get_changes_ao_limit by auto. rewrite get_changes_ao_unlimited by auto.
          destruct (fst (get_cached c s 0) <=? s + 1); [right; auto | left].
          destruct n; [congruence | reflexivity].
        * left. rewrite Er, (get_changes_quiescent_limit B F) by auto. destruct n; [congruence | reflexivity].
    - split; [exact Logic.I|]. split; [reflexivity|]. left. destruct ao; cbn [sc_full].
      + rewrite bypass_active by auto. destruct n; [congruence | reflexivity].
      + rewrite bypass_plain by auto. destruct n; [congruence | reflexivity].
  Qed.

  (* ---------- the loop ---------- *)
  Lemma feed_loop_S fuel ch reqlimit qlimit ao sc s lastseq trig sent :
    feed_loop (S fuel) B ch reqlimit qlimit ao sc s lastseq trig sent =
      let lim := if (reqlimit =? 0)%nat || ao then qlimit else Nat.min (reqlimit - sent) qlimit in
      let '(sc1, changes) := sc_get_changes B sc s lim ao in
      let '(trig1, rows) := emit ch trig changes in
      let lastseq1 := match last_opt changes with Some e => e_seq e | None => lastseq end in
      if (length changes <? lim)%nat then (sc1, rows)
      else
        let sent1 := if ao then sent else (sent + length rows)%nat in
        if negb ao && (0 <? reqlimit)%nat && (reqlimit <=? sent1)%nat then (sc1, rows)
        else
          let '(sc2, more) := feed_loop fuel B ch reqlimit qlimit ao sc1 lastseq1 lastseq1 trig1 sent1 in
          (sc2, rows ++ more).
  Proof. reflexivity. Qed.

  Section Loop.
    Variables (ch : N) (reqlimit qlimit : nat) (ao : bool).
    Hypothesis Hq : (1 <= qlimit)%nat.

    Lemma feed_loop_spec : forall fuel sc s lastseq trig sent,
      sc_inv sc -> (length (sc_full sc s ao) < fuel)%nat ->
      (ao = false -> reqlimit <> 0%nat -> (sent < reqlimit)%nat) ->
      let out := feed_loop fuel B ch reqlimit qlimit ao sc s lastseq trig sent in
      sc_inv (fst out) /\ (ao = true -> fst out = sc) /\
      exists k, snd out = snd (emit ch trig (firstn k (sc_full sc s ao))) /\
        ((length (sc_full sc s ao) <= k)%nat \/
         (ao = false /\ reqlimit <> 0%nat /\ (reqlimit <= sent + length (snd out))%nat)) /\
        (trig = 0 -> ao = false -> reqlimit <> 0%nat -> (k <= reqlimit - sent)%nat).
    Proof.
      induction fuel as [|fuel IH]; intros sc s lastseq trig sent I Hf Hsent; [lia|].
      cbv zeta. rewrite feed_loop_S. cbv zeta.
      set (lim := if (reqlimit =? 0)%nat || ao then qlimit else Nat.min (reqlimit - sent) qlimit).
      set (G := sc_full sc s ao) in *.
      assert (lim <> 0%nat) as Hlim.
      { unfold lim. destruct (reqlimit =? 0)%nat eqn:E0; cbn [orb]; [lia|]. destruct ao; [lia|].
        apply Nat.eqb_neq in E0. specialize (Hsent eq_refl E0). lia. }
      assert (ao = false -> reqlimit <> 0%nat -> (lim <= reqlimit - sent)%nat) as Hlim2.
      { intros -> H0. unfold lim. apply Nat.eqb_neq in H0. rewrite H0. cbn [orb]. lia. }
      destruct (sc_page sc s lim ao I Hlim) as [I1 [Esc Hp]].
      destruct (sc_get_changes B sc s lim ao) as [sc1 p] eqn:EG; cbn [fst snd] in *. fold G in Hp.
      destruct (emit ch trig p) as [trig1 rows] eqn:EE.
      assert (p = firstn (length p) G) as Hpre.
      { destruct Hp as [->|[_ ->]]; [symmetry; apply firstn_length_self | symmetry; apply firstn_all]. }
      assert (rows = snd (emit ch trig (firstn (length p) G))) as Hrows by (rewrite <- Hpre, EE; auto).
      destruct (length p <? lim)%nat eqn:Elt; cbn [fst snd].
      - (* a short page: everything has been read *)
        apply Nat.ltb_lt in Elt.
        assert (p = G) as EpG.
        { destruct Hp as [Hp|[_ Hp]]; auto. rewrite Hp. apply firstn_all2.
          rewrite Hp, firstn_length in Elt. lia. }
        split; [exact I1|]. split; [exact Esc|]. exists (length G).
        rewrite firstn_all, <- EpG, EE. split; [reflexivity|]. split; [left; lia|].
        intros _ Ha H0. specialize (Hlim2 Ha H0). lia.
      - apply Nat.ltb_ge in Elt.
        destruct (negb ao && (0 <? reqlimit)%nat && (reqlimit <=? (if ao then sent else (sent + length rows)%nat))%nat) eqn:Est;
          cbn [fst snd].
        + (* the request limit has been reached *)
          apply andb_true_iff in Est as [Est E3]. apply andb_true_iff in Est as [E1 E2].
          apply negb_true_iff in E1. subst ao. apply Nat.ltb_lt in E2. apply Nat.leb_le in E3.
          split; [exact I1|]. split; [discriminate|]. exists (length p).
          split; [exact Hrows|]. split; [right; repeat split; auto; lia|].
          intros _ _ H0. specialize (Hlim2 eq_refl H0).
          destruct Hp as [Hp|[Hp _]]; [|discriminate]. rewrite Hp, firstn_length. lia.
        + (* next page, from the last sequence of this one *)
          assert (p <> []) as Hne by (intros ->; cbn in Elt; lia).
          destruct (last_opt_nonempty p Hne) as [x Hx]. rewrite Hx.
          assert (In x G) as HxG by (rewrite Hpre in Hx; apply last_opt_In in Hx; eapply firstn_incl; eauto).
          assert (s < e_seq x) as Hsx by (apply sc_full_sub, truth_In in HxG; tauto).
          assert (sc_full sc1 (e_seq x) ao = skipn (length p) G) as EG'.
          { assert (sc_full sc1 (e_seq x) ao = sc_full sc (e_seq x) ao) as ->.
            { destruct ao; [rewrite Esc; auto | reflexivity]. }
            rewrite (sc_full_later sc s (e_seq x) ao) by lia. fold G.
            apply sorted_prefix_later; [apply sc_full_sorted | rewrite <- Hpre; auto]. }
          set (sent1 := if ao then sent else (sent + length rows)%nat) in *.
          assert (ao = false -> reqlimit <> 0%nat -> (sent1 < reqlimit)%nat) as Hsent1.
          { intros Ha H0. subst ao. cbn [negb andb] in Est. apply andb_false_iff in Est as [E|E].
            - apply Nat.ltb_ge in E. lia.
            - apply Nat.leb_gt in E. exact E. }
          assert (length (sc_full sc1 (e_seq x) ao) < fuel)%nat as Hf'.
          { rewrite EG', skipn_length.
            assert (length p <= length G)%nat as Hpl by (rewrite Hpre at 1; rewrite firstn_length; lia).
            assert (length p <> 0)%nat by (destruct p; [congruence | discriminate]). lia. }
          specialize (IH sc1 (e_seq x) (e_seq x) trig1 sent1 I1 Hf' Hsent1). cbv zeta in IH.
          destruct (feed_loop fuel B ch reqlimit qlimit ao sc1 (e_seq x) (e_seq x) trig1 sent1) as [sc2 more] eqn:EL.
          cbn [fst snd] in *. destruct IH as [I2 [Esc2 [k' [Emore [Hend Hk']]]]].
          split; [exact I2|]. split; [intros Ha; rewrite Esc2, Esc; auto|].
          exists (length p + k')%nat. rewrite firstn_plus, <- Hpre, <- EG', emit_app, EE. cbn [fst snd].
          split; [rewrite Emore; reflexivity|]. split.
          * destruct Hend as [Hend|[Ha [H0 Hend]]].
            -- left. rewrite EG', skipn_length in Hend. lia.
            -- right. repeat split; auto. rewrite app_length. subst ao. unfold sent1 in Hend. lia.
          * intros Ht Ha H0. subst trig. clear Hrows. rewrite emit_zero in EE. inversion EE; subst trig1 rows.
            specialize (Hk' eq_refl Ha H0). subst ao. unfold sent1 in *. rewrite map_length in *.
            specialize (Hsent1 eq_refl H0). lia.
    Qed.
  End Loop.

  (* ---------- the theorems ---------- *)
  (* plain request, no back-fill: the loop returns exactly the first [reqlimit] rows of the truth,
     whatever the query limit and whichever cache implementation serves it *)
  Theorem paginate_eq ch sc since reqlimit qlimit :
    sc_inv sc -> (1 <= qlimit)%nat -> TriggeredBy since = 0 ->
    snd (changes_feed B ch sc since reqlimit false qlimit)
    = map (feed_row ch 0) (take reqlimit (truth B (SafeSequence since))).
  Proof.
    intros I Hq Ht. unfold changes_feed. rewrite Ht.
    destruct (feed_loop_spec ch reqlimit qlimit false Hq (S (length B)) sc (SafeSequence since) 0 0 0%nat I) as [_ [_ [k [E [Hend Hk]]]]].
    { pose proof (sc_full_length sc (SafeSequence since) false). lia. }
    { intros _ H0. lia. }
    cbv zeta in *. rewrite E, emit_zero. cbn [snd sc_full] in *. f_equal.
    set (G := truth B (SafeSequence since)) in *.
    destruct reqlimit as [|r]; cbn [take].
    - destruct Hend as [Hend|[_ [H0 _]]]; [apply firstn_all2; auto | congruence].
    - specialize (Hk eq_refl eq_refl). assert (k <= S r)%nat as Hk' by (apply Hk; discriminate).
      destruct Hend as [Hend|[_ [_ Hend]]].
      + rewrite !firstn_all2 by lia. reflexivity.
      + rewrite E, emit_zero in Hend. cbn [snd] in Hend. rewrite map_length, firstn_length in Hend.
        assert (k = S r) by lia. subst k. reflexivity.
  Qed.

  (* active_only: the loop returns the whole active_only answer of one unlimited call (the request
     limit is applied by the merge loop after its own filtering) *)
  Theorem paginate_eq_active_only ch sc since reqlimit qlimit :
    sc_inv sc -> (1 <= qlimit)%nat ->
    snd (changes_feed B ch sc since reqlimit true qlimit)
    = snd (emit ch (TriggeredBy since) (sc_full sc (SafeSequence since) true)) /\
    fst (changes_feed B ch sc since reqlimit true qlimit) = sc.
  Proof.
    intros I Hq. unfold changes_feed.
    destruct (feed_loop_spec ch reqlimit qlimit true Hq (S (length B)) sc (SafeSequence since) 0 (TriggeredBy since) 0%nat I) as [_ [Esc [k [E [Hend _]]]]].
    { pose proof (sc_full_length sc (SafeSequence since) true). lia. }
    { discriminate. }
    cbv zeta in *. split; [|apply Esc; auto]. rewrite E.
    destruct Hend as [Hend|[Ha _]]; [|discriminate]. rewrite firstn_all2 by auto. reflexivity.
  Qed.

  (* any since token (TriggeredBy included): the rows are the emission of a prefix of the truth,
     all of it unless the request limit was reached *)
  Theorem paginate_prefix ch sc since reqlimit qlimit :
    sc_inv sc -> (1 <= qlimit)%nat ->
    let out := snd (changes_feed B ch sc since reqlimit false qlimit) in
    exists k, out = snd (emit ch (TriggeredBy since) (firstn k (truth B (SafeSequence since)))) /\
      ((length (truth B (SafeSequence since)) <= k)%nat \/ (reqlimit <> 0%nat /\ (reqlimit <= length out)%nat)).
  Proof.
    intros I Hq. cbv zeta. unfold changes_feed.
    destruct (feed_loop_spec ch reqlimit qlimit false Hq (S (length B)) sc (SafeSequence since) 0 (TriggeredBy since) 0%nat I) as [_ [_ [k [E [Hend _]]]]].
    { pose proof (sc_full_length sc (SafeSequence since) false). lia. }
    { intros _ H0. lia. }
    cbv zeta in *. cbn [sc_full] in *. exists k. split; auto.
    destruct Hend as [Hend|[_ [H0 Hend]]]; [left; auto | right; split; auto].
  Qed.

  Theorem changes_feed_inv ch sc since reqlimit ao qlimit :
    sc_inv sc -> (1 <= qlimit)%nat -> sc_inv (fst (changes_feed B ch sc since reqlimit ao qlimit)).
  Proof.
    intros I Hq. unfold changes_feed.
    destruct (feed_loop_spec ch reqlimit qlimit ao Hq (S (length B)) sc (SafeSequence since) 0 (TriggeredBy since) 0%nat I) as [I' _]; auto.
    { pose proof (sc_full_length sc (SafeSequence since) ao). lia. }
    { intros _ H0. lia. }
  Qed.

  (* ---------- the bypass cache answers like any channel cache ---------- *)
  Theorem bypass_equals_cached c since n : cc_inv B F c ->
    bypass_get_changes B since n false = snd (get_changes B c since n false).
  Proof. intros I. rewrite bypass_plain by auto. symmetry. apply (get_changes_quiescent_limit B F); auto. Qed.

  Theorem bypass_equals_cached_active_only c since : cc_inv B F c ->
    bypass_get_changes B since 0 true = filter is_active (snd (get_changes B c since 0 true)).
  Proof.
    intros I. rewrite bypass_active by auto. cbn [take].
    symmetry. apply (get_changes_quiescent_active_only B F); auto.
  Qed.

  (* ... and so do the feeds built on them, for any two query limits *)
  Theorem bypass_feed_equals_cached_feed ch c since reqlimit q1 q2 :
    cc_inv B F c -> (1 <= q1)%nat -> (1 <= q2)%nat -> TriggeredBy since = 0 ->
    snd (changes_feed B ch SBypass since reqlimit false q1)
    = snd (changes_feed B ch (SCache c) since reqlimit false q2).
  Proof. intros I H1 H2 Ht. rewrite !paginate_eq; auto; exact Logic.I. Qed.
End Quiescent.

(* ---------- all operation lists, feeds included (no quiescence needed for the invariant) ---------- *)
Definition sc_inv' (B F : list entry) (sc : scache) : Prop :=
  match sc with SCache c => cc_inv B F c | SBypass => True end.

Lemma sc_get_changes_inv B F sc s n ao :
  truth_wf B F -> sc_inv' B F sc -> sc_inv' B F (fst (sc_get_changes B sc s n ao)).
Proof.
  intros W I. destruct sc as [c|]; cbn [sc_get_changes]; [|exact Logic.I].
  pose proof (get_changes_inv B F c s n ao W I) as H.
  destruct (get_changes B c s n ao) as [c' rows]; cbn [fst] in *. exact H.
Qed.

Definition same_kind (a b : scache) : Prop :=
  match a, b with SCache _, SCache _ => True | SBypass, SBypass => True | _, _ => False end.

Lemma same_kind_refl a : same_kind a a. Proof. destruct a; exact Logic.I. Qed.
Lemma same_kind_trans a b c : same_kind a b -> same_kind b c -> same_kind a c.
Proof. destruct a, b, c; cbn; auto. Qed.

Lemma sc_get_changes_kind B sc s n ao : same_kind sc (fst (sc_get_changes B sc s n ao)).
Proof.
  destruct sc as [c|]; cbn [sc_get_changes]; [|exact Logic.I]. destruct (get_changes B c s n ao); exact Logic.I.
Qed.

Lemma feed_loop_inv B F ch reqlimit qlimit ao : truth_wf B F ->
  forall fuel sc s lastseq trig sent, sc_inv' B F sc ->
  sc_inv' B F (fst (feed_loop fuel B ch reqlimit qlimit ao sc s lastseq trig sent)) /\
  same_kind sc (fst (feed_loop fuel B ch reqlimit qlimit ao sc s lastseq trig sent)).
Proof.
  intros W. induction fuel as [|fuel IH]; intros sc s lastseq trig sent I.
  - cbn [feed_loop fst]. split; auto using same_kind_refl.
  - cbn [feed_loop]. cbv zeta.
    set (lim := if (reqlimit =? 0)%nat || ao then qlimit else Nat.min (reqlimit - sent) qlimit).
    pose proof (sc_get_changes_inv B F sc s lim ao W I) as I1.
    pose proof (sc_get_changes_kind B sc s lim ao) as K1.
    destruct (sc_get_changes B sc s lim ao) as [sc1 p]; cbn [fst] in *.
    destruct (emit ch trig p) as [trig1 rows].
    destruct (length p <? lim)%nat; cbn [fst]; [split; auto|].
    destruct (negb ao && (0 <? reqlimit)%nat && (reqlimit <=? (if ao then sent else (sent + length rows)%nat))%nat);
      cbn [fst]; [split; auto|].
    set (ls := match last_opt p with Some e => e_seq e | None => lastseq end).
    destruct (IH sc1 ls ls trig1 (if ao then sent else (sent + length rows)%nat) I1) as [I2 K2].
    destruct (feed_loop fuel B ch reqlimit qlimit ao sc1 ls ls trig1 (if ao then sent else (sent + length rows)%nat)) as [sc2 more].
    cbn [fst] in *. split; auto. eapply same_kind_trans; eauto.
Qed.

Definition wf_xop (s : sys) (o : xop) : Prop :=
  match o with XBase b => wf_op s b | _ => True end.

Fixpoint wf_xops (s : sys) (ops : list xop) : Prop :=
  match ops with
  | [] => True
  | o :: r => wf_xop s o /\ wf_xops (fst (xstep s o)) r
  end.

Lemma xstep_inv s o : sys_inv s -> wf_xop s o -> sys_inv (fst (xstep s o)).
Proof.
  intros SI Hw. destruct o; cbn [xstep wf_xop] in *.
  - pose proof (step_inv s o SI Hw) as H. destruct (step s o); cbn [fst] in *; auto.
  - destruct SI as [W I]. unfold changes_feed.
    destruct (feed_loop_inv (s_B s) (s_F s) comp_chan reqlimit qlimit ao W (S (length (s_B s))) (SCache (s_c s))
                (SafeSequence (mk t l s0)) 0 (TriggeredBy (mk t l s0)) 0%nat I) as [I' K].
    destruct (feed_loop (S (length (s_B s))) (s_B s) comp_chan reqlimit qlimit ao (SCache (s_c s))
                (SafeSequence (mk t l s0)) 0 (TriggeredBy (mk t l s0)) 0) as [sc rows]; cbn [fst] in *.
    destruct sc as [c'|]; [|destruct K]. constructor; cbn; auto.
  - exact SI.
  - exact SI.
Qed.

Theorem xrun_inv : forall ops s, sys_inv s -> wf_xops s ops -> sys_inv (xrun s ops).
Proof.
  induction ops as [|o r IH]; cbn; auto. intros s I [Hw Hr]. apply IH; auto. apply xstep_inv; auto.
Qed.

Lemma xstep_B s o : match o with XBase _ => True | _ => s_B (fst (xstep s o)) = s_B s /\ s_F (fst (xstep s o)) = s_F s end.
Proof.
  destruct o; auto; cbn [xstep]; auto.
  destruct (changes_feed (s_B s) comp_chan (SCache (s_c s)) (mk t l s0) reqlimit ao qlimit); cbn; auto.
Qed.

(* ---------- "the loop returns the same rows as one unlimited call" ---------- *)
Theorem paginate_eq_cache B F ch c since reqlimit qlimit :
  truth_wf B F -> cc_inv B F c -> quiescent B F -> seq_bounded B ->
  (1 <= qlimit)%nat -> TriggeredBy since = 0 ->
  snd (changes_feed B ch (SCache c) since reqlimit false qlimit)
  = map (feed_row ch 0) (take reqlimit (snd (get_changes B c (SafeSequence since) 0 false))).
Proof.
  intros W I Q Hb Hq Ht. rewrite (paginate_eq B F W Q Hb) by auto.
  rewrite (get_changes_quiescent B F) by auto. reflexivity.
Qed.

Theorem paginate_eq_active_only_cache B F ch c since reqlimit qlimit :
  truth_wf B F -> cc_inv B F c -> quiescent B F -> seq_bounded B -> (1 <= qlimit)%nat ->
  snd (changes_feed B ch (SCache c) since reqlimit true qlimit)
  = snd (emit ch (TriggeredBy since) (snd (get_changes B c (SafeSequence since) 0 true))) /\
  fst (changes_feed B ch (SCache c) since reqlimit true qlimit) = SCache c.
Proof.
  intros W I Q Hb Hq. destruct (paginate_eq_active_only B F W Q Hb ch (SCache c) since reqlimit qlimit I Hq) as [E1 E2].
  split; auto. rewrite E1. cbn [sc_full]. rewrite (get_changes_ao_unlimited B F) by auto. reflexivity.
Qed.

(* after ANY operation list -- cache operations, reads, feed runs over the cache and over the bypass
   cache in any order -- that leaves nothing undelivered: a feed with any query limit returns the
   first [reqlimit] rows of the truth *)
Theorem feed_after_any_history vf maxl minl ops since reqlimit qlimit :
  (1 <= maxl)%nat -> wf_xops (init_sys vf maxl minl) ops ->
  let s := xrun (init_sys vf maxl minl) ops in
  quiescent (s_B s) (s_F s) -> seq_bounded (s_B s) -> (1 <= qlimit)%nat -> TriggeredBy since = 0 ->
  snd (changes_feed (s_B s) comp_chan (SCache (s_c s)) since reqlimit false qlimit)
  = map (feed_row comp_chan 0) (take reqlimit (truth (s_B s) (SafeSequence since))) /\
  snd (changes_feed (s_B s) comp_chan SBypass since reqlimit false qlimit)
  = map (feed_row comp_chan 0) (take reqlimit (truth (s_B s) (SafeSequence since))).
Proof.
  intros Hm Hw s Q Hb Hq Ht.
  pose proof (xrun_inv ops _ (init_sys_inv vf maxl minl Hm) Hw) as [W I]. fold s in W, I.
  split; apply (paginate_eq _ (s_F s)); auto; exact Logic.I.
Qed.
