(* C01, layer 2: the merge loop of SimpleMultiChangesFeed (db/changes.go) as a pure function over
   per-channel feeds.

   Each feed is the list of ChangeEntry rows one changesFeed goroutine (or the user pseudo-feed)
   would send, in order.  One iteration of the Go loop: fill current[] with the head of every feed;
   pick the FIRST head that is minimal w.r.t. SequenceID.Before (the order regenerated from
   db/sequence_id.go by C20); clear every head whose Seq is EQUAL to it, uniting their Removed sets
   (allRemoved iff every one of them carries a removal); apply the active_only filter, the
   high-cached-sequence filter; stamp the low sequence; send; count the limit.
   MaxSequenceID, the initial value of minSeq, is not modelled: every token of a feed is Before it
   (sequence numbers below 2^64-1). *)
From SG Require Import Base.Prelude C20.SeqIdGen C20.SeqId.
Open Scope N_scope.

Record row := mkR {
  r_seq : seqid; r_id : N; r_rev : N; r_del : bool;
  r_rm : list N;          (* Removed: [] is the nil set *)
  r_revoked : bool; r_allrm : bool }.

(* channel-name sets as ascending duplicate-free lists *)
Fixpoint set_add (x : N) (l : list N) : list N :=
  match l with
  | [] => [x]
  | y :: r => if x <? y then x :: l else if x =? y then l else y :: set_add x r
  end.
Definition set_union (a b : list N) : list N := fold_right set_add a b.

Definition is_nil {A} (l : list A) : bool := match l with [] => true | _ => false end.

Definition heads (feeds : list (list row)) : list row :=
  flat_map (fun f => match f with [] => [] | h :: _ => [h] end) feeds.

(* "if cur != nil && cur.Seq.Before(minSeq) { minSeq = cur.Seq; minEntry = cur }" *)
Definition min_step (best : option row) (h : row) : option row :=
  match best with
  | None => Some h
  | Some b => if before (r_seq h) (r_seq b) then Some h else best
  end.
Definition min_row (hs : list row) : option row := fold_left min_step hs None.

Definition pop (m : seqid) (f : list row) : list row :=
  match f with
  | h :: t => if seqid_eqb (r_seq h) m then t else f
  | [] => []
  end.

Definition same_as (m : row) (hs : list row) : list row :=
  filter (fun h => seqid_eqb (r_seq h) (r_seq m)) hs.

Definition group (m : row) (hs : list row) : row :=
  let same := same_as m hs in
  mkR (r_seq m) (r_id m) (r_rev m) (r_del m)
      (fold_left (fun acc h => set_union acc (r_rm h)) same [])
      (r_revoked m)
      (negb (is_nil (r_rm m)) && forallb (fun h => negb (is_nil (r_rm h))) same).

Definition total (feeds : list (list row)) : nat := length (concat feeds).

(* the merged groups, before filters *)
Fixpoint merge_all (fuel : nat) (feeds : list (list row)) : list row :=
  match fuel with
  | O => []
  | S k =>
      match min_row (heads feeds) with
      | None => []
      | Some m => group m (heads feeds) :: merge_all k (map (pop (r_seq m)) feeds)
      end
  end.

(* active_only and the high-cached-sequence filter *)
Definition keep (ao : bool) (hi : N) (r : row) : bool :=
  negb (ao && (r_del r || r_allrm r))
  && negb ((hi <? Seq (r_seq r)) && negb (r_revoked r && (TriggeredBy (r_seq r) <=? hi))).

Definition stamp_row (low : N) (r : row) : row :=
  mkR (mk (TriggeredBy (r_seq r)) low (Seq (r_seq r))) (r_id r) (r_rev r) (r_del r) (r_rm r) (r_revoked r) (r_allrm r).

(* the loop as written: filters inside, limit counted on sent rows only; limit 0 = none *)
Fixpoint merge_loop (fuel : nat) (feeds : list (list row)) (ao : bool) (hi : N) (limit : nat) (low : N) : list row :=
  match fuel with
  | O => []
  | S k =>
      match min_row (heads feeds) with
      | None => []
      | Some m =>
          let g := group m (heads feeds) in
          let feeds' := map (pop (r_seq m)) feeds in
          if keep ao hi g then
            stamp_row low g ::
              match limit with
              | O => merge_loop k feeds' ao hi O low
              | S O => []
              | S l => merge_loop k feeds' ao hi l low
              end
          else merge_loop k feeds' ao hi limit low
      end
  end.

Definition merge_feeds (feeds : list (list row)) (ao : bool) (hi : N) (limit : nat) (low : N) : list row :=
  merge_loop (total feeds) feeds ao hi limit low.
