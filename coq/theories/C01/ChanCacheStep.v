(* C01: prependChanges and GetChanges preserve cc_inv; the invariant holds after every operation
   list (induction over ALL op lists). *)
From Coq Require Import Sorting.Sorted Sorting.Permutation.
From SG Require Import Base.Prelude C01.ChanCache C01.ChanCacheLists C01.ChanCacheTruth C01.ChanCacheInv.
Open Scope N_scope.

Lemma fold_doc_add_In ch : forall ds d,
  In d (fold_left (fun ds x => doc_add (e_doc x) ds) ch ds) <-> In d ds \/ In d (map e_doc ch).
Proof.
  induction ch as [|x ch IH]; cbn; intros ds d; [tauto|].
  rewrite IH, doc_add_In; intuition.
Qed.

(* the backward loop of prependChanges over a complete, descending list of latest entries *)
Ltac splits := repeat match goal with |- _ /\ _ => split end.

Lemma prep_loop_spec vf cap : forall rch acc ds cvf acc' ds' v',
  prep_loop vf cap rch acc ds cvf = (acc', ds', v') ->
  sorted (rev rch) -> NoDup (map e_doc rch) ->
  sorted acc -> NoDup (map e_doc acc) -> (forall d, In d ds <-> In d (map e_doc acc)) ->
  (forall y, In y rch -> e_seq y < vf -> forall x, In x acc -> e_seq y < e_seq x) ->
  (forall y, In y rch -> e_seq y < vf -> forall x, In x acc -> e_doc x <> e_doc y) ->
  (forall y, In y rch -> cvf <= e_seq y) ->
  (length acc < cap)%nat ->
  sorted acc' /\ NoDup (map e_doc acc') /\ (forall d, In d ds' <-> In d (map e_doc acc')) /\
  (length acc' <= cap)%nat /\ (forall x, In x acc -> In x acc') /\
  (v' = cvf \/ exists y, In y rch /\ v' = e_seq y /\ e_seq y < vf) /\
  (forall x, In x acc' -> In x acc \/ (In x rch /\ e_seq x < vf /\ v' <= e_seq x)) /\
  (forall y, In y rch -> e_seq y < vf -> v' <= e_seq y -> In y acc').
Proof.
  induction rch as [|x r IH]; intros acc ds cvf acc' ds' v' E Hs Hn Sa Na Da HJ HK Hge Hlen.
  - cbn in E; inv E. splits; auto; try lia; try tauto; intros y [].
  - cbn [prep_loop] in E. cbn [rev] in Hs. apply sorted_app in Hs as [Hs [_ Hdesc]].
    cbn [map] in Hn. inv Hn.
    assert (forall z, In z r -> e_seq z < e_seq x) as Hd.
    { intros z Hz; apply Hdesc; [apply in_rev in Hz; auto | cbn; auto]. }
    destruct (e_seq x <? vf) eqn:Ev.
    + assert (memN (e_doc x) ds = false) as Em.
      { apply memN_false; intros Hin; apply Da in Hin; apply in_map_iff in Hin as [z [Ez Hz]].
        eapply (HK x); cbn; eauto; lia. }
      rewrite Em in E; cbn [negb andb] in E.
      assert (sorted (x :: acc)) as Sa'.
      { apply sorted_cons; auto. intros y Hy; apply (HJ x); cbn; auto; lia. }
      assert (NoDup (map e_doc (x :: acc))) as Na'.
      { cbn; constructor; auto. intros Hin; apply in_map_iff in Hin as [z [Ez Hz]]. eapply (HK x); cbn; eauto; lia. }
      assert (forall d, In d (doc_add (e_doc x) ds) <-> In d (map e_doc (x :: acc))) as Da'.
      { intros d; rewrite doc_add_In, Da; cbn; intuition. }
      destruct (cap <=? length (x :: acc))%nat eqn:Ec.
      * inv E. apply Nat.leb_le in Ec. cbn [length] in *.
        splits; auto; try lia.
        -- intros z Hz; right; auto.
        -- right; exists x; cbn; splits; auto; lia.
        -- intros z [<-|Hz]; [right; cbn; splits; auto; lia | auto].
        -- intros y [<-|Hy] Hyv Hle; [left; auto|]. apply Hd in Hy; lia.
      * apply Nat.leb_gt in Ec.
        destruct (IH _ _ _ _ _ _ E) as [C1 [C2 [C3 [C4 [C5 [C6 [C7 C8]]]]]]]; auto.
        -- intros y Hy Hyv z [<-|Hz]; [apply Hd; auto | apply (HJ y); cbn; auto].
        -- intros y Hy Hyv z [<-|Hz]; [intros Ed; apply H1; rewrite Ed; apply in_map; auto | apply (HK y); cbn; auto].
        -- intros y Hy; apply Hge; cbn; auto.
        -- assert (v' <= e_seq x) as Hvx.
           { destruct C6 as [->|[y [Hy [-> _]]]]; [apply Hge; cbn; auto | apply Hd in Hy; lia]. }
           splits; auto.
           ++ intros z Hz; apply C5; cbn; auto.
           ++ destruct C6 as [|[y [Hy Hy2]]]; auto. right; exists y; cbn; auto.
           ++ intros z Hz; apply C7 in Hz as [[<-|Hz]|[Hz Hz2]]; auto.
              ** right; cbn; splits; auto; lia.
              ** right; cbn; tauto.
           ++ intros y [<-|Hy] Hyv Hle; [apply C5; cbn; auto | auto].
    + cbn [andb] in E.
      destruct (IH _ _ _ _ _ _ E) as [C1 [C2 [C3 [C4 [C5 [C6 [C7 C8]]]]]]]; auto.
      * intros y Hy; apply HJ; cbn; auto.
      * intros y Hy; apply HK; cbn; auto.
      * intros y Hy; apply Hge; cbn; auto.
      * splits; auto.
        -- destruct C6 as [|[y [Hy Hy2]]]; auto. right; exists y; cbn; auto.
        -- intros z Hz; apply C7 in Hz as [Hz|[Hz Hz2]]; auto. right; cbn; tauto.
        -- intros y [<-|Hy] Hyv Hle; [lia | auto].
Qed.

(* prependChanges with the complete query result for [a, b] *)
Lemma prepend_inv B F c a b :
  truth_wf B F -> cc_inv B F c -> cc_inv B F (prepend c (qall B a b) a b).
Proof.
  intros W I. pose proof I as [Is In_ Id Il Im Ig Iso Ic]. pose proof (tw_seq _ _ W) as Hn.
  pose proof (qall_sorted B a b Hn) as Qs. pose proof (qall_NoDup_doc B a b Hn) as Qn.
  assert (forall x, In x (qall B a b) -> In x B /\ is_latest B x = true /\ a <= e_seq x /\ e_seq x <= b) as Qin
    by (intros x; apply qall_In).
  unfold prepend. destruct (qall B a b) as [|q0 Q'] eqn:EQ.
  - (* empty result: only validFrom may move *)
    destruct ((a <? vfrom c) && (vfrom c <=? b)) eqn:E; auto.
    apply andb_true_iff in E as [E1 E2]. constructor; cbn; auto.
    + intros x Hx; apply Ig in Hx; lia.
    + intros f Hf Lf Hv. destruct (N.le_gt_cases (vfrom c) (e_seq f)); auto.
      exfalso. assert (In f (qall B a b)) as Hq by (apply qall_In; repeat split; auto; [apply (tw_incl _ _ W); auto | lia]).
      rewrite EQ in Hq; destruct Hq.
  - rewrite <- EQ in *. clear EQ q0 Q'. set (Q := qall B a b) in *.
    destruct (b <? vfrom c) eqn:Eb; auto.
    destruct (logs c) as [|l0 L'] eqn:EL.
    + (* empty cache: copy the newest maxlen results *)
      assert (forall x, In x (skipn (length Q - maxlen c) Q) -> In x Q) as Hci by (intros x; apply skipn_incl).
      assert (length (skipn (length Q - maxlen c) Q) = (length Q - (length Q - maxlen c))%nat) as Hcl by apply skipn_length.
      pose proof (sorted_firstn_skipn (length Q - maxlen c) Q) as Hfs.
      pose proof (firstn_skipn (length Q - maxlen c) Q) as Hsp.
      assert (sorted (skipn (length Q - maxlen c) Q)) as Cs by (apply sorted_skipn; auto).
      assert (NoDup (map e_doc (skipn (length Q - maxlen c) Q))) as Cn by (apply NoDup_map_skipn; auto).
      remember (length Q - maxlen c)%nat as excess eqn:Eex.
      remember (skipn excess Q) as ch eqn:Ech.
      assert (forall x, In x ch -> match excess, ch with S _, h :: _ => e_seq h | _, _ => a end <= e_seq x) as Hge.
      { intros x Hx. destruct excess; [apply Hci, Qin in Hx; lia|].
        destruct ch as [|h t]; [destruct Hx|]. destruct Hx as [<-|Hx]; [lia|].
        apply sorted_cons_inv in Cs as [_ Hh]; apply Hh in Hx; lia. }
      constructor; cbn; auto.
      * intros d; rewrite fold_doc_add_In, Id; cbn; tauto.
      * lia.
      * intros x Hx; apply Hci, Qin in Hx; tauto.
      * intros f Hf Lf Hv.
        assert (e_seq f < vfrom c) as Hlt.
        { destruct (N.le_gt_cases (vfrom c) (e_seq f)) as [H|H]; auto. apply Ic in H; auto. destruct H. }
        assert (a <= e_seq f) as Ha.
        { destruct excess; auto. destruct ch as [|h t]; auto.
          assert (In h Q) as Hh by (apply Hci; cbn; auto). apply Qin in Hh; lia. }
        assert (In f Q) as HfQ by (apply qall_In; repeat split; auto; [apply (tw_incl _ _ W); auto | lia]).
        rewrite <- Hsp in HfQ; apply in_app_or in HfQ as [HfQ|HfQ]; auto.
        exfalso. destruct excess; [destruct HfQ|].
        destruct ch as [|h t]; [cbn in Hcl; lia|].
        pose proof (Hfs f h Qs HfQ (or_introl eq_refl)). lia.
    + rewrite <- EL in *.
      destruct (maxlen c - length (logs c) =? 0)%nat eqn:Ecap; auto.
      destruct (vfrom c <=? a) eqn:Ea; auto.
      destruct (prep_loop (vfrom c) (maxlen c) (rev Q) (logs c) (docs c) a) as [[acc ds] v] eqn:EP.
      apply Nat.eqb_neq in Ecap.
      destruct (prep_loop_spec _ _ _ _ _ _ _ _ _ EP) as [C1 [C2 [C3 [C4 [C5 [C6 [C7 C8]]]]]]]; auto.
      * rewrite rev_involutive; auto.
      * rewrite map_rev; apply NoDup_rev; auto.
      * intros y Hy Hyv x Hx; apply Ig in Hx; lia.
      * intros y Hy Hyv x Hx Hd. apply in_rev in Hy. apply Qin in Hy as [By [Ly _]].
        rewrite is_latest_spec in Ly. specialize (Ly x (Iso x Hx) Hd). apply Ig in Hx; lia.
      * intros y Hy; apply in_rev in Hy; apply Qin in Hy; lia.
      * lia.
      * assert (a <= v /\ v < vfrom c) as [Hav Hvv].
        { destruct C6 as [->|[y [Hy [-> Hyv]]]]; [lia|]. apply in_rev in Hy; apply Qin in Hy; lia. }
        constructor; cbn; auto.
        -- intros x Hx; apply C7 in Hx as [Hx|[_ [_ Hx]]]; auto. apply Ig in Hx; lia.
        -- intros x Hx; apply C7 in Hx as [Hx|[Hx _]]; auto. apply in_rev in Hx; apply Qin in Hx; tauto.
        -- intros f Hf Lf Hv. destruct (N.le_gt_cases (vfrom c) (e_seq f)) as [H|H]; [apply C5, Ic; auto|].
           apply C8; auto. apply in_rev; rewrite rev_involutive. apply qall_In; repeat split; auto; [apply (tw_incl _ _ W); auto | lia | lia].
Qed.

(* the (possibly limited) query issued by GetChanges is the complete query up to resultValidTo *)
Lemma limited_query_complete B lo hi limit :
  NoDup (map e_seq B) ->
  let q := query B lo hi limit false in
  let vto := if negb (limit =? 0)%nat && (limit <=? length q)%nat
             then match last_opt q with Some x => e_seq x | None => hi end else hi in
  q = qall B lo vto.
Proof.
  intros Hn q vto. unfold query in q; cbn in q.
  destruct limit as [|n]; [reflexivity|].
  cbn [take] in q. subst vto. cbn [negb Nat.eqb andb].
  destruct (S n <=? length q)%nat eqn:E.
  - destruct (last_opt q) as [x|] eqn:El.
    + apply qall_firstn; auto.
    + apply last_opt_none in El. apply Nat.leb_le in E. rewrite El in E; cbn in E; lia.
  - apply Nat.leb_gt in E. unfold q in *. rewrite firstn_length in E.
    apply firstn_all2; lia.
Qed.

Lemma get_changes_inv B F c since limit ao :
  truth_wf B F -> cc_inv B F c -> cc_inv B F (fst (get_changes B c since limit ao)).
Proof.
  intros W I. unfold get_changes.
  destruct (get_cached c since (if ao then 0%nat else limit)) as [cvf fc].
  destruct (cvf <=? since + 1); cbn [fst]; auto.
  destruct ao; cbn [fst]; auto.
  destruct (length fc <? maxlen c)%nat; auto.
  pose proof (limited_query_complete B (since + 1) cvf limit (tw_seq _ _ W)) as H. cbn zeta in H.
  rewrite H at 1. apply prepend_inv; auto.
Qed.

(* ---------- all operation lists ---------- *)
Record sys_inv (s : sys) : Prop := {
  si_wf : truth_wf (s_B s) (s_F s);
  si_inv : cc_inv (s_B s) (s_F s) (s_c s)
}.

(* what the environment guarantees about each operation *)
Definition wf_op (s : sys) (o : op) : Prop :=
  match o with
  | OWrite e => ~ In (e_seq e) (map e_seq (s_B s))          (* sequences are never reused *)
  | OAdd e r => In (delivered e r) (s_B s)                   (* the feed delivers writes of the channel *)
  | OPrepend ch a b => ch = qall (s_B s) a b                 (* prepend receives a complete query result *)
  | _ => True
  end.

Fixpoint wf_ops (s : sys) (ops : list op) : Prop :=
  match ops with
  | [] => True
  | o :: r => wf_op s o /\ wf_ops (fst (step s o)) r
  end.

Lemma step_inv s o : sys_inv s -> wf_op s o -> sys_inv (fst (step s o)).
Proof.
  intros [W I] Hw. destruct o; cbn [step wf_op] in *.
  - (* write *) cbn [fst]; constructor; cbn.
    + destruct W as [Hn Hi]; constructor; cbn; auto. constructor; auto.
    + apply write_inv; auto.
  - (* deliver *) cbn [fst]; constructor; cbn.
    + destruct W as [Hn Hi]; constructor; auto. intros f [<-|Hf]; auto.
    + apply add_to_cache_inv; auto.
  - (* raw prepend *) cbn [fst]; subst changes; constructor; cbn; auto. apply prepend_inv; auto.
  - (* age pruning *) cbn [fst]; constructor; cbn; auto. apply prune_age_inv; auto.
  - (* purge *) pose proof (purge_inv _ _ _ ds I) as H. destruct (purge (s_c s) ds) as [c' n]; cbn [fst] in *.
    constructor; cbn; auto. apply truth_wf_not_docs; auto.
  - (* cached read *) destruct (get_cached (s_c s) since limit); cbn [fst]; constructor; auto.
  - (* read *) pose proof (get_changes_inv _ _ _ since limit active_only W I) as H.
    destruct (get_changes (s_B s) (s_c s) since limit active_only) as [c' rows]; cbn [fst] in *.
    constructor; cbn; auto.
Qed.

Theorem run_inv : forall ops s, sys_inv s -> wf_ops s ops -> sys_inv (run s ops).
Proof.
  induction ops as [|o r IH]; cbn; auto. intros s I [Hw Hr]. apply IH; auto. apply step_inv; auto.
Qed.

Lemma init_sys_inv vf maxl minl : (1 <= maxl)%nat -> sys_inv (init_sys vf maxl minl).
Proof.
  intros H; constructor; cbn.
  - constructor; cbn; [constructor | tauto].
  - apply init_inv; auto. intros f [].
Qed.

(* ---------- the configured maximum length never changes ---------- *)
Ltac break_matches :=
  repeat match goal with |- context[match ?x with _ => _ end] => destruct x end.

Lemma insert_change_maxlen c e : maxlen (insert_change c e) = maxlen c.
Proof. unfold insert_change; break_matches; reflexivity. Qed.

Lemma append_change_maxlen c e : maxlen (append_change c e) = maxlen c.
Proof. unfold append_change; break_matches; try reflexivity; apply insert_change_maxlen. Qed.

Lemma prune_len_maxlen c : maxlen (prune_len c) = maxlen c.
Proof. unfold prune_len; break_matches; reflexivity. Qed.

Lemma add_to_cache_maxlen c e r : maxlen (add_to_cache c e r) = maxlen c.
Proof.
  unfold add_to_cache. destruct (e_seq e <? vfrom c); auto. rewrite prune_len_maxlen, append_change_maxlen; auto.
Qed.

Lemma prune_age_loop_maxlen aged fuel : forall c, maxlen (prune_age_loop fuel aged c) = maxlen c.
Proof.
  induction fuel as [|n IH]; intros c; cbn [prune_age_loop]; auto.
  destruct (logs c); auto. match goal with |- context[if ?b then _ else _] => destruct b end; auto. rewrite IH; auto.
Qed.

Lemma prune_age_maxlen c aged : maxlen (prune_age c aged) = maxlen c.
Proof. unfold prune_age; destruct (maxlen c <=? minlen c)%nat; auto using prune_age_loop_maxlen. Qed.

Lemma prepend_maxlen c ch a b : maxlen (prepend c ch a b) = maxlen c.
Proof. unfold prepend; break_matches; reflexivity. Qed.

Lemma get_changes_maxlen B c since limit ao : maxlen (fst (get_changes B c since limit ao)) = maxlen c.
Proof.
  unfold get_changes. destruct (get_cached c since (if ao then 0%nat else limit)).
  destruct (n <=? since + 1); cbn [fst]; auto. destruct ao; auto.
  match goal with |- context[if ?b then _ else _] => destruct b end; auto using prepend_maxlen.
Qed.

Lemma step_maxlen s o : maxlen (s_c (fst (step s o))) = maxlen (s_c s).
Proof.
  destruct o; cbn [step].
  - reflexivity.
  - apply add_to_cache_maxlen.
  - apply prepend_maxlen.
  - apply prune_age_maxlen.
  - unfold purge; reflexivity.
  - destruct (get_cached (s_c s) since limit); reflexivity.
  - pose proof (get_changes_maxlen (s_B s) (s_c s) since limit active_only) as H.
    destruct (get_changes (s_B s) (s_c s) since limit active_only); exact H.
Qed.

Lemma run_maxlen ops : forall s, maxlen (s_c (run s ops)) = maxlen (s_c s).
Proof. induction ops as [|o r IH]; intros s; cbn [run]; auto. rewrite IH; apply step_maxlen. Qed.
