(* C01, not a property obligation: a statement the model of the code BEFORE commit 1bb148f violates
   (genuine defect found by this check, now repaired in /repo; known_findings.json: fixed).

   DocChanged (db/change_cache.go) reconstructs, for a mutation the caching feed deduplicated, a
   removal LogEntry with DocID, RevID and Channels; before the repair it never set the Deleted flag,
   so when the deduplicated revision was a DELETION (channels[ch] = {seq, rev, del: true}) a warm
   channel cache answered {seq, id, removed:[ch]} where a cold one (channel query, rDel) answered
   {seq, id, deleted:true, removed:[ch]}.  The witness below is evaluated on the old-code instance of
   the model (doc_changed_gen false); the repaired instance satisfies the statement
   (C01_dedup_removal_is_query_entry).  The harness monitor dedup_reconstruction, signature
   deduplicated-deletion-removal-lacks-deleted-flag, fires on trees without the repair. *)
From SG Require Import Base.Prelude C01.ChanCache C01.Notify C01.Dedup.
Open Scope N_scope.

Theorem C01_dedup_removal_is_query_entry_refuted : ~ removal_is_query_entry_statement false.
Proof. exact dedup_removal_is_query_entry_refuted. Qed.
Print Assumptions C01_dedup_removal_is_query_entry_refuted.
