(* C01, not a property obligation: statements the faithful model of the UNCHANGED code violates.

   DocChanged (db/change_cache.go) reconstructs, for a mutation the caching feed deduplicated, a
   removal LogEntry with DocID, RevID and Channels only; when the deduplicated revision was a
   DELETION (channels[ch] = {seq, rev, del: true}) the entry lacks the Deleted flag that the channel
   query returns for the same removal (rDel).  A warm channel cache therefore answers
   {seq, id, removed:[ch]} where a cold one answers {seq, id, deleted:true, removed:[ch]}: the
   answer depends on the cache state.  Reproduced on the real database by the harness (monitor
   dedup_reconstruction, signature deduplicated-deletion-removal-lacks-deleted-flag).
   Minimal repair: in the reconstruction branch, set change.Flags |= channels.Deleted when the
   removals at that sequence carry Deleted. *)
From SG Require Import Base.Prelude C01.ChanCache C01.Notify C01.Dedup.
Open Scope N_scope.

Theorem C01_dedup_removal_is_query_entry_refuted : ~ dedup_removal_is_query_entry_full_statement.
Proof. exact dedup_removal_is_query_entry_refuted. Qed.
Print Assumptions C01_dedup_removal_is_query_entry_refuted.
