(* C01: list lemmas used by the invariant and read proofs of the channel-cache model. *)
From Coq Require Import Sorting.Sorted Sorting.Permutation.
From SG Require Import Base.Prelude C01.ChanCache.
Open Scope N_scope.

Definition ltS (a b : entry) : Prop := e_seq a < e_seq b.
Definition sorted (l : list entry) : Prop := StronglySorted ltS l.

Lemma entry_eqb_eq a b : entry_eqb a b = true <-> a = b.
Proof.
  destruct a, b; unfold entry_eqb; cbn.
  rewrite !andb_true_iff, !N.eqb_eq, !Bool.eqb_true_iff.
  split; [intros [[[[-> ->] ->] ->] ->]; reflexivity | intros H; inversion H; auto].
Qed.

(* ---------- membership helpers ---------- *)
Lemma memN_In x l : memN x l = true <-> In x l.
Proof.
  unfold memN; rewrite existsb_exists; split.
  - intros [y [Hy He]]; apply N.eqb_eq in He; subst; auto.
  - intros H; exists x; split; auto; apply N.eqb_refl.
Qed.

Lemma memN_false x l : memN x l = false <-> ~ In x l.
Proof. rewrite <- memN_In; destruct (memN x l); split; congruence. Qed.

Lemma doc_add_In d x ds : In x (doc_add d ds) <-> x = d \/ In x ds.
Proof.
  unfold doc_add; destruct (memN d ds) eqn:H.
  - apply memN_In in H; split; [auto | intros [->|]; auto].
  - cbn; split; intros [|]; auto.
Qed.

Lemma docs_del_In gone x ds : In x (docs_del gone ds) <-> In x ds /\ ~ In x gone.
Proof.
  unfold docs_del; rewrite filter_In, negb_true_iff, memN_false; tauto.
Qed.

Lemma has_doc_In d l : has_doc d l = true <-> In d (map e_doc l).
Proof.
  unfold has_doc; rewrite existsb_exists, in_map_iff; split.
  - intros [x [Hx He]]; apply N.eqb_eq in He; eauto.
  - intros [x [He Hx]]; exists x; split; auto; apply N.eqb_eq; auto.
Qed.

Lemma find_doc_some d l x : find_doc d l = Some x -> In x l /\ e_doc x = d.
Proof. unfold find_doc; intros H; apply find_some in H; rewrite N.eqb_eq in H; auto. Qed.

Lemma find_doc_none d l : find_doc d l = None -> ~ In d (map e_doc l).
Proof.
  unfold find_doc; intros H Hin; apply in_map_iff in Hin as [x [He Hx]].
  apply (find_none _ _ H) in Hx; apply N.eqb_neq in Hx; auto.
Qed.

Lemma remove_doc_In d l x : In x (remove_doc d l) <-> In x l /\ e_doc x <> d.
Proof. unfold remove_doc; rewrite filter_In, negb_true_iff, N.eqb_neq; tauto. Qed.

Lemma last_opt_app {A} (l : list A) x : last_opt (l ++ [x]) = Some x.
Proof.
  induction l as [|a l IH]; [reflexivity|].
  change (last_opt (a :: (l ++ [x])) = Some x).
  destruct (l ++ [x]) as [|b r] eqn:E; [destruct l; discriminate|].
  exact IH.
Qed.

Lemma last_opt_some {A} (l : list A) x : last_opt l = Some x -> exists l', l = l' ++ [x].
Proof.
  induction l as [|a l IH]; cbn; [discriminate|].
  destruct l as [|b l]; [intros H; inv H; exists []; auto|].
  intros H; destruct (IH H) as [l' E]; exists (a :: l'); cbn; rewrite <- E; auto.
Qed.

Lemma last_opt_none {A} (l : list A) : last_opt l = None -> l = [].
Proof.
  induction l as [|a l IH]; cbn; auto. destruct l; [discriminate|]. intros H; apply IH in H; discriminate.
Qed.

Lemma last_opt_In {A} (l : list A) x : last_opt l = Some x -> In x l.
Proof. intros H; apply last_opt_some in H as [l' ->]; apply in_or_app; right; cbn; auto. Qed.

(* ---------- sortedness ---------- *)
Lemma sorted_nil : sorted []. Proof. constructor. Qed.
Lemma sorted_one x : sorted [x]. Proof. constructor; constructor. Qed.

Lemma sorted_cons_inv x l : sorted (x :: l) -> sorted l /\ (forall y, In y l -> e_seq x < e_seq y).
Proof. intros H; inv H; split; auto. intros y Hy; rewrite Forall_forall in H3; apply H3; auto. Qed.

Lemma sorted_cons x l : sorted l -> (forall y, In y l -> e_seq x < e_seq y) -> sorted (x :: l).
Proof. intros H1 H2; constructor; auto; apply Forall_forall; exact H2. Qed.

Lemma sorted_app l1 l2 :
  sorted (l1 ++ l2) <-> sorted l1 /\ sorted l2 /\ (forall a b, In a l1 -> In b l2 -> e_seq a < e_seq b).
Proof.
  induction l1 as [|x l1 IH]; cbn.
  - split; [intros H; repeat split; auto using sorted_nil; intros ? ? [] | tauto].
  - split.
    + intros H; apply sorted_cons_inv in H as [Hs Hx]; apply IH in Hs as [H1 [H2 H3]].
      repeat split; auto.
      * apply sorted_cons; auto; intros y Hy; apply Hx, in_or_app; auto.
      * intros a b [<-|Ha] Hb; [apply Hx, in_or_app; auto | auto].
    + intros [H1 [H2 H3]]; apply sorted_cons_inv in H1 as [H1 Hx]; apply sorted_cons.
      * apply IH; repeat split; auto.
      * intros y Hy; apply in_app_or in Hy as [Hy|Hy]; auto.
Qed.

Lemma sorted_filter f l : sorted l -> sorted (filter f l).
Proof.
  induction l as [|x l IH]; cbn; auto; intros H; apply sorted_cons_inv in H as [Hs Hx].
  destruct (f x); auto. apply sorted_cons; auto. intros y Hy; apply filter_In in Hy as [Hy _]; auto.
Qed.

Lemma sorted_firstn n l : sorted l -> sorted (firstn n l).
Proof. intros H; rewrite <- (firstn_skipn n l) in H; apply sorted_app in H; tauto. Qed.

Lemma sorted_skipn n l : sorted l -> sorted (skipn n l).
Proof. intros H; rewrite <- (firstn_skipn n l) in H; apply sorted_app in H; tauto. Qed.

Lemma sorted_firstn_skipn n l a b : sorted l -> In a (firstn n l) -> In b (skipn n l) -> e_seq a < e_seq b.
Proof. intros H; rewrite <- (firstn_skipn n l) in H; apply sorted_app in H as [_ [_ H]]; auto. Qed.

Lemma sorted_take n l : sorted l -> sorted (take n l).
Proof. destruct n; cbn [take]; auto using sorted_firstn. Qed.

Lemma sorted_NoDup_seq l : sorted l -> NoDup (map e_seq l).
Proof.
  induction l as [|x l IH]; cbn; [constructor|]; intros H; apply sorted_cons_inv in H as [Hs Hx].
  constructor; auto. intros Hin; apply in_map_iff in Hin as [y [He Hy]]; apply Hx in Hy; lia.
Qed.

Lemma sorted_last_max l x : sorted l -> last_opt l = Some x -> forall y, In y l -> e_seq y <= e_seq x.
Proof.
  intros Hs Hl y Hy; apply last_opt_some in Hl as [l' ->].
  apply sorted_app in Hs as [_ [_ H]]; apply in_app_or in Hy as [Hy|[<-|[]]]; [|lia].
  specialize (H y x Hy); cbn in H; assert (e_seq y < e_seq x) by auto; lia.
Qed.

(* the maximum of a sorted list is its last element *)
Lemma sorted_max_is_last l a :
  sorted l -> In a l -> (forall y, In y l -> e_seq y <= e_seq a) -> last_opt l = Some a.
Proof.
  intros Hs Ha Hmax.
  destruct (last_opt l) as [z|] eqn:E; [|apply last_opt_none in E; subst; destruct Ha].
  pose proof (sorted_last_max _ _ Hs E a Ha) as H1.
  pose proof (Hmax z (last_opt_In _ _ E)) as H2.
  apply last_opt_some in E as [l' ->].
  apply in_app_or in Ha as [Ha|[<-|[]]]; auto.
  apply sorted_app in Hs as [_ [_ H]]. specialize (H a z Ha); cbn in H. assert (e_seq a < e_seq z) by auto. lia.
Qed.

(* two strictly ascending lists with the same elements are equal *)
Lemma sorted_ext_eq l1 l2 : sorted l1 -> sorted l2 -> (forall x, In x l1 <-> In x l2) -> l1 = l2.
Proof.
  revert l2; induction l1 as [|a l1 IH]; intros [|b l2] H1 H2 Hx; auto.
  - exfalso; apply (Hx b); cbn; auto.
  - exfalso; apply (Hx a); cbn; auto.
  - apply sorted_cons_inv in H1 as [H1 Ha]; apply sorted_cons_inv in H2 as [H2 Hb].
    assert (a = b) as ->.
    { assert (In a (b :: l2)) as Ia by (apply Hx; cbn; auto).
      assert (In b (a :: l1)) as Ib by (apply Hx; cbn; auto).
      destruct Ia as [|Ia]; auto; destruct Ib as [|Ib]; auto.
      apply Hb in Ia; apply Ha in Ib; lia. }
    f_equal; apply IH; auto. intros x; split; intros Hin.
    + assert (In x (b :: l2)) as [<-|] by (apply Hx; cbn; auto); auto. apply Ha in Hin; lia.
    + assert (In x (b :: l1)) as [<-|] by (apply Hx; cbn; auto); auto. apply Hb in Hin; lia.
Qed.

(* ---------- sorted insertion ---------- *)
Lemma ins_perm e l : Permutation (e :: l) (ins e l).
Proof.
  induction l as [|x l IH]; cbn; auto. destruct (e_seq e <=? e_seq x); auto.
  eapply perm_trans; [apply perm_swap | apply perm_skip; exact IH].
Qed.

Lemma ins_In e l x : In x (ins e l) <-> x = e \/ In x l.
Proof.
  split; intros H.
  - apply (Permutation_in _ (Permutation_sym (ins_perm e l))) in H; destruct H; auto.
  - apply (Permutation_in _ (ins_perm e l)); destruct H; cbn; auto.
Qed.

Lemma ins_length e l : length (ins e l) = S (length l).
Proof. rewrite <- (Permutation_length (ins_perm e l)); auto. Qed.

Lemma ins_sorted e l : sorted l -> (forall x, In x l -> e_seq x <> e_seq e) -> sorted (ins e l).
Proof.
  induction l as [|x l IH]; cbn; intros Hs Hne; [apply sorted_one|].
  apply sorted_cons_inv in Hs as [Hs Hx].
  destruct (e_seq e <=? e_seq x) eqn:E.
  - apply sorted_cons; [apply sorted_cons; auto|].
    intros y [<-|Hy]; [specialize (Hne x (or_introl eq_refl)); lia|].
    specialize (Hx y Hy); specialize (Hne x (or_introl eq_refl)); lia.
  - apply sorted_cons; [apply IH; auto; intros; apply Hne; cbn; auto|].
    intros y Hy; apply ins_In in Hy as [->|Hy]; [lia | auto].
Qed.

Lemma ins_NoDup_doc e l :
  NoDup (map e_doc l) -> ~ In (e_doc e) (map e_doc l) -> NoDup (map e_doc (ins e l)).
Proof.
  intros H1 H2. eapply Permutation_NoDup; [apply Permutation_map, ins_perm|]. cbn; constructor; auto.
Qed.

Lemma ins_map_doc_In e l d : In d (map e_doc (ins e l)) <-> d = e_doc e \/ In d (map e_doc l).
Proof.
  rewrite !in_map_iff; split.
  - intros [x [<- Hx]]; apply ins_In in Hx as [->|Hx]; eauto.
  - intros [->|[x [<- Hx]]]; [exists e | exists x]; rewrite ins_In; auto.
Qed.

Lemma isort_perm l : Permutation l (isort l).
Proof.
  induction l as [|x l IH]; cbn; auto.
  eapply perm_trans; [apply perm_skip; exact IH | apply ins_perm].
Qed.

Lemma isort_In l x : In x (isort l) <-> In x l.
Proof.
  split; intros H; [apply (Permutation_in _ (Permutation_sym (isort_perm l))) | apply (Permutation_in _ (isort_perm l))]; auto.
Qed.

Lemma isort_sorted l : NoDup (map e_seq l) -> sorted (isort l).
Proof.
  induction l as [|x l IH]; intros H; [apply sorted_nil|]; cbn in H; inv H.
  change (sorted (ins x (isort l))).
  apply ins_sorted; [apply IH; auto|].
  intros y Hy He; apply (proj1 (isort_In _ _)) in Hy; apply H2; rewrite <- He; apply in_map; auto.
Qed.

(* ---------- NoDup under map ---------- *)
Lemma NoDup_map_filter {A B} (g : A -> B) f l : NoDup (map g l) -> NoDup (map g (filter f l)).
Proof.
  induction l as [|x l IH]; cbn; auto; intros H; inv H. destruct (f x); cbn; auto.
  constructor; auto. intros Hin; apply H2; apply in_map_iff in Hin as [y [<- Hy]].
  apply filter_In in Hy as [Hy _]; apply in_map; auto.
Qed.

Lemma NoDup_map_app {A B} (g : A -> B) l1 l2 :
  NoDup (map g (l1 ++ l2)) <->
  NoDup (map g l1) /\ NoDup (map g l2) /\ (forall a b, In a l1 -> In b l2 -> g a <> g b).
Proof.
  induction l1 as [|x l1 IH]; cbn.
  - split; [intros H; split; [constructor | split; [auto | intros ? ? []]] | tauto].
  - split.
    + intros H; inv H; apply IH in H3 as [H4 [H5 H6]]; repeat split; auto.
      * constructor; auto; intros Hin; apply H2; rewrite map_app; apply in_or_app; auto.
      * intros a b [<-|Ha] Hb; auto. intros E; apply H2; rewrite map_app; apply in_or_app; right.
        rewrite E; apply in_map; auto.
    + intros [H1 [H2 H3]]; inv H1; constructor.
      * rewrite map_app; intros Hin; apply in_app_or in Hin as [Hin|Hin]; auto.
        apply in_map_iff in Hin as [b [E Hb]]; apply (H3 x b); auto.
      * apply IH; repeat split; auto.
Qed.

Lemma NoDup_map_firstn {A B} (g : A -> B) n l : NoDup (map g l) -> NoDup (map g (firstn n l)).
Proof. intros H; rewrite <- (firstn_skipn n l) in H; apply NoDup_map_app in H; tauto. Qed.

Lemma NoDup_map_skipn {A B} (g : A -> B) n l : NoDup (map g l) -> NoDup (map g (skipn n l)).
Proof. intros H; rewrite <- (firstn_skipn n l) in H; apply NoDup_map_app in H; tauto. Qed.

Lemma NoDup_map_take {A B} (g : A -> B) n l : NoDup (map g l) -> NoDup (map g (take n l)).
Proof. destruct n; cbn [take]; auto using NoDup_map_firstn. Qed.

Lemma NoDup_map_inj {A B} (g : A -> B) l x y : NoDup (map g l) -> In x l -> In y l -> g x = g y -> x = y.
Proof.
  induction l as [|a l IH]; cbn; [tauto|]; intros H Hx Hy E; inv H.
  destruct Hx as [<-|Hx], Hy as [<-|Hy]; auto.
  - exfalso; apply H2; rewrite E; apply in_map; auto.
  - exfalso; apply H2; rewrite <- E; apply in_map; auto.
Qed.

Lemma firstn_incl {A} n (l : list A) x : In x (firstn n l) -> In x l.
Proof. intros H; rewrite <- (firstn_skipn n l); apply in_or_app; auto. Qed.

Lemma skipn_incl {A} n (l : list A) x : In x (skipn n l) -> In x l.
Proof. intros H; rewrite <- (firstn_skipn n l); apply in_or_app; auto. Qed.

Lemma take_incl {A} n (l : list A) x : In x (take n l) -> In x l.
Proof. destruct n; cbn [take]; auto. apply firstn_incl. Qed.

Lemma take_length_le {A} n (l : list A) : (n <> 0 -> length (take n l) <= n)%nat.
Proof. destruct n; [congruence|]; intros _; cbn [take]; apply firstn_le_length. Qed.

Lemma take_all {A} n (l : list A) : (n = 0 \/ length l <= n)%nat -> take n l = l.
Proof. destruct n; cbn [take]; auto. intros [H|H]; [discriminate | apply firstn_all2; auto]. Qed.

Lemma filter_all {A} (f : A -> bool) l : (forall x, In x l -> f x = true) -> filter f l = l.
Proof.
  induction l as [|x l IH]; cbn; auto; intros H. rewrite (H x (or_introl eq_refl)); f_equal; auto.
Qed.

(* ---------- drop_le / last_le on ascending lists ---------- *)
Lemma drop_le_filter since l : sorted l -> drop_le since l = filter (fun x => since <? e_seq x) l.
Proof.
  induction l as [|x l IH]; cbn; auto; intros H; apply sorted_cons_inv in H as [Hs Hx].
  destruct (e_seq x <=? since) eqn:E.
  - rewrite IH; auto. destruct (since <? e_seq x) eqn:E2; auto; lia.
  - destruct (since <? e_seq x) eqn:E2; [|lia]. f_equal.
    symmetry; apply filter_all. intros y Hy; apply Hx in Hy; lia.
Qed.

Lemma drop_le_In since l x : sorted l -> (In x (drop_le since l) <-> In x l /\ since < e_seq x).
Proof. intros H; rewrite drop_le_filter, filter_In; auto. rewrite N.ltb_lt; tauto. Qed.

Lemma last_le_none since l : sorted l -> last_le since l None = None -> forall x, In x l -> since < e_seq x.
Proof.
  destruct l as [|a l]; cbn; [intros _ _ ? []|]. intros Hs. apply sorted_cons_inv in Hs as [Hs Ha].
  destruct (e_seq a <=? since) eqn:E.
  - intros H; exfalso. clear - H. revert a H; induction l as [|b l IH]; cbn; intros a H; [discriminate|].
    destruct (e_seq b <=? since); [eapply IH; eauto | discriminate].
  - intros _ x [<-|Hx]; [lia | apply Ha in Hx; lia].
Qed.

Lemma last_le_some since l acc x :
  last_le since l acc = Some x -> acc = Some x \/ (In x l /\ e_seq x <= since).
Proof.
  revert acc; induction l as [|a l IH]; cbn; intros acc H; auto.
  destruct (e_seq a <=? since) eqn:E; auto.
  apply IH in H as [H|[H1 H2]]; [inv H; right; split; auto; lia | right; auto].
Qed.

Lemma filter_length_le {A} (f : A -> bool) l : (length (filter f l) <= length l)%nat.
Proof. induction l as [|x l IH]; cbn; auto. destruct (f x); cbn; lia. Qed.
