(* C01: the request limit is passed down to every per-channel feed (changesFeed stops after [limit]
   rows) AND applied by the merge loop.  Merging feeds that were cut after at least [n] rows gives
   the same first [n] rows as merging the complete feeds; with the high-sequence filter, which on
   plain sequence tokens only cuts a tail, the limited answers coincide. *)
From Coq Require Import Sorting.Sorted.
From SG Require Import Base.Prelude C20.SeqIdGen C20.SeqId C20.SeqIdOrder.
From SG Require Import C01.ChanCache C01.ChanCacheLists C01.ChanCacheTruth C01.ChanCacheInv C01.ChanCacheRead.
From SG Require Import C01.Merge C01.MergeProofs C01.MergePaging C01.Visible C01.VisiblePaging C01.VisibleTok C01.VisibleResume.
From SG Require Import C01.ChangesFeed C01.ChangesFeedProofs.
Open Scope N_scope.

(* [f'] is [f] cut after at least [n] rows (or not cut at all) *)
Definition pref (n : nat) (f' f : list row) : Prop :=
  exists rest, f = f' ++ rest /\ (rest = [] \/ (n <= length f')%nat).

Lemma pref_refl n f : pref n f f.
Proof. exists []. rewrite app_nil_r. auto. Qed.

Lemma heads_pref n fs' fs : n <> 0%nat -> Forall2 (pref n) fs' fs -> heads fs' = heads fs.
Proof.
  intros Hn H. induction H as [|f' f fs' fs [rest [E Hr]] _ IH]; [reflexivity|].
  unfold heads in *. cbn [flat_map]. rewrite IH. f_equal.
  destruct f' as [|h t]; subst f; cbn [app]; [|reflexivity].
  destruct Hr as [->|Hr]; [reflexivity | cbn in Hr; lia].
Qed.

Lemma pop_pref n m f' f : pref (S n) f' f -> pref n (pop m f') (pop m f).
Proof.
  intros [rest [E Hr]]. subst f. destruct f' as [|h t]; cbn [app pop].
  - destruct Hr as [->|Hr]; [apply pref_refl | cbn in Hr; lia].
  - destruct (seqid_eqb (r_seq h) m).
    + exists rest. split; auto. destruct Hr as [->|Hr]; auto. right. cbn [length] in Hr. lia.
    + exists rest. split; auto. destruct Hr as [->|Hr]; auto. right. lia.
Qed.

Lemma pops_pref n m fs' fs :
  Forall2 (pref (S n)) fs' fs -> Forall2 (pref n) (map (pop m) fs') (map (pop m) fs).
Proof. induction 1; cbn [map]; constructor; auto using pop_pref. Qed.

Lemma merge_all_S fuel feeds :
  merge_all (S fuel) feeds =
  match min_row (heads feeds) with
  | None => []
  | Some m => group m (heads feeds) :: merge_all fuel (map (pop (r_seq m)) feeds)
  end.
Proof. reflexivity. Qed.

Theorem merge_all_prefix : forall n fs' fs,
  Forall2 (pref n) fs' fs ->
  firstn n (merge_all (total fs') fs') = firstn n (merge_all (total fs) fs).
Proof.
  induction n as [|n IH]; intros fs' fs H; [reflexivity|].
  rewrite (merge_all_fuel (total fs') (S (total fs')) fs') by lia.
  rewrite (merge_all_fuel (total fs) (S (total fs)) fs) by lia.
  rewrite !merge_all_S. rewrite (heads_pref (S n) fs' fs) by (auto; lia).
  destruct (min_row (heads fs)) as [m|] eqn:Em; [|reflexivity].
  cbn [firstn]. f_equal.
  pose proof (pops_pref n (r_seq m) fs' fs H) as H'.
  rewrite (merge_all_fuel (total fs') (total (map (pop (r_seq m)) fs')) (map (pop (r_seq m)) fs')); [|apply total_pop_le|lia].
  rewrite (merge_all_fuel (total fs) (total (map (pop (r_seq m)) fs)) (map (pop (r_seq m)) fs)); [|apply total_pop_le|lia].
  apply IH; auto.
Qed.

(* a test that, along an ascending list, can only switch from true to false *)
Lemma firstn_filter_monotone (p : row -> bool) n l :
  rsorted l -> (forall a b, In a l -> In b l -> rlt a b -> p b = true -> p a = true) ->
  firstn n (filter p l) = filter p (firstn n l).
Proof.
  intros Hs Hm. revert n. induction l as [|x l IH]; intros n; [destruct n; reflexivity|].
  inv Hs. rewrite Forall_forall in H2. destruct n as [|n].
  - reflexivity.
  - cbn [filter firstn]. destruct (p x) eqn:Ex.
    + cbn [firstn]. f_equal. apply IH; auto. intros a b Ha Hb; apply Hm; cbn; auto.
    + rewrite !filter_none; [destruct n; reflexivity | |].
      * intros y Hy. apply firstn_incl in Hy. destruct (p y) eqn:Ey; auto.
        rewrite (Hm x y (or_introl eq_refl) (or_intror Hy) (H2 y Hy) Ey) in Ex. discriminate.
      * intros y Hy. destruct (p y) eqn:Ey; auto.
        rewrite (Hm x y (or_introl eq_refl) (or_intror Hy) (H2 y Hy) Ey) in Ex. discriminate.
Qed.

Definition plain_row (r : row) : Prop := TriggeredBy (r_seq r) = 0 /\ LowSeq (r_seq r) = 0 /\ r_revoked r = false.

Lemma keep_monotone hi a b :
  plain_row a -> plain_row b -> rlt a b -> keep false hi b = true -> keep false hi a = true.
Proof.
  destruct a as [[ta la sa] ia ra da rma rva ala], b as [[tb lb sb] ib rb db rmb rvb alb].
  unfold plain_row, rlt, keep; cbn [r_seq r_revoked TriggeredBy LowSeq Seq r_del r_allrm].
  intros (-> & -> & ->) (-> & -> & ->) H1 H2.
  unfold before, Before, Before_fuel in H1; cbn in H1. cbn in *.
  apply N.ltb_lt in H1. destruct (hi <? sb) eqn:E; cbn in H2; [discriminate|].
  apply N.ltb_ge in E. destruct (N.ltb_spec hi sa); [lia | reflexivity].
Qed.

Lemma merged_plain fuel feeds g :
  (forall f x, In f feeds -> In x f -> plain_row x) -> In g (merge_all fuel feeds) -> plain_row g.
Proof.
  intros Hp Hg. apply merge_all_origin in Hg as [f [x [Hf [Hx [Es [_ [_ [_ Ev]]]]]]]].
  destruct (Hp f x Hf Hx) as [H1 [H2 H3]]. unfold plain_row. rewrite <- Es, <- Ev. auto.
Qed.

(* merging feeds cut at the request limit, with the high-sequence filter and the limit *)
Theorem merge_feeds_prefix fs' fs hi n low :
  feeds_sorted fs' -> feeds_sorted fs -> (forall f x, In f fs -> In x f -> plain_row x) ->
  (forall f x, In f fs' -> In x f -> plain_row x) ->
  Forall2 (pref n) fs' fs -> n <> 0%nat ->
  merge_feeds fs' false hi n low = merge_feeds fs false hi n low.
Proof.
  intros Sf' Sf P P' H Hn. unfold merge_feeds. rewrite !merge_loop_eq. f_equal.
  destruct n as [|n]; [congruence|]. cbn [take].
  assert (forall fs0, feeds_sorted fs0 -> (forall f x, In f fs0 -> In x f -> plain_row x) ->
            firstn (S n) (filter (keep false hi) (merge_all (total fs0) fs0))
            = filter (keep false hi) (firstn (S n) (merge_all (total fs0) fs0))) as Hc.
  { intros fs0 S0 P0. apply firstn_filter_monotone; [apply merge_sorted; auto|].
    intros a b Ha Hb. apply keep_monotone; eapply merged_plain; eauto. }
  rewrite (Hc fs' Sf' P'), (Hc fs Sf P). f_equal. apply merge_all_prefix; auto.
Qed.

(* ---------- layer 3 with the real per-channel feeds: limited, paginated, from any cache kind ---------- *)
Definition pag_feed (hist : list hop) (e : N) (limit qlimit : nat) (csc : N * scache) : list row :=
  snd (changes_feed (chan_log (fst csc) hist) (fst csc) (snd csc) (mk 0 0 e) limit false qlimit).

Definition multi_feed_pag (hist : list hop) (caches : list (N * scache)) (user_doc user_seq : N)
  (since : seqid) (limit : nat) (hi low : N) (qlimit : nat) : list row :=
  let s := norm_since low since in
  merge_feeds (map (pag_feed hist (chan_since s) limit qlimit) caches ++ user_feed user_doc user_seq s) false hi limit low.

Lemma feed_row_is_row_of c : feed_row c 0 = row_of c.
Proof. reflexivity. Qed.

Lemma pref_map_take n (f : entry -> row) T : pref n (map f (take n T)) (map f T).
Proof.
  destruct n as [|n]; [apply pref_refl|]. cbn [take]. exists (map f (skipn (S n) T)).
  split; [rewrite <- map_app, firstn_skipn; reflexivity|].
  destruct (Nat.le_gt_cases (S n) (length T)).
  - right. rewrite map_length, firstn_length. lia.
  - left. rewrite skipn_all2 by lia. reflexivity.
Qed.

Lemma Forall2_pref_map n (g : N -> list entry) l :
  Forall2 (pref n) (map (fun c => map (row_of c) (take n (g c))) l) (map (fun c => map (row_of c) (g c)) l).
Proof. induction l as [|c l IH]; cbn [map]; constructor; auto. apply pref_map_take. Qed.

Lemma plain_row_of c e : plain_row (row_of c e).
Proof. repeat split. Qed.

Theorem changes_end_to_end_paginated hist caches user user_doc user_seq req since limit hi low qlimit :
  NoDup (map h_seq hist) -> (1 <= qlimit)%nat ->
  map fst caches = visible user req ->
  (forall c sc, In (c, sc) caches ->
     exists F, truth_wf (chan_log c hist) F /\ sc_inv (chan_log c hist) F sc /\
               quiescent (chan_log c hist) F /\ seq_bounded (chan_log c hist)) ->
  multi_feed_pag hist caches user_doc user_seq since limit hi low qlimit
  = expected_tok hist user user_doc user_seq req since limit false hi low.
Proof.
  intros Hn Hq Hv Hc. unfold multi_feed_pag, expected_tok. cbv zeta.
  set (s := norm_since low since). set (e := chan_since s).
  assert (map (pag_feed hist e limit qlimit) caches
          = map (fun c => map (row_of c) (take limit (truth (chan_log c hist) e))) (visible user req)) as ->.
  { rewrite <- Hv, map_map. apply map_ext_in. intros [c sc] Hin. unfold pag_feed; cbn [fst snd].
    destruct (Hc c sc Hin) as [F [W [I [Q Hb]]]].
    rewrite (paginate_eq _ F W Q Hb) by auto. rewrite feed_row_is_row_of. reflexivity. }
  destruct limit as [|n]; [reflexivity|].
  apply merge_feeds_prefix; try discriminate.
  - intros f Hf. apply in_app_or in Hf as [Hf|Hf].
    + apply in_map_iff in Hf as [c [<- _]]. apply feed_rows_sorted, sorted_take, truth_sorted, chan_log_NoDup, Hn.
    + unfold user_feed in Hf. destruct Hf as [<-|[]].
      destruct ((0 <? user_seq) && before s (mk 0 0 user_seq)); repeat constructor.
  - intros f Hf. apply in_app_or in Hf as [Hf|Hf].
    + apply in_map_iff in Hf as [c [<- _]]. apply feed_rows_sorted, truth_sorted, chan_log_NoDup, Hn.
    + unfold user_feed in Hf. destruct Hf as [<-|[]].
      destruct ((0 <? user_seq) && before s (mk 0 0 user_seq)); repeat constructor.
  - intros f x Hf Hx. apply in_app_or in Hf as [Hf|Hf].
    + apply in_map_iff in Hf as [c [<- _]]. unfold feed_of in Hx. apply in_map_iff in Hx as [y [<- _]]. apply plain_row_of.
    + unfold user_feed in Hf. destruct Hf as [<-|[]].
      destruct ((0 <? user_seq) && before s (mk 0 0 user_seq)); [|destruct Hx].
      destruct Hx as [<-|[]]. repeat split.
  - intros f x Hf Hx. apply in_app_or in Hf as [Hf|Hf].
    + apply in_map_iff in Hf as [c [<- _]]. apply in_map_iff in Hx as [y [<- _]]. apply plain_row_of.
    + unfold user_feed in Hf. destruct Hf as [<-|[]].
      destruct ((0 <? user_seq) && before s (mk 0 0 user_seq)); [|destruct Hx].
      destruct Hx as [<-|[]]. repeat split.
  - apply Forall2_app.
    + unfold feed_of. apply (Forall2_pref_map (S n) (fun c => truth (chan_log c hist) e)).
    + constructor; [apply pref_refl | constructor].
Qed.
