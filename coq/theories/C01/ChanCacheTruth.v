(* C01: facts about the ground truth of one channel (latest entry per document, the query oracle). *)
From Coq Require Import Sorting.Sorted Sorting.Permutation.
From SG Require Import Base.Prelude C01.ChanCache C01.ChanCacheLists.
Open Scope N_scope.

(* well-formed ground truth: sequences identify writes; only writes are delivered *)
Record truth_wf (B F : list entry) : Prop := {
  tw_seq : NoDup (map e_seq B);
  tw_incl : forall f, In f F -> In f B
}.

Lemma is_latest_spec B e :
  is_latest B e = true <-> (forall x, In x B -> e_doc x = e_doc e -> e_seq x <= e_seq e).
Proof.
  unfold is_latest; rewrite forallb_forall; split; intros H x Hx.
  - intros Hd; specialize (H x Hx); rewrite orb_true_iff, negb_true_iff, N.eqb_neq, N.leb_le in H; destruct H; [congruence | auto].
  - rewrite orb_true_iff, negb_true_iff, N.eqb_neq, N.leb_le.
    destruct (N.eq_dec (e_doc x) (e_doc e)); auto.
Qed.

Lemma seq_inj B x y : NoDup (map e_seq B) -> In x B -> In y B -> e_seq x = e_seq y -> x = y.
Proof. apply NoDup_map_inj. Qed.

Lemma latest_doc_inj B x y :
  NoDup (map e_seq B) -> In x B -> In y B -> is_latest B x = true -> is_latest B y = true ->
  e_doc x = e_doc y -> x = y.
Proof.
  intros Hn Hx Hy Lx Ly Hd. rewrite is_latest_spec in Lx, Ly.
  apply (seq_inj B); auto. specialize (Lx y Hy (eq_sym Hd)); specialize (Ly x Hx Hd); lia.
Qed.

Lemma latest_In B x : In x (latest B) <-> In x B /\ is_latest B x = true.
Proof. unfold latest; apply filter_In. Qed.

(* an entry superseded by nothing newer exists for every document that has entries *)
Fixpoint max_doc (d : N) (l : list entry) : option entry :=
  match l with
  | [] => None
  | x :: r =>
      if e_doc x =? d then
        match max_doc d r with
        | Some m => if e_seq x <=? e_seq m then Some m else Some x
        | None => Some x
        end
      else max_doc d r
  end.

Lemma max_doc_none d l : max_doc d l = None -> forall y, In y l -> e_doc y <> d.
Proof.
  induction l as [|a l IH]; [intros _ y []|]. cbn [max_doc]. destruct (e_doc a =? d) eqn:Ea.
  - destruct (max_doc d l) as [m|]; [destruct (e_seq a <=? e_seq m)|]; discriminate.
  - apply N.eqb_neq in Ea. intros H y [<-|Hy]; auto.
Qed.

Lemma max_doc_some d l m :
  max_doc d l = Some m ->
  In m l /\ e_doc m = d /\ (forall y, In y l -> e_doc y = d -> e_seq y <= e_seq m).
Proof.
  revert m; induction l as [|a l IH]; [discriminate|]. intros m. cbn [max_doc].
  destruct (e_doc a =? d) eqn:Ea.
  - apply N.eqb_eq in Ea. destruct (max_doc d l) as [m2|] eqn:E2.
    + destruct (IH m2 eq_refl) as [I1 [I2 I3]].
      destruct (e_seq a <=? e_seq m2) eqn:El; intros H; inv H.
      * repeat split; cbn; auto. intros y [<-|Hy] Hyd; [lia | auto].
      * repeat split; cbn; auto. intros y [<-|Hy] Hyd; [lia|]. specialize (I3 y Hy Hyd); lia.
    + intros H; inv H. repeat split; cbn; auto. intros y [<-|Hy] Hyd; [lia|].
      exfalso; exact (max_doc_none _ _ E2 y Hy Hyd).
  - apply N.eqb_neq in Ea. intros H; destruct (IH m H) as [I1 [I2 I3]]. repeat split; cbn; auto.
    intros y [<-|Hy] Hyd; [congruence | auto].
Qed.

Lemma max_doc_spec d l x :
  In x l -> e_doc x = d ->
  exists m, max_doc d l = Some m /\ In m l /\ e_doc m = d /\ (forall y, In y l -> e_doc y = d -> e_seq y <= e_seq m).
Proof.
  intros Hx Hd. destruct (max_doc d l) as [m|] eqn:E.
  - exists m; split; auto. apply max_doc_some; auto.
  - exfalso; exact (max_doc_none _ _ E x Hx Hd).
Qed.

Lemma exists_latest B x :
  In x B -> exists f, In f B /\ e_doc f = e_doc x /\ e_seq x <= e_seq f /\ is_latest B f = true.
Proof.
  intros Hx. destruct (max_doc_spec (e_doc x) B x Hx eq_refl) as [m [_ [Hm [Hd Hmax]]]].
  exists m; repeat split; auto. apply is_latest_spec. intros y Hy Hyd; apply Hmax; auto; congruence.
Qed.

(* ---------- the query oracle ---------- *)
Lemma latest_NoDup_seq B : NoDup (map e_seq B) -> NoDup (map e_seq (latest B)).
Proof. apply NoDup_map_filter. Qed.

Lemma qall_In B lo hi x :
  In x (qall B lo hi) <-> In x B /\ is_latest B x = true /\ lo <= e_seq x /\ e_seq x <= hi.
Proof.
  unfold qall; rewrite isort_In, filter_In, latest_In, andb_true_iff, !N.leb_le; tauto.
Qed.

Lemma qall_sorted B lo hi : NoDup (map e_seq B) -> sorted (qall B lo hi).
Proof. intros H; apply isort_sorted, NoDup_map_filter, latest_NoDup_seq, H. Qed.

Lemma truth_In B since x :
  In x (truth B since) <-> In x B /\ is_latest B x = true /\ since < e_seq x.
Proof. unfold truth; rewrite isort_In, filter_In, latest_In, N.ltb_lt; tauto. Qed.

Lemma truth_sorted B since : NoDup (map e_seq B) -> sorted (truth B since).
Proof. intros H; apply isort_sorted, NoDup_map_filter, latest_NoDup_seq, H. Qed.

Lemma latest_set_NoDup_doc B l :
  NoDup (map e_seq B) -> sorted l -> (forall x, In x l -> In x B /\ is_latest B x = true) ->
  NoDup (map e_doc l).
Proof.
  intros Hn; induction l as [|a l IH]; cbn; [constructor|]; intros Hs Hl.
  apply sorted_cons_inv in Hs as [Hs Ha]. constructor; [|apply IH; auto].
  intros Hin; apply in_map_iff in Hin as [y [Hd Hy]].
  destruct (Hl a (or_introl eq_refl)) as [Ba La], (Hl y (or_intror Hy)) as [By Ly].
  assert (y = a) by (apply (latest_doc_inj B); auto). subst y. apply Ha in Hy; lia.
Qed.

Lemma qall_NoDup_doc B lo hi : NoDup (map e_seq B) -> NoDup (map e_doc (qall B lo hi)).
Proof.
  intros H; apply (latest_set_NoDup_doc B); auto using qall_sorted.
  intros x Hx; apply qall_In in Hx; tauto.
Qed.

Lemma truth_NoDup_doc B since : NoDup (map e_seq B) -> NoDup (map e_doc (truth B since)).
Proof.
  intros H; apply (latest_set_NoDup_doc B); auto using truth_sorted.
  intros x Hx; apply truth_In in Hx; tauto.
Qed.

(* the first n rows of a complete range query form the complete query up to the last of them *)
Lemma qall_firstn B lo hi n x :
  NoDup (map e_seq B) -> last_opt (firstn n (qall B lo hi)) = Some x ->
  firstn n (qall B lo hi) = qall B lo (e_seq x).
Proof.
  intros Hn Hl. pose proof (qall_sorted B lo hi Hn) as Hs.
  apply sorted_ext_eq; auto using sorted_firstn, qall_sorted.
  intros y; split; intros Hy.
  - pose proof (sorted_last_max _ _ (sorted_firstn n _ Hs) Hl y Hy) as Hle.
    apply firstn_incl in Hy. rewrite qall_In in *; tauto.
  - pose proof (last_opt_In _ _ Hl) as Hx. pose proof (firstn_incl _ _ _ Hx) as Hx'.
    assert (In y (qall B lo hi)) as Hy'. { rewrite qall_In in *; intuition lia. }
    rewrite <- (firstn_skipn n (qall B lo hi)) in Hy'; apply in_app_or in Hy' as [|Hy']; auto.
    pose proof (sorted_firstn_skipn n _ x y Hs Hx Hy'). apply qall_In in Hy; lia.
Qed.
