(* C01: what changeCache.DocChanged (db/change_cache.go) hands to the channel caches for ONE document
   mutation of the caching feed, including the entries it reconstructs for mutations the feed
   deduplicated (the server delivers only the latest mutation of a key: rapid updates of one
   document arrive as a single event whose _sync.recent_sequences lists the sequences that never
   arrived on their own).

     for seq in unused_sequences:                         processEntry(unused seq)
     currentSequence = unused_sequences[0] if any, else sync.sequence
     for seq in recent_sequences:
        isSkipped = seq < currentSequence && seq < nextSequence && WasSkipped(seq)
        if (seq >= nextSequence && seq < currentSequence) || isSkipped:
            removals, rev = sync.channels.ChannelsRemovedAtSequence(seq)
            if removals nonempty: processEntry({seq, doc, rev, Channels: removals, CollectionID: event.CollectionID, Skipped})
            else:                 processEntry(unused seq)
     processEntry({sync.sequence, doc, sync.rev, Channels: sync.channels, CollectionID: event.CollectionID})

   The sequence buffering behind processEntry (pending / skipped / late) is C08; at quiescence every
   entry handed to processEntry has reached channelCacheImpl.AddToCache exactly once, which hands it
   to the cache of (collection, channel) for every channel it concerns (Notify.v).  A channel of the
   document's collection is identified by (collection id, channel); an entry that lost its
   collection id would be added to -- and wake the listeners of -- a channel of another collection. *)
From SG Require Import Base.Prelude C01.ChanCache C01.ChanCacheLists C01.Notify.
Open Scope N_scope.

(* channel map of the document: None = in the channel; Some (s, rev, del) = left it at sequence s, rev
   being the revision that removed it and del telling whether that revision was a deletion.
   sd_del: the document's current revision is a tombstone (the Deleted bit of sync.flags). *)
Record syncd := mkSD {
  sd_seq : N; sd_rev : N; sd_del : bool; sd_recent : list N; sd_unused : list N;
  sd_chans : list (N * option (N * N * bool)) }.

(* del = the Deleted bit of LogEntry.Flags: taken from sync.flags for the entry of the current
   revision, NOT set on a reconstructed removal entry (only DocID, RevID and Channels are filled in) *)
Inductive dlv :=
| DUnused (seq : N)
| DEntry (coll seq doc rev : N) (del : bool) (skipped : bool) (chs : list (N * option N)).

Definition removed_at (seq : N) (cr : N * option (N * N * bool)) : bool :=
  match snd cr with Some (s, _, _) => s =? seq | None => false end.

Definition chan_seqs (chs : list (N * option (N * N * bool))) : list (N * option N) :=
  map (fun cr => (fst cr, option_map (fun x => fst (fst x)) (snd cr))) chs.

Definition current_seq (sd : syncd) : N := match sd_unused sd with u :: _ => u | [] => sd_seq sd end.

Definition removal_deleted (cr : N * option (N * N * bool)) : bool :=
  match snd cr with Some (_, _, d) => d | None => false end.

(* [fixed]: the code as repaired by commit 1bb148f (the reconstructed removal gets the Deleted flag
   when a removal at that sequence was made by a tombstone); [false] = the code before it, kept for
   the witness in C01_Refuted.v *)
Definition reconstruct_gen (fixed : bool) (coll doc : N) (sd : syncd) (next : N) (skipped : list N) (seq : N) : list dlv :=
  let cur := current_seq sd in
  let is_sk := (seq <? cur) && (seq <? next) && memN seq skipped in
  if ((next <=? seq) && (seq <? cur)) || is_sk then
    match filter (removed_at seq) (sd_chans sd) with
    | [] => [DUnused seq]
    | (c, r) :: rest =>
        let rev := match r with Some (_, rv, _) => rv | None => 0 end in
        [DEntry coll seq doc rev (fixed && existsb removal_deleted ((c, r) :: rest)) is_sk (chan_seqs ((c, r) :: rest))]
    end
  else [].

Definition doc_changed_gen (fixed : bool) (coll doc : N) (sd : syncd) (next : N) (skipped : list N) : list dlv :=
  map DUnused (sd_unused sd)
  ++ flat_map (reconstruct_gen fixed coll doc sd next skipped) (sd_recent sd)
  ++ [DEntry coll (sd_seq sd) doc (sd_rev sd) (sd_del sd) false (chan_seqs (sd_chans sd))].

Definition code_fixed : bool := true.
Definition reconstruct := reconstruct_gen code_fixed.
Definition doc_changed := doc_changed_gen code_fixed.
Definition doc_changed_old := doc_changed_gen false.

(* what AddToCache adds, and to which (collection, channel) cache: (seq, doc, rev, removal flag, deleted flag) *)
Definition to_caches (d : dlv) : list (N * N * (N * N * N * bool * bool)) :=
  match d with
  | DUnused _ => []
  | DEntry coll seq doc rev del _ chs =>
      map (fun cr => (coll, fst cr, (seq, doc, rev, is_removal cr, del))) (filter (concerned seq) chs)
  end.

(* what a channel query returns for this document in channel c: the current revision if the document
   is in the channel, the removal (sequence, revision) if it left it *)
Definition query_entry (sd : syncd) (c : N) : option (N * N * bool * bool) :=
  match find (fun cr => fst cr =? c) (sd_chans sd) with
  | None => None
  | Some (_, None) => Some (sd_seq sd, sd_rev sd, false, sd_del sd)
  | Some (_, Some (s, rv, d)) => Some (s, rv, true, d)
  end.

(* ---------- the collection is preserved ---------- *)
Lemma keeps_collection_gen fixed coll doc sd next skipped x :
  In x (flat_map to_caches (doc_changed_gen fixed coll doc sd next skipped)) -> fst (fst x) = coll.
Proof.
  intros H. apply in_flat_map in H as [d [Hd Hx]]. unfold doc_changed_gen in Hd.
  apply in_app_or in Hd as [Hd|Hd].
  - apply in_map_iff in Hd as [s [<- _]]. destruct Hx.
  - apply in_app_or in Hd as [Hd|Hd].
    + apply in_flat_map in Hd as [s [_ Hd]]. unfold reconstruct_gen in Hd.
      destruct (((next <=? s) && (s <? current_seq sd)) || ((s <? current_seq sd) && (s <? next) && memN s skipped)); [|destruct Hd].
      destruct (filter (removed_at s) (sd_chans sd)) as [|[c r] rest].
      * destruct Hd as [<-|[]]. destruct Hx.
      * destruct Hd as [<-|[]]. cbn [to_caches] in Hx. apply in_map_iff in Hx as [cr [<- _]]. reflexivity.
    + destruct Hd as [<-|[]]. cbn [to_caches] in Hx. apply in_map_iff in Hx as [cr [<- _]]. reflexivity.
Qed.

Theorem dedup_keeps_collection coll doc sd next skipped x :
  In x (flat_map to_caches (doc_changed coll doc sd next skipped)) -> fst (fst x) = coll.
Proof. apply keeps_collection_gen. Qed.

(* ---------- the current revision reaches every channel the document is in ---------- *)
Theorem dedup_delivers_current coll doc sd next skipped c :
  In (c, None) (sd_chans sd) ->
  In (coll, c, (sd_seq sd, doc, sd_rev sd, false, sd_del sd)) (flat_map to_caches (doc_changed coll doc sd next skipped)).
Proof.
  intros H. apply in_flat_map. exists (DEntry coll (sd_seq sd) doc (sd_rev sd) (sd_del sd) false (chan_seqs (sd_chans sd))).
  split; [unfold doc_changed, doc_changed_gen; apply in_or_app; right; apply in_or_app; right; cbn; auto|].
  cbn [to_caches]. apply in_map_iff. exists (c, None). split; [reflexivity|].
  apply filter_In. split; [|reflexivity]. unfold chan_seqs. apply in_map_iff. exists (c, None). auto.
Qed.

(* ---------- a deduplicated removal is reconstructed for the channel the document left ---------- *)
(* [s] never arrived on its own: it is listed in recent_sequences and either still expected by the
   cache (next <= s) or already declared skipped.  All removals at one sequence carry the same
   revision (they were made by the same write). *)
Lemma delivers_removal_gen fixed coll doc sd next skipped c s rv dl :
  In (c, Some (s, rv, dl)) (sd_chans sd) ->
  (forall c' rv' dl', In (c', Some (s, rv', dl')) (sd_chans sd) -> rv' = rv) ->
  In s (sd_recent sd) -> s < current_seq sd ->
  (next <= s \/ In s skipped) ->
  In (coll, c, (s, doc, rv, true, fixed && existsb removal_deleted (filter (removed_at s) (sd_chans sd))))
     (flat_map to_caches (doc_changed_gen fixed coll doc sd next skipped)).
Proof.
  intros Hc Hrev Hs Hcur Hw. apply in_flat_map.
  assert (In (c, Some (s, rv, dl)) (filter (removed_at s) (sd_chans sd))) as Hf.
  { apply filter_In. split; auto. unfold removed_at; cbn. apply N.eqb_refl. }
  destruct (filter (removed_at s) (sd_chans sd)) as [|[c0 r0] rest] eqn:Ef; [destruct Hf|].
  assert (In (c0, r0) (sd_chans sd) /\ removed_at s (c0, r0) = true) as [H0 R0].
  { apply filter_In. rewrite Ef. cbn; auto. }
  unfold removed_at in R0; cbn in R0. destruct r0 as [[[s0 rv0] dl0]|]; [|discriminate]. apply N.eqb_eq in R0. subst s0.
  assert (rv0 = rv) by (eapply Hrev; eauto). subst rv0.
  set (is_sk := (s <? current_seq sd) && (s <? next) && memN s skipped).
  exists (DEntry coll s doc rv (fixed && existsb removal_deleted ((c0, Some (s, rv, dl0)) :: rest)) is_sk
                 (chan_seqs ((c0, Some (s, rv, dl0)) :: rest))). split.
  - unfold doc_changed_gen. apply in_or_app; right. apply in_or_app; left. apply in_flat_map. exists s. split; auto.
    unfold reconstruct_gen. fold is_sk.
    assert (((next <=? s) && (s <? current_seq sd)) || is_sk = true) as ->.
    { unfold is_sk. destruct Hw as [Hw|Hw]; [|apply memN_In in Hw; rewrite Hw]; lia. }
    rewrite Ef. cbn; auto.
  - cbn [to_caches]. apply in_map_iff. exists (c, Some s). split; [reflexivity|].
    apply filter_In. split; [|unfold concerned; cbn; apply N.eqb_refl].
    unfold chan_seqs. apply in_map_iff. exists (c, Some (s, rv, dl)). split; auto.
Qed.

(* the removal reaches the cache with the sequence and revision the channel query returns ... *)
Theorem dedup_delivers_removal coll doc sd next skipped c s rv dl :
  In (c, Some (s, rv, dl)) (sd_chans sd) ->
  (forall c' rv' dl', In (c', Some (s, rv', dl')) (sd_chans sd) -> rv' = rv) ->
  In s (sd_recent sd) -> s < current_seq sd ->
  (next <= s \/ In s skipped) ->
  exists d, In (coll, c, (s, doc, rv, true, d)) (flat_map to_caches (doc_changed coll doc sd next skipped)).
Proof. intros. eexists. eapply delivers_removal_gen; eauto. Qed.

(* ... and, in the repaired code, IS the entry the channel query returns, Deleted flag included (all
   removals at one sequence were made by one write: same revision, same deleted bit) *)
Definition removal_is_query_entry_statement (fixed : bool) : Prop :=
  forall coll doc sd next skipped c s rv dl,
    In (c, Some (s, rv, dl)) (sd_chans sd) ->
    (forall c' rv' dl', In (c', Some (s, rv', dl')) (sd_chans sd) -> rv' = rv /\ dl' = dl) ->
    In s (sd_recent sd) -> s < current_seq sd -> (next <= s \/ In s skipped) ->
    In (coll, c, (s, doc, rv, true, dl)) (flat_map to_caches (doc_changed_gen fixed coll doc sd next skipped)).

Theorem dedup_removal_is_query_entry : removal_is_query_entry_statement true.
Proof.
  intros coll doc sd next skipped c s rv dl Hc Hsame Hs Hcur Hw.
  pose proof (delivers_removal_gen true coll doc sd next skipped c s rv dl Hc
                (fun c' rv' dl' H => proj1 (Hsame c' rv' dl' H)) Hs Hcur Hw) as H.
  assert (existsb removal_deleted (filter (removed_at s) (sd_chans sd)) = dl) as E.
  { destruct dl.
    - apply existsb_exists. exists (c, Some (s, rv, true)). split; [|reflexivity].
      apply filter_In. split; auto. unfold removed_at; cbn. apply N.eqb_refl.
    - destruct (existsb removal_deleted (filter (removed_at s) (sd_chans sd))) eqn:Ex; auto.
      apply existsb_exists in Ex as [[c' r'] [Hin Hd]]. apply filter_In in Hin as [Hin Hr].
      unfold removed_at in Hr; unfold removal_deleted in Hd; cbn in *.
      destruct r' as [[[s' rv'] dl']|]; [|discriminate]. apply N.eqb_eq in Hr; subst s' dl'.
      destruct (Hsame c' rv' true Hin) as [_ E]. discriminate. }
  cbn [andb] in H. rewrite E in H. exact H.
Qed.

(* every entry handed to a cache is what the channel query says about the document, or a removal
   the document's channel map records (nothing is invented) *)
Theorem dedup_sound coll doc sd next skipped coll' c s d rv rm dl :
  In (coll', c, (s, d, rv, rm, dl)) (flat_map to_caches (doc_changed coll doc sd next skipped)) ->
  d = doc /\ ((s = sd_seq sd /\ rv = sd_rev sd /\ dl = sd_del sd /\ exists r, In (c, r) (sd_chans sd)) \/
              (rm = true /\ (exists rv' dl', In (c, Some (s, rv', dl')) (sd_chans sd)) /\
               (dl = true -> exists c' rv', In (c', Some (s, rv', true)) (sd_chans sd)))).
Proof.
  intros H. apply in_flat_map in H as [x [Hd Hx]]. unfold doc_changed, doc_changed_gen in Hd.
  apply in_app_or in Hd as [Hd|Hd]; [apply in_map_iff in Hd as [u [<- _]]; destruct Hx|].
  apply in_app_or in Hd as [Hd|Hd].
  - apply in_flat_map in Hd as [q [_ Hd]]. unfold reconstruct_gen in Hd.
    destruct (((next <=? q) && (q <? current_seq sd)) || ((q <? current_seq sd) && (q <? next) && memN q skipped)); [|destruct Hd].
    destruct (filter (removed_at q) (sd_chans sd)) as [|[c0 r0] rest] eqn:Ef; [destruct Hd as [<-|[]]; destruct Hx|].
    destruct Hd as [<-|[]]. cbn [to_caches] in Hx. apply in_map_iff in Hx as [[c1 r1] [E Hf]].
    inversion E; subst. apply filter_In in Hf as [Hf _]. unfold chan_seqs in Hf. apply in_map_iff in Hf as [[c2 r2] [E2 Hin]].
    cbn in E2. inversion E2; subst. rewrite <- Ef in Hin. apply filter_In in Hin as [Hin Hr].
    unfold removed_at in Hr; cbn in Hr. destruct r2 as [[[s2 rv2] dl2]|]; [|discriminate]. apply N.eqb_eq in Hr; subst.
    split; auto. right. split; [reflexivity|]. split; [eauto|].
    intros Hdl. change (existsb removal_deleted ((c0, r0) :: rest) = true) in Hdl. rewrite <- Ef in Hdl. apply existsb_exists in Hdl as [[c' r'] [Hin' Hd']].
    apply filter_In in Hin' as [Hin' Hr']. unfold removed_at in Hr'; unfold removal_deleted in Hd'; cbn in *.
    destruct r' as [[[s' rv'] dl']|]; [|discriminate]. apply N.eqb_eq in Hr'; subst. eauto.
  - destruct Hd as [<-|[]]. cbn [to_caches] in Hx. apply in_map_iff in Hx as [[c1 r1] [E Hf]].
    inversion E; subst. apply filter_In in Hf as [Hf _]. unfold chan_seqs in Hf. apply in_map_iff in Hf as [[c2 r2] [E2 Hin]].
    cbn in E2. inversion E2; subst. split; auto. left. repeat split; auto. eauto.
Qed.

(* ---------- what was FALSE before commit 1bb148f ---------- *)
(* the code before the repair never set the Deleted flag on a reconstructed removal: for a
   deduplicated DELETION the query returned the removal with deleted (rDel), the warm cache without:
   the answer depended on the cache state. *)
Lemma dedup_removal_is_query_entry_refuted : ~ removal_is_query_entry_statement false.
Proof.
  intros H.
  (* doc deleted at #2 (leaving channel 2), resurrected at #3 into channel 3; the mutation #2 was deduplicated *)
  specialize (H 5 1 (mkSD 3 30 false [1; 2; 3] [] [(2, Some (2, 20, true)); (3, None)]) 2 [] 2 2 20 true).
  cbn in H.
  assert (forall (c' rv' : N) (dl' : bool),
            (2, Some (2, 20, true)) = (c', Some (2, rv', dl')) \/ (3, None) = (c', Some (2, rv', dl')) \/ False ->
            rv' = 20 /\ dl' = true) as Hs.
  { intros c' rv' dl' [E|[E|[]]]; inversion E; auto. }
  specialize (H (or_introl eq_refl) Hs ltac:(auto) ltac:(lia) ltac:(left; lia)).
  repeat (destruct H as [H|H]; [discriminate|]). exact H.
Qed.
