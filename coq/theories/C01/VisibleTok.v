(* C01, layer 3 with position TOKENS: what SimpleMultiChangesFeed (db/changes.go) does with the
   request's since token before the per-channel feeds are built, and with the server's low sequence.

     if options.Since.LowSeq != 0 && options.Since.LowSeq == lowSequence { options.Since.LowSeq = 0 }
                                                                                  -> [norm_since]
     per channel (seqAddedAt = the sequence at which the requester got the channel):
       backfillRequired && backfillPending      -> chanOpts.Since = {Seq: 0, TriggeredBy: seqAddedAt}
       options.Since.TriggeredBy > seqAddedAt   -> chanOpts.Since = {LowSeq: since.LowSeq, Seq: since.TriggeredBy - 1}
       otherwise                                -> chanOpts.Since = options.Since
     changesFeed reads from SafeSequence(chanOpts.Since); appendUserFeed tests options.Since.Before(userSeq);
     every row sent is stamped with the server's low sequence (minEntry.Seq.LowSeq = lowSequence).

   Scope (unchanged): every channel of the requester was granted before the first document write, so
   no channel has a log entry at or below its seqAddedAt.  In that scope the first and the third case
   read the same rows as the second ({Seq: TriggeredBy-1}) whenever TriggeredBy <> 0, and the same rows
   as SafeSequence(since) when TriggeredBy = 0; no row gets a TriggeredBy stamp.  Hence [chan_since].
   Grant-triggered back-fill proper (documents older than the grant) is C13. *)
From SG Require Import Base.Prelude C20.SeqIdGen C20.SeqId C20.SeqIdOrder C20.SeqIdCodec.
From SG Require Import C01.ChanCache C01.Merge C01.Visible.
Open Scope N_scope.

Definition norm_since (low : N) (s : seqid) : seqid :=
  if negb (LowSeq s =? 0) && (LowSeq s =? low) then mk (TriggeredBy s) 0 (Seq s) else s.

Definition chan_since (s : seqid) : N :=
  if TriggeredBy s =? 0 then SafeSequence s
  else SafeSequence (mk 0 (LowSeq s) (TriggeredBy s - 1)).

(* the answer to a request whose since token is [since], on a server whose low sequence is [low] *)
Definition expected_tok (hist : list hop) (user : option (list N)) (user_doc user_seq : N)
  (req : list N) (since : seqid) (limit : nat) (ao : bool) (hi low : N) : list row :=
  let s := norm_since low since in
  merge_feeds (map (fun c => feed_of c (chan_since s) hist) (visible user req)
               ++ user_feed user_doc user_seq s) ao hi limit low.

(* tokens a server hands out are printed (intSeqToString) and parsed back by the next request
   (parseIntegerSequenceID): C20 proves parse (print_token t) = POk (canon t).  A token is
   canonical when it is such a parse result. *)
Definition canonical (s : seqid) : Prop := canon s = s.

(* what the client sends back after receiving a row *)
Definition resume_token (r : row) : seqid := canon (r_seq r).
