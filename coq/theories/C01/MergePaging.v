(* C01: resuming from a handed-out token.  Cutting every feed after a token and merging is the same
   as merging and cutting the result; hence a page followed by the rest requested from the page's
   last token is the unpaged answer. *)
From Coq Require Import Sorting.Sorted.
From SG Require Import Base.Prelude C20.SeqIdGen C20.SeqId C20.SeqIdOrder C01.ChanCache C01.ChanCacheLists C01.Merge C01.MergeProofs.
Open Scope N_scope.

Definition gt (m : seqid) (x : row) : bool := before m (r_seq x).
Definition cut (m : seqid) (feeds : list (list row)) : list (list row) := map (filter (gt m)) feeds.

Lemma total_zero_heads feeds : total feeds = 0%nat -> heads feeds = [].
Proof.
  intros H. destruct (heads feeds) as [|h t] eqn:E; auto. exfalso.
  assert (In h (heads feeds)) as Hh by (rewrite E; cbn; auto). apply heads_In in Hh as [t' Ht].
  apply in_feed_total in Ht. cbn in Ht. lia.
Qed.

(* fuel beyond the number of rows changes nothing *)
Lemma merge_all_fuel : forall f1 f2 feeds,
  (total feeds <= f1)%nat -> (total feeds <= f2)%nat -> merge_all f1 feeds = merge_all f2 feeds.
Proof.
  induction f1 as [|k IH]; intros f2 feeds H1 H2.
  - destruct f2; auto. cbn [merge_all]. rewrite total_zero_heads by lia. reflexivity.
  - destruct f2 as [|k2].
    + cbn [merge_all]. rewrite total_zero_heads by lia. reflexivity.
    + cbn [merge_all]. destruct (min_row (heads feeds)) as [m|] eqn:Em; auto. f_equal.
      apply min_row_some in Em as [Hm _]. pose proof (total_pop_lt m feeds Hm). apply IH; lia.
Qed.

Lemma cut_pop m m0 feeds : before m m0 = false -> cut m (map (pop m0) feeds) = cut m feeds.
Proof.
  intros Hb. unfold cut. rewrite map_map. apply map_ext. intros f.
  destruct f as [|h t]; cbn [pop]; auto. destruct (seqid_eqb (r_seq h) m0) eqn:E; auto.
  apply seqid_eqb_eq in E. cbn [filter]. unfold gt at 2. rewrite E, Hb. reflexivity.
Qed.

Lemma total_cut_le m feeds : (total (cut m feeds) <= total feeds)%nat.
Proof.
  induction feeds as [|f fs IH]; cbn [cut map]; auto. fold (cut m fs). rewrite !total_cons.
  pose proof (filter_length_le (gt m) f). lia.
Qed.

(* every row of ascending feeds is at or after the minimal head *)
Lemma min_head_le_all feeds m0 f x :
  feeds_sorted feeds -> min_row (heads feeds) = Some m0 -> In f feeds -> In x f ->
  r_seq x = r_seq m0 \/ before (r_seq m0) (r_seq x) = true.
Proof.
  intros Hs Em Hf Hx. apply min_row_some in Em as [_ Hmin].
  destruct f as [|h t]; [destruct Hx|].
  assert (r_seq h = r_seq m0 \/ before (r_seq m0) (r_seq h) = true) as Hh.
  { assert (before (r_seq h) (r_seq m0) = false) as Hb by (apply Hmin, heads_In; eauto).
    destruct (seqid_eqb (r_seq h) (r_seq m0)) eqn:E; [left; apply seqid_eqb_eq; auto|].
    right. assert (r_seq h <> r_seq m0) as Hne by (intros Heq; apply seqid_eqb_eq in Heq; congruence).
    destruct (before_total _ _ Hne); auto; congruence. }
  destruct Hx as [<-|Hx]; auto. right.
  specialize (Hs _ Hf). inv Hs. rewrite Forall_forall in H2. specialize (H2 x Hx). unfold rlt in H2.
  destruct Hh as [<-|Hh]; auto. eapply before_trans; eauto.
Qed.

Lemma cut_id m feeds :
  (forall f x, In f feeds -> In x f -> gt m x = true) -> cut m feeds = feeds.
Proof.
  intros H. unfold cut. rewrite <- (map_id feeds) at 2. apply map_ext_in. intros f Hf.
  apply filter_all. intros x Hx; eauto.
Qed.

Theorem merge_cut m fuel : forall feeds, feeds_sorted feeds -> (total feeds <= fuel)%nat ->
  merge_all fuel (cut m feeds) = filter (gt m) (merge_all fuel feeds).
Proof.
  induction fuel as [|k IH]; intros feeds Hs Ht; [reflexivity|].
  change (merge_all (S k) feeds) with
    (match min_row (heads feeds) with
     | None => []
     | Some m1 => group m1 (heads feeds) :: merge_all k (map (pop (r_seq m1)) feeds)
     end).
  destruct (min_row (heads feeds)) as [m0|] eqn:Em.
  - pose proof Em as Em'. apply min_row_some in Em' as [Hm0 _]. pose proof (total_pop_lt m0 feeds Hm0) as Hlt.
    cbn [filter]. unfold gt at 1. rewrite group_seq.
    destruct (before m (r_seq m0)) eqn:Eb.
    + (* everything is after m: nothing is cut *)
      assert (forall f x, In f feeds -> In x f -> gt m x = true) as Hall.
      { intros f x Hf Hx. unfold gt. destruct (min_head_le_all feeds m0 f x Hs Em Hf Hx) as [->|H]; auto.
        eapply before_trans; eauto. }
      rewrite (cut_id m feeds Hall). cbn [merge_all]. rewrite Em. f_equal.
      rewrite <- (IH (map (pop (r_seq m0)) feeds)); [|apply feeds_sorted_pop; auto | lia].
      rewrite cut_id; auto. intros f' x Hf' Hx. apply in_map_iff in Hf' as [f [<- Hf]].
      apply (Hall f); auto. eapply pop_incl; eauto.
    + (* the minimal token is at or before m: it is cut from both sides *)
      rewrite <- (IH (map (pop (r_seq m0)) feeds)); [|apply feeds_sorted_pop; auto | lia].
      rewrite cut_pop by auto.
      apply merge_all_fuel.
      * rewrite <- (cut_pop m (r_seq m0)) by auto. pose proof (total_cut_le m (map (pop (r_seq m0)) feeds)). lia.
      * rewrite <- (cut_pop m (r_seq m0)) by auto. pose proof (total_cut_le m (map (pop (r_seq m0)) feeds)). lia.
  - apply min_row_none in Em. cbn [filter].
    assert (heads (cut m feeds) = []) as Hc.
    { destruct (heads (cut m feeds)) as [|h t] eqn:E; auto. exfalso.
      assert (In h (heads (cut m feeds))) as Hh by (rewrite E; cbn; auto). apply heads_In in Hh as [t' Ht'].
      unfold cut in Ht'. apply in_map_iff in Ht' as [f [Ef Hf]]. destruct f as [|a r]; [discriminate|].
      assert (In a (heads feeds)) by (apply heads_In; eauto). rewrite Em in *; auto. }
    cbn [merge_all]. rewrite Hc. reflexivity.
Qed.

(* ---------- splitting an ascending list at the token of its n-th row ---------- *)
Lemma rsorted_app l1 l2 :
  rsorted (l1 ++ l2) -> rsorted l1 /\ rsorted l2 /\ (forall a b, In a l1 -> In b l2 -> rlt a b).
Proof.
  induction l1 as [|x l1 IH]; cbn; intros H.
  - repeat split; auto; [constructor | intros ? ? []].
  - inv H. rewrite Forall_forall in H3. destruct (IH H2) as [H4 [H5 H6]]. repeat split; auto.
    + constructor; auto. apply Forall_forall; intros y Hy; apply H3, in_or_app; auto.
    + intros a b [<-|Ha] Hb; auto. apply H3, in_or_app; auto.
Qed.

Lemma rsorted_filter f l : rsorted l -> rsorted (filter f l).
Proof.
  induction l as [|x l IH]; cbn; auto; intros H; inv H. rewrite Forall_forall in H3.
  destruct (f x); [|apply IH; auto]. constructor; [apply IH; auto|]. apply Forall_forall; intros y Hy; apply filter_In in Hy as [Hy _]; auto.
Qed.

Lemma rsorted_page_rest Q n l :
  rsorted Q -> last_opt (firstn n Q) = Some l -> firstn n Q ++ filter (gt (r_seq l)) Q = Q.
Proof.
  intros Hs Hl. rewrite <- (firstn_skipn n Q) in Hs. destruct (rsorted_app _ _ Hs) as [H1 [H2 H3]].
  rewrite <- (firstn_skipn n Q) at 2 3. rewrite filter_app. f_equal.
  apply last_opt_some in Hl as [p Ep].
  assert (filter (gt (r_seq l)) (firstn n Q) = []) as ->.
  { rewrite Ep in *. destruct (rsorted_app _ _ H1) as [_ [_ Hp]].
    rewrite filter_app. cbn [filter]. unfold gt at 2. rewrite before_irrefl. rewrite app_nil_r.
    clear - Hp. induction p as [|a p IH]; cbn; auto. unfold gt at 1.
    assert (rlt a l) as Ha by (apply Hp; cbn; auto). unfold rlt in Ha. rewrite (before_asym _ _ Ha).
    apply IH. intros x y Hx Hy; apply Hp; cbn; auto. }
  cbn [app]. apply filter_all. intros x Hx. apply H3; auto. rewrite Ep. apply in_or_app; right; cbn; auto.
Qed.
