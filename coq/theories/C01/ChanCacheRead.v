(* C01: what GetCachedChanges / GetChanges return, for every cache state satisfying cc_inv. *)
From Coq Require Import Sorting.Sorted Sorting.Permutation.
From SG Require Import Base.Prelude C01.ChanCache C01.ChanCacheLists C01.ChanCacheTruth C01.ChanCacheInv.
Open Scope N_scope.

Lemma take_nil {A} n : take n (@nil A) = [].
Proof. destruct n; cbn; auto. Qed.

(* ---------- _getCachedChanges ---------- *)
Lemma get_cached_rows c since limit : snd (get_cached c since limit) = take limit (drop_le since (logs c)).
Proof. unfold get_cached; destruct (logs c); cbn [snd]; auto. cbn; rewrite take_nil; auto. Qed.

Lemma get_cached_vf_limit c since l1 l2 : fst (get_cached c since l1) = fst (get_cached c since l2).
Proof. unfold get_cached; destruct (logs c); auto. Qed.

(* cache hit: everything after [since] lies in the range for which the cache is complete *)
Lemma cached_hit B F c since limit :
  cc_inv B F c -> fst (get_cached c since limit) <= since + 1 ->
  forall x, since < e_seq x -> vfrom c <= e_seq x.
Proof.
  intros I H x Hx. unfold get_cached in H. destruct (logs c) as [|l0 L] eqn:EL; cbn [fst] in H; [lia|].
  rewrite <- EL in H. destruct (last_le since (logs c) None) as [l|] eqn:E; [|lia].
  apply last_le_some in E as [E|[Hl Hs]]; [discriminate|]. pose proof (inv_ge _ _ _ I l Hl). lia.
Qed.

(* cache miss: nothing cached is at or below [since]; the reported validity point is validFrom *)
Lemma cached_miss B F c since limit :
  cc_inv B F c -> since + 1 < fst (get_cached c since limit) ->
  fst (get_cached c since limit) = vfrom c /\ drop_le since (logs c) = logs c /\
  (forall x, In x (logs c) -> since < e_seq x).
Proof.
  intros I H. unfold get_cached in *. destruct (logs c) as [|l0 L] eqn:EL; cbn [fst] in *.
  - repeat split; auto. intros x [].
  - rewrite <- EL in *. destruct (last_le since (logs c) None) as [l|] eqn:E.
    + apply last_le_some in E as [E|[Hl Hs]]; [discriminate | lia].
    + pose proof (last_le_none since (logs c) (inv_sorted _ _ _ I) E) as Hall.
      repeat split; auto. rewrite drop_le_filter by apply (inv_sorted _ _ _ I).
      apply filter_all. intros x Hx; apply Hall in Hx; lia.
Qed.

(* ---------- the overlap element ---------- *)
Lemma dedupe_skipn q fc : exists k, dedupe q fc = skipn k fc.
Proof.
  unfold dedupe. destruct (last_opt q); [|exists 0%nat; auto].
  destruct fc as [|x r]; [exists 0%nat; auto|]. destruct (e_seq x =? e_seq e); [exists 1%nat | exists 0%nat]; auto.
Qed.

Lemma sorted_min_is_head l b : sorted l -> In b l -> (forall y, In y l -> e_seq b <= e_seq y) -> exists t, l = b :: t.
Proof.
  destruct l as [|h t]; [intros _ []|]. intros Hs [->|Hb] Hmin; [eauto|].
  apply sorted_cons_inv in Hs as [_ Hh]. specialize (Hh b Hb). specialize (Hmin h (or_introl eq_refl)). lia.
Qed.

Lemma dedupe_cross q fc :
  sorted q -> sorted fc -> (forall a b, In a q -> In b fc -> e_seq a <= e_seq b) ->
  forall a b, In a q -> In b (dedupe q fc) -> e_seq a < e_seq b.
Proof.
  intros Sq Sf Hle a b Ha Hb.
  assert (In b fc) as Hbf by (destruct (dedupe_skipn q fc) as [k E]; rewrite E in Hb; eapply skipn_incl; eauto).
  pose proof (Hle a b Ha Hbf) as H. destruct (N.eq_dec (e_seq a) (e_seq b)) as [E|]; [|lia]. exfalso.
  assert (last_opt q = Some a) as La.
  { apply sorted_max_is_last; auto. intros y Hy; specialize (Hle y b Hy Hbf); lia. }
  destruct (sorted_min_is_head fc b Sf Hbf) as [t Et].
  { intros y Hy; specialize (Hle a y Ha Hy); lia. }
  unfold dedupe in Hb; rewrite La, Et in Hb. rewrite E, N.eqb_refl in Hb.
  rewrite Et in Sf; apply sorted_cons_inv in Sf as [_ Hh]; apply Hh in Hb; lia.
Qed.

Lemma dedupe_keeps q fc f : In f fc -> (forall y, In y q -> e_seq y < e_seq f) -> In f (dedupe q fc).
Proof.
  intros Hf Hq. unfold dedupe. destruct (last_opt q) as [y|] eqn:E; auto.
  destruct fc as [|x r]; auto. destruct (e_seq x =? e_seq y) eqn:Ex; auto.
  destruct Hf as [->|]; auto. apply N.eqb_eq in Ex. apply last_opt_In in E; apply Hq in E; lia.
Qed.

(* ---------- the query part ---------- *)
Section Query.
  Variables (B : list entry) (lo hi : N) (limit : nat) (ao : bool).
  Hypothesis Hn : NoDup (map e_seq B).
  Let q := query B lo hi limit ao.

  Lemma query_In x : In x q -> In x (qall B lo hi).
  Proof.
    unfold q, query; intros H; apply take_incl in H. destruct ao; auto. apply filter_In in H; tauto.
  Qed.

  Lemma query_sorted : sorted q.
  Proof.
    unfold q, query; apply sorted_take. destruct ao; [apply sorted_filter|]; apply qall_sorted; auto.
  Qed.

  Lemma query_NoDup_doc : NoDup (map e_doc q).
  Proof.
    unfold q, query; apply NoDup_map_take. destruct ao; [apply NoDup_map_filter|]; apply qall_NoDup_doc; auto.
  Qed.
End Query.

(* ---------- soundness of GetChanges: no quiescence, any limit, any active_only ---------- *)
Lemma gc_rows_shape q fc limit :
  exists rest, gc_rows q fc limit = q ++ rest /\ exists n k, rest = firstn n (skipn k fc) /\
    (forall x, In x rest -> In x (dedupe q fc)).
Proof.
  unfold gc_rows.
  destruct (((limit =? 0)%nat || (length q <? limit)%nat) && negb (length fc =? 0)%nat).
  - destruct (dedupe_skipn q fc) as [k E]. eexists; split; [reflexivity|].
    eexists; exists k; rewrite E; split; [reflexivity|]. intros x; apply firstn_incl.
  - exists []; rewrite app_nil_r; split; auto. exists 0%nat, 0%nat; split; auto. intros x [].
Qed.

Theorem get_changes_sound B F c since limit ao :
  truth_wf B F -> cc_inv B F c ->
  let rows := snd (get_changes B c since limit ao) in
  sorted rows /\ NoDup (map e_doc rows) /\ (forall x, In x rows -> In x B /\ since < e_seq x).
Proof.
  intros W I rows. subst rows. unfold get_changes.
  pose proof (inv_sorted _ _ _ I) as Ls. pose proof (inv_nodup _ _ _ I) as Ln. pose proof (tw_seq _ _ W) as Hn.
  destruct (get_cached c since (if ao then 0%nat else limit)) as [cvf fc] eqn:EG.
  assert (fc = take (if ao then 0%nat else limit) (drop_le since (logs c))) as Efc
    by (rewrite <- get_cached_rows, EG; auto).
  assert (cvf = fst (get_cached c since (if ao then 0%nat else limit))) as Ecvf by (rewrite EG; auto).
  destruct (cvf <=? since + 1) eqn:Eh; cbn [snd].
  - (* hit *)
    rewrite Efc, drop_le_filter by auto. repeat split.
    + apply sorted_take, sorted_filter; auto.
    + apply NoDup_map_take, NoDup_map_filter; auto.
    + apply take_incl, filter_In in H as [H _]; eapply inv_sound; eauto.
    + apply take_incl, filter_In in H as [_ H]; lia.
  - (* miss *)
    apply N.leb_gt in Eh. rewrite Ecvf in Eh.
    destruct (cached_miss B F c since _ I Eh) as [Ev [Ed Hall]]. rewrite <- Ecvf in Ev. rewrite Ed in Efc.
    set (q := query B (since + 1) cvf limit ao).
    pose proof (query_sorted B (since + 1) cvf limit ao Hn) as Qs. fold q in Qs.
    pose proof (query_NoDup_doc B (since + 1) cvf limit ao Hn) as Qn. fold q in Qn.
    assert (forall x, In x q -> In x B /\ is_latest B x = true /\ since + 1 <= e_seq x /\ e_seq x <= vfrom c) as Qin.
    { intros x Hx; apply query_In in Hx; apply qall_In in Hx; rewrite Ev in Hx; auto. }
    assert (sorted fc) as Fs by (rewrite Efc; apply sorted_take; auto).
    assert (forall x, In x fc -> In x (logs c)) as Fin by (intros x; rewrite Efc; apply take_incl).
    destruct (gc_rows_shape q fc limit) as [rest [-> [n [k [Er Hrd]]]]].
    assert (forall a b, In a q -> In b rest -> e_seq a < e_seq b) as Hcross.
    { intros a b Ha Hb. apply (dedupe_cross q fc); auto.
      intros a' b' Ha' Hb'. apply Qin in Ha'. apply Fin in Hb'. pose proof (inv_ge _ _ _ I b' Hb'). lia. }
    assert (forall x, In x rest -> In x (logs c)) as Rin.
    { intros x Hx; rewrite Er in Hx; apply firstn_incl, skipn_incl in Hx; auto. }
    repeat split.
    + apply sorted_app; repeat split; auto. rewrite Er; apply sorted_firstn, sorted_skipn; auto.
    + apply NoDup_map_app; repeat split; auto.
      * rewrite Er, Efc. apply NoDup_map_firstn, NoDup_map_skipn, NoDup_map_take; auto.
      * intros a b Ha Hb Hd. pose proof (Hcross a b Ha Hb). apply Qin in Ha as [_ [La _]].
        rewrite is_latest_spec in La. specialize (La b (inv_sound _ _ _ I b (Rin b Hb)) (eq_sym Hd)). lia.
    + apply in_app_or in H as [H|H]; [apply Qin in H; tauto | eapply inv_sound; eauto].
    + apply in_app_or in H as [H|H]; [apply Qin in H; lia | apply Hall; auto].
Qed.

(* the limit is respected (without active_only, whose limit the feed applies after filtering) *)
Theorem get_changes_limit_bound B c since limit :
  limit <> 0%nat -> (length (snd (get_changes B c since limit false)) <= limit)%nat.
Proof.
  intros Hl. unfold get_changes. destruct (get_cached c since limit) as [cvf fc] eqn:EG.
  assert (fc = take limit (drop_le since (logs c))) as Efc by (rewrite <- get_cached_rows, EG; auto).
  destruct (cvf <=? since + 1); cbn [snd].
  - rewrite Efc; apply take_length_le; auto.
  - set (q := query B (since + 1) cvf limit false).
    assert (length q <= limit)%nat as Hq by (apply take_length_le; auto).
    unfold gc_rows.
    destruct (((limit =? 0)%nat || (length q <? limit)%nat) && negb (length fc =? 0)%nat); auto.
    rewrite app_length, firstn_length.
    destruct (negb (limit =? 0)%nat && (limit - length q <? length (dedupe q fc))%nat) eqn:E.
    + lia.
    + apply andb_false_iff in E as [E|E].
      * apply negb_false_iff, Nat.eqb_eq in E; lia.
      * apply Nat.ltb_ge in E; lia.
Qed.

(* ---------- completeness: no quiescence; limit 0 ---------- *)
Theorem get_changes_complete B F c since ao :
  truth_wf B F -> cc_inv B F c ->
  forall f, In f F -> is_latest B f = true -> since < e_seq f -> (ao = true -> is_active f = true) ->
  In f (snd (get_changes B c since 0 ao)).
Proof.
  intros W I f Hf Lf Hs Hact. unfold get_changes.
  replace (if ao then 0%nat else 0%nat) with 0%nat by (destruct ao; auto).
  destruct (get_cached c since 0) as [cvf fc] eqn:EG.
  pose proof (get_cached_rows c since 0) as Efc; rewrite EG in Efc; cbn [snd take] in Efc.
  assert (cvf = fst (get_cached c since 0)) as Ecvf by (rewrite EG; auto).
  destruct (cvf <=? since + 1) eqn:Eh; cbn [snd].
  - apply N.leb_le in Eh. rewrite Ecvf in Eh.
    rewrite Efc. apply drop_le_In; [apply (inv_sorted _ _ _ I)|]. split; auto.
    apply (inv_complete _ _ _ I); auto. apply (cached_hit B F c since 0%nat I Eh); auto.
  - apply N.leb_gt in Eh. rewrite Ecvf in Eh.
    destruct (cached_miss B F c since _ I Eh) as [Ev [Ed Hall]]. rewrite <- Ecvf in Ev. rewrite Ed in Efc. subst fc.
    set (q := query B (since + 1) cvf 0 ao).
    assert (forall x, In x q -> e_seq x <= vfrom c) as Qle.
    { intros x Hx; apply query_In, qall_In in Hx; lia. }
    assert (e_seq f <= vfrom c -> In f q) as Hq.
    { intros Hle. unfold q, query; cbn [take].
      assert (In f (qall B (since + 1) cvf)) by (apply qall_In; repeat split; auto; [apply (tw_incl _ _ W); auto | lia | lia]).
      destruct ao; auto. apply filter_In; auto. }
    unfold gc_rows. cbn [Nat.eqb orb andb negb].
    destruct (length (logs c) =? 0)%nat eqn:El; cbn [negb].
    + apply Nat.eqb_eq in El. destruct (logs c) eqn:EL; [|discriminate].
      destruct (N.le_gt_cases (e_seq f) (vfrom c)) as [H|H]; auto.
      exfalso. assert (In f (logs c)) by (apply (inv_complete _ _ _ I); auto; lia). rewrite EL in *; auto.
    + rewrite firstn_all. apply in_or_app.
      destruct (N.le_gt_cases (e_seq f) (vfrom c)) as [H|H]; auto. right.
      apply dedupe_keeps; [apply (inv_complete _ _ _ I); auto; lia|]. intros y Hy; apply Qle in Hy; lia.
Qed.

(* ---------- quiescence (everything written has been delivered): the answer IS the truth ---------- *)
Definition quiescent (B F : list entry) : Prop := forall b, In b B -> In b F.

Lemma get_changes_rows_latest B F c since limit ao :
  truth_wf B F -> cc_inv B F c -> quiescent B F ->
  forall x, In x (snd (get_changes B c since limit ao)) -> is_latest B x = true.
Proof.
  intros W I Q x. unfold get_changes.
  destruct (get_cached c since (if ao then 0%nat else limit)) as [cvf fc] eqn:EG.
  assert (fc = take (if ao then 0%nat else limit) (drop_le since (logs c))) as Efc
    by (rewrite <- get_cached_rows, EG; auto).
  assert (forall y, In y fc -> In y (logs c)) as Fin.
  { intros y; rewrite Efc, drop_le_filter by apply (inv_sorted _ _ _ I). intros H; apply take_incl, filter_In in H; tauto. }
  destruct (cvf <=? since + 1); cbn [snd].
  - intros H; apply (cached_latest_quiescent B F c); auto.
  - destruct (gc_rows_shape (query B (since + 1) cvf limit ao) fc limit) as [rest [-> [n [k [Er _]]]]].
    intros H; apply in_app_or in H as [H|H].
    + apply query_In, qall_In in H; tauto.
    + apply (cached_latest_quiescent B F c); auto. rewrite Er in H; apply firstn_incl, skipn_incl in H; auto.
Qed.

Theorem get_changes_quiescent B F c since :
  truth_wf B F -> cc_inv B F c -> quiescent B F ->
  snd (get_changes B c since 0 false) = truth B since.
Proof.
  intros W I Q.
  destruct (get_changes_sound B F c since 0%nat false W I) as [Hs [_ Hin]].
  apply sorted_ext_eq; auto. { apply truth_sorted, (tw_seq _ _ W). }
  intros x; rewrite truth_In; split.
  - intros H; destruct (Hin x H); repeat split; auto. eapply get_changes_rows_latest; eauto.
  - intros [Bx [Lx Hx]]. apply (get_changes_complete B F c since false W I); auto. discriminate.
Qed.

(* with active_only the query part is filtered and the cached part is not: after the feed's own
   filter (drop deleted and removed rows) the answer is the active part of the truth *)
Theorem get_changes_quiescent_active_only B F c since :
  truth_wf B F -> cc_inv B F c -> quiescent B F ->
  filter is_active (snd (get_changes B c since 0 true)) = filter is_active (truth B since).
Proof.
  intros W I Q.
  destruct (get_changes_sound B F c since 0%nat true W I) as [Hs [_ Hin]].
  apply sorted_ext_eq; try apply sorted_filter; auto. { apply truth_sorted, (tw_seq _ _ W). }
  intros x; rewrite !filter_In, truth_In; split.
  - intros [H Ha]; destruct (Hin x H); repeat split; auto. eapply get_changes_rows_latest; eauto.
  - intros [[Bx [Lx Hx]] Ha]; split; auto. apply (get_changes_complete B F c since true W I); auto.
Qed.

(* ---------- the request limit only cuts the answer ---------- *)
Lemma firstn_firstn_le {A} (l : list A) a b : (a <= b)%nat -> firstn a (firstn b l) = firstn a l.
Proof. intros H; rewrite firstn_firstn; f_equal; lia. Qed.

Lemma gc_rows_zero q fc : gc_rows q fc 0 = match fc with [] => q | _ => q ++ dedupe q fc end.
Proof.
  unfold gc_rows. cbn [Nat.eqb orb andb negb]. destruct fc as [|x r]; [reflexivity|].
  cbn [length Nat.eqb negb]. rewrite firstn_all; auto.
Qed.

Lemma gc_rows_limit q fc n :
  n <> 0%nat -> gc_rows (take n q) (take n fc) n = take n (gc_rows q fc 0).
Proof.
  intros Hn. destruct n as [|n]; [congruence|]. cbn [take]. rewrite gc_rows_zero.
  destruct (Nat.le_gt_cases (S n) (length q)) as [Hq|Hq].
  - (* the query alone fills the page *)
    assert (length (firstn (S n) q) = S n) as El by (rewrite firstn_length; lia).
    unfold gc_rows. rewrite El, Nat.ltb_irrefl. cbn [Nat.eqb orb andb].
    destruct fc as [|x r]; auto.
    rewrite firstn_app. replace (S n - length q)%nat with 0%nat by lia. cbn [firstn]. rewrite app_nil_r; auto.
  - rewrite (firstn_all2 q) by lia. unfold gc_rows. cbn [Nat.eqb orb].
    assert ((length q <? S n)%nat = true) as -> by (apply Nat.ltb_lt; lia). cbn [andb negb].
    destruct fc as [|x r].
    + rewrite firstn_nil. cbn [length Nat.eqb negb]. symmetry; apply firstn_all2; lia.
    + change (firstn (S n) (x :: r)) with (x :: firstn n r). cbn [length Nat.eqb negb].
      rewrite firstn_app, (firstn_all2 q) by lia. f_equal.
      set (room := (S n - length q)%nat).
      set (d1 := dedupe q (x :: firstn n r)). set (d0 := dedupe q (x :: r)).
      assert (firstn (if (room <? length d1)%nat then room else length d1) d1 = firstn room d1) as ->.
      { destruct (room <? length d1)%nat eqn:E; auto. apply Nat.ltb_ge in E. rewrite firstn_all, firstn_all2; auto. }
      unfold d1, d0, dedupe. destruct (last_opt q) as [y|] eqn:Ey.
      * destruct (e_seq x =? e_seq y).
        -- apply firstn_firstn_le. apply last_opt_In in Ey. destruct q; [destruct Ey|]. unfold room; cbn [length]; lia.
        -- change (x :: firstn n r) with (firstn (S n) (x :: r)). apply firstn_firstn_le. unfold room; lia.
      * change (x :: firstn n r) with (firstn (S n) (x :: r)). apply firstn_firstn_le. unfold room; lia.
Qed.

Theorem get_changes_limit B c since n :
  n <> 0%nat -> snd (get_changes B c since n false) = take n (snd (get_changes B c since 0 false)).
Proof.
  intros Hn. unfold get_changes.
  pose proof (get_cached_vf_limit c since n 0) as Ev.
  pose proof (get_cached_rows c since n) as Er. pose proof (get_cached_rows c since 0) as Er0.
  destruct (get_cached c since n) as [cvf fc]; destruct (get_cached c since 0) as [cvf0 fc0].
  cbn [fst snd] in *. subst cvf0. cbn [take] in Er0. subst fc fc0.
  destruct (cvf <=? since + 1); cbn [snd]; auto.
  unfold query. apply gc_rows_limit; auto.
Qed.

Corollary get_changes_quiescent_limit B F c since n :
  truth_wf B F -> cc_inv B F c -> quiescent B F ->
  snd (get_changes B c since n false) = take n (truth B since).
Proof.
  intros W I Q. destruct n as [|n]; [apply (get_changes_quiescent B F); auto|].
  rewrite get_changes_limit by discriminate. f_equal. apply (get_changes_quiescent B F); auto.
Qed.

(* ---------- GetCachedChanges alone, when it reports a validity point at or below since+1 ---------- *)
Theorem get_cached_exact B F c since :
  truth_wf B F -> cc_inv B F c -> quiescent B F ->
  fst (get_cached c since 0) <= since + 1 -> snd (get_cached c since 0) = truth B since.
Proof.
  intros W I Q Hv. rewrite get_cached_rows; cbn [take].
  pose proof (inv_sorted _ _ _ I) as Ls.
  apply sorted_ext_eq. { rewrite drop_le_filter by auto; apply sorted_filter; auto. } { apply truth_sorted, (tw_seq _ _ W). }
  intros x; rewrite drop_le_In, truth_In by auto; split.
  - intros [Hx Hs]; repeat split; auto; [eapply inv_sound; eauto | eapply cached_latest_quiescent; eauto].
  - intros [Bx [Lx Hs]]; split; auto. apply (inv_complete _ _ _ I); auto. eapply cached_hit; eauto.
Qed.
