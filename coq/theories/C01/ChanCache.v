(* C01, layer 1: executable model of db/channel_cache_single.go (singleChannelCacheImpl).

   State: [logs] (ascending by sequence), [vfrom] (validFrom), [docs] (the cachedDocIDs map, as a
   set) and the two length options.  The channel's ground truth is a list [B] of log entries (one per
   write that concerns the channel: the document is in the channel after the write, or left it at
   that write -- then the entry carries the Removed flag); the query oracle ([qall]/[query]) returns
   the latest entry per document inside a sequence range, ascending, which is what QueryChannels
   computes from the documents' channel maps.

   The functions follow the Go code branch by branch, written front-to-back instead of with index
   arithmetic from the end of the slice.  The two agree on every state in which [logs] is strictly
   ascending with one entry per document (the invariant proved in ChanCacheInv.v):
     - insertChange's "first index from the end with a smaller sequence, plus one" is the position
       in front of the first entry with a sequence >= the new one ([ins]);
     - the backward scans for an entry of the same document find the only such entry ([find_doc],
       [remove_doc]);
     - _getCachedChanges' backward scan "while Sequence > since" yields the suffix left after
       dropping the leading entries with Sequence <= since ([drop_le]).
   Timers: pruneCacheAge receives the set of sequences whose entries are older than
   ChannelCacheAge as an adversarial input.  Locks: every exported method holds c.lock for its whole
   body and is an atomic step; GetChanges (cache read, query, prependChanges) is modelled as ONE
   atomic step -- the window between the query and prependChanges is not modelled. *)
From SG Require Import Base.Prelude.
Open Scope N_scope.

Record entry := mkE { e_seq : N; e_doc : N; e_rev : N; e_rm : bool; e_del : bool }.

Definition entry_eqb (a b : entry) : bool :=
  (e_seq a =? e_seq b) && (e_doc a =? e_doc b) && (e_rev a =? e_rev b)
  && Bool.eqb (e_rm a) (e_rm b) && Bool.eqb (e_del a) (e_del b).

Definition set_removed (e : entry) : entry := mkE (e_seq e) (e_doc e) (e_rev e) true (e_del e).
Definition is_active (e : entry) : bool := negb (e_rm e) && negb (e_del e).

Record cc := mkC { logs : list entry; vfrom : N; docs : list N; maxlen : nat; minlen : nat }.

Definition init (vf : N) (maxl minl : nat) : cc := mkC [] vf [] maxl minl.

Definition set_logs (c : cc) (l : list entry) : cc := mkC l (vfrom c) (docs c) (maxlen c) (minlen c).
Definition set_docs (c : cc) (d : list N) : cc := mkC (logs c) (vfrom c) d (maxlen c) (minlen c).
Definition set_vfrom (c : cc) (v : N) : cc := mkC (logs c) v (docs c) (maxlen c) (minlen c).

(* ---------- small list helpers ---------- *)
Definition memN (x : N) (l : list N) : bool := existsb (N.eqb x) l.
Definition doc_add (d : N) (ds : list N) : list N := if memN d ds then ds else d :: ds.
Definition docs_del (gone : list N) (ds : list N) : list N := filter (fun d => negb (memN d gone)) ds.

Definition has_doc (d : N) (l : list entry) : bool := existsb (fun x => e_doc x =? d) l.
Definition find_doc (d : N) (l : list entry) : option entry := find (fun x => e_doc x =? d) l.
Definition remove_doc (d : N) (l : list entry) : list entry := filter (fun x => negb (e_doc x =? d)) l.

Fixpoint last_opt {A} (l : list A) : option A :=
  match l with [] => None | [x] => Some x | _ :: r => last_opt r end.

(* sorted insertion in front of the first entry whose sequence is >= the new one *)
Fixpoint ins (e : entry) (l : list entry) : list entry :=
  match l with
  | [] => [e]
  | x :: r => if e_seq e <=? e_seq x then e :: l else x :: ins e r
  end.

(* Go's "limit": 0 means unlimited *)
Definition take (n : nat) {A} (l : list A) : list A := match n with O => l | _ => firstn n l end.

(* ---------- insertChange ---------- *)
Definition insert_change (c : cc) (e : entry) : cc :=
  if memN (e_doc e) (docs c) then
    match find_doc (e_doc e) (logs c) with
    | Some cur =>
        if e_seq e <=? e_seq cur then c            (* a later revision is already cached: ignore *)
        else set_logs c (ins e (remove_doc (e_doc e) (logs c)))
    | None => set_logs c (ins e (logs c))          (* deferred cachedDocIDs[doc] = {} is a no-op *)
    end
  else set_docs (set_logs c (ins e (logs c))) (doc_add (e_doc e) (docs c)).

(* ---------- _appendChange ---------- *)
Definition append_change (c : cc) (e : entry) : cc :=
  match last_opt (logs c) with
  | None =>
      let v := if e_seq e <? vfrom c then e_seq e else vfrom c in      (* _adjustFirstSeq *)
      mkC [e] v (doc_add (e_doc e) (docs c)) (maxlen c) (minlen c)
  | Some l =>
      if e_seq e <=? e_seq l then insert_change c e
      else if memN (e_doc e) (docs c) && has_doc (e_doc e) (logs c)
           then set_logs c (remove_doc (e_doc e) (logs c) ++ [e])
           else set_docs (set_logs c (logs c ++ [e])) (doc_add (e_doc e) (docs c))
  end.

(* ---------- _pruneCacheLength ---------- *)
Definition prune_len (c : cc) : cc :=
  let n := length (logs c) in
  if (maxlen c <? n)%nat then
    let p := (n - maxlen c)%nat in
    let gone := firstn p (logs c) in
    let v := match last_opt gone with Some x => e_seq x + 1 | None => vfrom c end in
    mkC (skipn p (logs c)) v (docs_del (map e_doc gone) (docs c)) (maxlen c) (minlen c)
  else c.

(* ---------- addToCache ---------- *)
Definition add_to_cache (c : cc) (e : entry) (is_removal : bool) : cc :=
  if e_seq e <? vfrom c then c                                         (* wouldBeImmediatelyPruned *)
  else prune_len (append_change c (if is_removal then set_removed e else e)).

(* ---------- pruneCacheAge; [aged] = sequences of the entries older than ChannelCacheAge ---------- *)
Fixpoint prune_age_loop (fuel : nat) (aged : list N) (c : cc) : cc :=
  match fuel with
  | O => c
  | S fuel' =>
      match logs c with
      | x :: r =>
          if (minlen c <? length (logs c))%nat && memN (e_seq x) aged
          then prune_age_loop fuel' aged (mkC r (e_seq x + 1) (docs_del [e_doc x] (docs c)) (maxlen c) (minlen c))
          else c
      | [] => c
      end
  end.
Definition prune_age (c : cc) (aged : list N) : cc :=
  if (maxlen c <=? minlen c)%nat then c else prune_age_loop (length (logs c)) aged c.

(* ---------- Remove (purge) ---------- *)
Definition purge (c : cc) (ds : list N) : cc * N :=
  let found := filter (fun d => memN d (docs c)) ds in
  let gone := filter (fun x => memN (e_doc x) found) (logs c) in
  (mkC (filter (fun x => negb (memN (e_doc x) found)) (logs c)) (vfrom c)
       (docs_del (map e_doc gone) (docs c)) (maxlen c) (minlen c),
   N.of_nat (length gone)).

(* ---------- _getCachedChanges ---------- *)
Fixpoint drop_le (since : N) (l : list entry) : list entry :=
  match l with
  | [] => []
  | x :: r => if e_seq x <=? since then drop_le since r else l
  end.
Fixpoint last_le (since : N) (l : list entry) (acc : option entry) : option entry :=
  match l with
  | [] => acc
  | x :: r => if e_seq x <=? since then last_le since r (Some x) else acc
  end.

Definition get_cached (c : cc) (since : N) (limit : nat) : N * list entry :=
  match logs c with
  | [] => (vfrom c, [])
  | _ =>
      let vf := match last_le since (logs c) None with Some x => e_seq x + 1 | None => vfrom c end in
      (vf, take limit (drop_le since (logs c)))
  end.

(* ---------- ground truth and query oracle ---------- *)
Definition is_latest (B : list entry) (e : entry) : bool :=
  forallb (fun x => negb (e_doc x =? e_doc e) || (e_seq x <=? e_seq e)) B.
Definition latest (B : list entry) : list entry := filter (is_latest B) B.
Definition isort (l : list entry) : list entry := fold_right ins [] l.

(* what a reader positioned at [since] must receive from this channel *)
Definition truth (B : list entry) (since : N) : list entry :=
  isort (filter (fun e => since <? e_seq e) (latest B)).

(* channel query: latest entry per document with lo <= sequence <= hi, ascending *)
Definition qall (B : list entry) (lo hi : N) : list entry :=
  isort (filter (fun e => (lo <=? e_seq e) && (e_seq e <=? hi)) (latest B)).
Definition query (B : list entry) (lo hi : N) (limit : nat) (active_only : bool) : list entry :=
  take limit (if active_only then filter is_active (qall B lo hi) else qall B lo hi).

(* ---------- prependChanges ---------- *)
Fixpoint prep_loop (vf : N) (cap : nat) (rch : list entry) (acc : list entry) (ds : list N) (cvf : N)
  : list entry * list N * N :=
  match rch with
  | [] => (acc, ds, cvf)
  | x :: r =>
      if (e_seq x <? vf) && negb (memN (e_doc x) ds) then
        let acc' := x :: acc in
        let ds' := doc_add (e_doc x) ds in
        if (cap <=? length acc')%nat then (acc', ds', e_seq x) else prep_loop vf cap r acc' ds' cvf
      else prep_loop vf cap r acc ds cvf
  end.

Definition prepend (c : cc) (changes : list entry) (cvfrom cvto : N) : cc :=
  match changes with
  | [] => if (cvfrom <? vfrom c) && (vfrom c <=? cvto) then set_vfrom c cvfrom else c
  | _ =>
      if cvto <? vfrom c then c
      else match logs c with
      | [] =>
          let excess := (length changes - maxlen c)%nat in
          let ch := skipn excess changes in
          let v := match excess, ch with
                   | S _, x :: _ => e_seq x
                   | _, _ => cvfrom
                   end in
          mkC ch v (fold_left (fun ds x => doc_add (e_doc x) ds) ch (docs c)) (maxlen c) (minlen c)
      | _ =>
          let cap := (maxlen c - length (logs c))%nat in
          if (cap =? 0)%nat then c
          else if vfrom c <=? cvfrom then c
          else
            (* Go builds entriesToPrepend separately and stops at len(entriesToPrepend) >= cacheCapacity;
               accumulating directly in front of the log with the bound maxlen is the same thing *)
            let '(acc, ds, v) := prep_loop (vfrom c) (maxlen c) (rev changes) (logs c) (docs c) cvfrom in
            mkC acc v ds (maxlen c) (minlen c)
      end
  end.

(* ---------- GetChanges ---------- *)
(* "if len(result) > 0 && resultFromCache[0].Sequence == result[len(result)-1].Sequence" *)
Definition dedupe (q fc : list entry) : list entry :=
  match last_opt q, fc with
  | Some y, x :: r => if e_seq x =? e_seq y then r else fc
  | _, _ => fc
  end.

(* concatenation of the query rows and the cached rows under the request limit *)
Definition gc_rows (q fc : list entry) (limit : nat) : list entry :=
  if ((limit =? 0)%nat || (length q <? limit)%nat) && negb (length fc =? 0)%nat then
    let fc' := dedupe q fc in
    let room := (limit - length q)%nat in
    let n := if negb (limit =? 0)%nat && (room <? length fc')%nat then room else length fc' in
    q ++ firstn n fc'
  else q.

Definition get_changes (B : list entry) (c : cc) (since : N) (limit : nat) (active_only : bool)
  : cc * list entry :=
  let '(cvf, from_cache) := get_cached c since (if active_only then O else limit) in
  let start := since + 1 in
  if cvf <=? start then (c, from_cache)
  else
    let q := query B start cvf limit active_only in
    let c' :=
      if active_only then c
      else
        let vto := if negb (limit =? 0)%nat && (limit <=? length q)%nat
                   then match last_opt q with Some x => e_seq x | None => cvf end
                   else cvf in
        if (length from_cache <? maxlen c)%nat then prepend c q start vto else c in
    (c', gc_rows q from_cache limit).

(* ---------- the component as a state machine over (cache, bucket B, delivered F) ---------- *)
Inductive op :=
| OWrite (e : entry)                                   (* a write reaches the bucket (visible to queries) *)
| OAdd (e : entry) (is_removal : bool)                 (* the caching feed delivers an entry: addToCache *)
| OPrepend (changes : list entry) (cvfrom cvto : N)    (* raw prependChanges *)
| OPruneAge (aged : list N)
| OPurge (ds : list N)                                 (* documents purged from the bucket, then Remove *)
| OGetCached (since : N) (limit : nat)
| OGetChanges (since : N) (limit : nat) (active_only : bool).

Inductive out :=
| RNone
| RCount (n : N)
| RCached (vf : N) (rows : list entry)
| RRows (rows : list entry).

Record sys := mkS { s_c : cc; s_B : list entry; s_F : list entry }.

Definition not_docs (ds : list N) (l : list entry) : list entry :=
  filter (fun x => negb (memN (e_doc x) ds)) l.

Definition delivered (e : entry) (is_removal : bool) : entry := if is_removal then set_removed e else e.

Definition step (s : sys) (o : op) : sys * out :=
  match o with
  | OWrite e => (mkS (s_c s) (e :: s_B s) (s_F s), RNone)
  | OAdd e r => (mkS (add_to_cache (s_c s) e r) (s_B s) (delivered e r :: s_F s), RNone)
  | OPrepend ch a b => (mkS (prepend (s_c s) ch a b) (s_B s) (s_F s), RNone)
  | OPruneAge aged => (mkS (prune_age (s_c s) aged) (s_B s) (s_F s), RNone)
  | OPurge ds =>
      let '(c', n) := purge (s_c s) ds in
      (mkS c' (not_docs ds (s_B s)) (not_docs ds (s_F s)), RCount n)
  | OGetCached since limit =>
      let '(vf, rows) := get_cached (s_c s) since limit in (s, RCached vf rows)
  | OGetChanges since limit ao =>
      let '(c', rows) := get_changes (s_B s) (s_c s) since limit ao in
      (mkS c' (s_B s) (s_F s), RRows rows)
  end.

Fixpoint run (s : sys) (ops : list op) : sys :=
  match ops with
  | [] => s
  | o :: r => run (fst (step s o)) r
  end.

Definition init_sys (vf : N) (maxl minl : nat) : sys := mkS (init vf maxl minl) [] [].
