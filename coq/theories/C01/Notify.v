(* C01, wake-up side of the channel cache: which channel ids channelCacheImpl.AddToCache
   (db/channel_cache.go) reports as changed -- the listeners of exactly these ids are notified
   (changeCache.notifyChange -> changeListener.Notify), so a parked continuous / long-poll feed is
   woken only through them.

     for channelName, removal := range change.Channels {
         if removal == nil || removal.Seq == change.Sequence {
             if channelName == "*" { explicitStarChannel = true }
             if cache, ok := getActiveChannelCache(channelID); ok { cache.addToCache(change, removal != nil) }
             updatedChannels = append(updatedChannels, channelID)      // "even if channel isn't active"
         }
     }
     if EnableStarChannelLog && !explicitStarChannel {
         if cache, ok := getActiveChannelCache(star); ok { cache.addToCache(change, false) }
         updatedChannels = append(updatedChannels, starChannelID)
     }

   An entry's channel map gives every channel the document is or was in: None = in the channel,
   Some s = left the channel at sequence s.  [active] is the set of channels that currently have a
   per-channel cache (the others are served by bypass caches, or were evicted).  Go iterates the
   map in arbitrary order: results are compared as sets (ascending lists).  The wait loop itself
   (ChangeWaiter.Wait, the broadcast ticker) is NOT modelled. *)
From SG Require Import Base.Prelude C01.ChanCache C01.ChanCacheLists C01.Merge C01.MergeProofs.
Open Scope N_scope.

Definition nstar : N := 0.      (* "*" *)

Definition concerned (seq : N) (cr : N * option N) : bool :=
  match snd cr with None => true | Some s => s =? seq end.

Definition is_removal (cr : N * option N) : bool := match snd cr with None => false | Some _ => true end.

(* (channels reported as changed, per-channel caches that received the entry with their removal flag) *)
Definition add_to_cache_all (active : list N) (seq : N) (chs : list (N * option N)) : list N * list (N * bool) :=
  let conc := filter (concerned seq) chs in
  let explicit_star := memN nstar (map fst conc) in
  let notified := fold_right set_add [] (map fst conc ++ (if explicit_star then [] else [nstar])) in
  let adds := map (fun cr => (fst cr, is_removal cr)) (filter (fun cr => memN (fst cr) active) conc)
              ++ (if negb explicit_star && memN nstar active then [(nstar, false)] else []) in
  (notified, adds).

Definition notified_channels (seq : N) (chs : list (N * option N)) : list N := fst (add_to_cache_all [] seq chs).

Lemma fold_set_add_In l x : In x (fold_right set_add [] l) <-> In x l.
Proof.
  induction l as [|a l IH]; cbn; [tauto|]. rewrite set_add_In, IH. intuition.
Qed.

(* every channel the entry concerns -- it is in it, or leaves it at this very sequence -- and the
   wildcard channel are reported, and nothing else: whether or not a cache exists for them *)
Theorem notified_channels_complete active seq chs c :
  In c (fst (add_to_cache_all active seq chs)) <->
  c = nstar \/ exists r, In (c, r) chs /\ (r = None \/ r = Some seq).
Proof.
  unfold add_to_cache_all; cbn [fst]. rewrite fold_set_add_In, in_app_iff, in_map_iff. split.
  - intros [[[c' r] [E H]]|H].
    + cbn in E; subst c'. apply filter_In in H as [H Hc]. right. exists r. split; auto.
      unfold concerned in Hc; cbn in Hc. destruct r as [s|]; auto. apply N.eqb_eq in Hc; subst; auto.
    + destruct (memN nstar (map fst (filter (concerned seq) chs))); [destruct H|].
      destruct H as [<-|[]]; auto.
  - intros [->|[r [H Hr]]].
    + destruct (memN nstar (map fst (filter (concerned seq) chs))) eqn:E.
      * left. apply memN_In, in_map_iff in E as [cr [E H]]. exists cr; auto.
      * right; cbn; auto.
    + left. exists (c, r). split; auto. apply filter_In; split; auto.
      unfold concerned; cbn. destruct Hr as [->| ->]; auto. apply N.eqb_refl.
Qed.

Theorem notified_independent_of_caches a1 a2 seq chs :
  fst (add_to_cache_all a1 seq chs) = fst (add_to_cache_all a2 seq chs).
Proof. reflexivity. Qed.

(* only caches of reported channels receive the entry, and every existing cache of a reported channel does *)
Theorem cache_adds_are_notified active seq chs c :
  (exists rm, In (c, rm) (snd (add_to_cache_all active seq chs))) <->
  In c active /\ In c (fst (add_to_cache_all active seq chs)).
Proof.
  rewrite notified_channels_complete. unfold add_to_cache_all; cbn [snd]. split.
  - intros [rm H]. apply in_app_or in H as [H|H].
    + apply in_map_iff in H as [[c' r] [E H]]. cbn in E. inversion E; subst c' rm; clear E.
      apply filter_In in H as [H Ha]. apply filter_In in H as [H Hc]. cbn in Ha. apply memN_In in Ha.
      split; auto. right. exists r. split; auto.
      unfold concerned in Hc; cbn in Hc. destruct r as [s|]; auto. apply N.eqb_eq in Hc; subst; auto.
    + destruct (negb (memN nstar (map fst (filter (concerned seq) chs))) && memN nstar active) eqn:E; [|destruct H].
      destruct H as [H|[]]. inversion H; subst. apply andb_true_iff in E as [_ E]. apply memN_In in E. auto.
  - intros [Ha [->|[r [H Hr]]]].
    + destruct (memN nstar (map fst (filter (concerned seq) chs))) eqn:E.
      * apply memN_In, in_map_iff in E as [[c' r] [E H]]. cbn in E; subst c'. exists (is_removal (nstar, r)).
        apply in_or_app; left. apply in_map_iff. exists (nstar, r). split; auto.
        apply filter_In; split; auto. cbn. apply memN_In; auto.
      * exists false. apply in_or_app; right. cbn [negb andb]. apply memN_In in Ha. rewrite Ha. cbn; auto.
    + exists (is_removal (c, r)). apply in_or_app; left. apply in_map_iff. exists (c, r). split; auto.
      apply filter_In; split; [|cbn; apply memN_In; auto]. apply filter_In; split; auto.
      unfold concerned; cbn. destruct Hr as [->| ->]; auto. apply N.eqb_refl.
Qed.
