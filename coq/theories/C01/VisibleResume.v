(* C01, layer 3: resuming from ANY position token the server handed out.

   [expected_tok] (VisibleTok.v) is the answer to a request carrying an arbitrary since token on a
   server with low sequence [low].  For canonical tokens -- what parseIntegerSequenceID returns for a
   token printed by the server, C20: parse (print_token t) = POk (canon t) -- the channel position
   [chan_since] and the test of the user pseudo-feed (SequenceID.Before) agree, and the answer is the
   answer from a plain sequence number, re-stamped.  All theorems about expected_changes transfer,
   and a page followed by the request resumed from the page's last token is the unpaged answer.
   For non-canonical tokens (never handed out) the two positions disagree and paging is refuted. *)
From Coq Require Import Sorting.Sorted.
From SG Require Import Base.Prelude C20.SeqIdGen C20.SeqId C20.SeqIdOrder C20.SeqIdCodec.
From SG Require Import C01.ChanCache C01.ChanCacheLists C01.ChanCacheTruth C01.ChanCacheInv C01.ChanCacheRead.
From SG Require Import C01.Merge C01.MergeProofs C01.MergePaging C01.Visible C01.VisiblePaging C01.VisibleTok.
Open Scope N_scope.

Lemma last_opt_map {A B} (f : A -> B) l : last_opt (map f l) = option_map f (last_opt l).
Proof.
  induction l as [|a l IH]; [reflexivity|]. destruct l as [|b l]; [reflexivity|].
  change (last_opt (map f (a :: b :: l))) with (last_opt (map f (b :: l))). rewrite IH. reflexivity.
Qed.

Lemma stamp_stamp low g : stamp_row low (stamp_row 0 g) = stamp_row low g.
Proof. destruct g as [[t l s] i r d rm rv al]; reflexivity. Qed.

Lemma merge_feeds_low feeds ao hi n low :
  merge_feeds feeds ao hi n low = map (stamp_row low) (merge_feeds feeds ao hi n 0).
Proof.
  unfold merge_feeds. rewrite !merge_loop_eq, map_map. apply map_ext. intros g; symmetry; apply stamp_stamp.
Qed.

(* ---------- canonical tokens: one position for the channels and for the user pseudo-feed ---------- *)
Lemma canon_before_user s0 low u :
  let s := norm_since low (canon s0) in before s (mk 0 0 u) = (chan_since s <? u).
Proof.
  destruct s0 as [t l q]. unfold norm_since, canon, backfill, chan_since, SafeSequence, mk; cbn [TriggeredBy LowSeq Seq].
  break_ifs; cbn [TriggeredBy LowSeq Seq] in *; open_before; break_ifs; lia.
Qed.

Lemma canonical_before_user s low u : canonical s ->
  before (norm_since low s) (mk 0 0 u) = (chan_since (norm_since low s) <? u).
Proof. unfold canonical; intros <-. apply canon_before_user. Qed.

Lemma norm_since_zero s : TriggeredBy s = 0 -> norm_since 0 s = s /\ chan_since s = SafeSequence s.
Proof.
  destruct s as [t l q]; cbn [TriggeredBy]; intros ->. unfold norm_since, chan_since; cbn [TriggeredBy LowSeq Seq mk].
  split; [|reflexivity]. break_ifs; auto. lia.
Qed.

(* without TriggeredBy and without skipped sequences the token-level answer is expected_changes *)
Lemma expected_tok_simple hist user udoc useq req since limit ao hi :
  TriggeredBy since = 0 ->
  expected_tok hist user udoc useq req since limit ao hi 0
  = expected_changes hist user udoc useq req since limit ao hi.
Proof.
  intros H. destruct (norm_since_zero since H) as [E1 E2]. unfold expected_tok, expected_changes. rewrite E1, E2. reflexivity.
Qed.

Lemma expected_tok_canonical hist user udoc useq req since limit ao hi low :
  canonical since ->
  expected_tok hist user udoc useq req since limit ao hi low
  = map (stamp_row low)
        (expected_changes hist user udoc useq req (mk 0 0 (chan_since (norm_since low since))) limit ao hi).
Proof.
  intros Hc. unfold expected_tok, expected_changes. cbv zeta. rewrite merge_feeds_low. f_equal.
  rewrite safe_simple. f_equal. f_equal.
  unfold user_feed. rewrite (canonical_before_user since low useq Hc), before_simple. reflexivity.
Qed.

(* the tokens handed out: stamped with the server's low sequence, never with a TriggeredBy *)
Lemma expected_simple_rows hist user udoc useq req s limit ao hi r :
  In r (expected_changes hist user udoc useq req (mk 0 0 s) limit ao hi) ->
  exists q, r_seq r = mk 0 0 q /\ s < q.
Proof.
  intros H. apply merge_filters in H as [g [Hg [-> _]]].
  apply merge_all_tokens in Hg as [f [x [Hf [Hx E]]]].
  assert (exists q, r_seq x = mk 0 0 q /\ s < q) as [q [Eq Hq]].
  { apply in_app_or in Hf as [Hf|Hf].
    - apply in_map_iff in Hf as [c [<- _]]. unfold feed_of in Hx. apply in_map_iff in Hx as [e [<- He]].
      rewrite safe_simple in He. apply truth_In in He. exists (e_seq e); cbn; intuition.
    - unfold user_feed in Hf. destruct Hf as [<-|[]].
      destruct ((0 <? useq) && before (mk 0 0 s) (mk 0 0 useq)) eqn:Eu; [|destruct Hx].
      destruct Hx as [<-|[]]. exists useq; cbn. split; auto.
      apply andb_true_iff in Eu as [_ Eu]. rewrite before_simple in Eu. lia. }
  exists q. split; auto. rewrite E in Eq. destruct g as [[t l sq] i rv d rm rvk al]; cbn in *.
  unfold mk in *. inversion Eq; subst. reflexivity.
Qed.

Theorem expected_tok_tokens hist user udoc useq req since limit ao hi low r :
  canonical since ->
  In r (expected_tok hist user udoc useq req since limit ao hi low) ->
  exists q, r_seq r = mk 0 low q /\ chan_since (norm_since low since) < q.
Proof.
  intros Hc H. rewrite expected_tok_canonical in H by auto. apply in_map_iff in H as [r0 [<- H0]].
  apply expected_simple_rows in H0 as [q [E Hq]]. exists q. split; auto.
  destruct r0 as [[t l sq] i rv d rm rvk al]; cbn in *. unfold mk in *. inversion E; subst. reflexivity.
Qed.

(* the token a client sends back after a row with a simple document sequence *)
Lemma resume_of_stamped low q :
  let tk := canon (mk 0 low q) in canonical tk /\ chan_since (norm_since low tk) = q.
Proof.
  cbv zeta. split; [apply canon_idem|].
  unfold norm_since, canon, backfill, chan_since, SafeSequence, mk; cbn [TriggeredBy LowSeq Seq].
  break_ifs; cbn [TriggeredBy LowSeq Seq] in *; break_ifs; lia.
Qed.

(* ---------- ascending / duplicate-free for EVERY since token ---------- *)
Theorem expected_tok_ascending hist user udoc useq req since limit ao hi low :
  NoDup (map h_seq hist) ->
  exists groups, rsorted groups /\ NoDup (map r_seq groups) /\
    expected_tok hist user udoc useq req since limit ao hi low
    = map (stamp_row low) (take limit (filter (keep ao hi) groups)).
Proof.
  intros Hn. unfold expected_tok. cbv zeta.
  set (s := norm_since low since).
  set (feeds := map (fun c => feed_of c (chan_since s) hist) (visible user req) ++ user_feed udoc useq s).
  assert (feeds_sorted feeds) as Hs.
  { intros f Hf. unfold feeds in Hf. apply in_app_or in Hf as [Hf|Hf].
    - apply in_map_iff in Hf as [c [<- _]]. apply feed_rows_sorted, truth_sorted, chan_log_NoDup, Hn.
    - unfold user_feed in Hf. destruct Hf as [<-|[]].
      destruct ((0 <? useq) && before s (mk 0 0 useq)); repeat constructor. }
  exists (merge_all (total feeds) feeds). split; [apply merge_sorted, Hs|].
  split; [apply merge_nodup, Hs|]. unfold merge_feeds. apply merge_loop_eq.
Qed.

(* ---------- cache-state independence for every since token ---------- *)
Definition multi_feed_tok (hist : list hop) (caches : list (N * cc)) (user_doc user_seq : N)
  (since : seqid) (limit : nat) (ao : bool) (hi low : N) : list row :=
  let s := norm_since low since in
  merge_feeds (map (cache_feed hist (chan_since s)) caches ++ user_feed user_doc user_seq s) ao hi limit low.

Theorem changes_end_to_end_tok hist caches user user_doc user_seq req since limit ao hi low :
  map fst caches = visible user req ->
  (forall c cache, In (c, cache) caches ->
     exists F, truth_wf (chan_log c hist) F /\ cc_inv (chan_log c hist) F cache /\ quiescent (chan_log c hist) F) ->
  multi_feed_tok hist caches user_doc user_seq since limit ao hi low
  = expected_tok hist user user_doc user_seq req since limit ao hi low.
Proof.
  intros Hv Hc. unfold multi_feed_tok, expected_tok. cbv zeta. rewrite <- Hv, map_map. f_equal. f_equal.
  apply map_ext_in. intros [c cache] Hin. unfold cache_feed, feed_of; cbn [fst snd].
  destruct (Hc c cache Hin) as [F [W [I Q]]]. f_equal. apply (get_changes_quiescent _ F); auto.
Qed.

(* ---------- paging: resuming from the token of the last row received ---------- *)
Section Resume.
  Variables (hist : list hop) (user : option (list N)) (user_doc user_seq : N) (req : list N).
  Variables (ao : bool) (hi low : N).
  Hypothesis Hseq : NoDup (map h_seq hist).

  Let X (since : seqid) (lim : nat) := expected_tok hist user user_doc user_seq req since lim ao hi low.

  Theorem resume_paging_tok since0 n last :
    canonical since0 -> n <> 0%nat -> last_opt (X since0 n) = Some last ->
    X since0 n ++ X (resume_token last) 0 = X since0 0.
  Proof.
    intros Hc Hn Hl. unfold X in *. rewrite !(expected_tok_canonical _ _ _ _ _ since0) in * by auto.
    set (e0 := chan_since (norm_since low since0)) in *.
    rewrite last_opt_map in Hl.
    destruct (last_opt (expected_changes hist user user_doc user_seq req (mk 0 0 e0) n ao hi)) as [last0|] eqn:El0;
      [|discriminate].
    cbn [option_map] in Hl. inversion Hl; subst last; clear Hl.
    destruct (expected_simple_rows _ _ _ _ _ _ _ _ _ _ (last_opt_In _ _ El0)) as [q [Eq Hq]].
    assert (resume_token (stamp_row low last0) = canon (mk 0 low q)) as Et.
    { unfold resume_token. f_equal. destruct last0 as [[t l sq] i rv d rm rvk al]; cbn in *.
      unfold mk in *. inversion Eq; subst. reflexivity. }
    rewrite Et. destruct (resume_of_stamped low q) as [Hcq Hsq].
    rewrite expected_tok_canonical by auto. rewrite Hsq, <- map_app. f_equal.
    rewrite <- Eq. apply resume_paging; auto.
  Qed.
End Resume.

(* ---------- what is false, and why the hypotheses are needed ---------- *)
(* a NON-canonical token (never printed by the server; "9::0" parses to it): the channel feeds read
   from SafeSequence = 0, the user pseudo-feed asks 9 < 5; the resumed request, from the plain token
   4, does send the user's row: the pages do not concatenate to the unpaged answer *)
Lemma resume_paging_noncanonical_refuted :
  exists hist user udoc useq req since0 n last ao hi low,
    NoDup (map h_seq hist) /\ n <> 0%nat /\ ~ canonical since0 /\
    last_opt (expected_tok hist user udoc useq req since0 n ao hi low) = Some last /\
    expected_tok hist user udoc useq req since0 n ao hi low
      ++ expected_tok hist user udoc useq req (resume_token last) 0 ao hi low
    <> expected_tok hist user udoc useq req since0 0 ao hi low.
Proof.
  exists [HW 1 4 1 [2] false; HW 2 6 2 [2] false], (Some [2]), 101, 5, [0], (mk 0 9 0), 1%nat,
         (mkR (mk 0 0 4) 1 1 false [] false false), false, 6, 0.
  split; [repeat constructor; cbn; intuition discriminate|].
  split; [discriminate|]. split; [vm_compute; discriminate|].
  split; [vm_compute; reflexivity|]. vm_compute. discriminate.
Qed.

(* the server's low sequence changed between the two requests (a skipped sequence arrived or was
   abandoned): the token low1::q no longer matches the low sequence, the resumed request reads from
   low1 and re-sends the rows in (low1, q].  By design (at-least-once for late sequences); the paging
   theorem therefore fixes [low]. *)
Lemma resume_after_low_change_resends :
  exists hist since0 n last low1 low2 r,
    NoDup (map h_seq hist) /\ canonical since0 /\
    last_opt (expected_tok hist None 0 0 [0] since0 n false 6 low1) = Some last /\
    In r (expected_tok hist None 0 0 [0] since0 n false 6 low1) /\
    exists r', In r' (expected_tok hist None 0 0 [0] (resume_token last) 0 false 6 low2) /\
               r_id r' = r_id r /\ Seq (r_seq r') = Seq (r_seq r).
Proof.
  exists [HW 1 4 1 [2] false; HW 2 5 2 [2] false; HW 3 6 3 [2] false], (mk 0 0 0), 2%nat,
         (mkR (mk 0 2 5) 2 2 false [] false false), 2, 0, (mkR (mk 0 2 4) 1 1 false [] false false).
  split; [repeat constructor; cbn; intuition discriminate|].
  split; [vm_compute; reflexivity|]. split; [vm_compute; reflexivity|].
  split; [vm_compute; auto|].
  exists (mkR (mk 0 0 4) 1 1 false [] false false). split; [vm_compute; auto|]. split; reflexivity.
Qed.
