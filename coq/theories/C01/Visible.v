(* C01, layer 3: what a changes request must return, computed from the WRITE HISTORY alone.

   A history is the list of acknowledged document writes in sequence order; each write records the
   document, the sequence it was assigned, the document's current (winning) revision after the
   write, whether that revision is a tombstone, and the channels the sync function assigned to it.
   From the history the model derives, per channel, the list of log entries that concern the
   channel (the updateChannels rule of db/document.go: the document is in the channel after the
   write, or it was in the channel before and is not any more -- a removal, stamped with the
   sequence and revision of that write).  The star channel (id 0) receives every write, never as a
   removal.  expected_changes merges the per-channel truths of the channels the requester can see
   with the merge loop of layer 2.

   Scope: requesters whose channels were all granted before the first document write (no
   grant-triggered back-fill, no revocation feeds); no skipped sequences (low sequence 0). *)
From Coq Require Import Sorting.Sorted.
From SG Require Import Base.Prelude C20.SeqIdGen C20.SeqId C20.SeqIdOrder.
From SG Require Import C01.ChanCache C01.ChanCacheLists C01.ChanCacheTruth C01.ChanCacheInv C01.ChanCacheRead.
From SG Require Import C01.Merge C01.MergeProofs.
Open Scope N_scope.

Inductive hop := HW (doc sq rev : N) (chans : list N) (del : bool).

Definition star : N := 0.      (* "*" *)
Definition pub : N := 1.       (* "!" : visible to every user *)

Fixpoint lookup (d : N) (cur : list (N * list N)) : list N :=
  match cur with
  | [] => []
  | (k, v) :: r => if k =? d then v else lookup d r
  end.

Fixpoint chan_log_from (c : N) (cur : list (N * list N)) (hist : list hop) : list entry :=
  match hist with
  | [] => []
  | HW d s r chs del :: rest =>
      let ent := if (c =? star) || memN c chs then [mkE s d r false del]
                 else if memN c (lookup d cur) then [mkE s d r true del]
                 else [] in
      ent ++ chan_log_from c ((d, chs) :: cur) rest
  end.
Definition chan_log (c : N) (hist : list hop) : list entry := chan_log_from c [] hist.

Definition row_of (c : N) (e : entry) : row :=
  mkR (mk 0 0 (e_seq e)) (e_doc e) (e_rev e) (e_del e) (if e_rm e then [c] else []) false false.

Definition feed_of (c : N) (since : N) (hist : list hop) : list row :=
  map (row_of c) (truth (chan_log c hist) since).

(* FilterToAvailableCollectionChannels: None = admin request (channels as given) *)
Definition visible (user : option (list N)) (req : list N) : list N :=
  match user with
  | None => req
  | Some g =>
      let all := set_add pub g in
      if memN star req then all else filter (fun c => memN c all || memN star g) req
  end.

(* appendUserFeed: the requester's own principal document *)
(* (an empty feed stands for "no feed appended": the merge loop skips feeds without a head) *)
Definition user_feed (user_doc user_seq : N) (since : seqid) : list (list row) :=
  [if (0 <? user_seq) && before since (mk 0 0 user_seq)
   then [mkR (mk 0 0 user_seq) user_doc 0 false [] false false] else []].

Definition expected_changes (hist : list hop) (user : option (list N)) (user_doc user_seq : N)
  (req : list N) (since : seqid) (limit : nat) (ao : bool) (hi : N) : list row :=
  merge_feeds (map (fun c => feed_of c (SafeSequence since) hist) (visible user req)
               ++ user_feed user_doc user_seq since) ao hi limit 0.

(* the same request answered from real channel caches *)
Definition cache_feed (hist : list hop) (since : N) (cc_ : N * cc) : list row :=
  map (row_of (fst cc_)) (snd (get_changes (chan_log (fst cc_) hist) (snd cc_) since 0 false)).

Definition multi_feed (hist : list hop) (caches : list (N * cc)) (user_doc user_seq : N)
  (since : seqid) (limit : nat) (ao : bool) (hi : N) : list row :=
  merge_feeds (map (cache_feed hist (SafeSequence since)) caches ++ user_feed user_doc user_seq since) ao hi limit 0.

(* ---------- proofs ---------- *)
Lemma before_simple a b : before (mk 0 0 a) (mk 0 0 b) = (a <? b).
Proof. unfold before, Before, Before_fuel, mk; cbn. reflexivity. Qed.

Lemma feed_rows_sorted c l : sorted l -> rsorted (map (row_of c) l).
Proof.
  induction l as [|x l IH]; cbn; intros H; [constructor|]. apply sorted_cons_inv in H as [Hs Hx].
  constructor; [apply IH; auto|]. apply Forall_forall; intros r Hr. apply in_map_iff in Hr as [y [<- Hy]].
  unfold rlt; cbn [row_of r_seq]. rewrite before_simple. apply N.ltb_lt; auto.
Qed.

(* sequences identify writes *)
Definition h_seq (h : hop) : N := match h with HW _ s _ _ _ => s end.

Lemma chan_log_seqs c hist : forall cur x, In x (chan_log_from c cur hist) -> In (e_seq x) (map h_seq hist).
Proof.
  induction hist as [|[d s r chs del] rest IH]; cbn; intros cur x; auto.
  intros H; apply in_app_or in H as [H|H]; [|right; eapply IH; eauto].
  left. destruct ((c =? star) || memN c chs); [destruct H as [<-|[]]; auto|].
  destruct (memN c (lookup d cur)); [destruct H as [<-|[]]; auto | destruct H].
Qed.

Lemma chan_log_NoDup c hist : NoDup (map h_seq hist) -> forall cur, NoDup (map e_seq (chan_log_from c cur hist)).
Proof.
  induction hist as [|[d s r chs del] rest IH]; cbn; intros H cur; [constructor|]. inv H.
  assert (forall x, In x (chan_log_from c ((d, chs) :: cur) rest) -> e_seq x <> s) as Hne.
  { intros x Hx E; apply H2; rewrite <- E; eapply chan_log_seqs; eauto. }
  specialize (IH H3 ((d, chs) :: cur)).
  destruct ((c =? star) || memN c chs); [|destruct (memN c (lookup d cur))]; cbn; auto;
    (constructor; auto; intros Hin; apply in_map_iff in Hin as [x [E Hx]]; apply (Hne x); auto).
Qed.

Section Spec.
  Variables (hist : list hop) (user : option (list N)) (user_doc user_seq : N) (req : list N) (since : seqid).
  Hypothesis Hseq : NoDup (map h_seq hist).

  Let feeds := map (fun c => feed_of c (SafeSequence since) hist) (visible user req) ++ user_feed user_doc user_seq since.

  Lemma expected_feeds_sorted : feeds_sorted feeds.
  Proof.
    intros f Hf. unfold feeds in Hf. apply in_app_or in Hf as [Hf|Hf].
    - apply in_map_iff in Hf as [c [<- _]]. apply feed_rows_sorted, truth_sorted, chan_log_NoDup, Hseq.
    - unfold user_feed in Hf. destruct Hf as [<-|[]].
      destruct ((0 <? user_seq) && before since (mk 0 0 user_seq)); repeat constructor.
  Qed.

  (* increasing order, no duplicates (before the limit is applied and after: a prefix of it) *)
  Theorem expected_ascending ao hi limit :
    exists groups, rsorted groups /\ NoDup (map r_seq groups) /\
      expected_changes hist user user_doc user_seq req since limit ao hi
      = map (stamp_row 0) (take limit (filter (keep ao hi) groups)).
  Proof.
    exists (merge_all (total feeds) feeds). split; [apply merge_sorted, expected_feeds_sorted|].
    split; [apply merge_nodup, expected_feeds_sorted|].
    unfold expected_changes, merge_feeds. apply merge_loop_eq.
  Qed.

  (* nothing that belongs only to channels the requester cannot see: every row is the requester's
     own principal document or the latest entry, after since, of a channel the requester can see *)
  Theorem expected_only_visible ao hi limit r :
    In r (expected_changes hist user user_doc user_seq req since limit ao hi) ->
    (r_id r = user_doc /\ Seq (r_seq r) = user_seq /\ 0 < user_seq) \/
    exists c e, In c (visible user req) /\ In e (chan_log c hist) /\ is_latest (chan_log c hist) e = true /\
      SafeSequence since < e_seq e /\ Seq (r_seq r) = e_seq e /\ r_id r = e_doc e /\ r_rev r = e_rev e /\
      r_del r = e_del e /\ e_seq e <= hi.
  Proof.
    intros H. apply merge_filters in H as [g [Hg [-> [Hhi _]]]]. fold feeds in Hg.
    apply merge_all_origin in Hg as [f [x [Hf [Hx [Es [Ei [Er [Ed Ev]]]]]]]].
    cbn [stamp_row r_id r_seq r_rev r_del Seq mk]. rewrite <- Es, <- Ei, <- Er, <- Ed. rewrite <- Es, <- Ev in Hhi.
    unfold feeds in Hf. apply in_app_or in Hf as [Hf|Hf].
    - right. apply in_map_iff in Hf as [c [<- Hc]]. unfold feed_of in Hx.
      apply in_map_iff in Hx as [e [<- He]]. apply truth_In in He as [He [Hl Hs]].
      exists c, e. cbn [row_of r_seq r_id r_rev r_del r_revoked Seq mk] in *.
      repeat split; auto. destruct Hhi as [|[Hf _]]; [auto | discriminate].
    - left. unfold user_feed in Hf. destruct Hf as [<-|[]].
      destruct ((0 <? user_seq) && before since (mk 0 0 user_seq)) eqn:E; [|destruct Hx].
      destruct Hx as [<-|[]]. cbn. apply andb_true_iff in E as [E _]. repeat split; auto; lia.
  Qed.

  (* every latest entry, after since, of a visible channel has its row (no limit, no filters) *)
  Theorem expected_complete hi c e :
    In c (visible user req) -> In e (truth (chan_log c hist) (SafeSequence since)) -> e_seq e <= hi ->
    exists r, In r (expected_changes hist user user_doc user_seq req since 0 false hi) /\
              r_seq r = mk 0 0 (e_seq e) /\ (e_rm e = true -> In c (r_rm r)).
  Proof.
    intros Hc He Hhi.
    assert (In (feed_of c (SafeSequence since) hist) feeds) as Hf.
    { unfold feeds; apply in_or_app; left. apply in_map_iff; eauto. }
    assert (In (row_of c e) (feed_of c (SafeSequence since) hist)) as Hx by (unfold feed_of; apply in_map; auto).
    assert (exists g, In g (merge_all (total feeds) feeds) /\ r_seq g = mk 0 0 (e_seq e) /\ (e_rm e = true -> In c (r_rm g))) as [g [Hg [Es Hr]]].
    { destruct (e_rm e) eqn:Erm.
      - destruct (merge_removed_complete (total feeds) feeds expected_feeds_sorted (Nat.le_refl _) _ (row_of c e) c Hf Hx) as [g [Hg [Es Hcg]]].
        { cbn; rewrite Erm; cbn; auto. }
        exists g; repeat split; auto.
      - destruct (merge_covers (total feeds) feeds (Nat.le_refl _) _ (row_of c e) Hf Hx) as [g [Hg Es]].
        exists g; repeat split; auto. discriminate. }
    exists (stamp_row 0 g). split; [|split].
    - unfold expected_changes, merge_feeds. fold feeds. rewrite merge_loop_eq. cbn [take]. apply in_map, filter_In; split; auto.
      unfold keep. rewrite Es. cbn [andb negb Seq mk]. assert ((hi <? e_seq e) = false) as -> by (apply N.ltb_ge; auto). reflexivity.
    - cbn [stamp_row r_seq]. rewrite Es; reflexivity.
    - exact Hr.
  Qed.
End Spec.

(* ---------- the answer does not depend on the cache state ---------- *)
Theorem changes_end_to_end hist caches user user_doc user_seq req since limit ao hi :
  map fst caches = visible user req ->
  (forall c cache, In (c, cache) caches ->
     exists F, truth_wf (chan_log c hist) F /\ cc_inv (chan_log c hist) F cache /\ quiescent (chan_log c hist) F) ->
  multi_feed hist caches user_doc user_seq since limit ao hi
  = expected_changes hist user user_doc user_seq req since limit ao hi.
Proof.
  intros Hv Hc. unfold multi_feed, expected_changes. rewrite <- Hv, map_map. f_equal. f_equal.
  apply map_ext_in. intros [c cache] Hin. unfold cache_feed, feed_of; cbn [fst snd].
  destruct (Hc c cache Hin) as [F [W [I Q]]]. f_equal. apply (get_changes_quiescent _ F); auto.
Qed.
