(* C01 correspondence: traces observed on the real code by harness/db/verif_c01_test.go are replayed
   here on the models with vm_compute.
   CComp : one trace on a real singleChannelCacheImpl (fake ChannelQueryHandler backed by the
           harness's ground truth); after every operation the harness records validFrom, the cached
           entries (sequence, document, revision, removed, deleted) and the operation's result.
   CMerge: the rows the real per-channel changesFeed goroutines produced for one request (one list
           per channel, plus the user pseudo-feed), the request options, the high cached sequence,
           and the rows the real MultiChangesFeed sent: the merge model must produce the same rows.
   CSys  : a write history (document, sequence, winning revision, channels, deleted) and a list of
           requests with the rows the real database returned: expected_tok (= expected_changes when
           the since token has no TriggeredBy and the server has no skipped sequence), computed from
           the history alone, must equal them.
   Component traces may contain, besides the operations of singleChannelCacheImpl, runs of the real
   changesFeed goroutine (db/changes.go) over the cache under test with a chosen ChannelQueryLimit
   (FD), reads of a real bypassChannelCache sharing the query handler (BG) and changesFeed over that
   bypass cache (BF); their rows are compared with ChangesFeed.v.
   CNotify: one call of the real channelCacheImpl.AddToCache: the channels that have a cache, the
           entry's sequence and channel map, the channel ids returned (sorted) and the caches that
           received the entry: Notify.v must predict both.
   CDedup: every document mutation the REAL changeCache.DocChanged of a real database received in one
           scenario (collection id; per event the document, its sync metadata as carried by the event --
           sequence, revision, recent_sequences, unused_sequences, channel map with removals --, the
           cache's next sequence and which of the recent sequences were in the skipped list) and every
           entry that reached channelCacheImpl.AddToCache (collection id, sequence, document, revision,
           Deleted flag, channel map), first occurrence per sequence, ascending: Dedup.v (doc_changed) must predict
           exactly these entries. *)
From SG Require Export Base.Prelude C20.SeqIdGen C20.SeqId C20.SeqIdCodec C01.ChanCache C01.Merge C01.Visible.
From SG Require Export C01.VisibleTok C01.ChangesFeed C01.Notify C01.Dedup.
Open Scope N_scope.

Definition E (s d r : N) (rm del : bool) : entry := mkE s d r rm del.

(* operations with N arguments where the model uses nat (lengths) *)
Definition W (e : entry) : xop := XBase (OWrite e).
Definition A (e : entry) (r : bool) : xop := XBase (OAdd e r).
Definition PP (ch : list entry) (a b : N) : xop := XBase (OPrepend ch a b).
Definition PA (aged : list N) : xop := XBase (OPruneAge aged).
Definition PU (ds : list N) : xop := XBase (OPurge ds).
Definition GCa (since limit : N) : xop := XBase (OGetCached since (N.to_nat limit)).
Definition GC (since limit : N) (ao : bool) : xop := XBase (OGetChanges since (N.to_nat limit) ao).
(* changesFeed over the cache / bypassChannelCache.GetChanges / changesFeed over the bypass cache *)
Definition FD (t l s reqlimit : N) (ao : bool) (qlimit : N) : xop := XFeed t l s (N.to_nat reqlimit) ao (N.to_nat qlimit).
Definition BG (since limit : N) (ao : bool) : xop := XBypassGet since (N.to_nat limit) ao.
Definition BF (t l s reqlimit : N) (ao : bool) (qlimit : N) : xop := XBypassFeed t l s (N.to_nat reqlimit) ao (N.to_nat qlimit).

Coercion XO : out >-> xout.
Definition RFeed (rows : list row) : xout := XFeedRows rows.

Record cobs := mkO { o_vf : N; o_logs : list entry; o_out : xout }.
Definition O (vf : N) (l : list entry) (o : xout) : cobs := mkO vf l o.

Definition entries_eqb := list_eqb entry_eqb.
Definition out_eqb (a b : out) : bool :=
  match a, b with
  | RNone, RNone => true
  | RCount x, RCount y => x =? y
  | RCached v r, RCached v' r' => (v =? v') && entries_eqb r r'
  | RRows r, RRows r' => entries_eqb r r'
  | _, _ => false
  end.

(* rows as observed: token (TriggeredBy, LowSeq, Seq), document, revision, deleted, Removed sorted *)
Definition R (t l s id rev : N) (del : bool) (rm : list N) : row := mkR (mk t l s) id rev del rm false false.
Definition H (d s r : N) (chs : list N) (del : bool) : hop := HW d s r chs del.

Definition row_eqb (a b : row) : bool :=
  seqid_eqb (r_seq a) (r_seq b) && (r_id a =? r_id b) && (r_rev a =? r_rev b)
  && Bool.eqb (r_del a) (r_del b) && list_eqb N.eqb (r_rm a) (r_rm b).
Definition rows_eqb := list_eqb row_eqb.

Definition xout_eqb (a b : xout) : bool :=
  match a, b with
  | XO x, XO y => out_eqb x y
  | XFeedRows x, XFeedRows y => rows_eqb x y
  | _, _ => false
  end.

Fixpoint comp_ok (s : sys) (l : list (xop * cobs)) : bool :=
  match l with
  | [] => true
  | (o, ob) :: r =>
      let '(s', out) := xstep s o in
      (vfrom (s_c s') =? o_vf ob) && entries_eqb (logs (s_c s')) (o_logs ob) && xout_eqb out (o_out ob)
      && comp_ok s' r
  end.

Record req := mkQ { q_user : option (list N); q_udoc : N; q_useq : N; q_chans : list N;
                    q_since : seqid; q_limit : N; q_ao : bool; q_hi : N; q_low : N }.
Definition Q (u : option (list N)) (udoc useq : N) (chs : list N) (t l s : N) (limit : N) (ao : bool) (hi : N) : req :=
  mkQ u udoc useq chs (mk t l s) limit ao hi 0.
(* a request on a server whose low sequence (oldest skipped sequence - 1) is [low] *)
Definition QL (u : option (list N)) (udoc useq : N) (chs : list N) (t l s : N) (limit : N) (ao : bool) (hi low : N) : req :=
  mkQ u udoc useq chs (mk t l s) limit ao hi low.

Definition sys_ok (hist : list hop) (qr : req * list row) : bool :=
  let q := fst qr in
  rows_eqb (expected_tok hist (q_user q) (q_udoc q) (q_useq q) (q_chans q) (q_since q)
              (N.to_nat (q_limit q)) (q_ao q) (q_hi q) (q_low q)) (snd qr).

Inductive case :=
| CComp (vf0 maxl minl : N) (steps : list (xop * cobs))
| CMerge (feeds : list (list row)) (ao : bool) (hi limit low : N) (out : list row)
| CSys (hist : list hop) (reqs : list (req * list row))
| CNotify (active : list N) (seq : N) (chs : list (N * option N)) (notified : list N) (adds : list (N * bool))
| CDedup (coll : N) (events : list (N * syncd * N * list N)) (observed : list dlv).

Definition SD (seq rev : N) (del : bool) (recent unused : list N) (chs : list (N * option (N * N * bool))) : syncd :=
  mkSD seq rev del recent unused chs.
Definition DE (coll seq doc rev : N) (del : bool) (chs : list (N * option N)) : dlv := DEntry coll seq doc rev del false chs.

Definition dlv_seq (d : dlv) : N := match d with DUnused s => s | DEntry _ s _ _ _ _ _ => s end.
Definition is_dentry (d : dlv) : bool := match d with DEntry _ _ _ _ _ _ _ => true | _ => false end.
(* ascending by sequence, first occurrence kept *)
Fixpoint dins (d : dlv) (l : list dlv) : list dlv :=
  match l with
  | [] => [d]
  | x :: r => if dlv_seq d <? dlv_seq x then d :: l else if dlv_seq d =? dlv_seq x then l else x :: dins d r
  end.
Definition chs_eqb := list_eqb (fun (a b : N * option N) => (fst a =? fst b) && option_eqb N.eqb (snd a) (snd b)).
Definition dlv_eqb (a b : dlv) : bool :=
  match a, b with
  | DEntry c s d r dl _ chs, DEntry c' s' d' r' dl' _ chs' =>
      (c =? c') && (s =? s') && (d =? d') && (r =? r') && Bool.eqb dl dl' && chs_eqb chs chs'
  | DUnused s, DUnused s' => s =? s'
  | _, _ => false
  end.
Definition dedup_entries (coll : N) (events : list (N * syncd * N * list N)) : list dlv :=
  fold_left (fun acc d => dins d acc)
    (flat_map (fun ev => match ev with (doc, sd, next, sk) => filter is_dentry (doc_changed coll doc sd next sk) end) events) [].

Definition check (c : case) : bool :=
  match c with
  | CComp vf0 maxl minl steps => comp_ok (init_sys vf0 (N.to_nat maxl) (N.to_nat minl)) steps
  | CMerge feeds ao hi limit low out => rows_eqb (merge_feeds feeds ao hi (N.to_nat limit) low) out
  | CSys hist reqs => forallb (sys_ok hist) reqs
  | CNotify active seq chs notified adds =>
      let r := add_to_cache_all active seq chs in
      list_eqb N.eqb (fst r) notified
      && list_eqb (fun a b => (fst a =? fst b) && Bool.eqb (snd a) (snd b)) (snd r) adds
  | CDedup coll events observed => list_eqb dlv_eqb (dedup_entries coll events) observed
  end.

Definition mismatches (cs : list case) : list N := failing check cs.
