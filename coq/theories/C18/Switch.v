(* C18: the switches that select which tree the model describes (four).

   [code_fixed] -- DESIGN section 6 item 4.  false: db/database.go getResyncedDocument computes [changed]
   only in the winning-leaf branch, so a document whose only difference is the channel set of a NON-winning
   leaf is not rewritten (ErrUpdateCancel).  true: the repaired function also counts a channel change of a
   non-winning leaf (/tmp/c18-fix.diff: "leafChannelsChanged").

   [regen_inval_fixed] -- found while building C18.  false: db/background_mgr_resync_dcp.go
   invalidatePrincipals returns right after updateAllPrincipalsSequences when sequences are regenerated
   for all collections, so the principals' computed channels / roles are NOT invalidated.  true: the early
   [return nil] is removed and the invalidation always runs when a document changed (/tmp/c18-fix2.diff).

   [reject_roles_fixed] -- found while building C18.  false: when the new function rejects a revision
   getResyncedDocument clears [access] and [channels] but not [roles], so role() grants made before the
   throw are stored on the document and become effective.  true: the repair adds `roles = nil`
   (/tmp/c18-fix3.diff). *)
Definition code_fixed : bool := true.
Definition reject_roles_fixed : bool := true.
Definition regen_inval_fixed : bool := true.

(* [always_inval_fixed] -- found while deepening C18 (run model).  false: invalidatePrincipals invalidates the principals
   only when docs_changed of the CURRENT run id is positive, so a run that completes after an earlier, interrupted run
   (reset / changed collection set / crash that lost the counter) rewrote the documents never invalidates.  true: the
   repair (/repo commit bc044df) invalidates after every completed run. *)
Definition always_inval_fixed : bool := true.
