(* C18 -- the resync RUN as an interruptible process (deepening of Resync.v).

   Code modelled (current /repo tree):
     db/background_mgr.go               Start / Stop (resetStatus, Process.Init, Process.Run, terminal status)
     db/background_mgr_resync_dcp.go    Init (resume the stored resync id  vs  new id: no previous run, `reset`, previous run
                                        completed, collection set changed), Run (one-shot DCP feed per selected collection
                                        with a persisted checkpoint, the callback: skip tombstones, ResyncDocument,
                                        docs_changed), the two exits of Run (feed done -> invalidatePrincipals,
                                        terminator -> stop), initializeFromPreviousStatus (docs_changed restored),
                                        invalidatePrincipals (updateAllPrincipalsSequences when regenerate_sequences and
                                        hasAllCollections; invalidateAllPrincipals over ALL collections of the database
                                        when docs_changed > 0)
     db/database.go                     ResyncDocument / getResyncedDocument (= Resync.resync_doc, one CAS-guarded step)
     base/rosmar_dcp_client.go, rosmar feeds.go   the feed: snapshot of the collection's by-CAS index above the
                                        checkpoint, delivered in CAS order; lastCas written when the feed ends
   The bucket's by-CAS index is explicit ([r_idx]: document id -> CAS of its last mutation, kept in CAS order):
   every successful write and every resync write moves the document to the end.  A crash is "the process dies":
   the in-memory run state is lost and the persisted checkpoint / docs_changed are whatever had been written
   last (any value not above the in-memory one).

   Collections: the collection of a document is [col_of (d_id d)]; [syncs c] is the CURRENT sync function of
   collection c (the documents of the initial state were written under whatever functions came before). *)
From SG Require Import Base.Prelude C18.Resync C18.ResyncProofs.
Open Scope N_scope.

(* ------------------------------------------------------------------ association lists N -> N (default 0) *)
Fixpoint lookup (m : list (N * N)) (k : N) : N :=
  match m with [] => 0 | (k', v) :: r => if k' =? k then v else lookup r k end.
Definition drop (m : list (N * N)) (k : N) : list (N * N) := filter (fun p => negb (fst p =? k)) m.
Definition upd (m : list (N * N)) (k v : N) : list (N * N) := (k, v) :: drop m k.
(* a mutation of document [id]: it leaves its place in the by-CAS index and is appended with the new CAS *)
Definition bump (idx : list (N * N)) (id c : N) : list (N * N) := drop idx id ++ [(id, c)].

Definition is_some {A} (o : option A) : bool := match o with Some _ => true | None => false end.
Definition null {A} (l : list A) : bool := match l with [] => true | _ => false end.

(* one event of the feed snapshot: the document, its CAS, and whether ResyncDocument's update callback -- which is
   first invoked on the COPY of the document carried by the event -- cancels on that copy (a tombstone: empty body;
   a live document for which getResyncedDocument finds nothing to change).  A cancelled first invocation ends the
   visit without looking at the stored document; otherwise the write is CAS-guarded, and when the stored document
   has changed since the snapshot the callback runs again on the stored document. *)
Record event := mkEv { e_id : N; e_cas : N; e_skip : bool }.

Fixpoint qget (q : list (N * list event)) (c : N) : list event :=
  match q with [] => [] | (c', l) :: r => if c' =? c then l else qget r c end.
Definition qset (q : list (N * list event)) (c : N) (l : list event) : list (N * list event) :=
  map (fun p => if fst p =? c then (fst p, l) else p) q.

(* persisted state of the background manager: no status document / running / stopped / running in the status
   document but the process is gone / completed *)
Inductive mstate := MNone | MRunning | MStopped | MCrashed | MCompleted.
Definition resumable (s : mstate) : bool := match s with MStopped | MCrashed => true | _ => false end.

Section Run.
  Variable body : Type.
  Variable empty : body.
  Variable col_of : N -> N.
  Variable syncs : N -> body -> verdict.
  Variable allcols : list N.                     (* db.CollectionByID *)
  Variable fixed : switches.
  Notation doc := (doc body).
  Notation wop := (wop body).

  Record rst := mkR {
    (* the bucket *)
    r_docs : list doc; r_idx : list (N * N); r_clock : N;
    (* the status document and the checkpoint documents *)
    r_state : mstate; r_cols : list N; r_pchanged : N; r_pckpt : list (N * N); r_rid : N;
    (* the manager's memory *)
    r_regen : bool; r_hasall : bool; r_queue : list (N * list event); r_last : list (N * N); r_changed : N;
    (* principals: computed sets (Resync.princs) and the sequences of the principal documents *)
    r_ps : princs; r_pseq : list N;
    (* ghost: arguments of every invalidateAllPrincipals call; collections ever selected; a resync write has happened
       since the last invalidation of all principals *)
    r_log : list (list N); r_sel : list N; r_dirty : bool;
    (* ghost: every sequence number consumed by the run (documents rewritten with regenerate_sequences, principals) *)
    r_alloc : list N }.

  Definition fn (id : N) : body -> verdict := syncs (col_of id).

  (* ---------------------------------------------------------------- the feed snapshot *)
  Definition skip_at (regen : bool) (docs : list doc) (id : N) : bool :=
    forallb (fun d => negb (d_id d =? id) || negb (is_some (resync_doc (fn id) fixed regen 0 d))) docs.
  Definition snapshot (c ckpt : N) (regen : bool) (docs : list doc) (idx : list (N * N)) : list event :=
    flat_map (fun p => if (col_of (fst p) =? c) && (ckpt <? snd p) then [mkEv (fst p) (snd p) (skip_at regen docs (fst p))] else []) idx.

  (* ---------------------------------------------------------------- a document write (under the current function) *)
  Definition wrote (docs : list doc) (w : wop) : bool :=
    existsb (fun d => (d_id d =? w_doc w) && is_some (put_doc empty (fn (w_doc w)) d w)) docs
    || (negb (mem N.eqb (w_doc w) (map (@d_id body) docs)) && is_some (put_doc empty (fn (w_doc w)) (empty_doc (w_doc w)) w)).

  Definition do_write (st : rst) (w : wop) : rst :=
    let db' := put empty (fn (w_doc w)) (r_docs st) w in
    let wr := wrote (r_docs st) w in
    mkR db' (if wr then bump (r_idx st) (w_doc w) (r_clock st + 1) else r_idx st) (if wr then r_clock st + 1 else r_clock st)
        (r_state st) (r_cols st) (r_pchanged st) (r_pckpt st) (r_rid st)
        (r_regen st) (r_hasall st) (r_queue st) (r_last st) (r_changed st)
        (mark (doc_access (r_docs st) (w_doc w)) (doc_access db' (w_doc w)) (doc_roles (r_docs st) (w_doc w)) (doc_roles db' (w_doc w)) (r_ps st))
        (r_pseq st) (r_log st) (r_sel st) (r_dirty st) (r_alloc st).

  (* ---------------------------------------------------------------- Start: BackgroundManager.start + ResyncManagerDCP.Init + feed start *)
  Definition do_start (st : rst) (reset regen : bool) (cols : list N) : rst :=
    match r_state st with
    | MRunning => st                                                  (* "Process already running" *)
    | _ =>
        let cs := if null cols then allcols else cols in
        if negb (subset N.eqb cs allcols) then st                     (* unknown collection: 400 *)
        else
          let resume := negb reset && resumable (r_state st) && set_eqb N.eqb cs (r_cols st) in
          let ck := if resume then r_pckpt st else [] in
          let pc := if resume then r_pchanged st else 0 in
          mkR (r_docs st) (r_idx st) (r_clock st)
              MRunning cs pc ck (if resume then r_rid st else r_rid st + 1)
              regen (r_hasall st || null cols)
              (map (fun c => (c, snapshot c (lookup ck c) regen (r_docs st) (r_idx st))) cs) ck pc
              (r_ps st) (r_pseq st) (r_log st) (r_sel st ++ cs) (r_dirty st) (r_alloc st)
    end.

  (* ---------------------------------------------------------------- the callback on the next event of collection c *)
  Definition visit_docs (regen : bool) (s id : N) (docs : list doc) : list doc :=
    map (fun d => if d_id d =? id then after (fn id) fixed regen s d else d) docs.
  Definition visit_wrote (regen : bool) (s id : N) (docs : list doc) : bool :=
    existsb (fun d => (d_id d =? id) && is_some (resync_doc (fn id) fixed regen s d)) docs.

  Definition do_visit (st : rst) (c s : N) : rst :=
    match r_state st with
    | MRunning =>
        match qget (r_queue st) c with
        | [] => st
        | e :: q' =>
            let queue' := qset (r_queue st) c q' in
            let last' := upd (r_last st) c (e_cas e) in
            if e_skip e then
              mkR (r_docs st) (r_idx st) (r_clock st) (r_state st) (r_cols st) (r_pchanged st) (r_pckpt st) (r_rid st)
                  (r_regen st) (r_hasall st) queue' last' (r_changed st) (r_ps st) (r_pseq st) (r_log st) (r_sel st) (r_dirty st) (r_alloc st)
            else
              let wr := visit_wrote (r_regen st) s (e_id e) (r_docs st) in
              mkR (visit_docs (r_regen st) s (e_id e) (r_docs st))
                  (if wr then bump (r_idx st) (e_id e) (r_clock st + 1) else r_idx st) (if wr then r_clock st + 1 else r_clock st)
                  (r_state st) (r_cols st) (r_pchanged st) (r_pckpt st) (r_rid st)
                  (r_regen st) (r_hasall st) queue' last' (if wr then r_changed st + 1 else r_changed st)
                  (r_ps st) (r_pseq st) (r_log st) (r_sel st) (r_dirty st || wr)
                  (if wr && r_regen st then r_alloc st ++ [s] else r_alloc st)
        end
    | _ => st
    end.

  (* ---------------------------------------------------------------- Stop: terminator closed, feeds write their checkpoint, status persisted *)
  Definition do_stop (st : rst) : rst :=
    match r_state st with
    | MRunning =>
        mkR (r_docs st) (r_idx st) (r_clock st) MStopped (r_cols st) (r_changed st) (r_last st) (r_rid st)
            (r_regen st) (r_hasall st) [] (r_last st) (r_changed st) (r_ps st) (r_pseq st) (r_log st) (r_sel st) (r_dirty st) (r_alloc st)
    | _ => st
    end.

  (* the process dies: nothing is written; what is persisted is not above what was in memory; the manager's memory
     (hasAllCollections included) is that of a new process *)
  Definition do_crash (st : rst) (ck : list (N * N)) (ch : N) : rst :=
    match r_state st with
    | MRunning =>
        mkR (r_docs st) (r_idx st) (r_clock st) MCrashed (r_cols st) (N.min ch (r_changed st))
            (map (fun c => (c, N.min (lookup (r_last st) c) (lookup ck c))) (r_cols st)) (r_rid st)
            false false [] [] 0 (r_ps st) (r_pseq st) (r_log st) (r_sel st) (r_dirty st) (r_alloc st)
    | _ => st
    end.

  (* ---------------------------------------------------------------- the feed is done: invalidatePrincipals, completed *)
  Definition do_finish (st : rst) (pseqs : list N) : rst :=
    match r_state st with
    | MRunning =>
        if forallb (fun p => null (snd p)) (r_queue st) then
          (* Switch.always_inval_fixed: the repaired code always invalidates.  The invalidation is "at sequence
             endSeq = the database's sequence counter", and an invalidation sequence of 0 means NOT invalidated: on a
             database in which no sequence was ever allocated -- no document was ever written -- the call changes
             nothing.  The counter is positive as soon as a document has been mutated ([r_clock]) or a principal document
             has been given a sequence (updateAllPrincipalsSequences runs just before). *)
          let pseq' := if r_regen st && r_hasall st then pseqs else r_pseq st in
          let inv := (sw_inval fixed || (0 <? r_changed st)) &&
                     ((0 <? r_clock st) || (0 <? r_changed st) || existsb (fun s => 0 <? s) pseq') in
          mkR (r_docs st) (r_idx st) (r_clock st) MCompleted (r_cols st) (r_changed st) (r_last st) (r_rid st)
              (r_regen st) (r_hasall st) [] (r_last st) (r_changed st)
              (if inv then invalidate_all (r_ps st) else r_ps st)
              pseq'
              (if inv then r_log st ++ [allcols] else r_log st) (r_sel st) (if inv then false else r_dirty st)
              (if r_regen st && r_hasall st then r_alloc st ++ pseqs else r_alloc st)
        else st
    | _ => st
    end.

  Definition do_load (st : rst) (u : N) : rst :=
    mkR (r_docs st) (r_idx st) (r_clock st) (r_state st) (r_cols st) (r_pchanged st) (r_pckpt st) (r_rid st)
        (r_regen st) (r_hasall st) (r_queue st) (r_last st) (r_changed st)
        (load_user (r_docs st) (r_ps st) u) (r_pseq st) (r_log st) (r_sel st) (r_dirty st) (r_alloc st).

  Inductive rop :=
  | OWrite (w : wop)
  | OStart (reset regen : bool) (cols : list N)
  | OVisit (c : N) (s : N)              (* s: the sequence the allocator hands out if sequences are regenerated *)
  | OStop
  | OCrash (ck : list (N * N)) (ch : N)
  | OFinish (pseqs : list N)            (* the sequences handed to the principal documents (roles, then users) *)
  | OLoad (u : N).

  Definition rstep (st : rst) (op : rop) : rst :=
    match op with
    | OWrite w => do_write st w
    | OStart reset regen cols => do_start st reset regen cols
    | OVisit c s => do_visit st c s
    | OStop => do_stop st
    | OCrash ck ch => do_crash st ck ch
    | OFinish ps => do_finish st ps
    | OLoad u => do_load st u
    end.
  Definition rrun (st : rst) (ops : list rop) : rst := fold_left rstep ops st.

  (* a database on which no resync has run: documents numbered in the order of their last mutation *)
  Fixpoint idx_from (n : N) (db : list doc) : list (N * N) :=
    match db with [] => [] | d :: r => (d_id d, n) :: idx_from (n + 1) r end.
  Definition rinit (db : list doc) (ps : princs) (pseq : list N) : rst :=
    mkR db (idx_from 1 db) (N.of_nat (length db)) MNone [] 0 [] 0 false false [] [] 0 ps pseq [] [] false [].
End Run.

Arguments r_docs {body}. Arguments r_idx {body}. Arguments r_clock {body}. Arguments r_state {body}. Arguments r_cols {body}.
Arguments r_pchanged {body}. Arguments r_pckpt {body}. Arguments r_rid {body}. Arguments r_regen {body}. Arguments r_hasall {body}.
Arguments r_queue {body}. Arguments r_last {body}. Arguments r_changed {body}. Arguments r_ps {body}. Arguments r_pseq {body}.
Arguments r_log {body}. Arguments r_sel {body}. Arguments r_dirty {body}. Arguments r_alloc {body}. Arguments mkR {body}.
Arguments OWrite {body}. Arguments OStart {body}. Arguments OVisit {body}. Arguments OStop {body}. Arguments OCrash {body}.
Arguments OFinish {body}. Arguments OLoad {body}.
Arguments rstep {body}. Arguments rrun {body}. Arguments rinit {body}. Arguments do_write {body}. Arguments do_start {body}.
Arguments do_visit {body}. Arguments do_stop {body}. Arguments do_crash {body}. Arguments do_finish {body}. Arguments do_load {body}.
Arguments snapshot {body}. Arguments skip_at {body}. Arguments wrote {body}. Arguments visit_docs {body}. Arguments visit_wrote {body}.
Arguments idx_from {body}. Arguments fn {body}.
