(* C18 correspondence: cases observed on two real databases by harness/db/verif_c18_test.go (one written
   under f1, switched to f2 and resynced through the real ResyncManager; one written under f2 from the
   start) are re-run here on the model with vm_compute and every projected observable is compared.
   Which tree the model describes is selected by Switch.code_fixed / Switch.regen_inval_fixed. *)
From SG Require Export Base.Prelude Base.Bytes C18.Switch C18.Resync.
Open Scope N_scope.

(* ---------------------------------------------------------------- the family of sync functions *)
(* document bodies of the harness: channel fields a b, grant target user u with channels ga gb, grant target
   role tr, role grant to user r of roles ra rb, reject flag x *)
Record cbody := mkB { b_a : option N; b_b : option N; b_u : option N; b_ga : option N; b_gb : option N;
                      b_tr : option N; b_r : option N; b_ra : option N; b_rb : option N; b_x : bool }.

(* REJ = 1: the throw is the first statement; REJ = 2: it is the last one (after every channel/access/role call).
   function(doc){ if (REJ && doc.x) throw({forbidden}); if (CA && doc.a) channel(doc.a); if (CB && doc.b) channel(doc.b);
     if (CK) channel("K"); if (G=1|2 && doc.u && doc.ga|gb) access(doc.u, doc.ga|gb);
     if (RG=1|2 && doc.tr && doc.ga|gb) access("role:"+doc.tr, doc.ga|gb);
     if (R=1|2 && doc.r && doc.ra|rb) role(doc.r, "role:"+doc.ra|rb); if (KG) access(<user 0>, "K"); } *)
Record fdesc := mkF { f_ca : bool; f_cb : bool; f_ck : bool; f_g : N; f_rg : N; f_r : N; f_kg : bool; f_rej : N }.

Definition chK : N := 100.
Definition bempty : cbody := mkB None None None None None None None None None false.
Definition olist (o : option N) : list N := match o with Some x => [x] | None => [] end.
Definition pick (n : N) (x y : option N) : option N := match n with 1 => x | 2 => y | _ => None end.
Definition gr {A} (mk : N -> A) (who what : option N) : list (A * N) :=
  match who, what with Some w, Some c => [(mk w, c)] | _, _ => [] end.

Definition fam_roles (f : fdesc) (b : cbody) : list rgrant := gr (fun u => u) (b_r b) (pick (f_r f) (b_ra b) (b_rb b)).
Definition fam (f : fdesc) (b : cbody) : verdict :=
  if (f_rej f =? 1) && b_x b then Reject []
  else if (f_rej f =? 2) && b_x b then Reject (fam_roles f b)
  else Ok ((if f_ca f then olist (b_a b) else []) ++ (if f_cb f then olist (b_b b) else []) ++ (if f_ck f then [chK] else []))
          (gr PU (b_u b) (pick (f_g f) (b_ga b) (b_gb b)) ++ gr PR (b_tr b) (pick (f_rg f) (b_ga b) (b_gb b))
             ++ (if f_kg f then [(PU 0, chK)] else []))
          (fam_roles f b).

Definition switches_now : switches := mkSw code_fixed reject_roles_fixed.

(* ---------------------------------------------------------------- observations *)
Record obs_doc := mkOD {
  od_id : N; od_cur : rev; od_del : bool; od_chans : list N; od_access : list grant; od_roles : list rgrant;
  od_seq : N; od_recent : list N; od_leaves : list (rev * bool * list N) }.
Record obs_user := mkOU {
  ou_name : N; ou_ch : list N; ou_rl : list N; ou_vis : list N; ou_visleaf : list (N * rev) }.
Record obs_db := mkODB { o_docs : list obs_doc; o_users : list obs_user }.

Definition W (d : N) (g dg : N) (anc : list rev) (b : cbody) (del : bool) : pop cbody := PWrite (mkW d (g, dg) anc b del).
Definition L (u : N) : pop cbody := PLoad u.

Inductive case :=
| CResync (f1 f2 : fdesc) (regen : bool)
          (h1 h2 : list (pop cbody))                   (* writes and user loads under f1 / after the switch, before the resync *)
          (users : list (N * list N * list N)) (roles : list (N * list N))    (* name, admin channels, admin roles *)
          (before : obs_db) (changed1 : N) (after1 : obs_db) (changed2 : N) (after2 : obs_db) (fresh : obs_db).

(* ---------------------------------------------------------------- comparison *)
Definition dN := @doc cbody.

Definition find_doc (db : list dN) (id : N) : option dN := find (fun d => d_id d =? id) db.
Definition nset_eqb := set_eqb N.eqb.
Definition pair_eqb (a b : N * rev) : bool := (fst a =? fst b) && rev_eqb (snd a) (snd b).

Definition leaf_match (d : dN) (ol : rev * bool * list N) : bool :=
  let '(r, del, chs) := ol in
  match find (fun l => rev_eqb (l_rev l) r) (d_leaves d) with
  | Some l => Bool.eqb (l_del l) del && nset_eqb (leaf_chans d l) chs
  | None => false
  end.

Definition doc_match (with_seq : bool) (d : dN) (o : obs_doc) : bool :=
  match d_cur d with
  | Some (r, _, del) =>
      rev_eqb r (od_cur o) && Bool.eqb del (od_del o) &&
      nset_eqb (d_chans d) (od_chans o) &&
      set_eqb grant_eqb (d_access d) (od_access o) && set_eqb rgrant_eqb (d_roles d) (od_roles o) &&
      (length (d_leaves d) =? length (od_leaves o))%nat && forallb (leaf_match d) (od_leaves o) &&
      (if with_seq then (d_seq d =? od_seq o) && list_eqb N.eqb (d_recent d) (od_recent o) else true)
  | None => false
  end.

Definition docs_match (with_seq : bool) (db : list dN) (os : list obs_doc) : bool :=
  (length db =? length os)%nat &&
  forallb (fun o => match find_doc db (od_id o) with Some d => doc_match with_seq d o | None => false end) os.

Definition vis_leaves (db : list dN) (ps : princs) (u : user) : list (N * rev) :=
  flat_map (fun d => map (fun l => (d_id d, l_rev l)) (filter (fun l => can_see db ps u (leaf_chans d l)) (d_leaves d))) db.

Definition user_match (db : list dN) (ps : princs) (o : obs_user) : bool :=
  match find (fun u => u_name u =? ou_name o) (ps_users ps) with
  | Some u => nset_eqb (effective db ps u) (ou_ch o) && nset_eqb (user_rl db u) (ou_rl o) &&
              nset_eqb (visible db ps u) (ou_vis o) && set_eqb pair_eqb (vis_leaves db ps u) (ou_visleaf o)
  | None => false
  end.
Definition users_match (db : list dN) (ps : princs) (os : list obs_user) : bool := forallb (user_match db ps) os.

(* the stored sequences are inputs of the resync model: take them from the observation *)
Definition with_seqs (os : list obs_doc) (db : list dN) : list dN :=
  map (fun d => match find (fun o => od_id o =? d_id d) os with
                | Some o => mkDoc (d_id d) (d_leaves d) (d_known d) (d_cur d) (d_chans d) (d_access d) (d_roles d) (od_seq o) (od_recent o)
                | None => d
                end) db.

(* the sequences handed out by the allocator, in the model's visiting order: read off the observation *)
Definition alloc_of (os : list obs_doc) (db : list dN) : list N :=
  flat_map (fun d => if tombstoned d then [] else
                     match find (fun o => od_id o =? d_id d) os with Some o => [od_seq o] | None => [] end) db.

Fixpoint nodupb (l : list N) : bool := match l with [] => true | x :: r => negb (mem N.eqb x r) && nodupb r end.
(* the allocator's contract (C07): fresh sequences are distinct and above every sequence in use *)
Definition alloc_ok (alloc : list N) (db : list dN) : bool :=
  nodupb alloc && forallb (fun s => forallb (fun d => d_seq d <? s) db) alloc.

Definition mk_princs (users : list (N * list N * list N)) (roles : list (N * list N)) : princs :=
  mkPs (map (fun x => let '(n, ch, rl) := x in mkUser n ch rl None None) users)
       (map (fun x => let '(n, ch) := x in mkRole n ch None) roles).

Definition check (c : case) : bool :=
  match c with
  | CResync f1 f2 regen h1 h2 users roles before changed1 after1 changed2 after2 fresh =>
      let s1 := fam f1 in let s2 := fam f2 in
      (* principals are created with their computed sets (NewUser / NewRole on the empty database) *)
      let ps0 := warm (@nil dN) (mk_princs users roles) in
      let '(mid0, ps1) := hist bempty s2 (hist bempty s1 ([], ps0) h1) h2 in
      let mid := with_seqs (o_docs before) mid0 in
      let alloc := if regen then alloc_of (o_docs after1) mid else [] in
      let '(rs, n1, ps2) := run s2 switches_now regen_inval_fixed regen alloc mid ps1 in
      (* observing the users after the first run loads every one of them *)
      let '(rs2, n2, ps3) := run s2 switches_now regen_inval_fixed false [] rs (warm rs ps2) in
      let '(fr, psf) := hist bempty s2 ([], ps0) (map PWrite (writes_of h1 ++ writes_of h2)) in
      docs_match false mid0 (o_docs before) &&
      users_match mid ps1 (o_users before) &&
      (if regen then alloc_ok alloc mid else true) &&
      (n1 =? changed1) && docs_match true rs (o_docs after1) && users_match rs ps2 (o_users after1) &&
      (n2 =? changed2) && docs_match true rs2 (o_docs after2) && users_match rs2 ps3 (o_users after2) &&
      docs_match false fr (o_docs fresh) && users_match fr psf (o_users fresh)
  end.

Definition mismatches (cs : list case) : list N := failing check cs.

(* debugging aid: the conjuncts of [check] one by one *)
Definition parts (c : case) : list bool :=
  match c with
  | CResync f1 f2 regen h1 h2 users roles before changed1 after1 changed2 after2 fresh =>
      let s1 := fam f1 in let s2 := fam f2 in
      (* principals are created with their computed sets (NewUser / NewRole on the empty database) *)
      let ps0 := warm (@nil dN) (mk_princs users roles) in
      let '(mid0, ps1) := hist bempty s2 (hist bempty s1 ([], ps0) h1) h2 in
      let mid := with_seqs (o_docs before) mid0 in
      let alloc := if regen then alloc_of (o_docs after1) mid else [] in
      let '(rs, n1, ps2) := run s2 switches_now regen_inval_fixed regen alloc mid ps1 in
      (* observing the users after the first run loads every one of them *)
      let '(rs2, n2, ps3) := run s2 switches_now regen_inval_fixed false [] rs (warm rs ps2) in
      let '(fr, psf) := hist bempty s2 ([], ps0) (map PWrite (writes_of h1 ++ writes_of h2)) in
      [docs_match false mid0 (o_docs before); users_match mid ps1 (o_users before);
       (if regen then alloc_ok alloc mid else true);
       (n1 =? changed1); docs_match true rs (o_docs after1); users_match rs ps2 (o_users after1);
       (n2 =? changed2); docs_match true rs2 (o_docs after2); users_match rs2 ps3 (o_users after2);
       docs_match false fr (o_docs fresh); users_match fr psf (o_users fresh)]
  end.
