(* C18 correspondence: cases observed on two real databases by harness/db/verif_c18_test.go (one written
   under f1, switched to f2 and resynced through the real ResyncManager; one written under f2 from the
   start) are re-run here on the model with vm_compute and every projected observable is compared.
   Which tree the model describes is selected by Switch.code_fixed / Switch.regen_inval_fixed. *)
From SG Require Export Base.Prelude Base.Bytes C18.Switch C18.Resync C18.ResyncProofs C18.Run.
Open Scope N_scope.

(* ---------------------------------------------------------------- the family of sync functions *)
(* document bodies of the harness: channel fields a b, grant target user u with channels ga gb, grant target
   role tr, role grant to user r of roles ra rb, reject flag x *)
Record cbody := mkB { b_a : option N; b_b : option N; b_u : option N; b_ga : option N; b_gb : option N;
                      b_tr : option N; b_r : option N; b_ra : option N; b_rb : option N; b_x : bool }.

(* REJ = 1: the throw is the first statement; REJ = 2: it is the last one (after every channel/access/role call).
   function(doc){ if (REJ && doc.x) throw({forbidden}); if (CA && doc.a) channel(doc.a); if (CB && doc.b) channel(doc.b);
     if (CK) channel("K"); if (G=1|2 && doc.u && doc.ga|gb) access(doc.u, doc.ga|gb);
     if (RG=1|2 && doc.tr && doc.ga|gb) access("role:"+doc.tr, doc.ga|gb);
     if (R=1|2 && doc.r && doc.ra|rb) role(doc.r, "role:"+doc.ra|rb); if (KG) access(<user 0>, "K"); } *)
Record fdesc := mkF { f_ca : bool; f_cb : bool; f_ck : bool; f_g : N; f_rg : N; f_r : N; f_kg : bool; f_rej : N }.

Definition chK : N := 100.
Definition bempty : cbody := mkB None None None None None None None None None false.
Definition olist (o : option N) : list N := match o with Some x => [x] | None => [] end.
Definition pick (n : N) (x y : option N) : option N := match n with 1 => x | 2 => y | _ => None end.
Definition gr {A} (mk : N -> A) (who what : option N) : list (A * N) :=
  match who, what with Some w, Some c => [(mk w, c)] | _, _ => [] end.

Definition fam_roles (f : fdesc) (b : cbody) : list rgrant := gr (fun u => u) (b_r b) (pick (f_r f) (b_ra b) (b_rb b)).
Definition fam (f : fdesc) (b : cbody) : verdict :=
  if (f_rej f =? 1) && b_x b then Reject []
  else if (f_rej f =? 2) && b_x b then Reject (fam_roles f b)
  else Ok ((if f_ca f then olist (b_a b) else []) ++ (if f_cb f then olist (b_b b) else []) ++ (if f_ck f then [chK] else []))
          (gr PU (b_u b) (pick (f_g f) (b_ga b) (b_gb b)) ++ gr PR (b_tr b) (pick (f_rg f) (b_ga b) (b_gb b))
             ++ (if f_kg f then [(PU 0, chK)] else []))
          (fam_roles f b).

Definition switches_now : switches := mkSw code_fixed reject_roles_fixed always_inval_fixed.

(* ---------------------------------------------------------------- observations *)
Record obs_doc := mkOD {
  od_id : N; od_cur : rev; od_del : bool; od_chans : list N; od_access : list grant; od_roles : list rgrant;
  od_seq : N; od_recent : list N; od_leaves : list (rev * bool * list N) }.
Record obs_user := mkOU {
  ou_name : N; ou_ch : list N; ou_rl : list N; ou_vis : list N; ou_visleaf : list (N * rev) }.
Record obs_db := mkODB { o_docs : list obs_doc; o_users : list obs_user }.

Definition W (d : N) (g dg : N) (anc : list rev) (b : cbody) (del : bool) : pop cbody := PWrite (mkW d (g, dg) anc b del).
Definition L (u : N) : pop cbody := PLoad u.

Inductive tstep :=
| TW (w : pop cbody)                         (* a write / a user load between or during segments (new functions) *)
| TObs (o : list obs_doc)                    (* documents after such writes *)
| TStart (reset regen : bool) (cols : list N)
| TVisits (visits : list (N * list N))       (* per collection: the documents the run handed to ResyncDocument, in order *)
          (o : list obs_doc)                 (* documents right after those visits *)
| TEnd (how : N)                             (* 0 stopped, 1 completed, 2 crash (status and checkpoint documents as saved at Start) *)
       (changed : N)                         (* docs_changed of the status document afterwards *)
       (pseqs : list N)                      (* sequences of the principal documents afterwards (roles, then users) *)
       (pend : list (N * bool * bool))       (* per user: computed channels / computed roles invalidated (raw, before any load) *)
| TUsers (o : list obs_user).                (* users loaded and observed *)

Inductive case :=
| CResync (f1 f2 : fdesc) (regen : bool)
          (h1 h2 : list (pop cbody))                   (* writes and user loads under f1 / after the switch, before the resync *)
          (users : list (N * list N * list N)) (roles : list (N * list N))    (* name, admin channels, admin roles *)
          (before : obs_db) (changed1 : N) (after1 : obs_db) (changed2 : N) (after2 : obs_db) (fresh : obs_db)
(* the interruptible run (Run.v): a database with [ncols] collections (document id = 100 * collection + n), written under
   the functions fs1, switched to fs2, then driven through the REAL ResyncManagerDCP segment by segment *)
| CRun (ncols : N) (fs1 fs2 : list fdesc) (h1 : list (pop cbody))
       (users : list (N * list N * list N)) (roles : list (N * list N)) (pseq0 : list N)
       (before : list obs_doc) (steps : list tstep).

(* ---------------------------------------------------------------- comparison *)
Definition dN := @doc cbody.

Definition find_doc (db : list dN) (id : N) : option dN := find (fun d => d_id d =? id) db.
Definition nset_eqb := set_eqb N.eqb.
Definition pair_eqb (a b : N * rev) : bool := (fst a =? fst b) && rev_eqb (snd a) (snd b).

Definition leaf_match (d : dN) (ol : rev * bool * list N) : bool :=
  let '(r, del, chs) := ol in
  match find (fun l => rev_eqb (l_rev l) r) (d_leaves d) with
  | Some l => Bool.eqb (l_del l) del && nset_eqb (leaf_chans d l) chs
  | None => false
  end.

Definition doc_match (with_seq : bool) (d : dN) (o : obs_doc) : bool :=
  match d_cur d with
  | Some (r, _, del) =>
      rev_eqb r (od_cur o) && Bool.eqb del (od_del o) &&
      nset_eqb (d_chans d) (od_chans o) &&
      set_eqb grant_eqb (d_access d) (od_access o) && set_eqb rgrant_eqb (d_roles d) (od_roles o) &&
      (length (d_leaves d) =? length (od_leaves o))%nat && forallb (leaf_match d) (od_leaves o) &&
      (if with_seq then (d_seq d =? od_seq o) && list_eqb N.eqb (d_recent d) (od_recent o) else true)
  | None => false
  end.

Definition docs_match (with_seq : bool) (db : list dN) (os : list obs_doc) : bool :=
  (length db =? length os)%nat &&
  forallb (fun o => match find_doc db (od_id o) with Some d => doc_match with_seq d o | None => false end) os.

Definition vis_leaves (db : list dN) (ps : princs) (u : user) : list (N * rev) :=
  flat_map (fun d => map (fun l => (d_id d, l_rev l)) (filter (fun l => can_see db ps u (leaf_chans d l)) (d_leaves d))) db.

Definition user_match (db : list dN) (ps : princs) (o : obs_user) : bool :=
  match find (fun u => u_name u =? ou_name o) (ps_users ps) with
  | Some u => nset_eqb (effective db ps u) (ou_ch o) && nset_eqb (user_rl db u) (ou_rl o) &&
              nset_eqb (visible db ps u) (ou_vis o) && set_eqb pair_eqb (vis_leaves db ps u) (ou_visleaf o)
  | None => false
  end.
Definition users_match (db : list dN) (ps : princs) (os : list obs_user) : bool := forallb (user_match db ps) os.

(* the stored sequences are inputs of the resync model: take them from the observation *)
Definition with_seqs (os : list obs_doc) (db : list dN) : list dN :=
  map (fun d => match find (fun o => od_id o =? d_id d) os with
                | Some o => mkDoc (d_id d) (d_leaves d) (d_known d) (d_cur d) (d_chans d) (d_access d) (d_roles d) (od_seq o) (od_recent o)
                | None => d
                end) db.

(* the sequences handed out by the allocator, in the model's visiting order: read off the observation *)
Definition alloc_of (os : list obs_doc) (db : list dN) : list N :=
  flat_map (fun d => if tombstoned d then [] else
                     match find (fun o => od_id o =? d_id d) os with Some o => [od_seq o] | None => [] end) db.

Fixpoint nodupb (l : list N) : bool := match l with [] => true | x :: r => negb (mem N.eqb x r) && nodupb r end.
(* the allocator's contract (C07): fresh sequences are distinct and above every sequence in use *)
Definition alloc_ok (alloc : list N) (db : list dN) : bool :=
  nodupb alloc && forallb (fun s => forallb (fun d => d_seq d <? s) db) alloc.

Definition mk_princs (users : list (N * list N * list N)) (roles : list (N * list N)) : princs :=
  mkPs (map (fun x => let '(n, ch, rl) := x in mkUser n ch rl None None) users)
       (map (fun x => let '(n, ch) := x in mkRole n ch None) roles).


(* ---------------------------------------------------------------- the run model driven by the observed segments *)
Definition rcol (id : N) : N := id / 100.
Definition rfun (fs : list fdesc) (c : N) : cbody -> verdict := fam (nth (N.to_nat c) fs (mkF false false false 0 0 0 false 0)).
Fixpoint upto (n : nat) : list N := match n with O => [] | S k => upto k ++ [N.of_nat k] end.
Definition rstN := rst cbody.

Definition patch_seqs (os : list obs_doc) (st : rstN) : rstN :=
  mkR (with_seqs os (r_docs st)) (r_idx st) (r_clock st) (r_state st) (r_cols st) (r_pchanged st) (r_pckpt st) (r_rid st)
      (r_regen st) (r_hasall st) (r_queue st) (r_last st) (r_changed st) (r_ps st) (r_pseq st) (r_log st) (r_sel st) (r_dirty st) (r_alloc st).
Definition set_ps (ps : princs) (st : rstN) : rstN :=
  mkR (r_docs st) (r_idx st) (r_clock st) (r_state st) (r_cols st) (r_pchanged st) (r_pckpt st) (r_rid st)
      (r_regen st) (r_hasall st) (r_queue st) (r_last st) (r_changed st) ps (r_pseq st) (r_log st) (r_sel st) (r_dirty st) (r_alloc st).

Definition seq_of (os : list obs_doc) (id : N) : N :=
  match find (fun o => od_id o =? id) os with Some o => od_seq o | None => 0 end.
Definition mstate_eqb (a b : mstate) : bool :=
  match a, b with MNone, MNone | MRunning, MRunning | MStopped, MStopped | MCrashed, MCrashed | MCompleted, MCompleted => true | _, _ => false end.

Section Drive.
  Variable fs2 : list fdesc.
  Variable allc : list N.
  Notation stepN := (rstep bempty rcol (rfun fs2) allc switches_now).

  (* the next event of collection c's feed reaches ResyncDocument (tombstones included: the update callback cancels
     on their empty body): it must be document [id] *)
  Definition visit_one (st : rstN) (c id s : N) : option rstN :=
    match qget (r_queue st) c with
    | [] => None
    | e :: _ => if e_id e =? id then Some (stepN st (OVisit c s)) else None
    end.
  Fixpoint visit_ids (os : list obs_doc) (st : rstN) (c : N) (ids : list N) : option rstN :=
    match ids with
    | [] => Some st
    | id :: r => match visit_one st c id (seq_of os id) with
                 | Some st' => visit_ids os st' c r
                 | None => None
                 end
    end.
  Fixpoint visit_cols (os : list obs_doc) (st : rstN) (vs : list (N * list N)) : option rstN :=
    match vs with
    | [] => Some st
    | (c, ids) :: r => match visit_ids os st c ids with Some st' => visit_cols os st' r | None => None end
    end.
  (* a run that completed has delivered every event *)
  Definition drain_cols (st : rstN) (cs : list N) : option rstN :=
    if forallb (fun c => null (qget (r_queue st) c)) cs then Some st else None.

  Definition pend_match (ps : princs) (p : N * bool * bool) : bool :=
    let '(n, chp, rlp) := p in
    match find (fun u => u_name u =? n) (ps_users ps) with
    | Some u => Bool.eqb (negb (is_some (u_ch u))) chp && Bool.eqb (negb (is_some (u_rl u))) rlp
    | None => false
    end.

  (* one observed step; the boolean accumulates the comparison *)
  Definition drive (acc : rstN * bool) (t : tstep) : rstN * bool :=
    let (st, ok) := acc in
    match t with
    | TW (PWrite w) => (stepN st (OWrite w), ok)
    | TW (PLoad u) => (stepN st (OLoad u), ok)
    | TObs o => (patch_seqs o st, ok && docs_match false (r_docs st) o)
    | TStart reset regen cols =>
        let st' := stepN st (OStart reset regen cols) in
        (st', ok && negb (mstate_eqb (r_state st) MRunning) && mstate_eqb (r_state st') MRunning)
    | TVisits vs o =>
        match visit_cols o st vs with
        | Some st' => (st', ok && docs_match true (r_docs st') o && nodupb (r_alloc st'))
        | None => (st, false)
        end
    | TEnd how changed pseqs pend =>
        let res :=
          match how with
          | 1 => match drain_cols st (r_cols st) with
                 | Some st1 => let st2 := stepN st1 (OFinish pseqs) in
                               Some (st2, mstate_eqb (r_state st2) MCompleted &&
                                          (if r_regen st1 && r_hasall st1
                                           then forallb (fun s => forallb (fun o => o <? s) (r_pseq st1) && forallb (fun d => d_seq d <? s) (r_docs st1)) pseqs
                                                && nodupb (r_alloc st2)
                                           else true))
                 | None => None
                 end
          | 0 => Some (stepN st OStop, true)
          | _ => Some (stepN st (OCrash (r_pckpt st) (r_pchanged st)), true)
          end in
        match res with
        | Some (st', b) =>
            (st', ok && b && mstate_eqb (r_state st) MRunning && (r_pchanged st' =? changed) &&
                  list_eqb N.eqb (r_pseq st') pseqs && forallb (pend_match (r_ps st')) pend)
        | None => (st, false)
        end
    | TUsers o =>
        let ps := warm (r_docs st) (r_ps st) in
        (set_ps ps st, ok && users_match (r_docs st) ps o)
    end.
End Drive.

(* principals as the harness creates them: computed sets stored (NewUser / NewRole), except that SetExplicitRoles
   invalidates the computed roles of a user that is given admin roles *)
Definition run_princs (users : list (N * list N * list N)) (roles : list (N * list N)) : princs :=
  let ps := warm (@nil dN) (mk_princs users roles) in
  mkPs (map (fun u => if null (u_adm_rl u) then u else mkUser (u_name u) (u_adm_ch u) (u_adm_rl u) (u_ch u) None) (ps_users ps)) (ps_roles ps).

Definition check_run (ncols : N) (fs1 fs2 : list fdesc) (h1 : list (pop cbody))
    (users : list (N * list N * list N)) (roles : list (N * list N)) (pseq0 : list N) (before : list obs_doc) (steps : list tstep) : bool :=
  let allc := upto (N.to_nat ncols) in
  let ps0 := run_princs users roles in
  (* the database as written under the old functions *)
  let st0 := fold_left (fun st op => match op with
                                     | PWrite w => rstep bempty rcol (rfun fs1) allc switches_now st (OWrite w)
                                     | PLoad u => rstep bempty rcol (rfun fs1) allc switches_now st (OLoad u)
                                     end) h1 (rinit (@nil dN) ps0 pseq0) in
  let st1 := patch_seqs before st0 in
  let '(_, ok) := fold_left (drive fs2 allc) steps (st1, docs_match false (r_docs st0) before) in
  ok.

Definition check (c : case) : bool :=
  match c with
  | CResync f1 f2 regen h1 h2 users roles before changed1 after1 changed2 after2 fresh =>
      let s1 := fam f1 in let s2 := fam f2 in
      (* principals are created with their computed sets (NewUser / NewRole on the empty database) *)
      let ps0 := warm (@nil dN) (mk_princs users roles) in
      let '(mid0, ps1) := hist bempty s2 (hist bempty s1 ([], ps0) h1) h2 in
      let mid := with_seqs (o_docs before) mid0 in
      let alloc := if regen then alloc_of (o_docs after1) mid else [] in
      let '(rs, n1, ps2) := run s2 switches_now regen_inval_fixed regen alloc mid ps1 in
      (* observing the users after the first run loads every one of them *)
      let '(rs2, n2, ps3) := run s2 switches_now regen_inval_fixed false [] rs (warm rs ps2) in
      let '(fr, psf) := hist bempty s2 ([], ps0) (map PWrite (writes_of h1 ++ writes_of h2)) in
      docs_match false mid0 (o_docs before) &&
      users_match mid ps1 (o_users before) &&
      (if regen then alloc_ok alloc mid else true) &&
      (n1 =? changed1) && docs_match true rs (o_docs after1) && users_match rs ps2 (o_users after1) &&
      (n2 =? changed2) && docs_match true rs2 (o_docs after2) && users_match rs2 ps3 (o_users after2) &&
      docs_match false fr (o_docs fresh) && users_match fr psf (o_users fresh)
  | CRun ncols fs1 fs2 h1 users roles pseq0 before steps => check_run ncols fs1 fs2 h1 users roles pseq0 before steps
  end.

Definition mismatches (cs : list case) : list N := failing check cs.


(* debugging aid: the accumulated comparison after every step of a CRun case *)
Definition trace_run (c : case) : list bool :=
  match c with
  | CRun ncols fs1 fs2 h1 users roles pseq0 before steps =>
      let allc := upto (N.to_nat ncols) in
      let ps0 := run_princs users roles in
      let st0 := fold_left (fun st op => match op with
                                         | PWrite w => rstep bempty rcol (rfun fs1) allc switches_now st (OWrite w)
                                         | PLoad u => rstep bempty rcol (rfun fs1) allc switches_now st (OLoad u)
                                         end) h1 (rinit (@nil dN) ps0 pseq0) in
      let st1 := patch_seqs before st0 in
      docs_match false (r_docs st0) before ::
      snd (fold_left (fun (a : (rstN * bool) * list bool) t => let r := drive fs2 allc (fst a) t in (r, snd a ++ [snd r])) steps ((st1, true), []))
  | _ => []
  end.

(* debugging aid: the conjuncts of [check] one by one *)
Definition parts (c : case) : list bool :=
  match c with
  | CResync f1 f2 regen h1 h2 users roles before changed1 after1 changed2 after2 fresh =>
      let s1 := fam f1 in let s2 := fam f2 in
      (* principals are created with their computed sets (NewUser / NewRole on the empty database) *)
      let ps0 := warm (@nil dN) (mk_princs users roles) in
      let '(mid0, ps1) := hist bempty s2 (hist bempty s1 ([], ps0) h1) h2 in
      let mid := with_seqs (o_docs before) mid0 in
      let alloc := if regen then alloc_of (o_docs after1) mid else [] in
      let '(rs, n1, ps2) := run s2 switches_now regen_inval_fixed regen alloc mid ps1 in
      (* observing the users after the first run loads every one of them *)
      let '(rs2, n2, ps3) := run s2 switches_now regen_inval_fixed false [] rs (warm rs ps2) in
      let '(fr, psf) := hist bempty s2 ([], ps0) (map PWrite (writes_of h1 ++ writes_of h2)) in
      [docs_match false mid0 (o_docs before); users_match mid ps1 (o_users before);
       (if regen then alloc_ok alloc mid else true);
       (n1 =? changed1); docs_match true rs (o_docs after1); users_match rs ps2 (o_users after1);
       (n2 =? changed2); docs_match true rs2 (o_docs after2); users_match rs2 ps3 (o_users after2);
       docs_match false fr (o_docs fresh); users_match fr psf (o_users fresh)]
  | CRun ncols fs1 fs2 h1 users roles pseq0 before steps => [check_run ncols fs1 fs2 h1 users roles pseq0 before steps]
  end.
