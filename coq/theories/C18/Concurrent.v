(* C18: writes racing with the resync.  After the function change every write is processed by the NEW
   function (the write path uses the collection's current ChannelMapper) and ResyncDocument is a
   CAS-guarded read-modify-write, so a run is an arbitrary interleaving of atomic steps
       CWrite w      one revision written under sync_new
       CVisit id s   the resync callback on document id (s: the sequence it would be given)
   Invariant proved for EVERY interleaving: a document that has been visited at least once, or that was
   created after the switch, carries -- whenever it is live -- the new function's verdict on its current
   revision.  (Partial: the atomicity of the two kinds of step is an assumption, and nothing is claimed
   about non-winning leaves or about principals during the race.) *)
From SG Require Import Base.Prelude C18.Resync C18.SetLemmas C18.ResyncProofs.
Open Scope N_scope.

Section Conc.
  Variable body : Type.
  Variable empty : body.
  Variable sync : body -> verdict.
  Notation doc := (doc body).
  Notation wop := (wop body).

  Inductive cop := CWrite (w : wop) | CVisit (id : N) (s : N).

  Definition visit (fixed : switches) (regen : bool) (id s : N) (db : list doc) : list doc :=
    map (fun d => if d_id d =? id then after sync fixed regen s d else d) db.
  Definition cstep (fixed : switches) (regen : bool) (db : list doc) (op : cop) : list doc :=
    match op with CWrite w => put empty sync db w | CVisit id s => visit fixed regen id s db end.
  Definition crun (fixed : switches) (regen : bool) (db : list doc) (ops : list cop) : list doc := fold_left (cstep fixed regen) ops db.
  Definition visited (ops : list cop) : list N :=
    flat_map (fun op => match op with CVisit id _ => [id] | CWrite _ => [] end) ops.

  Lemma accepted_ok' : forall v, accepted v = true -> v = Ok (vchans v) (vaccess v) (vroles v).
  Proof. intros [c a r|r]; cbn; [reflexivity | discriminate]. Qed.

  (* one write under [sync] keeps (or establishes) the verdict of [sync] on the current revision *)
  Lemma put_doc_state_ok : forall fx d w d', put_doc empty sync d w = Some d' ->
    state_ok sync fx d \/ d_cur d = None -> state_ok sync fx d' /\ d_id d' = d_id d.
  Proof.
    intros fx d w d' H Hpre. unfold put_doc in H.
    destruct (mem rev_eqb (w_rev w) (d_known d)); [discriminate|].
    destruct (sync (w_body w)) as [chs acc rls|] eqn:Es; [|discriminate].
    destruct (winner (add_leaf (d_leaves d) w [])) as [wl|]; [|discriminate].
    destruct (opt_rev_eqb (cur_rev d) (Some (l_rev wl))) eqn:Ecur.
    - inversion H; subst; clear H. split; [|reflexivity]. destruct Hpre as [Hs|Hn].
      + unfold state_ok in *. cbn. exact Hs.
      + unfold cur_rev in Ecur. rewrite Hn in Ecur. discriminate.
    - destruct (rev_eqb (l_rev wl) (w_rev w)).
      + inversion H; subst; clear H. split; [|reflexivity]. unfold state_ok. cbn. destruct (w_del w); [exact I|].
        rewrite Es. cbn. split; [|split]; apply seteq_refl.
      + destruct (sync (l_body wl)) as [c2 a2 r2|] eqn:E2; [|discriminate].
        inversion H; subst; clear H. split; [|reflexivity]. unfold state_ok. cbn. destruct (l_del wl); [exact I|].
        rewrite E2. cbn. split; [|split]; apply seteq_refl.
  Qed.

  Lemma put_doc_id : forall d w d', put_doc empty sync d w = Some d' -> d_id d' = d_id d.
  Proof.
    intros d w d' E. unfold put_doc in E. destruct (mem rev_eqb (w_rev w) (d_known d)); [discriminate|].
    destruct (sync (w_body w)); [|discriminate]. destruct (winner _); [|discriminate].
    destruct (opt_rev_eqb _ _); [inversion E; reflexivity|]. destruct (rev_eqb _ _); [inversion E; reflexivity|].
    destruct (sync _); inversion E; reflexivity.
  Qed.

  Lemma put_ids : forall db w, incl (map (@d_id body) db) (map (@d_id body) (put empty sync db w)).
  Proof.
    induction db as [|d db IH]; intros w x Hx; [destruct Hx|]. cbn [put].
    destruct (d_id d =? w_doc w).
    - destruct (put_doc empty sync d w) as [d'|] eqn:E; [|exact Hx].
      cbn in *. destruct Hx as [<-|Hx]; [left; apply (put_doc_id d w d' E) | right; exact Hx].
    - cbn in *. destruct Hx as [<-|Hx]; [left; reflexivity | right; apply IH; exact Hx].
  Qed.

  Lemma put_cases : forall db w d', In d' (put empty sync db w) ->
    In d' db \/ (exists d, In d db /\ put_doc empty sync d w = Some d') \/
    (put_doc empty sync (empty_doc (w_doc w)) w = Some d' /\ ~ In (w_doc w) (map (@d_id body) db)).
  Proof.
    induction db as [|d db IH]; intros w d' H; cbn [put] in H.
    - destruct (put_doc empty sync (empty_doc (w_doc w)) w) as [x|] eqn:E; [|destruct H].
      destruct H as [<-|[]]. right. right. split; [reflexivity | intros []].
    - destruct (d_id d =? w_doc w) eqn:Eid.
      + destruct (put_doc empty sync d w) as [x|] eqn:E.
        * destruct H as [<-|H]; [right; left; exists d; split; [left; reflexivity | exact E] | left; right; exact H].
        * left. exact H.
      + destruct H as [<-|H]; [left; left; reflexivity|].
        destruct (IH w d' H) as [Hin|[[x [Hx Hp]]|[Hp Hn]]].
        * left. right. exact Hin.
        * right. left. exists x. split; [right; exact Hx | exact Hp].
        * right. right. split; [exact Hp|]. cbn. intros [Hd|Hd]; [|exact (Hn Hd)].
          apply N.eqb_neq in Eid. exact (Eid Hd).
  Qed.

  Section Run.
    Variable fixed : switches.
    Variable regen : bool.
    Variable ids0 : list N.           (* the documents that existed when the function was changed *)

    Definition Inv (db : list doc) (vis : list N) : Prop :=
      incl ids0 (map (@d_id body) db) /\
      forall d, In d db -> In (d_id d) vis \/ ~ In (d_id d) ids0 -> state_ok sync fixed d.

    Lemma step_inv : forall db vis op, Inv db vis ->
      Inv (cstep fixed regen db op) (vis ++ visited [op]).
    Proof.
      intros db vis op [Hsub Hst]. destruct op as [w|id s]; cbn [cstep visited flat_map].
      - rewrite !app_nil_r. split.
        + intros x Hx. apply put_ids. apply Hsub. exact Hx.
        + intros d' Hin Hpre. destruct (put_cases db w d' Hin) as [Hold|[[d [Hd Hp]]|[Hp Hn]]].
          * apply Hst; assumption.
          * pose proof (put_doc_id d w d' Hp) as Hid.
            assert (Hsd : state_ok sync fixed d) by (apply Hst; [exact Hd | rewrite <- Hid; exact Hpre]).
            exact (proj1 (put_doc_state_ok fixed d w d' Hp (or_introl Hsd))).
          * destruct (put_doc_state_ok fixed _ w d' Hp (or_intror eq_refl)) as [Hok _]. exact Hok.
      - cbn [app]. split.
        + unfold visit. rewrite map_map. intros x Hx. apply Hsub in Hx. apply in_map_iff in Hx.
          destruct Hx as [d [<- Hd]]. apply in_map_iff. exists d. split; [|exact Hd].
          destruct (d_id d =? id); [apply after_id | reflexivity].
        + intros d' Hin Hpre. unfold visit in Hin. apply in_map_iff in Hin. destruct Hin as [d [<- Hd]].
          destruct (d_id d =? id) eqn:Eid.
          * apply after_state_ok.
          * apply Hst; [exact Hd|]. destruct Hpre as [Hv|Hn]; [|right; exact Hn].
            apply in_app_or in Hv. destruct Hv as [Hv|[Hv|[]]]; [left; exact Hv|].
            apply N.eqb_neq in Eid. subst id. contradiction.
    Qed.

    Lemma run_inv : forall ops db vis, Inv db vis -> Inv (crun fixed regen db ops) (vis ++ visited ops).
    Proof.
      induction ops as [|op ops IH]; intros db vis H; cbn [crun fold_left visited flat_map].
      - rewrite app_nil_r. exact H.
      - pose proof (IH _ _ (step_inv db vis op H)) as H'. unfold crun in H'.
        replace (vis ++ (match op with CWrite _ => [] | CVisit id _ => [id] end) ++ flat_map (fun op0 => match op0 with CWrite _ => [] | CVisit id _ => [id] end) ops)
          with ((vis ++ visited [op]) ++ visited ops); [exact H'|].
        unfold visited. cbn. rewrite app_nil_r, <- app_assoc. reflexivity.
    Qed.
  End Run.

  Theorem concurrent_write : forall fixed regen (db0 : list doc) (ops : list cop) d,
    In d (crun fixed regen db0 ops) ->
    In (d_id d) (visited ops) \/ ~ In (d_id d) (map (@d_id body) db0) ->
    state_ok sync fixed d.
  Proof.
    intros fixed regen db0 ops d Hin Hpre.
    assert (H0 : Inv fixed (map (@d_id body) db0) db0 []).
    { split; [apply incl_refl|]. intros x Hx [[]|Hn]. exfalso. apply Hn. apply in_map. exact Hx. }
    destruct (run_inv fixed regen _ ops db0 [] H0) as [_ H]. apply (H d Hin). exact Hpre.
  Qed.
End Conc.

Arguments CWrite {body}. Arguments CVisit {body}. Arguments crun {body}. Arguments visited {body}.
