(* C18: the same revisions written under two sync functions give databases with the same revision
   trees and current revisions, each carrying its own function's channels and grants for the current
   revision (simulation over the write path); composed with one resync pass. *)
From SG Require Import Base.Prelude C18.Resync C18.SetLemmas C18.ResyncProofs.
Open Scope N_scope.

Section Replay.
  Variable body : Type.
  Variable empty : body.
  Variables s1 s2 : body -> verdict.
  (* extra property of (body, deleted) carried along for every stored revision *)
  Variable X : body -> bool -> Prop.
  Notation doc := (doc body).
  Notation leaf := (leaf body).
  Notation wop := (wop body).

  Definition Pk (b : body) (del : bool) : Prop := accepted (s1 b) = true /\ accepted (s2 b) = true /\ X b del.

  Definition curP (d : doc) : Prop := match d_cur d with Some (_, b, del) => Pk b del | None => True end.
  Definition inv (s : body -> verdict) (d : doc) : Prop :=
    match d_cur d with
    | Some (_, b, _) => d_chans d = vchans (s b) /\ d_access d = vaccess (s b) /\ d_roles d = vroles (s b)
    | None => True
    end.

  Definition Rel (d1 d2 : doc) : Prop :=
    d_id d1 = d_id d2 /\ map key (d_leaves d1) = map key (d_leaves d2) /\ d_known d1 = d_known d2 /\
    d_cur d1 = d_cur d2 /\ Forall (fun l => Pk (l_body l) (l_del l)) (d_leaves d1) /\ curP d1 /\
    inv s1 d1 /\ inv s2 d2.
  Definition RelS (d1 d2 : doc) : Prop := Rel d1 d2 /\ d_cur d1 <> None.

  Lemma key_eq : forall a b : leaf, key a = key b -> l_rev a = l_rev b /\ l_body a = l_body b /\ l_del a = l_del b.
  Proof. intros a b H. unfold key in H. inversion H. auto. Qed.

  Lemma filter_keys : forall (p : leaf -> bool) l1 l2,
    (forall a b, key a = key b -> p a = p b) -> map key l1 = map key l2 ->
    map key (filter p l1) = map key (filter p l2).
  Proof.
    intros p l1. induction l1 as [|a l1 IH]; intros [|b l2] Hp H; cbn in *; try discriminate; [reflexivity|].
    pose proof (f_equal (hd (key a)) H) as Hk. pose proof (f_equal (@tl _) H) as Hr. cbn [hd tl] in Hk, Hr.
    rewrite (Hp a b Hk). destruct (p b); cbn; [rewrite Hk; f_equal|]; apply IH; assumption.
  Qed.

  Lemma add_leaf_keys : forall (l1 l2 : list leaf) w c1 c2, map key l1 = map key l2 ->
    map key (add_leaf l1 w c1) = map key (add_leaf l2 w c2).
  Proof.
    intros l1 l2 w c1 c2 H. unfold add_leaf. rewrite !map_app. cbn. f_equal.
    apply filter_keys; [|exact H].
    intros a b Hk. apply key_eq in Hk. destruct Hk as [-> _]. reflexivity.
  Qed.

  Lemma norm_keys : forall c (l1 l2 : list leaf), map key l1 = map key l2 ->
    map key (norm_leaves empty c l1) = map key (norm_leaves empty c l2).
  Proof.
    intros c l1. unfold norm_leaves. induction l1 as [|a l1 IH]; intros [|b l2] H; cbn [map] in *; try discriminate; [reflexivity|].
    pose proof (f_equal (hd (key a)) H) as Hk. pose proof (f_equal (@tl _) H) as Hr. cbn [hd tl] in Hk, Hr.
    rewrite (IH l2 Hr). f_equal. apply key_eq in Hk. destruct Hk as [H1 [H2 H3]]. rewrite H1, H3.
    destruct (rev_eqb (l_rev b) c && l_del b); unfold key; cbn; congruence.
  Qed.

  Lemma norm_P : forall c (l : list leaf), Pk empty true -> Forall (fun l => Pk (l_body l) (l_del l)) l ->
    Forall (fun l => Pk (l_body l) (l_del l)) (norm_leaves empty c l).
  Proof.
    intros c l He H. unfold norm_leaves. rewrite Forall_forall in *. intros x Hx. apply in_map_iff in Hx.
    destruct Hx as [y [<- Hy]]. destruct (rev_eqb (l_rev y) c && l_del y); cbn; [exact He | apply H; exact Hy].
  Qed.

  Lemma better_keys : forall a a' b b' : leaf, key a = key a' -> key b = key b' -> better a b = better a' b'.
  Proof.
    intros a a' b b' Ha Hb. apply key_eq in Ha, Hb. destruct Ha as [Ha1 [_ Ha2]]. destruct Hb as [Hb1 [_ Hb2]].
    unfold better. rewrite Ha1, Ha2, Hb1, Hb2. reflexivity.
  Qed.

  Lemma winner_keys : forall (l1 l2 : list leaf), map key l1 = map key l2 ->
    option_map key (winner l1) = option_map key (winner l2).
  Proof.
    intros l1. induction l1 as [|a l1 IH]; intros [|b l2] H; cbn in *; try discriminate; [reflexivity|].
    pose proof (f_equal (hd (key a)) H) as Hk. pose proof (f_equal (@tl _) H) as Hr. cbn [hd tl] in Hk, Hr.
    specialize (IH l2 Hr).
    destruct (winner l1) as [w1|], (winner l2) as [w2|]; cbn in IH; try discriminate.
    - assert (Hw : key w1 = key w2) by congruence. rewrite (better_keys a b w1 w2 Hk Hw). destruct (better b w2); cbn; congruence.
    - cbn. congruence.
  Qed.

  Lemma winner_in : forall (l : list leaf) w, winner l = Some w -> In w l.
  Proof.
    induction l as [|a l IH]; cbn; intros w H; [discriminate|].
    destruct (winner l) as [w0|].
    - destruct (better a w0); inversion H; subst; [left; reflexivity | right; apply IH; reflexivity].
    - inversion H. left. reflexivity.
  Qed.

  Lemma add_leaf_P : forall (l : list leaf) w c, Forall (fun l => Pk (l_body l) (l_del l)) l -> Pk (w_body w) (w_del w) ->
    Forall (fun l => Pk (l_body l) (l_del l)) (add_leaf l w c).
  Proof.
    intros l w c Hl Hw. unfold add_leaf. apply Forall_app. split.
    - rewrite Forall_forall in *. intros x Hx. apply filter_In in Hx. apply Hl. tauto.
    - constructor; [exact Hw | constructor].
  Qed.

  Lemma accepted_ok : forall v, accepted v = true -> v = Ok (vchans v) (vaccess v) (vroles v).
  Proof. intros [c a r|r]; cbn; [reflexivity | discriminate]. Qed.

  Lemma rroles_accepted : forall fx v, accepted v = true -> rroles fx v = vroles v.
  Proof. intros fx [c a r|r]; cbn; [reflexivity | discriminate]. Qed.

  (* one write, same revision, two functions *)
  Hypothesis Pk_empty : Pk empty true.

  Lemma put_doc_rel : forall d1 d2 w, Rel d1 d2 -> Pk (w_body w) (w_del w) ->
    match put_doc empty s1 d1 w, put_doc empty s2 d2 w with
    | Some a, Some b => RelS a b
    | None, None => True
    | _, _ => False
    end.
  Proof.
    intros d1 d2 w [Hid [Hk [Hkn [Hc [HP [HcP [Hi1 Hi2]]]]]]] Hw.
    unfold put_doc. rewrite <- Hkn. destruct (mem rev_eqb (w_rev w) (d_known d1)); [exact I|].
    destruct Hw as [Ha1 [Ha2 HX]].
    rewrite (accepted_ok _ Ha1), (accepted_ok _ Ha2).
    pose proof (winner_keys _ _ (add_leaf_keys (d_leaves d1) (d_leaves d2) w [] [] Hk)) as Hw.
    destruct (winner (add_leaf (d_leaves d1) w [])) as [w1|] eqn:E1,
             (winner (add_leaf (d_leaves d2) w [])) as [w2|] eqn:E2; cbn in Hw; try discriminate; [|exact I].
    assert (Hkw : key w1 = key w2) by congruence. apply key_eq in Hkw. destruct Hkw as [Hr [Hb Hd]].
    assert (HPw : Pk (l_body w1) (l_del w1)).
    { pose proof (add_leaf_P (d_leaves d1) w [] HP (conj Ha1 (conj Ha2 HX))) as HF.
      rewrite Forall_forall in HF. apply HF. apply winner_in. exact E1. }
    unfold cur_rev. rewrite <- Hc, <- Hr.
    set (isw := rev_eqb (l_rev w1) (w_rev w)).
    destruct (opt_rev_eqb (match d_cur d1 with Some (r, _, _) => Some r | None => None end) (Some (l_rev w1))) eqn:Ecur.
    - (* current revision unchanged *)
      split; [|destruct (d_cur d1) as [[[? ?] ?]|]; [discriminate | cbn in Ecur; discriminate]].
      unfold Rel. cbn. repeat (split; [first [assumption | reflexivity | apply norm_keys; apply add_leaf_keys; assumption]|]).
      split; [apply norm_P; [exact Pk_empty|]; apply add_leaf_P; [assumption | repeat split; assumption]|].
      split; [exact HcP|]. unfold inv in *. cbn. rewrite <- Hc in Hi2. split; assumption.
    - destruct isw eqn:Eisw.
      + (* the new revision is current *)
        split; [|cbn; discriminate].
        unfold Rel. cbn. repeat (split; [first [assumption | reflexivity | apply norm_keys; apply add_leaf_keys; assumption]|]).
        split; [apply norm_P; [exact Pk_empty|]; apply add_leaf_P; [assumption | repeat split; assumption]|].
        split; [unfold curP; cbn; repeat split; assumption|].
        split; unfold inv; cbn; auto.
      + (* another leaf became current: the function is run on it again *)
        destruct HPw as [Hp1 [Hp2 HpX]].
        rewrite (accepted_ok _ Hp1). rewrite <- Hb, <- Hd. rewrite (accepted_ok _ Hp2).
        split; [|cbn; discriminate].
        unfold Rel. cbn. repeat (split; [first [assumption | reflexivity | apply norm_keys; apply add_leaf_keys; assumption]|]).
        split; [apply norm_P; [exact Pk_empty|]; apply add_leaf_P; [assumption | repeat split; assumption]|].
        split; [unfold curP; cbn; repeat split; assumption|].
        split; unfold inv; cbn; auto.
  Qed.

  Lemma Rel_empty : forall id, Rel (empty_doc id) (empty_doc id).
  Proof. intros id. unfold Rel, empty_doc, curP, inv. cbn. repeat split; constructor. Qed.

  Lemma put_rel : forall db1 db2 w, Forall2 RelS db1 db2 -> Pk (w_body w) (w_del w) ->
    Forall2 RelS (put empty s1 db1 w) (put empty s2 db2 w).
  Proof.
    intros db1 db2 w F Hw. induction F as [|d1 d2 l1 l2 [HR Hne] F IH]; cbn [put].
    - pose proof (put_doc_rel _ _ w (Rel_empty (w_doc w)) Hw) as H.
      destruct (put_doc empty s1 (empty_doc (w_doc w)) w) as [a|], (put_doc empty s2 (empty_doc (w_doc w)) w) as [b|]; try contradiction.
      + constructor; [exact H | constructor].
      + constructor.
    - destruct HR as [Hid HR']. rewrite <- Hid. destruct (d_id d1 =? w_doc w).
      + pose proof (put_doc_rel d1 d2 w (conj Hid HR') Hw) as H.
        destruct (put_doc empty s1 d1 w) as [a|], (put_doc empty s2 d2 w) as [b|]; try contradiction.
        * constructor; [exact H | exact F].
        * constructor; [split; [exact (conj Hid HR') | exact Hne] | exact F].
      + constructor; [split; [exact (conj Hid HR') | exact Hne] | exact IH].
  Qed.

  Lemma replay_rel : forall ws db1 db2, Forall2 RelS db1 db2 ->
    Forall (fun w => Pk (w_body w) (w_del w)) ws ->
    Forall2 RelS (replay empty s1 db1 ws) (replay empty s2 db2 ws).
  Proof.
    induction ws as [|w ws IH]; intros db1 db2 F H; cbn; [exact F|].
    inversion H; subst. apply IH; [apply put_rel; assumption | assumption].
  Qed.

  (* ---------------------------------------------------------------- composed with a resync pass under s2 *)
  (* relation between a document after resync and the same document in the fresh database *)
  Definition Fin (a f : doc) : Prop :=
    d_id a = d_id f /\ d_cur a = d_cur f /\ map key (d_leaves a) = map key (d_leaves f) /\ d_cur a <> None /\
    (tombstoned a = false ->
       seteq (d_chans a) (d_chans f) /\ seteq (d_access a) (d_access f) /\ seteq (d_roles a) (d_roles f)) /\
    (tombstoned a = true ->
       exists r b, d_cur a = Some (r, b, true) /\ X b true /\
         d_chans a = vchans (s1 b) /\ d_access a = vaccess (s1 b) /\ d_roles a = vroles (s1 b) /\
         d_chans f = vchans (s2 b) /\ d_access f = vaccess (s2 b) /\ d_roles f = vroles (s2 b)).

  Lemma Fin_of : forall fixed regen s d1 d2, RelS d1 d2 -> Fin (after s2 fixed regen s d1) d2.
  Proof.
    intros fixed regen s d1 d2 [[Hid [Hk [Hkn [Hc [HP [HcP [Hi1 Hi2]]]]]]] Hne].
    unfold Fin. rewrite after_id, after_cur, after_keys.
    split; [exact Hid|]. split; [exact Hc|]. split; [exact Hk|]. split; [exact Hne|].
    pose proof (after_state_ok body s2 fixed regen s d1) as Hs. unfold state_ok in Hs. rewrite after_cur in Hs.
    unfold tombstoned. rewrite after_cur.
    unfold inv in Hi1, Hi2. unfold curP in HcP. rewrite <- Hc in Hi2.
    destruct (d_cur d1) as [[[r b] del]|] eqn:Ecur; [|contradiction].
    split.
    - intros ->. destruct Hs as [H1 [H2 H3]]. destruct Hi2 as [-> [-> ->]].
      destruct HcP as [_ [Hacc _]]. rewrite (rroles_accepted fixed _ Hacc) in H3. auto.
    - intros ->. exists r, b. split; [reflexivity|]. destruct HcP as [_ [_ HX]]. split; [exact HX|].
      rewrite after_dead; [|unfold live_b; rewrite Ecur; reflexivity].
      destruct Hi1 as [-> [-> ->]]. destruct Hi2 as [-> [-> ->]]. auto 10.
  Qed.

  Lemma resync_vs_fresh : forall ws fixed regen alloc,
    Forall (fun w => Pk (w_body w) (w_del w)) ws ->
    Forall2 Fin (fst (resync_db s2 fixed regen alloc (replay empty s1 [] ws))) (replay empty s2 [] ws).
  Proof.
    intros ws fixed regen alloc H.
    pose proof (replay_rel ws [] [] (Forall2_nil _) H) as F.
    pose proof (resync_db_after body s2 fixed regen (replay empty s1 [] ws) alloc) as G.
    pose proof (Forall2_compose _ _ _ _ _ G F) as C.
    eapply Forall2_impl; [|exact C]. intros a f [d [[s ->] HR]]. apply Fin_of. exact HR.
  Qed.
End Replay.

Arguments Pk {body}. Arguments Fin {body}. Arguments Rel {body}. Arguments RelS {body}. Arguments inv {body}.
