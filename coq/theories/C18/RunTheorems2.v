(* C18: more theorems about the run model: collections not selected are untouched, every
   invalidateAllPrincipals call covers every collection, the exact characterisation of the documents that are
   stale after a completed run, when principals are guaranteed to have been invalidated, regenerated sequences
   across interruptions. *)
From Coq Require Import Sorting.Sorted.
From SG Require Import Base.Prelude C18.Resync C18.SetLemmas C18.ResyncProofs C18.Concurrent C18.Run C18.RunLemmas C18.RunInv C18.RunTheorems.
Open Scope N_scope.

Section Theorems2.
  Variable body : Type.
  Variable empty : body.
  Variable col_of : N -> N.
  Variable syncs : N -> body -> verdict.
  Variable allcols : list N.
  Variable fixed : switches.
  Notation doc := (doc body).
  Notation wop := (wop body).
  Notation rst := (rst body).
  Notation rop := (rop body).
  Notation step := (rstep empty col_of syncs allcols fixed).
  Notation run := (rrun empty col_of syncs allcols fixed).
  Notation fn := (Run.fn col_of syncs).
  Notation col := (fun d : doc => col_of (d_id d)).
  Notation BInv := (RunLemmas.BInv col_of).
  Notation ok := (RunTheorems.ok body col_of syncs fixed).
  Notation safe := (RunTheorems.safe body col_of syncs fixed).
  Notation new_full := (RunTheorems.new_full body col_of syncs fixed).
  Notation top_eq := (RunTheorems.top_eq body).
  Notation nowrite := (RunTheorems.nowrite body).
  Notation same_shape := (RunTheorems.same_shape body).

  Lemma run_snoc : forall ops st op, run st (ops ++ [op]) = step (run st ops) op.
  Proof. intros. unfold rrun. rewrite fold_left_app. reflexivity. Qed.

  (* ================================================================ (2) collections that are not selected *)
  Lemma sel_step : forall st op x, In x (r_sel st) -> In x (r_sel (step st op)).
  Proof.
    intros st op x H. destruct op as [w|reset regen cols|c s| |ck ch|pseqs|u]; cbn [rstep].
    - exact H.
    - unfold do_start. destruct (r_state st); try exact H;
        (destruct (negb (subset N.eqb (if null cols then allcols else cols) allcols)); [exact H|]; cbn; apply in_or_app; left; exact H).
    - unfold do_visit. destruct (r_state st); try exact H. destruct (qget (r_queue st) c); [exact H|]. destruct (e_skip e); exact H.
    - unfold do_stop. destruct (r_state st); exact H.
    - unfold do_crash. destruct (r_state st); exact H.
    - unfold do_finish. destruct (r_state st); try exact H. destruct (forallb (fun p => null (snd p)) (r_queue st)); exact H.
    - exact H.
  Qed.

  Lemma sel_run : forall ops st x, In x (r_sel st) -> In x (r_sel (run st ops)).
  Proof. induction ops as [|op ops IH]; intros st x H; cbn; [exact H | apply IH, sel_step, H]. Qed.

  Lemma filter_put_other : forall f (db : list doc) w c, col_of (w_doc w) <> c ->
    filter (fun d => col d =? c) (put empty f db w) = filter (fun d => col d =? c) db.
  Proof.
    intros f db w c Hc. assert (Hf : forall d, d_id d = w_doc w -> (col d =? c) = false).
    { intros d Hd. rewrite Hd. apply N.eqb_neq. exact Hc. }
    induction db as [|d db IH]; cbn [put].
    - destruct (put_doc empty f (empty_doc (w_doc w)) w) as [d'|] eqn:E; [|reflexivity].
      cbn. rewrite (Hf d'); [reflexivity|]. rewrite (put_doc_id body empty f _ w d' E). reflexivity.
    - destruct (d_id d =? w_doc w) eqn:Eid.
      + apply N.eqb_eq in Eid. destruct (put_doc empty f d w) as [d'|] eqn:E; [|reflexivity].
        cbn. rewrite (Hf d Eid), (Hf d'); [reflexivity|]. rewrite (put_doc_id body empty f d w d' E). exact Eid.
      + cbn. rewrite IH. reflexivity.
  Qed.

  Lemma unsel_step : forall st op c, BInv st -> ~ In c (r_sel (step st op)) ->
    (forall w, op = OWrite w -> col_of (w_doc w) <> c) ->
    filter (fun d => col d =? c) (r_docs (step st op)) = filter (fun d => col d =? c) (r_docs st).
  Proof.
    intros st op c B Hn Hw. destruct op as [w|reset regen cols|c' s| |ck ch|pseqs|u]; cbn [rstep] in *.
    - unfold do_write. cbn. apply filter_put_other. apply Hw. reflexivity.
    - unfold do_start. destruct (r_state st); try reflexivity;
        (destruct (negb (subset N.eqb (if null cols then allcols else cols) allcols)); reflexivity).
    - unfold do_visit in *. destruct (r_state st) eqn:Es; try reflexivity.
      destruct (qget (r_queue st) c') as [|e q'] eqn:Eq; [reflexivity|]. destruct (e_skip e); [reflexivity|]. cbn in *.
      destruct (b_queue _ _ st B c' e) as [H1 H2]; [rewrite Eq; left; reflexivity|].
      assert (Hne : c' <> c). { intros ->. apply Hn. apply (b_cols _ _ st B Es). exact H2. }
      unfold visit_docs. apply filter_map_same.
      + intros d. destruct (d_id d =? e_id e); [rewrite after_id|]; reflexivity.
      + intros d Hd. destruct (d_id d =? e_id e) eqn:E; [|reflexivity]. apply N.eqb_eq in E. apply N.eqb_eq in Hd.
        exfalso. apply Hne. rewrite <- H1, <- E. exact Hd.
    - unfold do_stop. destruct (r_state st); reflexivity.
    - unfold do_crash. destruct (r_state st); reflexivity.
    - unfold do_finish. destruct (r_state st); try reflexivity. destruct (forallb (fun p => null (snd p)) (r_queue st)); reflexivity.
    - reflexivity.
  Qed.

  Theorem only_selected_collections_change : forall ops st0 c, BInv st0 ->
    ~ In c (r_sel (run st0 ops)) -> (forall w, In (OWrite w) ops -> col_of (w_doc w) <> c) ->
    filter (fun d => col d =? c) (r_docs (run st0 ops)) = filter (fun d => col d =? c) (r_docs st0).
  Proof.
    induction ops as [|op ops IH]; intros st0 c B Hn Hw; [reflexivity|].
    change (run st0 (op :: ops)) with (run (step st0 op) ops) in *.
    rewrite IH; [|apply binv_step; exact B | exact Hn | intros w Hin; apply Hw; right; exact Hin].
    apply unsel_step; [exact B| |intros w ->; apply Hw; left; reflexivity].
    intros Hin. apply Hn. apply sel_run. exact Hin.
  Qed.

  (* every call of invalidateAllPrincipals names ALL collections of the database (a superset of those resynced) *)
  Lemma log_step : forall st op, Forall (eq allcols) (r_log st) -> Forall (eq allcols) (r_log (step st op)).
  Proof.
    intros st op H. destruct op as [w|reset regen cols|c s| |ck ch|pseqs|u]; cbn [rstep].
    - exact H.
    - unfold do_start. destruct (r_state st); try exact H;
        (destruct (negb (subset N.eqb (if null cols then allcols else cols) allcols)); exact H).
    - unfold do_visit. destruct (r_state st); try exact H. destruct (qget (r_queue st) c); [exact H|]. destruct (e_skip e); exact H.
    - unfold do_stop. destruct (r_state st); exact H.
    - unfold do_crash. destruct (r_state st); exact H.
    - unfold do_finish. destruct (r_state st); try exact H. destruct (forallb (fun p => null (snd p)) (r_queue st)); [|exact H].
      cbn. match goal with |- context [if ?c then _ ++ _ else _] => destruct c end; [|exact H]. apply Forall_app. split; [exact H | constructor; [reflexivity | constructor]].
    - exact H.
  Qed.

  Theorem invalidation_covers_all_collections : forall ops st0, r_log st0 = [] -> Forall (eq allcols) (r_log (run st0 ops)).
  Proof.
    intros ops st0 H0. assert (G : forall ops st, Forall (eq allcols) (r_log st) -> Forall (eq allcols) (r_log (run st ops))).
    { induction ops0 as [|op ops0 IH]; intros st H; cbn; [exact H | apply IH, log_step, H]. }
    apply G. rewrite H0. constructor.
  Qed.

  (* the end of a run: principals are invalidated exactly when the run's counter is positive *)
  Theorem finish_invalidates : forall (st : rst) pseqs, r_state st = MRunning -> forallb (fun p => null (snd p)) (r_queue st) = true ->
    let st' := do_finish allcols fixed st pseqs in
    r_state st' = MCompleted /\
    ((sw_inval fixed = true /\ 0 < r_clock st) \/ 0 < r_changed st ->
       r_ps st' = invalidate_all (r_ps st) /\ r_log st' = r_log st ++ [allcols] /\ r_dirty st' = false) /\
    (sw_inval fixed = false -> r_changed st = 0 -> r_ps st' = r_ps st /\ r_log st' = r_log st /\ r_dirty st' = r_dirty st).
  Proof.
    intros st pseqs Hs Hq. unfold do_finish. rewrite Hs, Hq. cbn. split; [reflexivity|]. split.
    - intros [[H1 H2]|H].
      + apply N.ltb_lt in H2. rewrite H1, H2. cbn. auto.
      + apply N.ltb_lt in H. rewrite H, !orb_true_r. auto.
    - intros H1 H2; rewrite H1, H2; cbn; auto.
  Qed.

  (* ================================================================ (3) the documents that are stale after a completed run *)
  Definition fullok (d : doc) : Prop :=
    match d_cur d with
    | Some (_, b, _) => seteq (d_chans d) (vchans (fn (d_id d) b)) /\ seteq (d_access d) (vaccess (fn (d_id d) b)) /\
                        seteq (d_roles d) (rroles fixed (fn (d_id d) b))
    | None => True
    end.
  Definition stale (d : doc) : Prop := ~ fullok d.

  Lemma new_full_fullok : forall d, new_full d -> fullok d.
  Proof.
    intros d H. unfold RunTheorems.new_full, fullok in *. destruct (d_cur d) as [[[r b] del]|]; [|exact I].
    destruct H as [-> [-> ->]]. repeat split; apply seteq_refl.
  Qed.

  Lemma fullok_top : forall d d0, top_eq d d0 -> (fullok d <-> fullok d0).
  Proof. intros d d0 [H1 [H2 [H3 [H4 H5]]]]. unfold fullok. rewrite H1, H2, H3, H4, H5. tauto. Qed.

  Theorem stale_only_untouched_tombstones : forall ops st0, BInv st0 -> r_state st0 = MNone ->
    let st := run st0 ops in
    r_state st = MCompleted ->
    forall d, In d (r_docs st) -> In (col d) (r_cols st) -> stale d ->
    tombstoned d = true /\ exists d0, In d0 (r_docs st0) /\ top_eq d d0 /\ stale d0.
  Proof.
    intros ops st0 B Hs st Hc d Hd Hcol Hst.
    pose proof (complete_after_success body empty col_of syncs allcols fixed ops st0 B Hs Hc d Hd Hcol) as Hok.
    assert (Ht : tombstoned d = true).
    { unfold tombstoned. unfold stale, fullok in Hst. unfold state_ok in Hok.
      destruct (d_cur d) as [[[r b] del]|]; [|exfalso; apply Hst; exact I].
      destruct del; [reflexivity|]. exfalso. apply Hst. exact Hok. }
    split; [exact Ht|].
    destruct (interrupted_run_is_safe body empty col_of syncs allcols fixed ops st0 d Hd) as [[d0 [Hd0 Htop]]|Hn].
    - exists d0. split; [exact Hd0|]. split; [exact Htop|]. intros Hf. apply Hst. apply (fullok_top d d0 Htop). exact Hf.
    - exfalso. apply Hst. apply new_full_fullok. exact Hn.
  Qed.

  Theorem stale_after_resync_iff_tombstone_grant : forall ops st0, BInv st0 -> r_state st0 = MNone -> Forall nowrite ops ->
    let st := run st0 ops in
    r_state st = MCompleted ->
    Forall2 (fun d0 d => In (col d0) (r_cols st) -> (stale d <-> tombstoned d0 = true /\ stale d0)) (r_docs st0) (r_docs st).
  Proof.
    intros ops st0 B Hs F st Hc.
    pose proof (shape_run body empty col_of syncs allcols fixed ops st0 F) as Hsh. fold st in Hsh.
    pose proof (Forall2_and_r _ (fun d => In d (r_docs st)) _ _ Hsh (fun b H => H)) as H2.
    eapply Forall2_impl; [|exact H2]. cbn. intros d0 d [[Hid [Hcur Hdead]] Hin] Hcol.
    assert (Hl : tombstoned d0 = true -> d = d0).
    { intros Ht. apply Hdead. unfold live_b, tombstoned in *. destruct (d_cur d0) as [[[r b] del]|]; [subst del|]; reflexivity. }
    split.
    - intros Hst. destruct (stale_only_untouched_tombstones ops st0 B Hs Hc d Hin ltac:(cbn beta in *; rewrite Hid; exact Hcol) Hst) as [Ht _].
      assert (Ht0 : tombstoned d0 = true) by (unfold tombstoned in *; rewrite <- Hcur; exact Ht).
      split; [exact Ht0|]. rewrite <- (Hl Ht0). exact Hst.
    - intros [Ht0 Hst0]. rewrite (Hl Ht0). exact Hst0.
  Qed.

  (* ================================================================ when the principals are guaranteed to be invalidated *)
  (* no `reset`, the same collection set every time, no crash *)
  Definition gentle (cs : list N) (op : rop) : Prop :=
    match op with
    | OStart reset _ cols => reset = false /\ (if null cols then allcols else cols) = cs
    | OCrash _ _ => False
    | _ => True
    end.

  Definition DInv (cs : list N) (st : rst) : Prop :=
    (r_state st <> MNone -> r_cols st = cs) /\
    match r_state st with
    | MRunning => r_dirty st = true -> 0 < r_changed st
    | MStopped | MCrashed => r_dirty st = true -> 0 < r_pchanged st
    | _ => r_dirty st = false
    end.

  Lemma dinv_step : forall cs st op, gentle cs op -> DInv cs st -> DInv cs (step st op).
  Proof.
    intros cs st op Hop D. pose proof D as [D1 D2].
    destruct op as [w|reset regen cols|c s| |ck ch|pseqs|u]; cbn [rstep].
    - unfold do_write, DInv in *. cbn. exact D.
    - destruct Hop as [-> Hcs]. unfold do_start. rewrite Hcs.
      destruct (r_state st) eqn:Es; try exact D;
        (destruct (negb (subset N.eqb cs allcols)); [exact D|]; unfold DInv; cbn; split; [reflexivity|]).
      + intros H. rewrite D2 in H. discriminate.
      + rewrite D1 by discriminate. rewrite (set_eqb_refl N.eqb Neqb_spec). cbn. exact D2.
      + rewrite D1 by discriminate. rewrite (set_eqb_refl N.eqb Neqb_spec). cbn. exact D2.
      + intros H. rewrite D2 in H. discriminate.
    - unfold do_visit. destruct (r_state st) eqn:Es; try exact D.
      destruct (qget (r_queue st) c) as [|e q']; [exact D|].
      destruct (e_skip e); unfold DInv; cbn; (split; [intros _; apply D1; discriminate|]); [exact D2|].
      destruct (visit_wrote col_of syncs fixed (r_regen st) s (e_id e) (r_docs st)); [intros _; lia|].
      rewrite orb_false_r. exact D2.
    - unfold do_stop. destruct (r_state st) eqn:Es; try exact D. unfold DInv. cbn. split; [intros _; apply D1; discriminate | exact D2].
    - destruct Hop.
    - unfold do_finish. destruct (r_state st) eqn:Es; try exact D.
      destruct (forallb (fun p => null (snd p)) (r_queue st)); [|exact D].
      unfold DInv. cbn. split; [intros _; apply D1; discriminate|].
      match goal with |- (if ?c then _ else _) = _ => destruct c eqn:E end; [reflexivity|].
      destruct (r_dirty st); [|reflexivity]. specialize (D2 eq_refl). apply N.ltb_lt in D2. rewrite D2, !orb_true_r in E. discriminate.
    - unfold do_load, DInv in *. cbn. exact D.
  Qed.

  (* a run that is only ever stopped and resumed (never reset, never crashed, same collections) has invalidated
     all principals after its last resync write by the time it reports completed *)
  Theorem single_id_run_invalidates : forall cs ops st0, r_state st0 = MNone -> r_dirty st0 = false ->
    Forall (gentle cs) ops -> r_state (run st0 ops) = MCompleted -> r_dirty (run st0 ops) = false.
  Proof.
    intros cs ops st0 Hs Hd F Hc.
    assert (G : forall ops st, Forall (gentle cs) ops -> DInv cs st -> DInv cs (run st ops)).
    { induction ops0 as [|op ops0 IH]; intros st F0 D; cbn; [exact D|]. inversion F0; subst. apply IH; [assumption | apply dinv_step; assumption]. }
    assert (D0 : DInv cs st0). { unfold DInv. rewrite Hs. split; [intros H; exfalso; apply H; reflexivity | exact Hd]. }
    destruct (G ops st0 F D0) as [_ D]. rewrite Hc in D. exact D.
  Qed.

  (* ================================================================ (4) regenerated sequences across interruptions *)
  Lemma after_seq : forall f rg s (d : doc),
    after f fixed rg s d = d \/
    (is_some (resync_doc f fixed rg s d) = true /\ d_seq (after f fixed rg s d) = if rg then s else d_seq d).
  Proof.
    intros f rg s d. unfold after. destruct (resync_doc f fixed rg s d) as [d'|] eqn:E; [right | left; reflexivity].
    split; [reflexivity|]. apply resync_doc_some in E. destruct E as [r [b [_ ->]]]. reflexivity.
  Qed.

  Lemma alloc_step : forall st op, exists l, r_alloc (step st op) = r_alloc st ++ l.
  Proof.
    intros st op. destruct op as [w|reset regen cols|c s| |ck ch|pseqs|u]; cbn [rstep].
    - exists []. unfold do_write. cbn. rewrite app_nil_r. reflexivity.
    - unfold do_start. destruct (r_state st); try (exists []; rewrite app_nil_r; reflexivity);
        (destruct (negb (subset N.eqb (if null cols then allcols else cols) allcols)); exists []; cbn; rewrite app_nil_r; reflexivity).
    - unfold do_visit. destruct (r_state st); try (exists []; rewrite app_nil_r; reflexivity).
      destruct (qget (r_queue st) c); [exists []; rewrite app_nil_r; reflexivity|].
      destruct (e_skip e); [exists []; cbn; rewrite app_nil_r; reflexivity|]. cbn.
      destruct (visit_wrote col_of syncs fixed (r_regen st) s (e_id e) (r_docs st) && r_regen st); [exists [s] | exists []; rewrite app_nil_r]; reflexivity.
    - unfold do_stop. destruct (r_state st); exists []; cbn; rewrite app_nil_r; reflexivity.
    - unfold do_crash. destruct (r_state st); exists []; cbn; rewrite app_nil_r; reflexivity.
    - unfold do_finish. destruct (r_state st); try (exists []; rewrite app_nil_r; reflexivity).
      destruct (forallb (fun p => null (snd p)) (r_queue st)); [|exists []; rewrite app_nil_r; reflexivity]. cbn.
      destruct (r_regen st && r_hasall st); [exists pseqs | exists []; rewrite app_nil_r]; reflexivity.
    - exists []. unfold do_load. cbn. rewrite app_nil_r. reflexivity.
  Qed.

  Definition NInv (hi0 : N) (st : rst) : Prop :=
    (forall d, In d (r_docs st) -> d_seq d <= hi0 \/ In (d_seq d) (r_alloc st)) /\
    (forall d1 d2, In d1 (r_docs st) -> In d2 (r_docs st) -> d_id d1 <> d_id d2 -> hi0 < d_seq d1 -> d_seq d1 <> d_seq d2) /\
    (forall s, In s (r_pseq st) -> s <= hi0 \/ In s (r_alloc st)) /\
    (forall d s, In d (r_docs st) -> In s (r_pseq st) -> hi0 < s -> d_seq d <> s) /\
    NoDup (filter (fun s => hi0 <? s) (r_pseq st)) /\
    (r_state st = MCompleted -> r_regen st = true -> r_hasall st = true -> forall s, In s (r_pseq st) -> In s (r_alloc st)).

  Lemma NoDup_app_l {A} (a b : list A) : NoDup (a ++ b) -> NoDup a.
  Proof. induction a as [|x a IH]; cbn; intros H; [constructor|]. inversion H; subst. constructor; [intros Hin; apply H2; apply in_or_app; left; exact Hin | apply IH; assumption]. Qed.
  Lemma NoDup_app_r {A} (a b : list A) : NoDup (a ++ b) -> NoDup b.
  Proof. induction a as [|x a IH]; cbn; intros H; [exact H|]. inversion H; subst. apply IH. assumption. Qed.
  Lemma NoDup_app_disj {A} (a b : list A) x : NoDup (a ++ b) -> In x a -> In x b -> False.
  Proof.
    induction a as [|y a IH]; cbn; intros H Ha Hb; [destruct Ha|]. inversion H; subst. destruct Ha as [->|Ha].
    - apply H2. apply in_or_app. right. exact Hb.
    - apply IH; assumption.
  Qed.
  Lemma NoDup_filter' {A} (f : A -> bool) (l : list A) : NoDup l -> NoDup (filter f l).
  Proof.
    induction l as [|a l IH]; cbn; intros H; [constructor|]. inversion H; subst. destruct (f a); [|apply IH; assumption].
    constructor; [intros Hin; apply filter_In in Hin; apply H2; apply Hin | apply IH; assumption].
  Qed.

  Lemma ninv_step : forall hi0 st op, nowrite op -> NInv hi0 st ->
    NoDup (r_alloc (step st op)) -> Forall (fun s => hi0 < s) (r_alloc (step st op)) -> NInv hi0 (step st op).
  Proof.
    intros hi0 st op Hop NI Hnd Hhi. pose proof NI as [N1 [N2 [N3 [N4 [N5 N6]]]]].
    destruct op as [w|reset regen cols|c s| |ck ch|pseqs|u]; cbn [rstep] in *.
    - destruct Hop.
    - unfold do_start in *. destruct (r_state st) eqn:Es; try exact NI;
        (destruct (negb (subset N.eqb (if null cols then allcols else cols) allcols)); [exact NI|];
         unfold NInv; cbn; repeat (split; [assumption|]); discriminate).
    - unfold do_visit in *. destruct (r_state st) eqn:Es; try exact NI.
      destruct (qget (r_queue st) c) as [|e q']; [exact NI|].
      destruct (e_skip e); [unfold NInv; cbn; repeat (split; [assumption|]); discriminate|].
      cbn in Hnd, Hhi. unfold NInv. cbn.
      set (wrt := visit_wrote col_of syncs fixed (r_regen st) s (e_id e) (r_docs st)) in *.
      set (alloc' := if wrt && r_regen st then r_alloc st ++ [s] else r_alloc st) in *.
      assert (Hsub : forall x, In x (r_alloc st) -> In x alloc').
      { intros x Hx. unfold alloc'. destruct (wrt && r_regen st); [apply in_or_app; left|]; exact Hx. }
      (* what a document looks like after the visit *)
      assert (Hd' : forall d', In d' (visit_docs col_of syncs fixed (r_regen st) s (e_id e) (r_docs st)) ->
                exists d, In d (r_docs st) /\ d_id d' = d_id d /\
                  (d_seq d' = d_seq d \/ (d_id d = e_id e /\ d_seq d' = s /\ ~ In s (r_alloc st) /\ hi0 < s /\ In s alloc'))).
      { intros d' Hin. apply visit_docs_in in Hin. destruct Hin as [d [Hd ->]]. exists d. split; [exact Hd|].
        destruct (d_id d =? e_id e) eqn:E; [|split; [reflexivity | left; reflexivity]].
        apply N.eqb_eq in E. split; [apply after_id|].
        destruct (after_seq (fn (e_id e)) (r_regen st) s d) as [-> | [Hw Hs]]; [left; reflexivity|].
        destruct (r_regen st) eqn:Erg; [|left; exact Hs]. right.
        assert (Hwt : wrt = true).
        { unfold wrt, visit_wrote. apply existsb_exists. exists d. split; [exact Hd|]. try rewrite Erg. rewrite Hw.
          apply N.eqb_eq in E. rewrite E. reflexivity. }
        unfold alloc' in *. rewrite Hwt in *. cbn in *.
        split; [exact E|]. split; [exact Hs|]. split.
        - intros Hin. eapply NoDup_app_disj; [exact Hnd | exact Hin | left; reflexivity].
        - split; [|apply in_or_app; right; left; reflexivity].
          rewrite Forall_forall in Hhi. apply Hhi. apply in_or_app. right. left. reflexivity. }
      split; [|split; [|split; [|split; [|split]]]].
      + intros d' Hin. destruct (Hd' d' Hin) as [d [Hd [_ [Hs|[_ [Hs [_ [_ Hin']]]]]]]].
        * rewrite Hs. destruct (N1 d Hd) as [H|H]; [left; exact H | right; apply Hsub; exact H].
        * right. rewrite Hs. exact Hin'.
      + intros d1' d2' H1 H2 Hne Hgt.
        destruct (Hd' d1' H1) as [d1 [Hd1 [Hi1 Hs1]]]. destruct (Hd' d2' H2) as [d2 [Hd2 [Hi2 Hs2]]].
        rewrite Hi1, Hi2 in Hne.
        destruct Hs1 as [Hs1|[He1 [Hs1 [Hn1 [Hg1 _]]]]]; destruct Hs2 as [Hs2|[He2 [Hs2 [Hn2 [Hg2 _]]]]].
        * rewrite Hs1, Hs2. apply N2; try assumption. rewrite <- Hs1. exact Hgt.
        * rewrite Hs1, Hs2. rewrite Hs1 in Hgt. destruct (N1 d1 Hd1) as [H|H]; [lia|]. intros E. rewrite E in H. contradiction.
        * rewrite Hs1, Hs2. destruct (N1 d2 Hd2) as [H|H]; [lia|]. intros E. rewrite <- E in H. contradiction.
        * exfalso. apply Hne. congruence.
      + intros x Hx. destruct (N3 x Hx) as [H|H]; [left; exact H | right; apply Hsub; exact H].
      + intros d' x Hin Hx Hgt. destruct (Hd' d' Hin) as [d [Hd [_ [Hs|[_ [Hs [Hn _]]]]]]].
        * rewrite Hs. apply N4; assumption.
        * rewrite Hs. destruct (N3 x Hx) as [H|H]; [lia|]. intros E. rewrite <- E in H. contradiction.
      + exact N5.
      + discriminate.
    - unfold do_stop in *. destruct (r_state st) eqn:Es; try exact NI. unfold NInv. cbn. repeat (split; [assumption|]). discriminate.
    - unfold do_crash in *. destruct (r_state st) eqn:Es; try exact NI. unfold NInv. cbn. repeat (split; [assumption|]). discriminate.
    - unfold do_finish in *. destruct (r_state st) eqn:Es; try exact NI.
      destruct (forallb (fun p => null (snd p)) (r_queue st)); [|exact NI]. cbn in Hnd, Hhi. unfold NInv. cbn.
      destruct (r_regen st && r_hasall st) eqn:Erh.
      + rewrite Forall_forall in Hhi.
        split; [intros d Hd; destruct (N1 d Hd) as [H|H]; [left; exact H | right; apply in_or_app; left; exact H]|].
        split; [exact N2|].
        split; [intros x Hx; right; apply in_or_app; right; exact Hx|].
        split; [intros d x Hd Hx _; destruct (N1 d Hd) as [H|H];
                [assert (hi0 < x) by (apply Hhi; apply in_or_app; right; exact Hx); lia
                | intros E; rewrite E in H; exact (NoDup_app_disj _ _ x Hnd H Hx)]|].
        split; [apply NoDup_filter'; apply (NoDup_app_r _ _ Hnd)|].
        intros _ _ _ x Hx. apply in_or_app. right. exact Hx.
      + split; [exact N1|]. split; [exact N2|]. split; [exact N3|]. split; [exact N4|]. split; [exact N5|].
        intros _ H1 H2. rewrite H1, H2 in Erh. discriminate.
    - unfold do_load, NInv in *. cbn. exact NI.
  Qed.

  Lemma ninv_run : forall hi0 st0 ops, Forall nowrite ops -> NInv hi0 st0 ->
    NoDup (r_alloc (run st0 ops)) -> Forall (fun s => hi0 < s) (r_alloc (run st0 ops)) -> NInv hi0 (run st0 ops).
  Proof.
    intros hi0 st0 ops. induction ops as [|op ops IH] using rev_ind; intros F NI Hnd Hhi; [exact NI|].
    rewrite run_snoc in *. apply Forall_app in F. destruct F as [F Fop]. inversion Fop; subst.
    destruct (alloc_step (run st0 ops) op) as [l El]. rewrite El in Hnd, Hhi.
    apply ninv_step; [assumption| |rewrite El; exact Hnd | rewrite El; exact Hhi].
    apply IH; [exact F | exact NI | apply (NoDup_app_l _ _ Hnd) | apply Forall_app in Hhi; apply Hhi].
  Qed.

  (* a processed live document carries a sequence above every sequence that existed before the run *)
  Definition reseq (hi0 : N) (d : doc) : Prop := live_b d = true -> hi0 < d_seq d /\ In (d_seq d) (d_recent d).

  Lemma reseq_after : forall hi0 rg s d, rg = true -> (hi0 <? s) = true -> reseq hi0 (after (fn (d_id d)) fixed rg s d).
  Proof.
    intros hi0 rg s d -> Hs Hl. apply N.ltb_lt in Hs.
    assert (Hl0 : live_b d = true) by (unfold live_b in *; rewrite after_cur in Hl; exact Hl).
    destruct (resync_doc_regen_live body (fn (d_id d)) fixed s d Hl0) as [d' [E [H1 [H2 _]]]].
    unfold after. rewrite E. rewrite H1, H2. split; [exact Hs | apply in_or_app; right; left; reflexivity].
  Qed.

  Lemma reseq_none : forall hi0 rg s d, rg = true -> resync_doc (fn (d_id d)) fixed rg s d = None -> reseq hi0 d.
  Proof.
    intros hi0 rg s d -> H Hl. destruct (resync_doc_regen_live body (fn (d_id d)) fixed s d Hl) as [d' [E _]].
    rewrite E in H. discriminate.
  Qed.

  Definition regen_op (hi0 : N) (op : rop) : Prop :=
    match op with
    | OWrite _ => False
    | OStart _ rg _ => rg = true
    | OVisit _ s => hi0 < s
    | _ => True
    end.

  Definition rg_state (s : mstate) : bool := match s with MRunning | MStopped | MCompleted => true | _ => false end.

  Lemma regen_running : forall hi0 ops st, Forall (regen_op hi0) ops -> (rg_state (r_state st) = true -> r_regen st = true) ->
    rg_state (r_state (run st ops)) = true -> r_regen (run st ops) = true.
  Proof.
    intros hi0. induction ops as [|op ops IH]; intros st F H; [exact H|]. inversion F as [|x l Hop F']; subst.
    change (run st (op :: ops)) with (run (step st op) ops).
    apply IH; [exact F'|]. clear IH F F'.
    destruct op as [w|reset regen cols|c s| |ck ch|pseqs|u]; cbn [rstep];
      [destruct Hop | cbn in Hop; subst regen; unfold do_start | unfold do_visit | unfold do_stop | unfold do_crash | unfold do_finish | exact H];
      destruct (r_state st) eqn:Es;
      repeat match goal with
             | |- context [if ?c then _ else _] => destruct c
             | |- context [match ?q with [] => _ | _ :: _ => _ end] => destruct q
             end;
      cbn; intros Hx; first [discriminate Hx | rewrite Es in Hx; discriminate Hx | apply H; reflexivity | reflexivity].
  Qed.

  Theorem regen_run_sequences : forall hi0 ops st0, BInv st0 -> r_state st0 = MNone -> r_alloc st0 = [] ->
    (forall d, In d (r_docs st0) -> d_seq d <= hi0) -> (forall s, In s (r_pseq st0) -> s <= hi0) ->
    Forall (regen_op hi0) ops ->
    let st := run st0 ops in
    NoDup (r_alloc st) -> Forall (fun s => hi0 < s) (r_alloc st) ->       (* the allocator's contract (C07) *)
    r_state st = MCompleted ->
    (forall d, In d (r_docs st) -> In (col d) (r_cols st) -> live_b d = true -> hi0 < d_seq d /\ In (d_seq d) (d_recent d)) /\
    (forall d1 d2, In d1 (r_docs st) -> In d2 (r_docs st) -> d_id d1 <> d_id d2 -> hi0 < d_seq d1 -> d_seq d1 <> d_seq d2) /\
    (r_hasall st = true ->
       (forall s, In s (r_pseq st) -> hi0 < s) /\ NoDup (r_pseq st) /\
       (forall d s, In d (r_docs st) -> In s (r_pseq st) -> d_seq d <> s)).
  Proof.
    intros hi0 ops st0 B Hs Ha Hd0 Hp0 F st Hnd Hhi Hc.
    assert (Fw : Forall nowrite ops).
    { apply Forall_forall. intros op Hop. rewrite Forall_forall in F. specialize (F op Hop). destruct op; cbn in *; auto. }
    assert (NI0 : NInv hi0 st0).
    { unfold NInv. rewrite Ha. split; [intros d Hd; left; apply Hd0; exact Hd|].
      split; [intros d1 d2 H1 _ _ Hgt; specialize (Hd0 d1 H1); lia|].
      split; [intros s Hs'; left; apply Hp0; exact Hs'|].
      split; [intros d s _ Hs' Hgt; specialize (Hp0 s Hs'); lia|].
      split; [|rewrite Hs; discriminate].
      assert (E : filter (fun s => hi0 <? s) (r_pseq st0) = []).
      { induction (r_pseq st0) as [|x l IH]; [reflexivity|]. cbn.
        assert (Hx : (hi0 <? x) = false) by (apply N.ltb_ge; apply Hp0; left; reflexivity). rewrite Hx.
        apply IH. intros s Hs'. apply Hp0. right. exact Hs'. }
      rewrite E. constructor. }
    destruct (ninv_run hi0 st0 ops Fw NI0 Hnd Hhi) as [N1 [N2 [N3 [N4 [N5 N6]]]]]. fold st in N1, N2, N3, N4, N5, N6.
    split; [|split; [exact N2|]].
    - intros d Hd Hcol. revert d Hd Hcol.
      apply (completed_good body empty col_of syncs allcols fixed (reseq hi0) false (fun rg => rg) (fun s => hi0 <? s)
               (fun rg s d H1 H2 => reseq_after hi0 rg s d H1 H2) (fun rg s d H1 H2 => reseq_none hi0 rg s d H1 H2) (fun (H : false = true) => ltac:(discriminate)) ops st0 B Hs); [|exact Hc].
      apply Forall_forall. intros op Hop. rewrite Forall_forall in F. specialize (F op Hop). destruct op; cbn in *; auto; try (apply N.ltb_lt; exact F); try destruct F.
    - intros Hh.
      assert (Hrg : r_regen st = true).
      { apply (regen_running hi0 ops st0 F); [rewrite Hs; discriminate | fold st; rewrite Hc; reflexivity]. }
      assert (Hin : forall s, In s (r_pseq st) -> In s (r_alloc st)) by (apply N6; assumption).
      rewrite Forall_forall in Hhi.
      assert (Hgt : forall s, In s (r_pseq st) -> hi0 < s) by (intros s Hs'; apply Hhi, Hin, Hs').
      split; [exact Hgt|]. split.
      + assert (E : filter (fun s => hi0 <? s) (r_pseq st) = r_pseq st).
        { clear -Hgt. induction (r_pseq st) as [|x l IH]; [reflexivity|]. cbn.
          assert (Hx : (hi0 <? x) = true) by (apply N.ltb_lt; apply Hgt; left; reflexivity). rewrite Hx. f_equal.
          apply IH. intros s Hs'. apply Hgt. right. exact Hs'. }
        rewrite <- E. exact N5.
      + intros d s Hd Hs'. apply N4; [exact Hd | exact Hs' | apply Hgt; exact Hs'].
  Qed.
End Theorems2.
