(* C18: theorems about the interruptible resync run (Run.v): completeness after a run that reports completed
   (any interleaving of writes, stops, crashes, restarts), mixed states never arise, resumed = fresh run,
   non-selected collections untouched, the exact characterisation of stale documents. *)
From Coq Require Import Sorting.Sorted.
From SG Require Import Base.Prelude C18.Resync C18.SetLemmas C18.ResyncProofs C18.Concurrent C18.Run C18.RunLemmas C18.RunInv.
Open Scope N_scope.

Lemma Forall2_map_r {A B} (R : A -> B -> Prop) (g : B -> B) (l : list A) (l' : list B) :
  (forall a b, R a b -> R a (g b)) -> Forall2 R l l' -> Forall2 R l (map g l').
Proof. intros H F. induction F; cbn; constructor; auto. Qed.

Lemma Forall2_and_r {A B} (R : A -> B -> Prop) (P : B -> Prop) (l : list A) (l' : list B) :
  Forall2 R l l' -> (forall b, In b l' -> P b) -> Forall2 (fun a b => R a b /\ P b) l l'.
Proof.
  intros F. induction F as [|a b l l' Hab F IH]; intros H; constructor.
  - split; [exact Hab | apply H; left; reflexivity].
  - apply IH. intros x Hx. apply H. right. exact Hx.
Qed.

Lemma Forall2_and {A B} (R S : A -> B -> Prop) (l : list A) (l' : list B) :
  Forall2 R l l' -> Forall2 S l l' -> Forall2 (fun a b => R a b /\ S a b) l l'.
Proof. intros F. induction F; intros G; inversion G; subst; constructor; auto. Qed.

Lemma Forall2_refl {A} (R : A -> A -> Prop) (l : list A) : (forall a, R a a) -> Forall2 R l l.
Proof. intros H. induction l; constructor; auto. Qed.

Lemma filter_map_same {A} (p : A -> bool) (g : A -> A) (l : list A) :
  (forall d, p (g d) = p d) -> (forall d, p d = true -> g d = d) -> filter p (map g l) = filter p l.
Proof.
  intros H1 H2. induction l as [|a l IH]; cbn; [reflexivity|]. rewrite H1. destruct (p a) eqn:E; [|exact IH].
  rewrite (H2 a E), IH. reflexivity.
Qed.

Section Theorems.
  Variable body : Type.
  Variable empty : body.
  Variable col_of : N -> N.
  Variable syncs : N -> body -> verdict.
  Variable allcols : list N.
  Variable fixed : switches.
  Notation doc := (doc body).
  Notation wop := (wop body).
  Notation rst := (rst body).
  Notation rop := (rop body).
  Notation step := (rstep empty col_of syncs allcols fixed).
  Notation run := (rrun empty col_of syncs allcols fixed).
  Notation fn := (Run.fn col_of syncs).
  Notation col := (fun d : doc => col_of (d_id d)).
  Notation BInv := (RunLemmas.BInv col_of).

  (* ================================================================ (1) completeness, with concurrent writes *)
  Definition ok (d : doc) : Prop := state_ok (fn (d_id d)) fixed d.

  Lemma ok_after : forall rg s d, ok (after (fn (d_id d)) fixed rg s d).
  Proof. intros. unfold ok. rewrite after_id. apply after_state_ok. Qed.

  Lemma ok_none : forall rg s d, resync_doc (fn (d_id d)) fixed rg s d = None -> ok d.
  Proof.
    intros rg s d H. unfold ok, state_ok. destruct (d_cur d) as [[[r b] del]|] eqn:Hc; [|exact I].
    destruct del; [exact I|]. destruct (resync_doc_none _ _ _ _ _ _ _ _ H Hc) as [H1 [H2 [H3 _]]]. auto.
  Qed.

  Lemma ok_put : forall d w d', d_id d = w_doc w -> put_doc empty (fn (w_doc w)) d w = Some d' -> ok d \/ d_cur d = None -> ok d'.
  Proof.
    intros d w d' Hid Hp H. unfold ok in *. destruct (put_doc_state_ok body empty (fn (w_doc w)) fixed d w d' Hp) as [H1 H2].
    - rewrite <- Hid. exact H.
    - rewrite H2, Hid. exact H1.
  Qed.

  Theorem complete_after_success : forall ops st0, BInv st0 -> r_state st0 = MNone ->
    let st := run st0 ops in
    r_state st = MCompleted ->
    forall d, In d (r_docs st) -> In (col d) (r_cols st) -> state_ok (fn (d_id d)) fixed d.
  Proof.
    intros ops st0 B Hs st Hc d Hd Hcol.
    apply (completed_good body empty col_of syncs allcols fixed ok true (fun _ => true) (fun _ => true)
             (fun rg s d _ _ => ok_after rg s d) (fun rg s d _ H => ok_none rg s d H) (fun _ => ok_put) ops st0 B Hs); try assumption.
    apply Forall_forall. intros op _. destruct op; cbn; auto.
  Qed.

  (* ================================================================ (1c) an interrupted run never leaves a mixed state *)
  Definition top_eq (d d0 : doc) : Prop :=
    d_id d = d_id d0 /\ d_cur d = d_cur d0 /\ d_chans d = d_chans d0 /\ d_access d = d_access d0 /\ d_roles d = d_roles d0.
  Definition old_like (db0 : list doc) (d : doc) : Prop := exists d0, In d0 db0 /\ top_eq d d0.
  Definition new_full (d : doc) : Prop :=
    match d_cur d with
    | Some (_, b, _) => d_chans d = vchans (fn (d_id d) b) /\ d_access d = vaccess (fn (d_id d) b) /\ d_roles d = rroles fixed (fn (d_id d) b)
    | None => True
    end.
  Definition safe (db0 : list doc) (d : doc) : Prop := old_like db0 d \/ new_full d.

  Lemma new_full_top : forall d d', top_eq d' d -> new_full d -> new_full d'.
  Proof.
    intros d d' [H1 [H2 [H3 [H4 H5]]]] H. unfold new_full in *. rewrite H1, H2, H3, H4, H5. exact H.
  Qed.

  Lemma put_doc_top : forall d w d', d_id d = w_doc w -> put_doc empty (fn (w_doc w)) d w = Some d' -> top_eq d' d \/ new_full d'.
  Proof.
    intros d w d' Hid H. unfold put_doc in H.
    destruct (mem rev_eqb (w_rev w) (d_known d)); [discriminate|].
    destruct (fn (w_doc w) (w_body w)) as [chs acc rls|] eqn:Es; [|discriminate].
    destruct (winner (add_leaf (d_leaves d) w [])) as [wl|]; [|discriminate].
    destruct (opt_rev_eqb (cur_rev d) (Some (l_rev wl))).
    - inversion H; subst; clear H. left. unfold top_eq. cbn. auto.
    - destruct (rev_eqb (l_rev wl) (w_rev w)).
      + inversion H; subst; clear H. right. unfold new_full. cbn. rewrite Hid, Es. cbn. auto.
      + destruct (fn (w_doc w) (l_body wl)) as [c2 a2 r2|] eqn:E2; [|discriminate].
        inversion H; subst; clear H. right. unfold new_full. cbn. rewrite Hid, E2. cbn. auto.
  Qed.

  Lemma after_top : forall rg s d, after (fn (d_id d)) fixed rg s d = d \/ new_full (after (fn (d_id d)) fixed rg s d).
  Proof.
    intros rg s d. unfold after. destruct (resync_doc (fn (d_id d)) fixed rg s d) as [d'|] eqn:E; [|left; reflexivity].
    right. apply resync_doc_some in E. destruct E as [r [b [Hc ->]]]. unfold new_full. cbn. rewrite Hc. auto.
  Qed.

  Lemma safe_step : forall db0 st op, (forall d, In d (r_docs st) -> safe db0 d) -> forall d, In d (r_docs (step st op)) -> safe db0 d.
  Proof.
    intros db0 st op H d Hd. destruct op as [w|reset regen cols|c s| |ck ch|pseqs|u]; cbn [rstep] in Hd.
    - unfold do_write in Hd. cbn in Hd. apply put_in in Hd. destruct Hd as [Hd|[_ [Hid [[d1 [Hd1 [Hid1 Hp]]]|Hp]]]].
      + apply H. exact Hd.
      + destruct (put_doc_top d1 w d Hid1 Hp) as [Ht|Hn]; [|right; exact Hn].
        destruct (H d1 Hd1) as [[d0 [Hd0 Ht0]]|Hn].
        * left. exists d0. split; [exact Hd0|]. unfold top_eq in *. intuition congruence.
        * right. eapply new_full_top; eassumption.
      + destruct (put_doc_top (empty_doc (w_doc w)) w d eq_refl Hp) as [Ht|Hn]; [|right; exact Hn].
        right. unfold new_full. destruct Ht as [_ [Hc _]]. rewrite Hc. cbn. exact I.
    - unfold do_start in Hd. destruct (r_state st); try (apply H; exact Hd);
        (destruct (negb (subset N.eqb (if null cols then allcols else cols) allcols)); apply H; exact Hd).
    - unfold do_visit in Hd. destruct (r_state st); try (apply H; exact Hd).
      destruct (qget (r_queue st) c) as [|e q']; [apply H; exact Hd|].
      destruct (e_skip e); [apply H; exact Hd|]. cbn in Hd. apply visit_docs_in in Hd. destruct Hd as [d1 [Hd1 ->]].
      destruct (d_id d1 =? e_id e) eqn:E; [|apply H; exact Hd1].
      apply N.eqb_eq in E. rewrite <- E. destruct (after_top (r_regen st) s d1) as [-> | Hn]; [apply H; exact Hd1 | right; exact Hn].
    - unfold do_stop in Hd. destruct (r_state st); apply H; exact Hd.
    - unfold do_crash in Hd. destruct (r_state st); apply H; exact Hd.
    - unfold do_finish in Hd. destruct (r_state st); try (apply H; exact Hd).
      destruct (forallb (fun p => null (snd p)) (r_queue st)); apply H; exact Hd.
    - apply H. exact Hd.
  Qed.

  Theorem interrupted_run_is_safe : forall ops st0 d, In d (r_docs (run st0 ops)) -> safe (r_docs st0) d.
  Proof.
    intros ops st0. assert (G : forall ops st, (forall d, In d (r_docs st) -> safe (r_docs st0) d) ->
                                 forall d, In d (r_docs (run st ops)) -> safe (r_docs st0) d).
    { induction ops0 as [|op ops0 IH]; intros st H; cbn; [exact H|]. apply IH. apply safe_step. exact H. }
    apply G. intros d Hd. left. exists d. split; [exact Hd|]. unfold top_eq. auto.
  Qed.

  (* ================================================================ traces without document writes *)
  Definition nowrite (op : rop) : Prop := match op with OWrite _ => False | _ => True end.

  (* documents keep their place, id and current revision; a tombstoned document is never touched *)
  Definition same_shape (d0 d : doc) : Prop := d_id d = d_id d0 /\ d_cur d = d_cur d0 /\ (live_b d0 = false -> d = d0).

  Lemma shape_step : forall db0 st op, nowrite op -> Forall2 same_shape db0 (r_docs st) -> Forall2 same_shape db0 (r_docs (step st op)).
  Proof.
    intros db0 st op Hop H. destruct op as [w|reset regen cols|c s| |ck ch|pseqs|u]; cbn [rstep].
    - destruct Hop.
    - unfold do_start. destruct (r_state st); try exact H;
        (destruct (negb (subset N.eqb (if null cols then allcols else cols) allcols)); exact H).
    - unfold do_visit. destruct (r_state st); try exact H. destruct (qget (r_queue st) c) as [|e q']; [exact H|].
      destruct (e_skip e); [exact H|]. cbn. unfold visit_docs. apply Forall2_map_r; [|exact H].
      intros d0 d [H1 [H2 H3]]. destruct (d_id d =? e_id e); [|split; auto].
      split; [rewrite after_id; exact H1|]. split; [rewrite after_cur; exact H2|].
      intros Hl. rewrite (H3 Hl). apply after_dead. exact Hl.
    - unfold do_stop. destruct (r_state st); exact H.
    - unfold do_crash. destruct (r_state st); exact H.
    - unfold do_finish. destruct (r_state st); try exact H. destruct (forallb (fun p => null (snd p)) (r_queue st)); exact H.
    - exact H.
  Qed.

  Lemma shape_run : forall ops st0, Forall nowrite ops -> Forall2 same_shape (r_docs st0) (r_docs (run st0 ops)).
  Proof.
    intros ops st0. assert (G : forall ops st, Forall nowrite ops -> Forall2 same_shape (r_docs st0) (r_docs st) ->
                                 Forall2 same_shape (r_docs st0) (r_docs (run st ops))).
    { induction ops0 as [|op ops0 IH]; intros st F H; cbn; [exact H|]. inversion F; subst. apply IH; [assumption|]. apply shape_step; assumption. }
    intros F. apply G; [exact F|]. apply Forall2_refl. intros d. unfold same_shape. auto.
  Qed.

  (* ================================================================ (1b) a resumed run equals an uninterrupted one *)
  Definition quiet (d : doc) : Prop := forall s, resync_doc (fn (d_id d)) fixed false s d = None.

  Lemma quiet_after : forall rg s d, quiet (after (fn (d_id d)) fixed rg s d).
  Proof. intros rg s d s'. rewrite after_id. apply resync_doc_idem. Qed.

  Lemma quiet_none : forall rg s d, resync_doc (fn (d_id d)) fixed rg s d = None -> quiet d.
  Proof.
    intros rg s d H s'. unfold resync_doc in *. destruct (d_cur d) as [[[r b] del]|]; [|reflexivity].
    destruct del; [reflexivity|].
    match type of H with (if ?c then _ else _) = _ => destruct c eqn:E end; [discriminate|].
    apply orb_false_iff in E. destruct E as [E E3]. apply orb_false_iff in E. destruct E as [E _].
    rewrite E, E3. reflexivity.
  Qed.

  Lemma after_noregen : forall f s s' (d : doc), after f fixed false s d = after f fixed false s' d.
  Proof. intros. unfold after, resync_doc. destruct (d_cur d) as [[[r b] del]|]; [|reflexivity]. destruct del; reflexivity. Qed.

  (* what a pass without regenerate_sequences makes of a document *)
  Definition pass (d : doc) : doc := after (fn (d_id d)) fixed false 0 d.
  Definition fresh_run (cs : list N) (db : list doc) : list doc :=
    map (fun d => if mem N.eqb (col d) cs then pass d else d) db.

  Definition start_plain (cs : list N) (op : rop) : Prop :=
    match op with
    | OWrite _ => False
    | OStart _ rg cols => rg = false /\ (if null cols then allcols else cols) = cs
    | _ => True
    end.

  (* invariant of plain traces: every document is the original or -- in a selected collection -- its pass *)
  Definition PInv (cs : list N) (db0 : list doc) (st : rst) : Prop :=
    Forall2 (fun d0 d => d = d0 \/ (d = pass d0 /\ In (col d0) cs)) db0 (r_docs st) /\
    (r_state st = MRunning -> r_regen st = false) /\
    (r_state st <> MNone -> r_cols st = cs).

  Lemma pinv_step : forall cs db0 st op, BInv st -> start_plain cs op -> PInv cs db0 st -> PInv cs db0 (step st op).
  Proof.
    intros cs db0 st op B Hop Hno. pose proof Hno as [P1 [P2 P3]].
    destruct op as [w|reset regen cols|c s| |ck ch|pseqs|u]; cbn [rstep].
    - destruct Hop.
    - destruct Hop as [-> Hcs]. unfold do_start. rewrite Hcs.
      destruct (r_state st) eqn:Es; try exact Hno;
        (destruct (negb (subset N.eqb cs allcols)); [exact Hno|]; unfold PInv; cbn;
         split; [exact P1|]; split; reflexivity).
    - unfold do_visit. destruct (r_state st) eqn:Es; try exact Hno.
      destruct (qget (r_queue st) c) as [|e q'] eqn:Eq; [exact Hno|].
      assert (Hc : r_cols st = cs) by (apply P3; discriminate).
      destruct (e_skip e); [unfold PInv; cbn; split; [exact P1|]; split; [intros _; apply P2; reflexivity | intros _; exact Hc]|].
      assert (Hsel : In (col_of (e_id e)) cs).
      { destruct (b_queue _ _ st B c e) as [H1 H2]; [rewrite Eq; left; reflexivity|]. rewrite H1, <- Hc. exact H2. }
      unfold PInv. cbn. rewrite (P2 eq_refl). split; [|split; [intros _; reflexivity | intros _; exact Hc]].
      unfold visit_docs. apply Forall2_map_r; [|exact P1].
      intros d0 d Hd. destruct (d_id d =? e_id e) eqn:E; [|exact Hd]. apply N.eqb_eq in E. right.
      destruct Hd as [-> | [-> Hcd]].
      + rewrite <- E in *. split; [unfold pass; apply after_noregen | exact Hsel].
      + split; [|exact Hcd]. unfold pass in *. rewrite after_id in E. rewrite <- E. unfold after at 1.
        rewrite resync_doc_idem. reflexivity.
    - unfold do_stop. destruct (r_state st) eqn:Es; try exact Hno.
      unfold PInv. cbn. split; [exact P1|]. split; [discriminate | intros _; apply P3; discriminate].
    - unfold do_crash. destruct (r_state st) eqn:Es; try exact Hno.
      unfold PInv. cbn. split; [exact P1|]. split; [discriminate | intros _; apply P3; discriminate].
    - unfold do_finish. destruct (r_state st) eqn:Es; try exact Hno.
      destruct (forallb (fun p => null (snd p)) (r_queue st)); [|exact Hno].
      unfold PInv. cbn. split; [exact P1|]. split; [discriminate | intros _; apply P3; discriminate].
    - unfold do_load, PInv. cbn. exact Hno.
  Qed.

  Lemma pinv_run : forall cs db0 ops st, BInv st -> Forall (start_plain cs) ops -> PInv cs db0 st -> PInv cs db0 (run st ops).
  Proof.
    intros cs db0. induction ops as [|op ops IH]; intros st B F P; cbn; [exact P|].
    inversion F; subst. apply IH; [apply binv_step; exact B | assumption | apply pinv_step; assumption].
  Qed.

  Lemma plain_opok : forall cs ops, Forall (start_plain cs) ops -> Forall (opok false (fun _ => true) (fun _ => true)) ops.
  Proof.
    intros cs ops F. induction F as [|op ops H F IH]; constructor; [|exact IH].
    destruct op; cbn in *; auto; try destruct H.
  Qed.

  Lemma fresh_eq : forall cs (l0 l : list doc),
    Forall2 (fun d0 d => d = d0 \/ (d = pass d0 /\ In (col d0) cs)) l0 l ->
    (forall d, In d l -> In (col d) cs -> quiet d) -> l = fresh_run cs l0.
  Proof.
    intros cs l0 l F. induction F as [|d0 d l0 l H1 F IH]; intros Hq; cbn; [reflexivity|].
    f_equal; [|apply IH; intros x Hx Hc; apply Hq; [right; exact Hx | exact Hc]].
    destruct (mem N.eqb (col_of (d_id d0)) cs) eqn:Em.
    - apply (mem_In N.eqb Neqb_spec) in Em. destruct H1 as [-> | [-> _]]; [|reflexivity].
      assert (Q : quiet d0) by (apply Hq; [left; reflexivity | exact Em]). unfold pass, after. rewrite Q. reflexivity.
    - destruct H1 as [-> | [_ Hc]]; [reflexivity|]. apply (mem_In N.eqb Neqb_spec) in Hc. rewrite Hc in Em. discriminate.
  Qed.

  Theorem resumed_run_equals_fresh_run : forall cs ops st0, BInv st0 -> r_state st0 = MNone ->
    Forall (start_plain cs) ops ->
    let st := run st0 ops in
    r_state st = MCompleted -> r_docs st = fresh_run cs (r_docs st0).
  Proof.
    intros cs ops st0 B Hs F st Hc.
    assert (P0 : PInv cs (r_docs st0) st0).
    { unfold PInv. split; [apply Forall2_refl; auto|]. split; [rewrite Hs; discriminate|].
      rewrite Hs; intros H; exfalso; apply H; reflexivity. }
    destruct (pinv_run cs (r_docs st0) ops st0 B F P0) as [P1 [_ P3]]. fold st in P1, P3.
    assert (Hcols : r_cols st = cs) by (apply P3; rewrite Hc; discriminate).
    (* every selected document is quiet *)
    assert (Hq : forall d, In d (r_docs st) -> In (col d) cs -> quiet d).
    { intros d Hd Hcol. rewrite <- Hcols in Hcol.
      apply (completed_good body empty col_of syncs allcols fixed quiet false (fun _ => true) (fun _ => true)
               (fun rg s d _ _ => quiet_after rg s d) (fun rg s d _ H => quiet_none rg s d H) (fun (H : false = true) => ltac:(discriminate)) ops st0 B Hs (plain_opok cs ops F) Hc d Hd Hcol). }
    apply fresh_eq; assumption.
  Qed.
End Theorems.
