(* C18: principals -- effective access computed from two grant-equivalent databases agrees; the
   invalidation at the end of resync leaves every stored computed set coherent with the resynced database. *)
From SG Require Import Base.Prelude C18.Resync C18.SetLemmas C18.ResyncProofs.
Open Scope N_scope.

Definition inval_user (u : user) : user := mkUser (u_name u) (u_adm_ch u) (u_adm_rl u) None None.
Definition inval_role (r : role) : role := mkRole (r_name r) (r_adm_ch r) None.

Lemma invalidate_all_idem : forall ps, invalidate_all (invalidate_all ps) = invalidate_all ps.
Proof. intros [us rs]. unfold invalidate_all. cbn. rewrite !map_map. reflexivity. Qed.

Lemma find_role_inval : forall ps n, find_role (invalidate_all ps) n = option_map inval_role (find_role ps n).
Proof.
  intros [us rs] n. unfold find_role, invalidate_all. cbn. induction rs as [|r rs IH]; cbn; [reflexivity|].
  destruct (r_name r =? n); [reflexivity | exact IH].
Qed.

Section Access.
  Variable body : Type.
  Notation doc := (doc body).

  Definition gequiv (db1 db2 : list doc) : Prop :=
    Forall2 (fun a b => seteq (d_access a) (d_access b) /\ seteq (d_roles a) (d_roles b)) db1 db2.

  (* every stored computed set is the one the views would produce now *)
  Definition coherent (db : list doc) (ps : princs) : Prop :=
    (forall u, In u (ps_users ps) ->
       (forall c, u_ch u = Some c -> seteq c (compute_user_ch db u)) /\
       (forall c, u_rl u = Some c -> seteq c (compute_user_rl db u))) /\
    (forall r, In r (ps_roles ps) -> forall c, r_ch r = Some c -> seteq c (compute_role_ch db r)).

  Lemma seteq_sel {A B} (f : A -> bool) (g : A -> B) (l1 l2 : list A) :
    seteq l1 l2 -> seteq (map g (filter f l1)) (map g (filter f l2)).
  Proof.
    intros H y. rewrite !in_map_iff. split; intros [x [Hx Hin]]; exists x; (split; [exact Hx|]);
      apply filter_In in Hin; apply filter_In; (split; [apply H; tauto | tauto]).
  Qed.

  Lemma granted_gequiv : forall db1 db2 p, gequiv db1 db2 -> seteq (granted db1 p) (granted db2 p).
  Proof.
    intros db1 db2 p F. induction F as [|a b l1 l2 [Ha _] F IH]; [apply seteq_refl|].
    unfold granted. cbn. apply seteq_app; [apply seteq_sel; exact Ha | exact IH].
  Qed.

  Lemma role_granted_gequiv : forall db1 db2 u, gequiv db1 db2 -> seteq (role_granted db1 u) (role_granted db2 u).
  Proof.
    intros db1 db2 u F. induction F as [|a b l1 l2 [_ Hr] F IH]; [apply seteq_refl|].
    unfold role_granted. cbn. apply seteq_app; [apply seteq_sel; exact Hr | exact IH].
  Qed.

  (* with nothing cached, effective access is a function of the grants only *)
  Lemma effective_gequiv : forall db1 db2 ps u, gequiv db1 db2 ->
    seteq (effective db1 (invalidate_all ps) (inval_user u)) (effective db2 (invalidate_all ps) (inval_user u)).
  Proof.
    intros db1 db2 ps u G. unfold effective. apply seteq_app.
    - unfold user_ch, inval_user, compute_user_ch. cbn. apply seteq_app; [apply seteq_refl | apply granted_gequiv; exact G].
    - apply seteq_flat_map.
      + unfold user_rl, inval_user, compute_user_rl. cbn. apply seteq_app; [apply seteq_refl | apply role_granted_gequiv; exact G].
      + intros rn. rewrite find_role_inval. destruct (find_role ps rn) as [r|]; cbn; [|apply seteq_refl].
        unfold role_ch, compute_role_ch. cbn. apply seteq_app; [apply seteq_refl | apply granted_gequiv; exact G].
  Qed.

  (* coherent stored sets give the same effective access as recomputing everything *)
  Lemma coherent_effective : forall db ps u, coherent db ps -> In u (ps_users ps) ->
    seteq (effective db ps u) (effective db (invalidate_all ps) (inval_user u)).
  Proof.
    intros db ps u [Hu Hr] Hin. destruct (Hu u Hin) as [Hc Hl]. unfold effective. apply seteq_app.
    - unfold user_ch. cbn. destruct (u_ch u) as [c|]; [apply Hc; reflexivity | apply seteq_refl].
    - apply seteq_flat_map.
      + unfold user_rl. cbn. destruct (u_rl u) as [c|]; [apply Hl; reflexivity | apply seteq_refl].
      + intros rn. rewrite find_role_inval. destruct (find_role ps rn) as [r|] eqn:E; cbn; [|apply seteq_refl].
        unfold find_role in E. apply find_some in E. destruct E as [Hrin _].
        unfold role_ch. cbn. destruct (r_ch r) as [c|] eqn:Ec; [apply (Hr r Hrin); exact Ec | apply seteq_refl].
  Qed.

  Lemma coherent_invalidated : forall db ps, coherent db (invalidate_all ps).
  Proof.
    intros db [us rs]. unfold coherent, invalidate_all. cbn. split.
    - intros u Hin. apply in_map_iff in Hin. destruct Hin as [u0 [<- _]]. cbn. split; intros c H; discriminate.
    - intros r Hin. apply in_map_iff in Hin. destruct Hin as [r0 [<- _]]. cbn. intros c H. discriminate.
  Qed.

  (* invalidatePrincipals: afterwards the stored sets are coherent with the RESYNCED database, provided
     the branch that skips the invalidation is not taken *)
  Lemma finish_coherent : forall sync fixed ifixed regen alloc db ps,
    coherent db ps -> regen = false \/ ifixed = true ->
    coherent (fst (resync_db sync fixed regen alloc db))
             (finish fixed ifixed regen (snd (resync_db sync fixed regen alloc db)) ps).
  Proof.
    intros sync fixed ifixed regen alloc db ps Hc Hsw. unfold finish.
    replace (regen && negb ifixed) with false by (destruct Hsw as [-> | ->]; [reflexivity | rewrite andb_false_r; reflexivity]).
    destruct (sw_inval fixed || (0 <? snd (resync_db sync fixed regen alloc db))) eqn:E.
    - apply coherent_invalidated.
    - apply orb_false_iff in E. destruct E as [_ E]. apply N.ltb_ge in E. assert (E0 : snd (resync_db sync fixed regen alloc db) = 0) by lia.
      rewrite (resync_db_zero body sync fixed regen db alloc E0). exact Hc.
  Qed.

  Lemma finish_invalidated : forall fixed ifixed regen n ps, invalidate_all (finish fixed ifixed regen n ps) = invalidate_all ps.
  Proof.
    intros. unfold finish. destruct (regen && negb ifixed); [reflexivity|].
    destruct (sw_inval fixed || (0 <? n)); [apply invalidate_all_idem | reflexivity].
  Qed.

  (* ---------------------------------------------------------------- visible document sets *)
  Lemma can_see_eq : forall (E1 E2 c1 c2 : list N), seteq E1 E2 -> seteq c1 c2 ->
    existsb (fun c => mem N.eqb c E1) c1 = existsb (fun c => mem N.eqb c E2) c2.
  Proof.
    intros E1 E2 c1 c2 HE Hc. apply eq_true_iff_eq. rewrite !existsb_exists.
    split; intros [c [Hin Hm]]; exists c; apply (mem_In N.eqb Neqb_spec) in Hm;
      (split; [apply Hc; exact Hin | apply (mem_In N.eqb Neqb_spec); apply HE; exact Hm]).
  Qed.

  Definition vequiv (db1 db2 : list doc) : Prop :=
    Forall2 (fun a b => d_id a = d_id b /\ tombstoned a = tombstoned b /\
                        (tombstoned a = false -> seteq (d_chans a) (d_chans b))) db1 db2.

  Lemma visible_eq : forall db1 db2 ps1 ps2 u1 u2, vequiv db1 db2 ->
    seteq (effective db1 ps1 u1) (effective db2 ps2 u2) ->
    visible db1 ps1 u1 = visible db2 ps2 u2.
  Proof.
    intros db1 db2 ps1 ps2 u1 u2 V HE. unfold visible, can_see.
    generalize dependent (effective db2 ps2 u2). generalize (effective db1 ps1 u1). intros E1 E2 HE.
    induction V as [|a b l1 l2 [Hid [Ht Hc]] V IH]; cbn; [reflexivity|].
    rewrite <- Ht. destruct (tombstoned a) eqn:Eta; cbn; [exact IH|].
    rewrite (can_see_eq E1 E2 (d_chans a) (d_chans b) HE (Hc eq_refl)).
    destruct (existsb (fun c => mem N.eqb c E2) (d_chans b)); cbn; [rewrite Hid, IH; reflexivity | exact IH].
  Qed.
End Access.

Arguments gequiv {body}. Arguments coherent {body}. Arguments vequiv {body}.
