(* C18: every history of document writes (which invalidate exactly the computed sets of the principals whose
   grants they change -- channels and roles independently) and of user loads (which rebuild what is
   invalidated) leaves every stored computed set either invalidated or equal to what the access views
   produce ([coherent]).  So the pre-states of a resync range over EVERY combination of pending channel /
   role invalidations, and C18_resync_principals_eq_fresh quantifies over all of them. *)
From SG Require Import Base.Prelude C18.Resync C18.SetLemmas C18.ResyncProofs C18.AccessProofs C18.Concurrent.
Open Scope N_scope.

Section Hist.
  Variable body : Type.
  Variable empty : body.
  Notation doc := (doc body).
  Notation wop := (wop body).

  (* a per-document contribution [g] summed over the database changes with one write only through the
     written document *)
  Section OneDoc.
    Variable sync : body -> verdict.
    Variable g : doc -> list N.
    Definition dg (db : list doc) (id : N) : list N :=
      match find (fun d => d_id d =? id) db with Some d => g d | None => [] end.

    Lemma put_sum : forall db (w : wop),
      seteq (dg db (w_doc w)) (dg (put empty sync db w) (w_doc w)) ->
      seteq (flat_map g db) (flat_map g (put empty sync db w)).
    Proof.
      induction db as [|d db IH]; intros w H; cbn [put] in *.
      - destruct (put_doc empty sync (empty_doc (w_doc w)) w) as [d'|] eqn:E; [|apply seteq_refl].
        pose proof (put_doc_id body empty sync _ _ _ E) as Hid. cbn in Hid.
        unfold dg in H. cbn [find] in H. rewrite Hid, N.eqb_refl in H. cbn. rewrite app_nil_r. exact H.
      - unfold dg in H. cbn [find] in H. destruct (d_id d =? w_doc w) eqn:Eid.
        + destruct (put_doc empty sync d w) as [d'|] eqn:E; [|apply seteq_refl].
          pose proof (put_doc_id body empty sync _ _ _ E) as Hid. cbn [find] in H. rewrite Hid, Eid in H.
          cbn. apply seteq_app; [exact H | apply seteq_refl].
        + cbn [find] in H. rewrite Eid in H. cbn. apply seteq_app; [apply seteq_refl | apply IH; exact H].
    Qed.
  End OneDoc.

  Lemma dg_access : forall p (db : list doc) id,
    dg (fun d => chans_of p (d_access d)) db id = chans_of p (doc_access db id).
  Proof. intros. unfold dg, doc_access. destruct (find _ db); reflexivity. Qed.
  Lemma dg_roles : forall u (db : list doc) id,
    dg (fun d => roles_of u (d_roles d)) db id = roles_of u (doc_roles db id).
  Proof. intros. unfold dg, doc_roles. destruct (find _ db); reflexivity. Qed.

  Lemma put_granted : forall sync (db : list doc) w p,
    set_eqb N.eqb (chans_of p (doc_access db (w_doc w))) (chans_of p (doc_access (put empty sync db w) (w_doc w))) = true ->
    seteq (granted db p) (granted (put empty sync db w) p).
  Proof.
    intros sync db w p H. apply (set_eqb_seteq N.eqb Neqb_spec) in H.
    apply (put_sum sync (fun d => chans_of p (d_access d))). rewrite !dg_access. exact H.
  Qed.
  Lemma put_role_granted : forall sync (db : list doc) w u,
    set_eqb N.eqb (roles_of u (doc_roles db (w_doc w))) (roles_of u (doc_roles (put empty sync db w) (w_doc w))) = true ->
    seteq (role_granted db u) (role_granted (put empty sync db w) u).
  Proof.
    intros sync db w u H. apply (set_eqb_seteq N.eqb Neqb_spec) in H.
    apply (put_sum sync (fun d => roles_of u (d_roles d))). rewrite !dg_roles. exact H.
  Qed.

  (* one write, with the invalidations of MarkPrincipalsChanged, keeps the stored sets coherent *)
  Lemma write_coherent : forall sync (db : list doc) ps w,
    coherent db ps ->
    coherent (put empty sync db w)
             (mark (doc_access db (w_doc w)) (doc_access (put empty sync db w) (w_doc w))
                   (doc_roles db (w_doc w)) (doc_roles (put empty sync db w) (w_doc w)) ps).
  Proof.
    intros sync db ps w [Hu Hr]. unfold coherent, mark. cbn [ps_users ps_roles]. split.
    - intros u' Hin. apply in_map_iff in Hin. destruct Hin as [u [<- Hin]]. destruct (Hu u Hin) as [Hc Hl].
      cbn [u_ch u_rl]. split; intros c Hs.
      + destruct (set_eqb N.eqb (chans_of (PU (u_name u)) _) _) eqn:E; [|discriminate].
        unfold compute_user_ch. cbn [u_adm_ch u_name]. eapply seteq_trans; [apply Hc; exact Hs|].
        unfold compute_user_ch. apply seteq_app; [apply seteq_refl | apply put_granted; exact E].
      + destruct (set_eqb N.eqb (roles_of (u_name u) _) _) eqn:E; [|discriminate].
        unfold compute_user_rl. cbn [u_adm_rl u_name]. eapply seteq_trans; [apply Hl; exact Hs|].
        unfold compute_user_rl. apply seteq_app; [apply seteq_refl | apply put_role_granted; exact E].
    - intros r' Hin c Hs. apply in_map_iff in Hin. destruct Hin as [r [<- Hin]]. cbn [r_ch] in Hs.
      destruct (set_eqb N.eqb (chans_of (PR (r_name r)) _) _) eqn:E; [|discriminate].
      unfold compute_role_ch. cbn [r_adm_ch r_name]. eapply seteq_trans; [apply (Hr r Hin); exact Hs|].
      unfold compute_role_ch. apply seteq_app; [apply seteq_refl | apply put_granted; exact E].
  Qed.

  (* loading a user keeps them coherent *)
  Lemma load_coherent : forall (db : list doc) ps n, coherent db ps -> coherent db (load_user db ps n).
  Proof.
    intros db ps n [Hu Hr]. unfold load_user. destruct (find (fun u => u_name u =? n) (ps_users ps)) as [u0|]; [|split; assumption].
    unfold coherent. cbn [ps_users ps_roles]. split.
    - intros u' Hin. apply in_map_iff in Hin. destruct Hin as [u [<- Hin]]. destruct (Hu u Hin) as [Hc Hl].
      destruct (u_name u =? n); [|split; assumption]. cbn [u_ch u_rl]. split; intros c Hs; inversion Hs; subst c.
      + unfold user_ch. destruct (u_ch u) as [c|]; [apply Hc; reflexivity | apply seteq_refl].
      + unfold user_rl. destruct (u_rl u) as [c|]; [apply Hl; reflexivity | apply seteq_refl].
    - intros r' Hin c Hs. apply in_map_iff in Hin. destruct Hin as [r [<- Hin]].
      destruct (mem N.eqb (r_name r) (user_rl db u0)); [|apply (Hr r Hin); exact Hs].
      cbn [r_ch] in Hs. inversion Hs; subst c. unfold role_ch. cbn [r_adm_ch r_name].
      destruct (r_ch r) as [c|] eqn:Ec; [apply (Hr r Hin); exact Ec | apply seteq_refl].
  Qed.

  Lemma hist_coherent : forall sync ops (db : list doc) ps, coherent db ps ->
    coherent (fst (hist empty sync (db, ps) ops)) (snd (hist empty sync (db, ps) ops)).
  Proof.
    intros sync ops. induction ops as [|op ops IH]; intros db ps H; cbn [hist fold_left]; [exact H|].
    destruct op as [w|n]; cbn [pstep]; apply IH; [apply write_coherent | apply load_coherent]; exact H.
  Qed.

  Lemma hist_db : forall sync ops (db : list doc) ps,
    fst (hist empty sync (db, ps) ops) = replay empty sync db (writes_of ops).
  Proof.
    intros sync ops. induction ops as [|op ops IH]; intros db ps; cbn [hist fold_left writes_of flat_map]; [reflexivity|].
    destruct op as [w|n]; cbn [pstep app]; unfold hist in IH; rewrite IH; reflexivity.
  Qed.

  (* principals as created (NewUser / NewRole compute and store the sets at once) *)
  Lemma warm_coherent : forall (db : list doc) ps, coherent db ps -> coherent db (warm db ps).
  Proof.
    intros db [us rs] [Hu Hr]. unfold coherent, warm. cbn [ps_users ps_roles] in *. split.
    - intros u' Hin. apply in_map_iff in Hin. destruct Hin as [u [<- Hin]]. destruct (Hu u Hin) as [Hc Hl].
      cbn [u_ch u_rl]. split; intros c Hs; inversion Hs; subst c.
      + unfold user_ch. destruct (u_ch u) as [c|]; [apply Hc; reflexivity | apply seteq_refl].
      + unfold user_rl. destruct (u_rl u) as [c|]; [apply Hl; reflexivity | apply seteq_refl].
    - intros r' Hin c Hs. apply in_map_iff in Hin. destruct Hin as [r [<- Hin]]. cbn [r_ch] in Hs. inversion Hs; subst c.
      unfold role_ch. destruct (r_ch r) as [c|] eqn:Ec; [apply (Hr r Hin); exact Ec | apply seteq_refl].
  Qed.
End Hist.
