(* C18: facts about one resync pass that hold for EVERY database, sync function and switch setting:
   what a visited document looks like afterwards, idempotence, regenerated sequences. *)
From SG Require Import Base.Prelude C18.Resync C18.SetLemmas.
Open Scope N_scope.

Lemma existsb_all_false {A} (f : A -> bool) (l : list A) :
  (forall x, In x l -> f x = false) -> existsb f l = false.
Proof.
  induction l as [|a l IH]; intros H; cbn; [reflexivity|].
  rewrite (H a (or_introl eq_refl)), IH; [reflexivity|]. intros x Hx. apply H. right. exact Hx.
Qed.

Lemma existsb_false_all {A} (f : A -> bool) (l : list A) :
  existsb f l = false -> forall x, In x l -> f x = false.
Proof.
  induction l as [|a l IH]; cbn; intros H x Hx; [contradiction|].
  apply orb_false_iff in H. destruct H as [Ha Hl]. destruct Hx as [<-|Hx]; [exact Ha | apply IH; assumption].
Qed.

Lemma Forall2_impl {A B} (P Q : A -> B -> Prop) (l : list A) (l' : list B) :
  (forall a b, P a b -> Q a b) -> Forall2 P l l' -> Forall2 Q l l'.
Proof. intros H F. induction F; constructor; auto. Qed.

Lemma Forall2_compose {A B C} (P : A -> B -> Prop) (Q : A -> C -> Prop) (l : list A) (l1 : list B) (l2 : list C) :
  Forall2 P l l1 -> Forall2 Q l l2 -> Forall2 (fun b c => exists a, P a b /\ Q a c) l1 l2.
Proof.
  intros F. revert l2. induction F as [|a b l l1 Hab F IH]; intros l2 G; inversion G; subst; constructor.
  - exists a. split; assumption.
  - apply IH. assumption.
Qed.

Section OnePass.
  Variable body : Type.
  Variable sync : body -> verdict.
  Notation doc := (doc body).
  Notation leaf := (leaf body).

  Definition key (l : leaf) : rev * body * bool := (l_rev l, l_body l, l_del l).

  (* a live document carries what [sync] produces for its current revision *)
  Definition state_ok (fx : switches) (d : doc) : Prop :=
    match d_cur d with
    | Some (_, b, false) =>
        seteq (d_chans d) (vchans (sync b)) /\ seteq (d_access d) (vaccess (sync b)) /\ seteq (d_roles d) (rroles fx (sync b))
    | _ => True
    end.

  Definition live_b (d : doc) : bool := match d_cur d with Some (_, _, del) => negb del | None => false end.

  (* the document after the visit (unchanged when nothing was written) *)
  Definition after (fixed : switches) (regen : bool) (s : N) (d : doc) : doc :=
    match resync_doc sync fixed regen s d with Some d' => d' | None => d end.

  Lemma resync_doc_some : forall fixed regen s d d',
    resync_doc sync fixed regen s d = Some d' ->
    exists r b, d_cur d = Some (r, b, false) /\
      d' = mkDoc (d_id d) (map (resync_leaf sync) (d_leaves d)) (d_known d) (d_cur d)
                 (vchans (sync b)) (vaccess (sync b)) (rroles fixed (sync b))
                 (if regen then s else d_seq d) (if regen then d_recent d ++ [s] else d_recent d).
  Proof.
    intros fixed regen s d d' H. unfold resync_doc in H.
    destruct (d_cur d) as [[[r b] del]|] eqn:Hc; [|discriminate].
    destruct del; [discriminate|].
    match type of H with (if ?c then _ else _) = _ => destruct c end; [|discriminate].
    inversion H; subst; clear H. exists r, b. split; reflexivity.
  Qed.

  Lemma resync_doc_none : forall fixed regen s d r b,
    resync_doc sync fixed regen s d = None -> d_cur d = Some (r, b, false) ->
    seteq (d_chans d) (vchans (sync b)) /\ seteq (d_access d) (vaccess (sync b)) /\
    seteq (d_roles d) (rroles fixed (sync b)) /\ regen = false /\ (sw_leaf fixed = true -> leaf_changed sync d = false).
  Proof.
    intros fixed regen s d r b H Hc. unfold resync_doc in H. rewrite Hc in H.
    match type of H with (if ?c then _ else _) = _ => destruct c eqn:E end; [discriminate|].
    apply orb_false_iff in E. destruct E as [E E3]. apply orb_false_iff in E. destruct E as [E E2].
    apply orb_false_iff in E. destruct E as [E E1]. apply orb_false_iff in E. destruct E as [E0 Ea].
    apply negb_false_iff in E0, Ea, E1.
    apply (set_eqb_seteq N.eqb Neqb_spec) in E0.
    apply (set_eqb_seteq grant_eqb grant_eqb_spec) in Ea.
    apply (set_eqb_seteq rgrant_eqb rgrant_eqb_spec) in E1.
    split; [exact E0|]. split; [exact Ea|]. split; [exact E1|]. split; [exact E2|].
    intros Hf. rewrite Hf in E3. cbn in E3. exact E3.
  Qed.

  Lemma after_id : forall fixed regen s d, d_id (after fixed regen s d) = d_id d.
  Proof.
    intros. unfold after. destruct (resync_doc sync fixed regen s d) eqn:E; [|reflexivity].
    apply resync_doc_some in E. destruct E as [r [b [_ ->]]]. reflexivity.
  Qed.

  Lemma after_cur : forall fixed regen s d, d_cur (after fixed regen s d) = d_cur d.
  Proof.
    intros. unfold after. destruct (resync_doc sync fixed regen s d) eqn:E; [|reflexivity].
    apply resync_doc_some in E. destruct E as [r [b [_ ->]]]. reflexivity.
  Qed.

  Lemma after_keys : forall fixed regen s d, map key (d_leaves (after fixed regen s d)) = map key (d_leaves d).
  Proof.
    intros. unfold after. destruct (resync_doc sync fixed regen s d) eqn:E; [|reflexivity].
    apply resync_doc_some in E. destruct E as [r [b [_ ->]]]. cbn. rewrite map_map. reflexivity.
  Qed.

  Lemma after_dead : forall fixed regen s d, live_b d = false -> after fixed regen s d = d.
  Proof.
    intros fixed regen s d H. unfold after. destruct (resync_doc sync fixed regen s d) eqn:E; [|reflexivity].
    apply resync_doc_some in E. destruct E as [r [b [Hc _]]]. unfold live_b in H. rewrite Hc in H. discriminate.
  Qed.

  (* every visited live document ends up with the new function's channels and grants *)
  Lemma after_state_ok : forall fixed regen s d, state_ok fixed (after fixed regen s d).
  Proof.
    intros fixed regen s d. unfold after. destruct (resync_doc sync fixed regen s d) eqn:E.
    - apply resync_doc_some in E. destruct E as [r [b [Hc ->]]]. unfold state_ok. cbn. rewrite Hc.
      split; [|split]; apply seteq_refl.
    - unfold state_ok. destruct (d_cur d) as [[[r b] del]|] eqn:Hc; [|exact I]. destruct del; [exact I|].
      destruct (resync_doc_none _ _ _ _ _ _ E Hc) as [H1 [H2 [H3 _]]]. auto.
  Qed.

  (* with the repair every non-winning leaf of a visited live document has the new function's channels *)
  Lemma after_leaves_fixed : forall fixed regen s d l, sw_leaf fixed = true ->
    live_b d = true -> In l (d_leaves (after fixed regen s d)) -> is_cur (after fixed regen s d) l = false ->
    seteq (l_chans l) (vchans (sync (l_body l))).
  Proof.
    intros fixed regen s d l Hf Hl Hin Hnc. unfold after in *. destruct (resync_doc sync fixed regen s d) eqn:E.
    - apply resync_doc_some in E. destruct E as [r [b [Hc ->]]]. cbn in Hin.
      apply in_map_iff in Hin. destruct Hin as [l0 [<- _]]. cbn. apply seteq_refl.
    - unfold live_b in Hl. destruct (d_cur d) as [[[r b] del]|] eqn:Hc; [|discriminate]. destruct del; [discriminate|].
      destruct (resync_doc_none _ _ _ _ _ _ E Hc) as [_ [_ [_ [_ H]]]]. specialize (H Hf).
      unfold leaf_changed in H. pose proof (existsb_false_all _ _ H l Hin) as Hx. cbn in Hx.
      rewrite Hnc in Hx. cbn in Hx. apply negb_false_iff in Hx.
      apply (set_eqb_seteq N.eqb Neqb_spec) in Hx. exact Hx.
  Qed.

  (* whenever the document IS rewritten (either tree) all its leaves carry the new function's channels *)
  Lemma written_leaves : forall fixed regen s d d' l,
    resync_doc sync fixed regen s d = Some d' -> In l (d_leaves d') -> l_chans l = vchans (sync (l_body l)).
  Proof.
    intros fixed regen s d d' l E Hin. apply resync_doc_some in E. destruct E as [r [b [_ ->]]]. cbn in Hin.
    apply in_map_iff in Hin. destruct Hin as [l0 [<- _]]. reflexivity.
  Qed.

  (* ---------------------------------------------------------------- idempotence *)
  Lemma leaf_changed_resynced : forall id ls k c ch a r sq rc,
    leaf_changed sync (mkDoc id (map (resync_leaf sync) ls) k c ch a r sq rc) = false.
  Proof.
    intros. unfold leaf_changed. cbn. apply existsb_all_false. intros l Hl.
    apply in_map_iff in Hl. destruct Hl as [l0 [<- _]]. cbn.
    rewrite (set_eqb_refl N.eqb Neqb_spec). cbn. apply andb_false_r.
  Qed.

  Lemma resync_doc_idem : forall fixed regen s s' d,
    resync_doc sync fixed false s' (after fixed regen s d) = None.
  Proof.
    intros fixed regen s s' d. unfold after. destruct (resync_doc sync fixed regen s d) eqn:E.
    - apply resync_doc_some in E. destruct E as [r [b [Hc ->]]]. unfold resync_doc. cbn [d_cur d_chans d_access d_roles]. rewrite Hc.
      rewrite (set_eqb_refl N.eqb Neqb_spec), (set_eqb_refl grant_eqb grant_eqb_spec),
        (set_eqb_refl rgrant_eqb rgrant_eqb_spec).
      rewrite leaf_changed_resynced. rewrite andb_false_r. reflexivity.
    - unfold resync_doc in *. destruct (d_cur d) as [[[r b] del]|]; [|reflexivity]. destruct del; [reflexivity|].
      match type of E with (if ?c then _ else _) = _ => destruct c eqn:Ec end; [discriminate|].
      apply orb_false_iff in Ec. destruct Ec as [Ec E3]. apply orb_false_iff in Ec. destruct Ec as [Ec _].
      rewrite Ec, E3. reflexivity.
  Qed.

  (* ---------------------------------------------------------------- the pass over the database *)
  Lemma resync_db_after : forall fixed regen db alloc,
    Forall2 (fun d d' => exists s, d' = after fixed regen s d) db (fst (resync_db sync fixed regen alloc db)).
  Proof.
    intros fixed regen db. induction db as [|d db IH]; intros alloc; cbn; [constructor|].
    destruct (resync_doc sync fixed regen (hd 0 alloc) d) as [d'|] eqn:E.
    - specialize (IH (if regen then tl alloc else alloc)).
      destruct (resync_db sync fixed regen (if regen then tl alloc else alloc) db) as [r' n]. cbn in *.
      constructor; [|exact IH]. exists (hd 0 alloc). unfold after. rewrite E. reflexivity.
    - specialize (IH alloc). destruct (resync_db sync fixed regen alloc db) as [r' n]. cbn in *.
      constructor; [|exact IH]. exists (hd 0 alloc). unfold after. rewrite E. reflexivity.
  Qed.

  Lemma resync_db_zero : forall fixed regen db alloc,
    snd (resync_db sync fixed regen alloc db) = 0 -> fst (resync_db sync fixed regen alloc db) = db.
  Proof.
    intros fixed regen db. induction db as [|d db IH]; intros alloc; cbn; [reflexivity|].
    destruct (resync_doc sync fixed regen (hd 0 alloc) d) as [d'|] eqn:E.
    - destruct (resync_db sync fixed regen (if regen then tl alloc else alloc) db) as [r' n]. cbn. intros H.
      exfalso. revert H. apply N.neq_succ_0.
    - specialize (IH alloc). destruct (resync_db sync fixed regen alloc db) as [r' n]. cbn in *. intros H.
      rewrite (IH H). reflexivity.
  Qed.

  Lemma resync_db_quiet : forall fixed db alloc,
    Forall (fun d => forall s, resync_doc sync fixed false s d = None) db ->
    resync_db sync fixed false alloc db = (db, 0).
  Proof.
    intros fixed db alloc H. induction H as [|d db Hd _ IH]; cbn; [reflexivity|].
    rewrite Hd, IH. reflexivity.
  Qed.

  (* running resync again (without regenerating sequences) writes nothing and changes nothing *)
  Lemma resync_db_idem : forall fixed regen alloc alloc' db,
    resync_db sync fixed false alloc' (fst (resync_db sync fixed regen alloc db))
    = (fst (resync_db sync fixed regen alloc db), 0).
  Proof.
    intros. apply resync_db_quiet. pose proof (resync_db_after fixed regen db alloc) as H.
    induction H as [|d d' l l' [s ->] _ IH]; constructor; [|exact IH].
    intros s'. apply resync_doc_idem.
  Qed.

  (* ---------------------------------------------------------------- regenerated sequences *)
  Lemma resync_doc_regen_live : forall fixed s d, live_b d = true ->
    exists d', resync_doc sync fixed true s d = Some d' /\ d_seq d' = s /\ d_recent d' = d_recent d ++ [s] /\ d_cur d' = d_cur d.
  Proof.
    intros fixed s d H. unfold live_b in H. unfold resync_doc.
    destruct (d_cur d) as [[[r b] del]|] eqn:Hc; [|discriminate]. destruct del; [discriminate|].
    rewrite orb_true_r. cbn. eexists. split; [reflexivity|]. cbn. auto.
  Qed.

  Lemma resync_doc_dead : forall fixed regen s d, live_b d = false -> resync_doc sync fixed regen s d = None.
  Proof.
    intros fixed regen s d H. unfold live_b in H. unfold resync_doc.
    destruct (d_cur d) as [[[r b] del]|]; [|reflexivity]. destruct del; [reflexivity|discriminate].
  Qed.

  Definition nlive (db : list doc) : nat := length (filter live_b db).

  Lemma resync_db_regen : forall fixed db alloc,
    (nlive db <= length alloc)%nat ->
    let rs := fst (resync_db sync fixed true alloc db) in
    Forall2 (fun d d' => if live_b d
                         then live_b d' = true /\ In (d_seq d') alloc /\ d_recent d' = d_recent d ++ [d_seq d']
                         else d' = d) db rs
    /\ map (@d_seq body) (filter live_b rs) = firstn (nlive db) alloc.
  Proof.
    intros fixed db. induction db as [|d db IH]; intros alloc Hlen; cbn.
    - split; [constructor|reflexivity].
    - unfold nlive in *. cbn in Hlen. destruct (live_b d) eqn:Hl.
      + cbn in Hlen. destruct alloc as [|s alloc]; [cbn in Hlen; lia|]. cbn in Hlen.
        destruct (resync_doc_regen_live fixed s d Hl) as [d' [E [Hs [Hr Hc]]]]. cbn. rewrite E.
        specialize (IH alloc ltac:(lia)). destruct (resync_db sync fixed true alloc db) as [r' n]. cbn in *.
        destruct IH as [IH1 IH2].
        assert (Hl' : live_b d' = true) by (unfold live_b in *; rewrite Hc; exact Hl).
        split.
        * constructor.
          -- rewrite Hl. rewrite Hs. repeat split; [exact Hl' | left; reflexivity | exact Hr].
          -- eapply Forall2_impl; [|exact IH1]. intros a b0 Hab. cbn in Hab. destruct (live_b a); [|exact Hab].
             destruct Hab as [H1 [H2 H3]]. split; [exact H1|]. split; [right; exact H2 | exact H3].
        * rewrite Hl'. cbn. rewrite Hs, IH2. reflexivity.
      + rewrite (resync_doc_dead fixed true (hd 0 alloc) d Hl).
        specialize (IH alloc Hlen). destruct (resync_db sync fixed true alloc db) as [r' n]. cbn in *.
        destruct IH as [IH1 IH2]. split.
        * constructor; [rewrite Hl; reflexivity | exact IH1].
        * rewrite Hl. exact IH2.
  Qed.
End OnePass.

Arguments key {body}. Arguments state_ok {body}. Arguments live_b {body}. Arguments after {body}. Arguments nlive {body}.
