(* C18 -- Resync equals evaluating the new sync function from scratch.
   Nothing but the property theorems (each closed by [exact] of a lemma proved elsewhere, then Print
   Assumptions).  All statements quantify over EVERY body type, every pair of sync functions
   [sync_old sync_new : body -> verdict], every corpus of revisions [ws] (any number of documents, conflicts,
   tombstones, resurrections) and both settings of regenerate_sequences.

   old   = replay empty sync_old [] ws     the database as written under the old function
   rs    = the database after the resync run under sync_new   (resync_db / run)
   fresh = replay empty sync_new [] ws     the same revisions written under the new function from the start

   [fixed : switches] (sw_leaf, sw_rej) and [ifixed] stand for the three switches of Switch.v; a theorem that
   holds whatever their value quantifies over them, the ones that need a repair say so in a hypothesis.
   Hypotheses, where present:  [accepts]: the function rejects no revision of the corpus (a rejected write
   is simply absent from a database; rejected-at-resync is covered by C18_resync_rejected_hidden);
   [tomb_agree]: both functions give the same verdict on tombstone bodies -- resync never visits a
   tombstoned document (statement without it: C18_Refuted.resync_tombstone_eq_fresh_refuted);
   [coherent]: before the resync every computed set stored in a principal document is the one the access
   views produce (that is property C03). *)
From SG Require Import Base.Prelude C18.Resync C18.SetLemmas C18.ResyncProofs C18.ReplayProofs C18.AccessProofs C18.FinalProofs C18.Concurrent C18.HistoryProofs.
Open Scope N_scope.

(* every live document's channel assignment is the one of the fresh database (and the trees coincide) *)
Theorem C18_resync_winner_channels_eq_fresh :
  forall (body : Type) (empty : body) (sync_old sync_new : body -> verdict) (ws : list (wop body))
         (fixed : switches) (regen : bool) (alloc : list N),
  accepts empty sync_old ws -> accepts empty sync_new ws ->
  Forall2 (fun d f => d_id d = d_id f /\ d_cur d = d_cur f /\
                      (tombstoned d = false -> seteq (d_chans d) (d_chans f)))
    (fst (resync_db sync_new fixed regen alloc (replay empty sync_old [] ws))) (replay empty sync_new [] ws).
Proof. exact winner_channels. Qed.
Print Assumptions C18_resync_winner_channels_eq_fresh.

(* ... and so are the access and role grants it confers *)
Theorem C18_resync_access_eq_fresh :
  forall (body : Type) (empty : body) (sync_old sync_new : body -> verdict) (ws : list (wop body))
         (fixed : switches) (regen : bool) (alloc : list N),
  accepts empty sync_old ws -> accepts empty sync_new ws ->
  Forall2 (fun d f => d_id d = d_id f /\
                      (tombstoned d = false -> seteq (d_access d) (d_access f) /\ seteq (d_roles d) (d_roles f)))
    (fst (resync_db sync_new fixed regen alloc (replay empty sync_old [] ws))) (replay empty sync_new [] ws).
Proof. exact doc_access. Qed.
Print Assumptions C18_resync_access_eq_fresh.

(* what the access views yield for any principal is the same in the two databases *)
Theorem C18_resync_grants_eq_fresh :
  forall (body : Type) (empty : body) (sync_old sync_new : body -> verdict) (ws : list (wop body))
         (fixed : switches) (regen : bool) (alloc : list N),
  accepts empty sync_old ws -> accepts empty sync_new ws -> tomb_agree empty sync_old sync_new ws ->
  forall p u,
    seteq (granted (fst (resync_db sync_new fixed regen alloc (replay empty sync_old [] ws))) p)
          (granted (replay empty sync_new [] ws) p) /\
    seteq (role_granted (fst (resync_db sync_new fixed regen alloc (replay empty sync_old [] ws))) u)
          (role_granted (replay empty sync_new [] ws) u).
Proof. exact grants_eq. Qed.
Print Assumptions C18_resync_grants_eq_fresh.

(* after the final invalidation every user's effective access (own channels plus those of every role held)
   is the one computed from scratch on the fresh database, and the user sees exactly the same documents.
   Needs: sequences not regenerated, OR the invalidation repair (regen_inval_fixed).  The excluded
   combination is refuted: C18_Refuted.resync_regen_principals_refuted. *)
Theorem C18_resync_visible_eq_fresh :
  forall (body : Type) (empty : body) (sync_old sync_new : body -> verdict) (ws : list (wop body))
         (fixed : switches) (ifixed regen : bool) (alloc : list N) (ps : princs),
  accepts empty sync_old ws -> accepts empty sync_new ws -> tomb_agree empty sync_old sync_new ws ->
  coherent (replay empty sync_old [] ws) ps -> regen = false \/ ifixed = true ->
  let r := run sync_new fixed ifixed regen alloc (replay empty sync_old [] ws) ps in
  forall u, In u (ps_users (snd r)) ->
    seteq (effective (fst (fst r)) (snd r) u)
          (effective (replay empty sync_new [] ws) (invalidate_all (snd r)) (inval_user u)) /\
    visible (fst (fst r)) (snd r) u = visible (replay empty sync_new [] ws) (invalidate_all (snd r)) (inval_user u).
Proof. exact principals_visible. Qed.
Print Assumptions C18_resync_visible_eq_fresh.

(* the same, quantified over EVERY pre-state of the principals a deployment can be in: principals as created,
   then ANY history [h] of document writes -- each invalidating, independently, the computed CHANNELS of the
   principals whose access() grants it changes and the computed ROLES of the users whose role() grants it
   changes (MarkPrincipalsChanged) -- and of user loads (which rebuild what is invalidated); i.e. every
   combination of pending channel / role invalidations, users never loaded again before the resync ends
   included.  After the resync each user's roles, effective channels and visible documents are those of the
   fresh database. *)
Theorem C18_resync_principals_eq_fresh :
  forall (body : Type) (empty : body) (sync_old sync_new : body -> verdict) (h : list (pop body)) (ps0 : princs)
         (fixed : switches) (ifixed regen : bool) (alloc : list N),
  accepts empty sync_old (writes_of h) -> accepts empty sync_new (writes_of h) ->
  tomb_agree empty sync_old sync_new (writes_of h) -> regen = false \/ ifixed = true ->
  let st := hist empty sync_old (@nil (doc body), warm (@nil (doc body)) (invalidate_all ps0)) h in
  let r := run sync_new fixed ifixed regen alloc (fst st) (snd st) in
  forall u, In u (ps_users (snd r)) ->
    seteq (user_rl (fst (fst r)) u) (user_rl (replay empty sync_new [] (writes_of h)) (inval_user u)) /\
    seteq (effective (fst (fst r)) (snd r) u)
          (effective (replay empty sync_new [] (writes_of h)) (invalidate_all (snd r)) (inval_user u)) /\
    visible (fst (fst r)) (snd r) u = visible (replay empty sync_new [] (writes_of h)) (invalidate_all (snd r)) (inval_user u).
Proof. exact principals_history. Qed.
Print Assumptions C18_resync_principals_eq_fresh.

(* every such history keeps the stored computed sets coherent (each is invalidated or what the views give) *)
Theorem C18_history_coherent :
  forall (body : Type) (empty : body) (sync : body -> verdict) (h : list (pop body)) (db : list (doc body)) (ps : princs),
  coherent db ps -> coherent (fst (hist empty sync (db, ps) h)) (snd (hist empty sync (db, ps) h)).
Proof. exact hist_coherent. Qed.
Print Assumptions C18_history_coherent.

(* running resync again changes nothing: no document is written, docs_changed = 0, principals untouched.
   Unconditional: any database, any function, either tree. *)
Theorem C18_resync_idempotent :
  forall (body : Type) (sync_new : body -> verdict) (db : list (doc body))
         (fixed : switches) (ifixed regen : bool) (alloc alloc' : list N) (ps : princs),
  let r := run sync_new fixed ifixed regen alloc db ps in
  run sync_new fixed ifixed false alloc' (fst (fst r)) (snd r) = (fst (fst r), 0, snd r).
Proof. exact idempotent. Qed.
Print Assumptions C18_resync_idempotent.

(* regenerate_sequences: under the allocator's contract (C07: fresh, distinct sequences) every live document
   gets a sequence above its old one and above every sequence in use, recorded in recent_sequences together
   with the earlier ones; no two documents share one; tombstoned documents are left alone *)
Theorem C18_resync_regen_sequences_increase :
  forall (body : Type) (sync_new : body -> verdict) (db : list (doc body)) (fixed : switches) (alloc : list N),
  (nlive db <= length alloc)%nat -> NoDup alloc -> (forall s d, In s alloc -> In d db -> d_seq d < s) ->
  let rs := fst (resync_db sync_new fixed true alloc db) in
  Forall2 (fun d d' => if live_b d
                       then d_seq d < d_seq d' /\ (forall e, In e db -> d_seq e < d_seq d') /\
                            In (d_seq d') (d_recent d') /\ incl (d_recent d) (d_recent d')
                       else d' = d) db rs
  /\ NoDup (map (@d_seq body) (filter live_b rs)).
Proof. exact regen_increase. Qed.
Print Assumptions C18_resync_regen_sequences_increase.

(* every visited live document ends with the new function's verdict on its current revision; with the
   repair of the rejection branch (sw_rej) a document the new function rejects keeps no channel and confers
   nothing.  Without that repair role() grants made before the rejection are stored and become effective:
   C18_Refuted.resync_rejected_roles_refuted. *)
Theorem C18_resync_rejected_hidden :
  forall (body : Type) (sync_new : body -> verdict) (db : list (doc body)) (fixed : switches) (regen : bool) (alloc : list N),
  Forall2 (fun d d' => forall r b, d_cur d = Some (r, b, false) ->
              seteq (d_chans d') (vchans (sync_new b)) /\ seteq (d_access d') (vaccess (sync_new b)) /\
              seteq (d_roles d') (rroles fixed (sync_new b)) /\
              (accepted (sync_new b) = false -> sw_rej fixed = true ->
                 d_chans d' = [] /\ d_access d' = [] /\ d_roles d' = []))
    db (fst (resync_db sync_new fixed regen alloc db)).
Proof.
  intros. eapply Forall2_impl; [|apply visited_state].
  intros d d' H r b Hc. destruct (H r b Hc) as [H1 [H2 H3]].
  repeat (split; [assumption|]). intros Hr Hf.
  destruct (sync_new b) as [c a rl|rl]; [discriminate|]. cbn in *. rewrite Hf in H3.
  assert (E : forall A (l : list A), seteq l [] -> l = []).
  { intros A [|x l] Hl; [reflexivity|]. exfalso. apply (Hl x). left. reflexivity. }
  repeat split; apply E; assumption.
Qed.
Print Assumptions C18_resync_rejected_hidden.

(* the clause "and for each conflicting leaf": with the repair of getResyncedDocument (sw_leaf fixed = true, Switch.code_fixed) every
   non-winning leaf of every visited live document authorises reads by exactly the channels the new
   function produces for that leaf.  For the unrepaired function the statement is refuted:
   C18_Refuted.resync_leaf_channels_eq_fresh_refuted.  (Stated against the function's verdict on the leaf:
   the value a freshly written database STORES for a leaf depends on the order of the writes, see
   C18_Refuted.fresh_displaced_winner_leaf_channels_lost.) *)
Theorem C18_resync_leaf_channels_eq_fresh :
  forall (body : Type) (sync_new : body -> verdict) (db : list (doc body)) (fixed : switches) (regen : bool) (alloc : list N),
  sw_leaf fixed = true ->
  Forall2 (fun d d' => live_b d = true -> forall l, In l (d_leaves d') -> is_cur d' l = false ->
                       seteq (leaf_chans d' l) (vchans (sync_new (l_body l))))
    db (fst (resync_db sync_new fixed regen alloc db)).
Proof. exact leaf_channels_fixed. Qed.
Print Assumptions C18_resync_leaf_channels_eq_fresh.

(* writes racing with the resync (partial: both kinds of step are taken to be atomic -- the write path
   under the new function, and ResyncDocument's CAS-guarded update).  For EVERY interleaving of writes under
   the new function with visits of the resync callback: a document visited at least once, or created after
   the function change, carries -- whenever it is live -- the new function's verdict on its current revision. *)
Theorem C18_resync_concurrent_write_partial :
  forall (body : Type) (empty : body) (sync_new : body -> verdict) (fixed : switches) (regen : bool)
         (db0 : list (doc body)) (ops : list (cop body)) (d : doc body),
  In d (crun empty sync_new fixed regen db0 ops) ->
  In (d_id d) (visited ops) \/ ~ In (d_id d) (map (@d_id body) db0) ->
  state_ok sync_new fixed d.
Proof. exact concurrent_write. Qed.
Print Assumptions C18_resync_concurrent_write_partial.

(* non-vacuity: a concrete corpus (conflict, grant, tombstone), a pair of functions and principals that
   meet every hypothesis above, and on which the resync really rewrites documents *)
Definition nv_old (b : N) : verdict := if b =? 0 then Ok [] [] [] else Ok [b] [(PU 1, b)] [(1, 7)].
Definition nv_new (b : N) : verdict := if b =? 0 then Ok [] [] [] else Ok [b + 10] [(PU 1, b + 20); (PR 7, b + 30)] [].
Definition nv_ws : list (wop N) :=
  [mkW 1 (1, 9) [] 3 false; mkW 1 (1, 1) [] 4 false; mkW 2 (1, 1) [] 5 false; mkW 2 (2, 1) [(1, 1)] 0 true; mkW 3 (1, 2) [] 6 false].
Definition nv_ps : princs := warm (replay 0 nv_old [] nv_ws) (mkPs [mkUser 1 [2] [] None None] [mkRole 7 [] None]).

Example C18_nonvacuous :
  accepts 0 nv_old nv_ws /\ accepts 0 nv_new nv_ws /\ tomb_agree 0 nv_old nv_new nv_ws /\
  coherent (replay 0 nv_old [] nv_ws) nv_ps /\
  snd (resync_db nv_new (mkSw true true) false [] (replay 0 nv_old [] nv_ws)) = 2 /\
  nlive (replay 0 nv_old [] nv_ws) = 2%nat /\
  map (@tombstoned N) (replay 0 nv_old [] nv_ws) = [false; true; false].
Proof.
  split; [split; [vm_compute; reflexivity | repeat constructor]|].
  split; [split; [vm_compute; reflexivity | repeat constructor]|].
  split; [split; [reflexivity | repeat constructor; cbn; intros; try discriminate; reflexivity]|].
  split; [|split; [vm_compute; reflexivity | split; vm_compute; reflexivity]].
  unfold coherent. split.
  - intros u Hu. vm_compute in Hu. destruct Hu as [<-|[]].
    split; intros c Hc; vm_compute in Hc; inversion Hc; subst c; vm_compute; intros x; tauto.
  - intros r Hr c Hc. vm_compute in Hr. destruct Hr as [<-|[]]. vm_compute in Hc. inversion Hc; subst c.
    vm_compute. intros x; tauto.
Qed.
