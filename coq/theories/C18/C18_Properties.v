(* C18 -- Resync equals evaluating the new sync function from scratch.
   Nothing but the property theorems (each closed by [exact] of a lemma proved elsewhere, then Print
   Assumptions).  All statements quantify over EVERY body type, every pair of sync functions
   [sync_old sync_new : body -> verdict], every corpus of revisions [ws] (any number of documents, conflicts,
   tombstones, resurrections) and both settings of regenerate_sequences.

   old   = replay empty sync_old [] ws     the database as written under the old function
   rs    = the database after the resync run under sync_new   (resync_db / run)
   fresh = replay empty sync_new [] ws     the same revisions written under the new function from the start

   [fixed : switches] (sw_leaf, sw_rej) and [ifixed] stand for the three switches of Switch.v; a theorem that
   holds whatever their value quantifies over them, the ones that need a repair say so in a hypothesis.
   The hypotheses, where present:  [accepts]: the function rejects no revision of the corpus (a rejected write
   is simply absent from a database; rejected-at-resync is covered by C18_resync_rejected_hidden);
   [tomb_agree]: both functions give the same verdict on tombstone bodies -- resync never visits a
   tombstoned document (statement without it: C18_Refuted.resync_tombstone_eq_fresh_refuted);
   [coherent]: before the resync every computed set stored in a principal document is the one the access
   views produce (that is property C03). *)
From SG Require Import Base.Prelude C18.Resync C18.SetLemmas C18.ResyncProofs C18.ReplayProofs C18.AccessProofs C18.FinalProofs C18.Concurrent C18.HistoryProofs.
From SG Require Import C18.Run C18.RunLemmas C18.RunInv C18.RunTheorems C18.RunTheorems2 C18.RunTheorems3.
Open Scope N_scope.

(* every live document's channel assignment is the one of the fresh database (and the trees coincide) *)
Theorem C18_resync_winner_channels_eq_fresh :
  forall (body : Type) (empty : body) (sync_old sync_new : body -> verdict) (ws : list (wop body))
         (fixed : switches) (regen : bool) (alloc : list N),
  accepts empty sync_old ws -> accepts empty sync_new ws ->
  Forall2 (fun d f => d_id d = d_id f /\ d_cur d = d_cur f /\
                      (tombstoned d = false -> seteq (d_chans d) (d_chans f)))
    (fst (resync_db sync_new fixed regen alloc (replay empty sync_old [] ws))) (replay empty sync_new [] ws).
Proof. exact winner_channels. Qed.
Print Assumptions C18_resync_winner_channels_eq_fresh.

(* ... and so are the access and role grants it confers *)
Theorem C18_resync_access_eq_fresh :
  forall (body : Type) (empty : body) (sync_old sync_new : body -> verdict) (ws : list (wop body))
         (fixed : switches) (regen : bool) (alloc : list N),
  accepts empty sync_old ws -> accepts empty sync_new ws ->
  Forall2 (fun d f => d_id d = d_id f /\
                      (tombstoned d = false -> seteq (d_access d) (d_access f) /\ seteq (d_roles d) (d_roles f)))
    (fst (resync_db sync_new fixed regen alloc (replay empty sync_old [] ws))) (replay empty sync_new [] ws).
Proof. exact doc_access. Qed.
Print Assumptions C18_resync_access_eq_fresh.

(* what the access views yield for any principal is the same in the two databases *)
Theorem C18_resync_grants_eq_fresh :
  forall (body : Type) (empty : body) (sync_old sync_new : body -> verdict) (ws : list (wop body))
         (fixed : switches) (regen : bool) (alloc : list N),
  accepts empty sync_old ws -> accepts empty sync_new ws -> tomb_agree empty sync_old sync_new ws ->
  forall p u,
    seteq (granted (fst (resync_db sync_new fixed regen alloc (replay empty sync_old [] ws))) p)
          (granted (replay empty sync_new [] ws) p) /\
    seteq (role_granted (fst (resync_db sync_new fixed regen alloc (replay empty sync_old [] ws))) u)
          (role_granted (replay empty sync_new [] ws) u).
Proof. exact grants_eq. Qed.
Print Assumptions C18_resync_grants_eq_fresh.

(* after the final invalidation every user's effective access (own channels plus those of every role held)
   is the one computed from scratch on the fresh database, and the user sees exactly the same documents.
   Needs: sequences not regenerated, OR the invalidation repair (regen_inval_fixed).  The excluded
   combination is refuted: C18_Refuted.resync_regen_principals_refuted. *)
Theorem C18_resync_visible_eq_fresh :
  forall (body : Type) (empty : body) (sync_old sync_new : body -> verdict) (ws : list (wop body))
         (fixed : switches) (ifixed regen : bool) (alloc : list N) (ps : princs),
  accepts empty sync_old ws -> accepts empty sync_new ws -> tomb_agree empty sync_old sync_new ws ->
  coherent (replay empty sync_old [] ws) ps -> regen = false \/ ifixed = true ->
  let r := run sync_new fixed ifixed regen alloc (replay empty sync_old [] ws) ps in
  forall u, In u (ps_users (snd r)) ->
    seteq (effective (fst (fst r)) (snd r) u)
          (effective (replay empty sync_new [] ws) (invalidate_all (snd r)) (inval_user u)) /\
    visible (fst (fst r)) (snd r) u = visible (replay empty sync_new [] ws) (invalidate_all (snd r)) (inval_user u).
Proof. exact principals_visible. Qed.
Print Assumptions C18_resync_visible_eq_fresh.

(* the same, quantified over EVERY pre-state of the principals a deployment can be in: principals as created,
   then ANY history [h] of document writes -- each invalidating, independently, the computed CHANNELS of the
   principals whose access() grants it changes and the computed ROLES of the users whose role() grants it
   changes (MarkPrincipalsChanged) -- and of user loads (which rebuild what is invalidated); i.e. every
   combination of pending channel / role invalidations, users never loaded again before the resync ends
   included.  After the resync each user's roles, effective channels and visible documents are those of the
   fresh database. *)
Theorem C18_resync_principals_eq_fresh :
  forall (body : Type) (empty : body) (sync_old sync_new : body -> verdict) (h : list (pop body)) (ps0 : princs)
         (fixed : switches) (ifixed regen : bool) (alloc : list N),
  accepts empty sync_old (writes_of h) -> accepts empty sync_new (writes_of h) ->
  tomb_agree empty sync_old sync_new (writes_of h) -> regen = false \/ ifixed = true ->
  let st := hist empty sync_old (@nil (doc body), warm (@nil (doc body)) (invalidate_all ps0)) h in
  let r := run sync_new fixed ifixed regen alloc (fst st) (snd st) in
  forall u, In u (ps_users (snd r)) ->
    seteq (user_rl (fst (fst r)) u) (user_rl (replay empty sync_new [] (writes_of h)) (inval_user u)) /\
    seteq (effective (fst (fst r)) (snd r) u)
          (effective (replay empty sync_new [] (writes_of h)) (invalidate_all (snd r)) (inval_user u)) /\
    visible (fst (fst r)) (snd r) u = visible (replay empty sync_new [] (writes_of h)) (invalidate_all (snd r)) (inval_user u).
Proof. exact principals_history. Qed.
Print Assumptions C18_resync_principals_eq_fresh.

(* every such history keeps the stored computed sets coherent (each is invalidated or what the views give) *)
Theorem C18_history_coherent :
  forall (body : Type) (empty : body) (sync : body -> verdict) (h : list (pop body)) (db : list (doc body)) (ps : princs),
  coherent db ps -> coherent (fst (hist empty sync (db, ps) h)) (snd (hist empty sync (db, ps) h)).
Proof. exact hist_coherent. Qed.
Print Assumptions C18_history_coherent.

(* running resync again changes nothing: no document is written, docs_changed = 0; the principals are untouched by
   the code as found, and invalidated once more by the repaired invalidatePrincipals (sw_inval, Switch.always_inval_fixed:
   it invalidates after EVERY completed run) -- which leaves every effective access set as it is (AccessProofs.
   finish_invalidated, coherent_effective).  Unconditional: any database, any function, every tree.
   (Restated when /repo bc044df made "principals untouched" false for the repaired code.) *)
Theorem C18_resync_idempotent :
  forall (body : Type) (sync_new : body -> verdict) (db : list (doc body))
         (fixed : switches) (ifixed regen : bool) (alloc alloc' : list N) (ps : princs),
  let r := run sync_new fixed ifixed regen alloc db ps in
  run sync_new fixed ifixed false alloc' (fst (fst r)) (snd r) =
  (fst (fst r), 0, if sw_inval fixed then invalidate_all (snd r) else snd r).
Proof. exact idempotent. Qed.
Print Assumptions C18_resync_idempotent.

(* regenerate_sequences: under the allocator's contract (C07: fresh, distinct sequences) every live document
   gets a sequence above its old one and above every sequence in use, recorded in recent_sequences together
   with the earlier ones; no two documents share one; tombstoned documents are left alone *)
Theorem C18_resync_regen_sequences_increase :
  forall (body : Type) (sync_new : body -> verdict) (db : list (doc body)) (fixed : switches) (alloc : list N),
  (nlive db <= length alloc)%nat -> NoDup alloc -> (forall s d, In s alloc -> In d db -> d_seq d < s) ->
  let rs := fst (resync_db sync_new fixed true alloc db) in
  Forall2 (fun d d' => if live_b d
                       then d_seq d < d_seq d' /\ (forall e, In e db -> d_seq e < d_seq d') /\
                            In (d_seq d') (d_recent d') /\ incl (d_recent d) (d_recent d')
                       else d' = d) db rs
  /\ NoDup (map (@d_seq body) (filter live_b rs)).
Proof. exact regen_increase. Qed.
Print Assumptions C18_resync_regen_sequences_increase.

(* every visited live document ends with the new function's verdict on its current revision; with the
   repair of the rejection branch (sw_rej) a document the new function rejects keeps no channel and confers
   nothing.  Without that repair role() grants made before the rejection are stored and become effective:
   C18_Refuted.resync_rejected_roles_refuted. *)
Theorem C18_resync_rejected_hidden :
  forall (body : Type) (sync_new : body -> verdict) (db : list (doc body)) (fixed : switches) (regen : bool) (alloc : list N),
  Forall2 (fun d d' => forall r b, d_cur d = Some (r, b, false) ->
              seteq (d_chans d') (vchans (sync_new b)) /\ seteq (d_access d') (vaccess (sync_new b)) /\
              seteq (d_roles d') (rroles fixed (sync_new b)) /\
              (accepted (sync_new b) = false -> sw_rej fixed = true ->
                 d_chans d' = [] /\ d_access d' = [] /\ d_roles d' = []))
    db (fst (resync_db sync_new fixed regen alloc db)).
Proof.
  intros. eapply Forall2_impl; [|apply visited_state].
  intros d d' H r b Hc. destruct (H r b Hc) as [H1 [H2 H3]].
  repeat (split; [assumption|]). intros Hr Hf.
  destruct (sync_new b) as [c a rl|rl]; [discriminate|]. cbn in *. rewrite Hf in H3.
  assert (E : forall A (l : list A), seteq l [] -> l = []).
  { intros A [|x l] Hl; [reflexivity|]. exfalso. apply (Hl x). left. reflexivity. }
  repeat split; apply E; assumption.
Qed.
Print Assumptions C18_resync_rejected_hidden.

(* the clause "and for each conflicting leaf": with the repair of getResyncedDocument (sw_leaf fixed = true, Switch.code_fixed) every
   non-winning leaf of every visited live document authorises reads by exactly the channels the new
   function produces for that leaf.  For the unrepaired function the statement is refuted:
   C18_Refuted.resync_leaf_channels_eq_fresh_refuted.  (Stated against the function's verdict on the leaf:
   the value a freshly written database STORES for a leaf depends on the order of the writes, see
   C18_Refuted.fresh_displaced_winner_leaf_channels_lost.) *)
Theorem C18_resync_leaf_channels_eq_fresh :
  forall (body : Type) (sync_new : body -> verdict) (db : list (doc body)) (fixed : switches) (regen : bool) (alloc : list N),
  sw_leaf fixed = true ->
  Forall2 (fun d d' => live_b d = true -> forall l, In l (d_leaves d') -> is_cur d' l = false ->
                       seteq (leaf_chans d' l) (vchans (sync_new (l_body l))))
    db (fst (resync_db sync_new fixed regen alloc db)).
Proof. exact leaf_channels_fixed. Qed.
Print Assumptions C18_resync_leaf_channels_eq_fresh.

(* writes racing with the resync (partial: both kinds of step are taken to be atomic -- the write path
   under the new function, and ResyncDocument's CAS-guarded update).  For EVERY interleaving of writes under
   the new function with visits of the resync callback: a document visited at least once, or created after
   the function change, carries -- whenever it is live -- the new function's verdict on its current revision. *)
Theorem C18_resync_concurrent_write_partial :
  forall (body : Type) (empty : body) (sync_new : body -> verdict) (fixed : switches) (regen : bool)
         (db0 : list (doc body)) (ops : list (cop body)) (d : doc body),
  In d (crun empty sync_new fixed regen db0 ops) ->
  In (d_id d) (visited ops) \/ ~ In (d_id d) (map (@d_id body) db0) ->
  state_ok sync_new fixed d.
Proof. exact concurrent_write. Qed.
Print Assumptions C18_resync_concurrent_write_partial.

(* ================================================================================================================
   The resync RUN as an interruptible process (Run.v).  A state [st : rst body] is the bucket (documents of several
   collections, the by-CAS index the DCP feed reads), the persisted status / checkpoint documents, the manager's
   memory, the principals.  [rrun st ops] executes ANY list of steps
       OWrite w              a document write under the CURRENT function of its collection (concurrent, or between runs)
       OStart reset regen cs ResyncManager.Start: resumes the stored run id (status stopped / crashed, no reset, same
                             collections) from the persisted checkpoints and docs_changed, otherwise a new id from CAS 0
       OVisit c s            the next event of collection c's feed snapshot reaches ResyncDocument
       OStop / OCrash ck ch  Stop (checkpoints and counter persisted)  /  the process dies (persisted values are any
                             values not above the in-memory ones; the manager's memory is lost)
       OFinish pseqs         the feeds are exhausted: invalidatePrincipals, status completed
       OLoad u               a user is loaded
   [col_of (d_id d)] is the collection of document d, [syncs c] the current function of collection c, [allcols] the
   collections of the database.  [BInv col_of st0] is the store invariant of an initial state (C18_run_initial_state:
   any list of documents with distinct ids; C18_run_store_invariant: preserved by every step, under any functions --
   in particular by the writes under the OLD functions that build the database).
   ================================================================================================================ *)

Theorem C18_run_initial_state :
  forall (body : Type) (col_of : N -> N) (db : list (doc body)) (ps : princs) (pseq : list N),
  NoDup (map (@d_id body) db) -> BInv col_of (rinit db ps pseq) /\ r_state (rinit db ps pseq) = MNone.
Proof. intros. split; [apply binv_init; assumption | reflexivity]. Qed.
Print Assumptions C18_run_initial_state.

Theorem C18_run_store_invariant :
  forall (body : Type) (empty : body) (col_of : N -> N) (syncs : N -> body -> verdict) (allcols : list N) (fixed : switches)
         (ops : list (rop body)) (st : rst body),
  BInv col_of st -> BInv col_of (rrun empty col_of syncs allcols fixed st ops).
Proof. exact binv_run. Qed.
Print Assumptions C18_run_store_invariant.

(* (1) after a run that reports completed EVERY live document of the selected collections carries what the current
   function computes for its current revision (channels, access grants, role grants) -- for every interleaving of
   document writes, visits, stops, crashes (with any loss of checkpoint / counter) and restarts with any options *)
Theorem C18_resync_complete_after_success :
  forall (body : Type) (empty : body) (col_of : N -> N) (syncs : N -> body -> verdict) (allcols : list N) (fixed : switches)
         (ops : list (rop body)) (st0 : rst body),
  BInv col_of st0 -> r_state st0 = MNone ->
  let st := rrun empty col_of syncs allcols fixed st0 ops in
  r_state st = MCompleted ->
  forall d, In d (r_docs st) -> In (col_of (d_id d)) (r_cols st) -> state_ok (fn col_of syncs (d_id d)) fixed d.
Proof. exact complete_after_success. Qed.
Print Assumptions C18_resync_complete_after_success.

(* (1) stop / crash + resume covers the documents not yet processed, none is skipped: without concurrent writes and
   without regenerate_sequences, ANY schedule of segments over the collections [cs] that ends completed leaves exactly
   the database one uninterrupted pass leaves ([fresh_run]: every document of a selected collection replaced by its
   one-visit result [pass], the others untouched) *)
Theorem C18_resumed_run_equals_fresh_run :
  forall (body : Type) (empty : body) (col_of : N -> N) (syncs : N -> body -> verdict) (allcols : list N) (fixed : switches)
         (cs : list N) (ops : list (rop body)) (st0 : rst body),
  BInv col_of st0 -> r_state st0 = MNone ->
  Forall (start_plain body allcols cs) ops ->
  let st := rrun empty col_of syncs allcols fixed st0 ops in
  r_state st = MCompleted -> r_docs st = fresh_run body col_of syncs fixed cs (r_docs st0).
Proof. exact resumed_run_equals_fresh_run. Qed.
Print Assumptions C18_resumed_run_equals_fresh_run.

(* (1) at EVERY point of every schedule (so in particular after an interrupted run) each document is either in the
   top-level state (current revision, channels, access, roles) of a document of the initial database -- fully old --
   or carries exactly the current function's channels AND access AND roles for its current revision -- fully new;
   never channels from one and grants from the other *)
Theorem C18_interrupted_run_is_safe :
  forall (body : Type) (empty : body) (col_of : N -> N) (syncs : N -> body -> verdict) (allcols : list N) (fixed : switches)
         (ops : list (rop body)) (st0 : rst body) (d : doc body),
  In d (r_docs (rrun empty col_of syncs allcols fixed st0 ops)) ->
  (exists d0, In d0 (r_docs st0) /\ d_id d = d_id d0 /\ d_cur d = d_cur d0 /\ d_chans d = d_chans d0 /\
              d_access d = d_access d0 /\ d_roles d = d_roles d0) \/
  match d_cur d with
  | Some (_, b, _) => d_chans d = vchans (fn col_of syncs (d_id d) b) /\ d_access d = vaccess (fn col_of syncs (d_id d) b) /\
                      d_roles d = rroles fixed (fn col_of syncs (d_id d) b)
  | None => True
  end.
Proof. exact interrupted_run_is_safe. Qed.
Print Assumptions C18_interrupted_run_is_safe.

(* (2) the documents of a collection that no Start selected (and no write targeted) are exactly those of the initial
   database, whatever else happened *)
Theorem C18_only_selected_collections_change :
  forall (body : Type) (empty : body) (col_of : N -> N) (syncs : N -> body -> verdict) (allcols : list N) (fixed : switches)
         (ops : list (rop body)) (st0 : rst body) (c : N),
  BInv col_of st0 ->
  ~ In c (r_sel (rrun empty col_of syncs allcols fixed st0 ops)) ->
  (forall w, In (OWrite w) ops -> col_of (w_doc w) <> c) ->
  filter (fun d => col_of (d_id d) =? c) (r_docs (rrun empty col_of syncs allcols fixed st0 ops)) =
  filter (fun d => col_of (d_id d) =? c) (r_docs st0).
Proof. exact only_selected_collections_change. Qed.
Print Assumptions C18_only_selected_collections_change.

(* (2) every invalidateAllPrincipals call names ALL collections of the database -- a superset of those resynced (the
   code passes db.CollectionByID, not the selected collections: principals are never under-invalidated) -- and the end
   of a run invalidates every principal always (repaired code, sw_inval) / exactly when the run's counter is positive
   (code as found).  "Always" except on a database in which no document was ever written ([r_clock] = 0) and no principal
   document ever numbered: the
   invalidation is stamped with the database's sequence counter, and a stamp of 0 means "not invalidated" -- there is then
   no document whose grants a principal could be stale about *)
Theorem C18_invalidation_covers_all_collections :
  forall (body : Type) (empty : body) (col_of : N -> N) (syncs : N -> body -> verdict) (allcols : list N) (fixed : switches)
         (ops : list (rop body)) (st0 : rst body),
  r_log st0 = [] -> Forall (eq allcols) (r_log (rrun empty col_of syncs allcols fixed st0 ops)).
Proof. exact invalidation_covers_all_collections. Qed.
Print Assumptions C18_invalidation_covers_all_collections.

Theorem C18_finish_invalidates :
  forall (body : Type) (allcols : list N) (fixed : switches) (st : rst body) (pseqs : list N),
  r_state st = MRunning -> forallb (fun p : N * list event => null (snd p)) (r_queue st) = true ->
  let st' := do_finish allcols fixed st pseqs in
  r_state st' = MCompleted /\
  ((sw_inval fixed = true /\ 0 < r_clock st) \/ 0 < r_changed st ->
     r_ps st' = invalidate_all (r_ps st) /\ r_log st' = r_log st ++ [allcols] /\ r_dirty st' = false) /\
  (sw_inval fixed = false -> r_changed st = 0 -> r_ps st' = r_ps st /\ r_log st' = r_log st /\ r_dirty st' = r_dirty st).
Proof. exact finish_invalidates. Qed.
Print Assumptions C18_finish_invalidates.

(* whatever the tree: a run that is only ever stopped and resumed -- never `reset`, never crashed, always the same
   collection set -- has invalidated all principals after its last resync write when it reports completed ([r_dirty]: a
   resync write has happened since all principals were last invalidated).  With `reset` / a changed collection set / a
   crash that loses the counter the statement is FALSE for the code as found (sw_inval = false):
   C18_Refuted.resync_reset_after_interrupted_run_principals_stale; for the repaired code it holds for EVERY completed
   run: C18_completed_run_invalidates below *)
Theorem C18_single_id_run_invalidates :
  forall (body : Type) (empty : body) (col_of : N -> N) (syncs : N -> body -> verdict) (allcols : list N) (fixed : switches)
         (cs : list N) (ops : list (rop body)) (st0 : rst body),
  r_state st0 = MNone -> r_dirty st0 = false -> Forall (gentle body allcols cs) ops ->
  r_state (rrun empty col_of syncs allcols fixed st0 ops) = MCompleted ->
  r_dirty (rrun empty col_of syncs allcols fixed st0 ops) = false.
Proof. exact single_id_run_invalidates. Qed.
Print Assumptions C18_single_id_run_invalidates.

(* with the repair of invalidatePrincipals (sw_inval = Switch.always_inval_fixed = true, /repo bc044df): EVERY run that
   reports completed -- any run ids, resets, changed collection sets, crashes losing checkpoint and counter,
   concurrent writes -- has invalidated all principals after its last resync write ... *)
Theorem C18_completed_run_invalidates :
  forall (body : Type) (empty : body) (col_of : N -> N) (syncs : N -> body -> verdict) (allcols : list N) (fixed : switches),
  sw_inval fixed = true ->
  forall (ops : list (rop body)) (st0 : rst body),
  r_state st0 = MNone -> r_dirty st0 = false ->
  r_state (rrun empty col_of syncs allcols fixed st0 ops) = MCompleted ->
  r_dirty (rrun empty col_of syncs allcols fixed st0 ops) = false.
Proof. exact completed_run_invalidates. Qed.
Print Assumptions C18_completed_run_invalidates.

(* ... and the principals' stored computed sets are coherent with the documents as they are (every stored set is
   invalidated or what the access views give): after reload every user's roles and effective channels are those
   recomputed from scratch from the resynced documents -- which by C18_resync_complete_after_success carry the new
   function's grants (tombstones excepted: C18_stale_after_resync_only_untouched_tombstones).  Principals as in Resync.v:
   the computed channels of ONE collection. *)
Theorem C18_completed_run_principals_reflect_documents :
  forall (body : Type) (empty : body) (col_of : N -> N) (syncs : N -> body -> verdict) (allcols : list N) (fixed : switches),
  sw_inval fixed = true ->
  forall (ops : list (rop body)) (st0 : rst body),
  r_state st0 = MNone -> 0 < r_clock st0 ->        (* some document has been written: the sequence counter is positive *)
  let st := rrun empty col_of syncs allcols fixed st0 ops in
  r_state st = MCompleted ->
  coherent (r_docs st) (r_ps st) /\
  forall u, In u (ps_users (r_ps st)) ->
    seteq (user_rl (r_docs st) u) (compute_user_rl (r_docs st) u) /\
    seteq (effective (r_docs st) (r_ps st) u) (effective (r_docs st) (invalidate_all (r_ps st)) (inval_user u)).
Proof. exact completed_run_principals. Qed.
Print Assumptions C18_completed_run_principals_reflect_documents.

(* (3) [stale d]: the stored channels / access / roles of d differ (as sets) from what the current function computes for
   the body of its current revision.  After a completed run, under every schedule with concurrent writes, a stale
   document of a selected collection is a TOMBSTONE whose top-level state is that of a tombstone of the initial
   database which was already stale (known finding resync-tombstone-not-revisited) ... *)
Theorem C18_stale_after_resync_only_untouched_tombstones :
  forall (body : Type) (empty : body) (col_of : N -> N) (syncs : N -> body -> verdict) (allcols : list N) (fixed : switches)
         (ops : list (rop body)) (st0 : rst body),
  BInv col_of st0 -> r_state st0 = MNone ->
  let st := rrun empty col_of syncs allcols fixed st0 ops in
  r_state st = MCompleted ->
  forall d, In d (r_docs st) -> In (col_of (d_id d)) (r_cols st) -> stale body col_of syncs fixed d ->
  tombstoned d = true /\ exists d0, In d0 (r_docs st0) /\ top_eq body d d0 /\ stale body col_of syncs fixed d0.
Proof. exact stale_only_untouched_tombstones. Qed.
Print Assumptions C18_stale_after_resync_only_untouched_tombstones.

(* ... and without concurrent writes this is an equivalence, document by document: after a completed run the stale
   documents are EXACTLY the tombstones whose (old) stored state differs from the new function's evaluation -- any other
   stale document is a new violation *)
Theorem C18_stale_after_resync_iff_tombstone_grant :
  forall (body : Type) (empty : body) (col_of : N -> N) (syncs : N -> body -> verdict) (allcols : list N) (fixed : switches)
         (ops : list (rop body)) (st0 : rst body),
  BInv col_of st0 -> r_state st0 = MNone -> Forall (nowrite body) ops ->
  let st := rrun empty col_of syncs allcols fixed st0 ops in
  r_state st = MCompleted ->
  Forall2 (fun d0 d => In (col_of (d_id d0)) (r_cols st) ->
                       (stale body col_of syncs fixed d <-> tombstoned d0 = true /\ stale body col_of syncs fixed d0))
    (r_docs st0) (r_docs st).
Proof. exact stale_after_resync_iff_tombstone_grant. Qed.
Print Assumptions C18_stale_after_resync_iff_tombstone_grant.

(* (4) regenerate_sequences across interruptions: every Start regenerating, no concurrent writes, the allocator's
   contract (C07) on the sequences consumed ([r_alloc]: pairwise distinct, above every sequence [hi0] that existed).
   After the run has completed: every live document of a selected collection carries a sequence above hi0, recorded in
   recent_sequences; no two documents share a regenerated sequence; and when the run covered all collections every
   principal document carries a fresh sequence too, distinct from each other and from every document's *)
Theorem C18_regen_run_sequences :
  forall (body : Type) (empty : body) (col_of : N -> N) (syncs : N -> body -> verdict) (allcols : list N) (fixed : switches)
         (hi0 : N) (ops : list (rop body)) (st0 : rst body),
  BInv col_of st0 -> r_state st0 = MNone -> r_alloc st0 = [] ->
  (forall d, In d (r_docs st0) -> d_seq d <= hi0) -> (forall s, In s (r_pseq st0) -> s <= hi0) ->
  Forall (regen_op body hi0) ops ->
  let st := rrun empty col_of syncs allcols fixed st0 ops in
  NoDup (r_alloc st) -> Forall (fun s => hi0 < s) (r_alloc st) ->
  r_state st = MCompleted ->
  (forall d, In d (r_docs st) -> In (col_of (d_id d)) (r_cols st) -> live_b d = true -> hi0 < d_seq d /\ In (d_seq d) (d_recent d)) /\
  (forall d1 d2, In d1 (r_docs st) -> In d2 (r_docs st) -> d_id d1 <> d_id d2 -> hi0 < d_seq d1 -> d_seq d1 <> d_seq d2) /\
  (r_hasall st = true ->
     (forall s, In s (r_pseq st) -> hi0 < s) /\ NoDup (r_pseq st) /\
     (forall d s, In d (r_docs st) -> In s (r_pseq st) -> d_seq d <> s)).
Proof. exact regen_run_sequences. Qed.
Print Assumptions C18_regen_run_sequences.

(* non-vacuity of the run theorems: three documents in two collections (one conflicted, one tombstoned), a run over both
   collections that is stopped after two visits, a write to a visited document while it is stopped, a resumed segment
   that completes; the hypotheses hold, documents are rewritten in both segments, the principals are invalidated *)
Definition rv_col (id : N) : N := id / 100.
Definition rv_old (c : N) (b : N) : verdict := if b =? 0 then Ok [] [] [] else Ok [b] [(PU 1, b)] [(1, 7)].
Definition rv_new (c : N) (b : N) : verdict := if b =? 0 then Ok [] [] [] else Ok [b + 10 + c] [(PU 1, b + 20); (PR 7, b + 30)] [].
Definition rv_st0 : rst N :=
  rrun 0 rv_col rv_old [0; 1] (mkSw true true true) (rinit [] (mkPs [mkUser 1 [2] [] (Some [2]) (Some [])] [mkRole 7 [] (Some [])]) [])
       [OWrite (mkW 1 (1, 9) [] 3 false); OWrite (mkW 1 (1, 1) [] 4 false); OWrite (mkW 101 (1, 1) [] 5 false);
        OWrite (mkW 2 (1, 1) [] 6 false); OWrite (mkW 2 (2, 1) [(1, 1)] 0 true)].
Definition rv_ops : list (rop N) :=
  [OStart false false []; OVisit 0 0; OVisit 1 0; OStop; OWrite (mkW 1 (2, 1) [(1, 9)] 8 false);
   OStart false false []; OVisit 0 0; OVisit 0 0; OVisit 1 0; OFinish []].
Definition rv_st : rst N := rrun 0 rv_col rv_new [0; 1] (mkSw true true true) rv_st0 rv_ops.

Example C18_run_nonvacuous :
  BInv rv_col rv_st0 /\ r_state rv_st0 = MNone /\ r_state rv_st = MCompleted /\ r_cols rv_st = [0; 1] /\
  r_pchanged rv_st = 2 /\ r_log rv_st = [[0; 1]] /\ r_dirty rv_st = false /\
  map (fun d => (d_id d, d_chans d, tombstoned d)) (r_docs rv_st) = [(1, [18], false); (101, [16], false); (2, [], true)] /\
  Forall (gentle N [0; 1] [0; 1]) rv_ops.
Proof.
  split; [apply (binv_run N 0 rv_col rv_old [0; 1] (mkSw true true true)); apply binv_init; constructor|].
  split; [reflexivity|]. split; [vm_compute; reflexivity|]. split; [vm_compute; reflexivity|].
  split; [vm_compute; reflexivity|]. split; [vm_compute; reflexivity|]. split; [vm_compute; reflexivity|].
  split; [vm_compute; reflexivity|]. repeat constructor.
Qed.

(* non-vacuity: a concrete corpus (conflict, grant, tombstone), a pair of functions and principals that
   meet every hypothesis above, and on which the resync really rewrites documents *)
Definition nv_old (b : N) : verdict := if b =? 0 then Ok [] [] [] else Ok [b] [(PU 1, b)] [(1, 7)].
Definition nv_new (b : N) : verdict := if b =? 0 then Ok [] [] [] else Ok [b + 10] [(PU 1, b + 20); (PR 7, b + 30)] [].
Definition nv_ws : list (wop N) :=
  [mkW 1 (1, 9) [] 3 false; mkW 1 (1, 1) [] 4 false; mkW 2 (1, 1) [] 5 false; mkW 2 (2, 1) [(1, 1)] 0 true; mkW 3 (1, 2) [] 6 false].
Definition nv_ps : princs := warm (replay 0 nv_old [] nv_ws) (mkPs [mkUser 1 [2] [] None None] [mkRole 7 [] None]).

Example C18_nonvacuous :
  accepts 0 nv_old nv_ws /\ accepts 0 nv_new nv_ws /\ tomb_agree 0 nv_old nv_new nv_ws /\
  coherent (replay 0 nv_old [] nv_ws) nv_ps /\
  snd (resync_db nv_new (mkSw true true true) false [] (replay 0 nv_old [] nv_ws)) = 2 /\
  nlive (replay 0 nv_old [] nv_ws) = 2%nat /\
  map (@tombstoned N) (replay 0 nv_old [] nv_ws) = [false; true; false].
Proof.
  split; [split; [vm_compute; reflexivity | repeat constructor]|].
  split; [split; [vm_compute; reflexivity | repeat constructor]|].
  split; [split; [reflexivity | repeat constructor; cbn; intros; try discriminate; reflexivity]|].
  split; [|split; [vm_compute; reflexivity | split; vm_compute; reflexivity]].
  unfold coherent. split.
  - intros u Hu. vm_compute in Hu. destruct Hu as [<-|[]].
    split; intros c Hc; vm_compute in Hc; inversion Hc; subst c; vm_compute; intros x; tauto.
  - intros r Hr c Hc. vm_compute in Hr. destruct Hr as [<-|[]]. vm_compute in Hc. inversion Hc; subst c.
    vm_compute. intros x; tauto.
Qed.
