(* C18: assembly of the property statements from the one-pass facts, the write-path simulation and the
   principal lemmas. *)
From SG Require Import Base.Prelude C18.Resync C18.SetLemmas C18.ResyncProofs C18.ReplayProofs C18.AccessProofs C18.Concurrent C18.HistoryProofs.
Open Scope N_scope.

(* the function accepts every revision of the corpus and the body of a plain deletion *)
Definition accepts {body} (empty : body) (s : body -> verdict) (ws : list (wop body)) : Prop :=
  accepted (s empty) = true /\ Forall (fun w => accepted (s (w_body w)) = true) ws.
(* the two functions agree on the bodies of tombstone revisions (resync never visits a tombstoned document) *)
Definition tomb_agree {body} (empty : body) (s1 s2 : body -> verdict) (ws : list (wop body)) : Prop :=
  s1 empty = s2 empty /\ Forall (fun w => w_del w = true -> s1 (w_body w) = s2 (w_body w)) ws.

Lemma NoDup_firstn {A} (n : nat) (l : list A) : NoDup l -> NoDup (firstn n l).
Proof.
  revert l. induction n as [|n IH]; intros [|a l] H; cbn; try constructor.
  - inversion H; subst. intros Hin. apply H2. revert Hin. clear. revert l. induction n as [|n IH]; intros [|b l]; cbn; try tauto.
    intros [->|Hin]; [left; reflexivity | right; apply IH; exact Hin].
  - inversion H; subst. apply IH. assumption.
Qed.

Lemma firstn_In {A} (n : nat) (l : list A) x : In x (firstn n l) -> In x l.
Proof.
  revert l. induction n as [|n IH]; intros [|a l]; cbn; try tauto.
  intros [->|H]; [left; reflexivity | right; apply IH; exact H].
Qed.

Section Final.
  Variable body : Type.
  Variable empty : body.
  Variables sync_old sync_new : body -> verdict.
  Notation doc := (doc body).

  Lemma Pk_of : forall (X : body -> bool -> Prop) ws, accepts empty sync_old ws -> accepts empty sync_new ws ->
    Forall (fun w => X (w_body w) (w_del w)) ws ->
    Forall (fun w => Pk sync_old sync_new X (w_body w) (w_del w)) ws.
  Proof.
    intros X ws [_ H1] [_ H2] H3. rewrite Forall_forall in *. intros w Hw. unfold Pk. auto.
  Qed.

  Lemma fin_true : forall ws fixed regen alloc, accepts empty sync_old ws -> accepts empty sync_new ws ->
    Forall2 (Fin sync_old sync_new (fun _ _ => True))
      (fst (resync_db sync_new fixed regen alloc (replay empty sync_old [] ws))) (replay empty sync_new [] ws).
  Proof.
    intros ws fixed regen alloc H1 H2. apply resync_vs_fresh.
    - unfold Pk. destruct H1 as [H1 _], H2 as [H2 _]. auto.
    - apply Pk_of; try assumption. rewrite Forall_forall. auto.
  Qed.

  Lemma fin_tomb : forall ws fixed regen alloc, accepts empty sync_old ws -> accepts empty sync_new ws -> tomb_agree empty sync_old sync_new ws ->
    Forall2 (Fin sync_old sync_new (fun b del => del = true -> sync_old b = sync_new b))
      (fst (resync_db sync_new fixed regen alloc (replay empty sync_old [] ws))) (replay empty sync_new [] ws).
  Proof.
    intros ws fixed regen alloc H1 H2 [H3 H4]. apply resync_vs_fresh.
    - unfold Pk. destruct H1 as [H1 _], H2 as [H2 _]. auto.
    - apply Pk_of; assumption.
  Qed.

  Lemma winner_channels : forall ws fixed regen alloc, accepts empty sync_old ws -> accepts empty sync_new ws ->
    Forall2 (fun d f => d_id d = d_id f /\ d_cur d = d_cur f /\
                        (tombstoned d = false -> seteq (d_chans d) (d_chans f)))
      (fst (resync_db sync_new fixed regen alloc (replay empty sync_old [] ws))) (replay empty sync_new [] ws).
  Proof.
    intros. eapply Forall2_impl; [|apply fin_true; eassumption].
    intros a f [Hid [Hc [_ [_ [Hl _]]]]]. split; [exact Hid|]. split; [exact Hc|]. intros Ht. apply Hl. exact Ht.
  Qed.

  Lemma doc_access : forall ws fixed regen alloc, accepts empty sync_old ws -> accepts empty sync_new ws ->
    Forall2 (fun d f => d_id d = d_id f /\
                        (tombstoned d = false -> seteq (d_access d) (d_access f) /\ seteq (d_roles d) (d_roles f)))
      (fst (resync_db sync_new fixed regen alloc (replay empty sync_old [] ws))) (replay empty sync_new [] ws).
  Proof.
    intros. eapply Forall2_impl; [|apply fin_true; eassumption].
    intros a f [Hid [Hc [_ [_ [Hl _]]]]]. split; [exact Hid|]. intros Ht. apply Hl. exact Ht.
  Qed.

  Lemma fin_gequiv : forall l1 l2,
    Forall2 (Fin sync_old sync_new (fun b del => del = true -> sync_old b = sync_new b)) l1 l2 -> gequiv l1 l2.
  Proof.
    intros l1 l2 F. eapply Forall2_impl; [|exact F]. intros a f [_ [_ [_ [_ [Hl Ht]]]]].
    destruct (tombstoned a).
    - destruct (Ht eq_refl) as [r [b [_ [HX [_ [Ha [Hr [_ [Hfa Hfr]]]]]]]]].
      rewrite Ha, Hr, Hfa, Hfr, (HX eq_refl). split; apply seteq_refl.
    - destruct (Hl eq_refl) as [_ [H1 H2]]. split; assumption.
  Qed.

  Lemma fin_vequiv : forall X l1 l2, Forall2 (Fin sync_old sync_new X) l1 l2 -> vequiv l1 l2.
  Proof.
    intros X l1 l2 F. eapply Forall2_impl; [|exact F]. intros a f [Hid [Hc [_ [_ [Hl _]]]]].
    split; [exact Hid|]. split; [unfold tombstoned; rewrite Hc; reflexivity|]. intros Ht. apply Hl. exact Ht.
  Qed.

  Lemma grants_eq : forall ws fixed regen alloc, accepts empty sync_old ws -> accepts empty sync_new ws -> tomb_agree empty sync_old sync_new ws ->
    forall p u,
      seteq (granted (fst (resync_db sync_new fixed regen alloc (replay empty sync_old [] ws))) p) (granted (replay empty sync_new [] ws) p) /\
      seteq (role_granted (fst (resync_db sync_new fixed regen alloc (replay empty sync_old [] ws))) u) (role_granted (replay empty sync_new [] ws) u).
  Proof.
    intros ws fixed regen alloc H1 H2 H3 p u.
    pose proof (fin_gequiv _ _ (fin_tomb ws fixed regen alloc H1 H2 H3)) as G.
    split; [apply granted_gequiv | apply role_granted_gequiv]; exact G.
  Qed.

  Lemma principals_visible : forall ws fixed ifixed regen alloc ps,
    accepts empty sync_old ws -> accepts empty sync_new ws -> tomb_agree empty sync_old sync_new ws ->
    coherent (replay empty sync_old [] ws) ps -> regen = false \/ ifixed = true ->
    let r := run sync_new fixed ifixed regen alloc (replay empty sync_old [] ws) ps in
    forall u, In u (ps_users (snd r)) ->
      seteq (effective (fst (fst r)) (snd r) u)
            (effective (replay empty sync_new [] ws) (invalidate_all (snd r)) (inval_user u)) /\
      visible (fst (fst r)) (snd r) u = visible (replay empty sync_new [] ws) (invalidate_all (snd r)) (inval_user u).
  Proof.
    intros ws fixed ifixed regen alloc ps H1 H2 H3 Hco Hsw. unfold run.
    pose proof (finish_coherent body sync_new fixed ifixed regen alloc _ ps Hco Hsw) as Hc'.
    pose proof (fin_tomb ws fixed regen alloc H1 H2 H3) as F.
    destruct (resync_db sync_new fixed regen alloc (replay empty sync_old [] ws)) as [rs n] eqn:E. cbn in *.
    intros u Hu.
    assert (HE : seteq (effective rs (finish fixed ifixed regen n ps) u)
                       (effective (replay empty sync_new [] ws) (invalidate_all (finish fixed ifixed regen n ps)) (inval_user u))).
    { eapply seteq_trans; [apply coherent_effective; [exact Hc' | exact Hu]|].
      apply effective_gequiv. apply fin_gequiv. exact F. }
    split; [exact HE|]. apply visible_eq; [eapply fin_vequiv; exact F | exact HE].
  Qed.

  (* the same for ANY coherent pre-state of the principals, with the roles spelled out *)
  Lemma principals_any : forall ws fixed ifixed regen alloc ps,
    accepts empty sync_old ws -> accepts empty sync_new ws -> tomb_agree empty sync_old sync_new ws ->
    coherent (replay empty sync_old [] ws) ps -> regen = false \/ ifixed = true ->
    let r := run sync_new fixed ifixed regen alloc (replay empty sync_old [] ws) ps in
    forall u, In u (ps_users (snd r)) ->
      seteq (user_rl (fst (fst r)) u) (user_rl (replay empty sync_new [] ws) (inval_user u)) /\
      seteq (effective (fst (fst r)) (snd r) u)
            (effective (replay empty sync_new [] ws) (invalidate_all (snd r)) (inval_user u)) /\
      visible (fst (fst r)) (snd r) u = visible (replay empty sync_new [] ws) (invalidate_all (snd r)) (inval_user u).
  Proof.
    intros ws fixed ifixed regen alloc ps H1 H2 H3 Hco Hsw r u Hu.
    destruct (principals_visible ws fixed ifixed regen alloc ps H1 H2 H3 Hco Hsw u Hu) as [He Hv].
    split; [|split; assumption].
    subst r. unfold run in *.
    pose proof (finish_coherent body sync_new fixed ifixed regen alloc _ ps Hco Hsw) as Hc'.
    pose proof (fin_gequiv _ _ (fin_tomb ws fixed regen alloc H1 H2 H3)) as G.
    destruct (resync_db sync_new fixed regen alloc (replay empty sync_old [] ws)) as [rs n]. cbn in *.
    destruct Hc' as [Hcu _]. destruct (Hcu u Hu) as [_ Hl].
    eapply seteq_trans with (b := compute_user_rl rs u).
    - unfold user_rl. destruct (u_rl u) as [c|]; [apply Hl; reflexivity | apply seteq_refl].
    - unfold user_rl, inval_user, compute_user_rl. cbn. apply seteq_app; [apply seteq_refl | apply role_granted_gequiv; exact G].
  Qed.

  (* ... and for every pre-state REACHED by a history of writes (each invalidating the computed channels /
     roles of exactly the principals whose grants it changes) and user loads, starting from principals as
     created: every combination of pending channel / role invalidations *)
  Lemma principals_history : forall (h : list (pop body)) ps0 fixed ifixed regen alloc,
    accepts empty sync_old (writes_of h) -> accepts empty sync_new (writes_of h) ->
    tomb_agree empty sync_old sync_new (writes_of h) -> regen = false \/ ifixed = true ->
    let st := hist empty sync_old (@nil doc, warm (@nil doc) (invalidate_all ps0)) h in
    let r := run sync_new fixed ifixed regen alloc (fst st) (snd st) in
    forall u, In u (ps_users (snd r)) ->
      seteq (user_rl (fst (fst r)) u) (user_rl (replay empty sync_new [] (writes_of h)) (inval_user u)) /\
      seteq (effective (fst (fst r)) (snd r) u)
            (effective (replay empty sync_new [] (writes_of h)) (invalidate_all (snd r)) (inval_user u)) /\
      visible (fst (fst r)) (snd r) u = visible (replay empty sync_new [] (writes_of h)) (invalidate_all (snd r)) (inval_user u).
  Proof.
    intros h ps0 fixed ifixed regen alloc H1 H2 H3 Hsw st.
    pose proof (hist_coherent body empty sync_old h (@nil doc) (warm (@nil doc) (invalidate_all ps0))
                  (warm_coherent body (@nil doc) _ (coherent_invalidated body (@nil doc) ps0))) as Hco.
    subst st. rewrite (hist_db body empty sync_old h (@nil doc) (warm (@nil doc) (invalidate_all ps0))) in Hco.
    rewrite (hist_db body empty sync_old h (@nil doc) (warm (@nil doc) (invalidate_all ps0))).
    exact (principals_any (writes_of h) fixed ifixed regen alloc _ H1 H2 H3 Hco Hsw).
  Qed.

  Lemma idempotent : forall (db : list doc) fixed ifixed regen alloc alloc' ps,
    let r := run sync_new fixed ifixed regen alloc db ps in
    run sync_new fixed ifixed false alloc' (fst (fst r)) (snd r) =
    (fst (fst r), 0, if sw_inval fixed then invalidate_all (snd r) else snd r).
  Proof.
    intros db fixed ifixed regen alloc alloc' ps. unfold run.
    pose proof (resync_db_idem body sync_new fixed regen alloc alloc' db) as H.
    destruct (resync_db sync_new fixed regen alloc db) as [rs n]. cbn in *. rewrite H. unfold finish at 1. cbn. rewrite orb_false_r. reflexivity.
  Qed.

  Lemma regen_increase : forall (db : list doc) fixed alloc,
    (nlive db <= length alloc)%nat -> NoDup alloc -> (forall s d, In s alloc -> In d db -> d_seq d < s) ->
    let rs := fst (resync_db sync_new fixed true alloc db) in
    Forall2 (fun d d' => if live_b d
                         then d_seq d < d_seq d' /\ (forall e, In e db -> d_seq e < d_seq d') /\
                              In (d_seq d') (d_recent d') /\ incl (d_recent d) (d_recent d')
                         else d' = d) db rs
    /\ NoDup (map (@d_seq body) (filter live_b rs)).
  Proof.
    intros db fixed alloc Hlen Hnd Hgt. destruct (resync_db_regen body sync_new fixed db alloc Hlen) as [F E].
    split.
    - assert (G : forall l l', Forall2 (fun d d' => if live_b d
                         then live_b d' = true /\ In (d_seq d') alloc /\ d_recent d' = d_recent d ++ [d_seq d']
                         else d' = d) l l' -> incl l db ->
              Forall2 (fun d d' => if live_b d
                         then d_seq d < d_seq d' /\ (forall e, In e db -> d_seq e < d_seq d') /\
                              In (d_seq d') (d_recent d') /\ incl (d_recent d) (d_recent d')
                         else d' = d) l l').
      { intros l l' F'. induction F' as [|a b l l' Hab F' IH]; intros Hi; constructor.
        - destruct (live_b a); [|exact Hab]. destruct Hab as [_ [Hin Hrec]].
          split; [apply Hgt; [exact Hin | apply Hi; left; reflexivity]|].
          split; [intros e He; apply Hgt; assumption|].
          rewrite Hrec. split; [apply in_or_app; right; left; reflexivity | intros x Hx; apply in_or_app; left; exact Hx].
        - apply IH. intros x Hx. apply Hi. right. exact Hx. }
      apply G; [exact F | apply incl_refl].
    - rewrite E. apply NoDup_firstn. exact Hnd.
  Qed.

  Lemma leaf_channels_fixed : forall (db : list doc) fixed regen alloc, sw_leaf fixed = true ->
    Forall2 (fun d d' => live_b d = true -> forall l, In l (d_leaves d') -> is_cur d' l = false ->
                         seteq (leaf_chans d' l) (vchans (sync_new (l_body l))))
      db (fst (resync_db sync_new fixed regen alloc db)).
  Proof.
    intros db fixed regen alloc Hf. eapply Forall2_impl; [|apply resync_db_after].
    intros d d' [s ->] Hl l Hin Hnc. unfold leaf_chans. rewrite Hnc.
    eapply after_leaves_fixed; eassumption.
  Qed.

  (* every visited live document ends with the verdict of the new function on its current revision *)
  Lemma visited_state : forall (db : list doc) fixed regen alloc,
    Forall2 (fun d d' => forall r b, d_cur d = Some (r, b, false) ->
                seteq (d_chans d') (vchans (sync_new b)) /\ seteq (d_access d') (vaccess (sync_new b)) /\
                seteq (d_roles d') (rroles fixed (sync_new b)))
      db (fst (resync_db sync_new fixed regen alloc db)).
  Proof.
    intros db fixed regen alloc. eapply Forall2_impl; [|apply resync_db_after].
    intros d d' [s ->] r b Hc. pose proof (after_state_ok body sync_new fixed regen s d) as H.
    unfold state_ok in H. rewrite after_cur, Hc in H. exact H.
  Qed.
End Final.
