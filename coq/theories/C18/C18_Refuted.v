(* C18, not property obligations: statements the faithful model of the UNREPAIRED code violates, each with a
   concrete witness checked by vm_compute.  The same inputs were replayed on the real code by the harness
   (monitor signatures in parentheses). *)
From SG Require Import Base.Prelude C18.Resync C18.SetLemmas C18.ResyncProofs C18.AccessProofs C18.FinalProofs C18.Run C18.RunTheorems C18.RunTheorems2.
Open Scope N_scope.

(* bodies are numbers; body 0 is the plain deletion *)

(* ------------------------------------------------------------------------------------------------
   1. DESIGN section 6 item 4 (resync-nonwinning-leaf-channels).  Leaves 1-zzz {c1:A,c2:A} (winner) and
   1-aaa {c1:A,c2:B}; function changed from channel(doc.c1) to channel(doc.c2).  The winner is unaffected,
   so getResyncedDocument (fixed = false) cancels the update: docs_changed = 0 and 1-aaa keeps channel A
   where the new function produces B. *)
Definition l_old (b : N) : verdict := Ok [1] [] [].
Definition l_new (b : N) : verdict := Ok [b] [] [].
Definition l_ws : list (wop N) := [mkW 1 (1, 26) [] 1 false; mkW 1 (1, 1) [] 2 false].
Definition l_rs := resync_db l_new (mkSw false false false) false [] (replay 0 l_old [] l_ws).
Definition l_doc : doc N := hd (empty_doc 0) (fst l_rs).
Definition l_leaf : leaf N := nth 1 (d_leaves l_doc) (mkLeaf (0, 0) 0 false []).

Lemma resync_leaf_channels_eq_fresh_refuted :
  snd l_rs = 0 /\ live_b l_doc = true /\ In l_leaf (d_leaves l_doc) /\ is_cur l_doc l_leaf = false /\
  l_rev l_leaf = (1, 1) /\ leaf_chans l_doc l_leaf = [1] /\ vchans (l_new (l_body l_leaf)) = [2].
Proof. vm_compute. repeat split; auto. Qed.

(* hence the leaf clause, as stated in C18_Properties for the repaired code, fails for the unrepaired one *)
Lemma resync_leaf_channels_statement_fails_unfixed :
  ~ (forall (body : Type) (sync_new : body -> verdict) (db : list (doc body)) (regen : bool) (alloc : list N),
       Forall2 (fun d d' => live_b d = true -> forall l, In l (d_leaves d') -> is_cur d' l = false ->
                            seteq (leaf_chans d' l) (vchans (sync_new (l_body l))))
         db (fst (resync_db sync_new (mkSw false false false) regen alloc db))).
Proof.
  intros H. specialize (H N l_new (replay 0 l_old [] l_ws) false []).
  vm_compute in H. inversion H as [|a b l l' Hab _]; subst.
  specialize (Hab eq_refl (mkLeaf (1, 1) 2 false [1]) (or_intror (or_introl eq_refl)) eq_refl 2).
  destruct Hab as [_ Hab]. specialize (Hab (or_introl eq_refl)). destruct Hab as [Hab|[]]. discriminate.
Qed.

(* with the repair the same input is rewritten and the leaf gets channel B *)
Example resync_leaf_channels_repaired :
  snd (resync_db l_new (mkSw true true false) false [] (replay 0 l_old [] l_ws)) = 1 /\
  map (fun l => (l_rev l, l_chans l)) (d_leaves (hd (empty_doc 0) (fst (resync_db l_new (mkSw true true false) false [] (replay 0 l_old [] l_ws)))))
  = [((1, 26), [1]); ((1, 1), [2])].
Proof. vm_compute. split; reflexivity. Qed.

(* ------------------------------------------------------------------------------------------------
   2. regenerate_sequences skips the principal invalidation (resync-regen-principals-not-invalidated).
   One document grants user 1 its channel under the old function, nothing under the new one; the user was
   loaded before the resync.  With ifixed = false the user's stored channel set survives the resync. *)
Definition g_old (b : N) : verdict := if b =? 0 then Ok [] [] [] else Ok [b] [(PU 1, b)] [].
Definition g_new (b : N) : verdict := if b =? 0 then Ok [] [] [] else Ok [b] [] [].
Definition g_ws : list (wop N) := [mkW 1 (1, 1) [] 5 false].
Definition g_ps : princs := warm (replay 0 g_old [] g_ws) (mkPs [mkUser 1 [] [] None None] []).
Definition g_run (ifixed : bool) := run g_new (mkSw true true false) ifixed true [100] (replay 0 g_old [] g_ws) g_ps.
Definition g_user (ifixed : bool) : user := hd (mkUser 0 [] [] None None) (ps_users (snd (g_run ifixed))).

Lemma resync_regen_principals_refuted :
  accepts 0 g_old g_ws /\ accepts 0 g_new g_ws /\ tomb_agree 0 g_old g_new g_ws /\
  d_access (hd (empty_doc 0) (fst (fst (g_run false)))) = [] /\          (* the document no longer grants anything *)
  effective (fst (fst (g_run false))) (snd (g_run false)) (g_user false) = [5] /\   (* ... the user still has channel 5 *)
  visible (fst (fst (g_run false))) (snd (g_run false)) (g_user false) = [1] /\     (* ... and still sees the document *)
  effective (replay 0 g_new [] g_ws) (invalidate_all (snd (g_run false))) (inval_user (g_user false)) = [] /\
  visible (replay 0 g_new [] g_ws) (invalidate_all (snd (g_run false))) (inval_user (g_user false)) = [].
Proof.
  split; [split; [reflexivity | repeat constructor]|].
  split; [split; [reflexivity | repeat constructor]|].
  split; [split; [reflexivity | repeat constructor; cbn; intros; discriminate]|].
  vm_compute. repeat split; reflexivity.
Qed.

Example resync_regen_principals_repaired :
  effective (fst (fst (g_run true))) (snd (g_run true)) (g_user true) = [] /\
  visible (fst (fst (g_run true))) (snd (g_run true)) (g_user true) = [].
Proof. vm_compute. split; reflexivity. Qed.

(* ------------------------------------------------------------------------------------------------
   3. resync never visits tombstoned documents (resync-tombstone-not-revisited).  A deletion whose body
   carries fields (PUT with _deleted:true and other properties, or any function with an unconditional
   channel()/access()) keeps the OLD function's channels and grants; the access views index tombstones, so
   the grant stays effective.  Here [tomb_agree] is false and the statements of C18_Properties that assume
   it fail: *)
Definition t_old (b : N) : verdict := Ok [b] [(PU 1, b)] [].
Definition t_new (b : N) : verdict := Ok [b + 10] [] [].
Definition t_ws : list (wop N) := [mkW 1 (1, 1) [] 5 false; mkW 1 (2, 1) [(1, 1)] 7 true].
Definition t_rs := fst (resync_db t_new (mkSw true true false) false [] (replay 0 t_old [] t_ws)).

Lemma resync_tombstone_eq_fresh_refuted :
  accepts 0 t_old t_ws /\ accepts 0 t_new t_ws /\
  map (fun d => (tombstoned d, d_chans d, d_access d)) t_rs = [(true, [7], [(PU 1, 7)])] /\
  map (fun d => (tombstoned d, d_chans d, d_access d)) (replay 0 t_new [] t_ws) = [(true, [17], [])] /\
  granted t_rs (PU 1) = [7] /\ granted (replay 0 t_new [] t_ws) (PU 1) = [].
Proof.
  split; [split; [reflexivity | repeat constructor]|].
  split; [split; [reflexivity | repeat constructor]|].
  vm_compute. repeat split; reflexivity.
Qed.

(* ------------------------------------------------------------------------------------------------
   4. role grants of a REJECTED revision are applied (resync-rejected-doc-keeps-grants).  The new function
   calls role(doc.u, ...) and then throws for this document: a write of the same body is refused with 403,
   but resync stores the role grant (getResyncedDocument clears access and channels, not roles) and the
   user acquires the role and its channels. *)
Definition j_old (b : N) : verdict := Ok [b] [] [].
Definition j_new (b : N) : verdict := if b =? 0 then Ok [] [] [] else Reject [(1, 7)].
Definition j_ws : list (wop N) := [mkW 1 (1, 1) [] 5 false].
Definition j_ps : princs := mkPs [mkUser 1 [] [] None None] [mkRole 7 [9] None].
Definition j_run (rej : bool) := run j_new (mkSw true rej false) true false [] (replay 0 j_old [] j_ws) j_ps.

Lemma resync_rejected_roles_refuted :
  replay 0 j_new [] j_ws = [] /\                                        (* the write path refuses the revision *)
  map (fun d => (d_chans d, d_access d, d_roles d)) (fst (fst (j_run false))) = [([], [], [(1, 7)])] /\
  effective (fst (fst (j_run false))) (snd (j_run false)) (hd (mkUser 0 [] [] None None) (ps_users (snd (j_run false)))) = [9].
Proof. vm_compute. repeat split; reflexivity. Qed.

Example resync_rejected_roles_repaired :
  map (fun d => (d_chans d, d_access d, d_roles d)) (fst (fst (j_run true))) = [([], [], [])] /\
  effective (fst (fst (j_run true))) (snd (j_run true)) (hd (mkUser 0 [] [] None None) (ps_users (snd (j_run true)))) = [].
Proof. vm_compute. split; reflexivity. Qed.

(* ------------------------------------------------------------------------------------------------
   5. Write path, not resync (reported, no monitor): when a conflicting revision displaces the current one,
   the displaced leaf's channels are not copied into the revision tree, so the value a database STORES for
   a non-winning leaf depends on the order of the writes.  1-aaa {b:B} written first, then 1-zzz {b:A}:
   leaf 1-aaa ends with no channel at all where the function produces B (readers of channel B lose the
   revision).  This is why the leaf clause is stated against the function's verdict. *)
Lemma fresh_displaced_winner_leaf_channels_lost :
  let db := replay 0 l_new [] [mkW 1 (1, 1) [] 2 false; mkW 1 (1, 26) [] 1 false] in
  map (fun d => map (fun l => (l_rev l, is_cur d l, leaf_chans d l, vchans (l_new (l_body l)))) (d_leaves d)) db
  = [[((1, 1), false, [], [2]); ((1, 26), true, [1], [1])]].
Proof. vm_compute. reflexivity. Qed.

(* ------------------------------------------------------------------------------------------------
   6. Found while deepening C18 (run model, Run.v; signature resync-reset-after-interrupted-run-principals-stale,
   replayed on the real code by harness/db/verif_c18_run_test.go; REPAIRED in /repo by commit bc044df, switch
   sw_inval = Switch.always_inval_fixed).  In the code as found (sw_inval = false) invalidatePrincipals invalidates the
   principals only when docs_changed of THIS run id is positive.  A run that is stopped after it has rewritten the
   documents, and is then started again with `reset` (or with a different collection set, or after a crash that
   lost the counter), finds nothing left to change: it reports completed with docs_changed = 0 and never
   invalidates -- every user keeps the channels / roles the OLD function granted.
   Documents 1 (body 3) and 2 (body 5); the old function grants user 1 the channel named by the body, the new one
   channel body + 20; user 1 is loaded before the run. *)
Definition q_old (b : N) : verdict := Ok [b] [(PU 1, b)] [].
Definition q_new (b : N) : verdict := Ok [b + 10] [(PU 1, b + 20)] [].
Definition q_col (id : N) : N := 0.
Definition q_ps : princs := warm (@nil (doc N)) (mkPs [mkUser 1 [2] [] None None] []).
Definition q_st0 : rst N :=
  rrun 0 q_col (fun _ => q_old) [0] (mkSw true true false) (rinit [] q_ps [])
       [OWrite (mkW 1 (1, 1) [] 3 false); OWrite (mkW 2 (1, 1) [] 5 false); OLoad 1].
Definition q_ops (reset : bool) : list (rop N) :=
  [OStart false false []; OVisit 0 0; OVisit 0 0; OStop;          (* every document processed, then stopped *)
   OStart reset false []; OVisit 0 0; OVisit 0 0; OFinish [];     (* started again: completes *)
   OLoad 1].
Definition q_stx (inval reset : bool) : rst N := rrun 0 q_col (fun _ => q_new) [0] (mkSw true true inval) q_st0 (q_ops reset).
Definition q_st (reset : bool) : rst N := q_stx false reset.
Definition q_user (reset : bool) : user := hd (mkUser 0 [] [] None None) (ps_users (r_ps (q_st reset))).

Lemma resync_reset_after_interrupted_run_principals_stale :
  r_state q_st0 = MNone /\ r_state (q_st true) = MCompleted /\ r_pchanged (q_st true) = 0 /\ r_log (q_st true) = [] /\
  r_dirty (q_st true) = true /\
  (* every document carries the new function's channels and grants ... *)
  map (fun d => (d_id d, d_chans d, d_access d)) (r_docs (q_st true)) = [(1, [13], [(PU 1, 23)]); (2, [15], [(PU 1, 25)])] /\
  (* ... but the user still holds the old function's grants 3 and 5 and not the new ones *)
  effective (r_docs (q_st true)) (r_ps (q_st true)) (q_user true) = [2; 3; 5] /\
  effective (r_docs (q_st true)) (invalidate_all (r_ps (q_st true))) (inval_user (q_user true)) = [2; 23; 25].
Proof. vm_compute. repeat split; reflexivity. Qed.

(* without `reset` the stopped run is resumed, the counter is restored and the principals are invalidated
   (C18_single_id_run_invalidates) *)
Example resync_resumed_run_principals_fresh :
  r_state (q_st false) = MCompleted /\ r_pchanged (q_st false) = 2 /\ r_log (q_st false) = [[0]] /\ r_dirty (q_st false) = false /\
  effective (r_docs (q_st false)) (r_ps (q_st false)) (q_user false) = [2; 23; 25].
Proof. vm_compute. repeat split; reflexivity. Qed.

(* with the repair (invalidate after every completed run) the same schedule ends with the principals invalidated:
   the user holds the new function's grants (C18_completed_run_invalidates) *)
Example resync_reset_after_interrupted_run_repaired :
  r_state (q_stx true true) = MCompleted /\ r_pchanged (q_stx true true) = 0 /\ r_log (q_stx true true) = [[0]] /\
  r_dirty (q_stx true true) = false /\
  effective (r_docs (q_stx true true)) (r_ps (q_stx true true))
            (hd (mkUser 0 [] [] None None) (ps_users (r_ps (q_stx true true)))) = [2; 23; 25].
Proof. vm_compute. repeat split; reflexivity. Qed.
