(* C18: the coverage invariant of the run model, generic in the predicate [good] a processed document must
   satisfy.  While a run is in progress every document of a selected collection is [good] or still queued;
   while it is stopped / crashed every such document is [good] or lies above the persisted checkpoint (so the
   resumed feed delivers it again); once the run has completed every such document is [good].
   Instances (RunTheorems.v): state_ok (with concurrent writes), "a resync would write nothing" (no writes),
   "carries a regenerated sequence" (no writes, every segment regenerating). *)
From Coq Require Import Sorting.Sorted.
From SG Require Import Base.Prelude C18.Resync C18.SetLemmas C18.ResyncProofs C18.Concurrent C18.Run C18.RunLemmas.
Open Scope N_scope.

Section Cover.
  Variable body : Type.
  Variable empty : body.
  Variable col_of : N -> N.
  Variable syncs : N -> body -> verdict.
  Variable allcols : list N.
  Variable fixed : switches.
  Notation doc := (doc body).
  Notation wop := (wop body).
  Notation rst := (rst body).
  Notation rop := (rop body).
  Notation step := (rstep empty col_of syncs allcols fixed).
  Notation fn := (Run.fn col_of syncs).
  Notation col := (fun d : doc => col_of (d_id d)).
  Notation BInv := (RunLemmas.BInv col_of).

  Variable good : doc -> Prop.
  Variable wr : bool.                 (* document writes may be interleaved with the run *)
  Variable startok : bool -> bool.    (* admissible values of regenerate_sequences *)
  Variable seqok : N -> bool.         (* admissible sequence inputs *)
  Hypothesis HA : forall rg s d, startok rg = true -> seqok s = true -> good (after (fn (d_id d)) fixed rg s d).
  Hypothesis HB : forall rg s d, startok rg = true -> resync_doc (fn (d_id d)) fixed rg s d = None -> good d.
  Hypothesis HC : wr = true -> forall d w d', d_id d = w_doc w -> put_doc empty (fn (w_doc w)) d w = Some d' ->
                  good d \/ d_cur d = None -> good d'.

  Definition opok (op : rop) : Prop :=
    match op with
    | OWrite _ => wr = true
    | OStart _ rg _ => startok rg = true
    | OVisit _ s => seqok s = true
    | _ => True
    end.

  Definition pending (st : rst) (d : doc) : Prop :=
    exists e, In e (qget (r_queue st) (col d)) /\ e_id e = d_id d.

  Definition GInv (st : rst) : Prop :=
    match r_state st with
    | MNone => True
    | MRunning =>
        startok (r_regen st) = true /\
        (forall c, StronglySorted evl (qget (r_queue st) c)) /\
        (forall c e, In e (qget (r_queue st) c) -> lookup (r_last st) c < e_cas e /\ e_cas e <= lookup (r_idx st) (e_id e)) /\
        (forall c e, In e (qget (r_queue st) c) -> e_skip e = true -> forall d, In d (r_docs st) -> d_id d = e_id e -> good d) /\
        (forall d, In d (r_docs st) -> In (col d) (r_cols st) -> good d \/ pending st d)
    | MStopped | MCrashed =>
        forall d, In d (r_docs st) -> In (col d) (r_cols st) -> good d \/ lookup (r_pckpt st) (col d) < lookup (r_idx st) (d_id d)
    | MCompleted => forall d, In d (r_docs st) -> In (col d) (r_cols st) -> good d
    end.

  Lemma skip_at_good : forall rg (docs : list doc) id d, startok rg = true ->
    skip_at col_of syncs fixed rg docs id = true -> In d docs -> d_id d = id -> good d.
  Proof.
    intros rg docs id d Hrg H Hd Hid. unfold skip_at in H. rewrite forallb_forall in H. specialize (H d Hd).
    pose proof Hid as Hid'. apply N.eqb_eq in Hid'. rewrite Hid' in H. cbn in H.
    apply (HB rg 0 d Hrg). rewrite Hid. destruct (resync_doc (fn id) fixed rg 0 d); [discriminate | reflexivity].
  Qed.

  (* what Start establishes, from "every selected document is good or above the checkpoint [ck]" *)
  Lemma start_ginv : forall st cs ck regen pc rid hasall,
    BInv st -> startok regen = true ->
    (forall d, In d (r_docs st) -> In (col d) cs -> good d \/ lookup ck (col d) < lookup (r_idx st) (d_id d)) ->
    GInv (mkR (r_docs st) (r_idx st) (r_clock st) MRunning cs pc ck rid regen hasall
              (map (fun c => (c, snapshot col_of syncs fixed c (lookup ck c) regen (r_docs st) (r_idx st))) cs) ck pc
              (r_ps st) (r_pseq st) (r_log st) (r_sel st ++ cs) (r_dirty st) (r_alloc st)).
  Proof.
    intros st cs ck regen pc rid hasall B Hrg H. unfold GInv. cbn.
    pose (f := fun c0 => snapshot col_of syncs fixed c0 (lookup ck c0) regen (r_docs st) (r_idx st)).
    change (map (fun c => (c, snapshot col_of syncs fixed c (lookup ck c) regen (r_docs st) (r_idx st))) cs) with (map (fun c0 => (c0, f c0)) cs).
    assert (Hq : forall c, qget (map (fun c0 => (c0, f c0)) cs) c = f c \/ qget (map (fun c0 => (c0, f c0)) cs) c = []).
    { intros c. destruct (in_dec N.eq_dec c cs) as [Hc|Hc]; [left; apply qget_map_in; exact Hc | right; apply qget_map_notin; exact Hc]. }
    split; [exact Hrg|]. split; [|split; [|split]].
    - intros c. destruct (Hq c) as [-> | ->]; [|constructor]. apply snapshot_sorted. apply (b_sorted _ _ st B).
    - intros c e He. destruct (Hq c) as [E|E]; rewrite E in He; [|destruct He].
      apply snapshot_in in He. destruct He as [p [Hp [_ [Hck ->]]]]. cbn. split; [exact Hck|].
      destruct p as [k v]. cbn. rewrite (lookup_nodup _ k v (b_keys _ _ st B) Hp). lia.
    - intros c e He Ht d Hd Hid. destruct (Hq c) as [E|E]; rewrite E in He; [|destruct He].
      apply snapshot_in in He. destruct He as [p [_ [_ [_ ->]]]]. cbn in *. eapply skip_at_good; eassumption.
    - intros d Hd Hc. destruct (H d Hd Hc) as [Hg|Hlt]; [left; exact Hg|]. right.
      unfold pending. cbn. rewrite (qget_map_in f cs _ Hc).
      exists (mkEv (d_id d) (lookup (r_idx st) (d_id d)) (skip_at col_of syncs fixed regen (r_docs st) (d_id d))). split; [|reflexivity].
      apply snapshot_in. exists (d_id d, lookup (r_idx st) (d_id d)). cbn. split; [apply lookup_in; lia|]. auto.
  Qed.

  Lemma ginv_step : forall st op, BInv st -> GInv st -> opok op -> GInv (step st op).
  Proof.
    intros st op B G Hop. destruct op as [w|reset regen cols|c s| |ck ch|pseqs|u]; cbn [rstep].
    - (* ---------------- write *)
      cbn in Hop. specialize (HC Hop).
      unfold do_write. destruct (wrote empty col_of syncs (r_docs st) w) eqn:Ew.
      2:{ rewrite (put_not_wrote _ _ _ _ _ _ Ew). unfold GInv in *. cbn. exact G. }
      (* one document changed: its id is [w_doc w], its CAS is now the largest *)
      assert (Hnew : forall d', In d' (put empty (fn (w_doc w)) (r_docs st) w) ->
                In d' (r_docs st) \/ (d_id d' = w_doc w /\
                  ((exists d, In d (r_docs st) /\ d_id d = w_doc w /\ put_doc empty (fn (w_doc w)) d w = Some d') \/
                   put_doc empty (fn (w_doc w)) (empty_doc (w_doc w)) w = Some d'))).
      { intros d' Hd'. apply put_in in Hd'. destruct Hd' as [Hd'|[_ Hd']]; [left; exact Hd' | right; exact Hd']. }
      assert (Hlk : forall id, lookup (r_idx st) id <= lookup (bump (r_idx st) (w_doc w) (r_clock st + 1)) id).
      { intros id. destruct (N.eq_dec (w_doc w) id) as [<-|E].
        - rewrite lookup_bump_same. pose proof (lookup_le_clock body empty col_of syncs st (w_doc w) B). lia.
        - rewrite lookup_bump_other by exact E. lia. }
      unfold GInv in *. cbn. destruct (r_state st) eqn:Es.
      + exact I.
      + destruct G as [G0 [G1 [G3 [G4 G2]]]]. split; [exact G0|]. split; [exact G1|]. split; [|split].
        * intros c e He. destruct (G3 c e He) as [Ha Hb]. split; [exact Ha|]. specialize (Hlk (e_id e)). lia.
        * intros c e He Ht d' Hd' Hid. destruct (Hnew d' Hd') as [Hold|[Hw [[d [Hd [Hdid Hp]]]|Hp]]].
          -- eapply G4; eassumption.
          -- apply (HC d w d' Hdid Hp). left. apply (G4 c e He Ht d Hd). congruence.
          -- apply (HC (empty_doc (w_doc w)) w d' eq_refl Hp). right. reflexivity.
        * intros d' Hd' Hc. destruct (Hnew d' Hd') as [Hold|[Hw [[d [Hd [Hdid Hp]]]|Hp]]].
          -- apply G2; assumption.
          -- assert (Hcd : col_of (d_id d) = col_of (d_id d')) by congruence.
             destruct (G2 d Hd ltac:(rewrite Hcd; exact Hc)) as [Hg|[e [He Hid]]].
             ++ left. apply (HC d w d' Hdid Hp). left. exact Hg.
             ++ right. exists e. rewrite <- Hcd. split; [exact He | congruence].
          -- left. apply (HC (empty_doc (w_doc w)) w d' eq_refl Hp). right. reflexivity.
      + intros d' Hd' Hc. destruct (Hnew d' Hd') as [Hold|[Hw [[d [Hd [Hdid Hp]]]|Hp]]].
        * destruct (G d' Hold Hc) as [Hg|Hlt]; [left; exact Hg | right]. specialize (Hlk (d_id d')). lia.
        * assert (Hcd : col_of (d_id d) = col_of (d_id d')) by congruence.
          destruct (G d Hd ltac:(rewrite Hcd; exact Hc)) as [Hg|Hlt].
          -- left. apply (HC d w d' Hdid Hp). left. exact Hg.
          -- right. rewrite <- Hcd. replace (d_id d') with (w_doc w) by (symmetry; exact Hw). rewrite lookup_bump_same.
             pose proof (lookup_le_clock body empty col_of syncs st (d_id d) B). lia.
        * left. apply (HC (empty_doc (w_doc w)) w d' eq_refl Hp). right. reflexivity.
      + intros d' Hd' Hc. destruct (Hnew d' Hd') as [Hold|[Hw [[d [Hd [Hdid Hp]]]|Hp]]].
        * destruct (G d' Hold Hc) as [Hg|Hlt]; [left; exact Hg | right]. specialize (Hlk (d_id d')). lia.
        * assert (Hcd : col_of (d_id d) = col_of (d_id d')) by congruence.
          destruct (G d Hd ltac:(rewrite Hcd; exact Hc)) as [Hg|Hlt].
          -- left. apply (HC d w d' Hdid Hp). left. exact Hg.
          -- right. rewrite <- Hcd. replace (d_id d') with (w_doc w) by (symmetry; exact Hw). rewrite lookup_bump_same.
             pose proof (lookup_le_clock body empty col_of syncs st (d_id d) B). lia.
        * left. apply (HC (empty_doc (w_doc w)) w d' eq_refl Hp). right. reflexivity.
      + intros d' Hd' Hc. destruct (Hnew d' Hd') as [Hold|[Hw [[d [Hd [Hdid Hp]]]|Hp]]].
        * apply G; assumption.
        * assert (Hcd : col_of (d_id d) = col_of (d_id d')) by congruence.
          apply (HC d w d' Hdid Hp). left. apply (G d Hd). rewrite Hcd. exact Hc.
        * apply (HC (empty_doc (w_doc w)) w d' eq_refl Hp). right. reflexivity.
    - (* ---------------- start *)
      cbn in Hop. unfold do_start.
      set (cs := if null cols then allcols else cols).
      destruct (r_state st) eqn:Es; try exact G;
        (destruct (negb (subset N.eqb cs allcols)); [exact G|]).
      + (* no previous run *)
        cbn [negb resumable andb]. rewrite andb_false_r. cbn [andb]. apply start_ginv; [exact B | exact Hop|].
        intros d Hd _. right. cbn. apply (b_docs _ _ st B). exact Hd.
      + (* stopped *)
        cbn [resumable]. rewrite andb_true_r. destruct (negb reset && set_eqb N.eqb cs (r_cols st)) eqn:Er.
        * apply start_ginv; [exact B | exact Hop|]. intros d Hd Hc. unfold GInv in G. rewrite Es in G. apply G; [exact Hd|].
          apply andb_true_iff in Er. destruct Er as [_ Er]. apply (set_eqb_seteq N.eqb Neqb_spec) in Er. apply Er. exact Hc.
        * apply start_ginv; [exact B | exact Hop|]. intros d Hd _. right. cbn. apply (b_docs _ _ st B). exact Hd.
      + (* crashed *)
        cbn [resumable]. rewrite andb_true_r. destruct (negb reset && set_eqb N.eqb cs (r_cols st)) eqn:Er.
        * apply start_ginv; [exact B | exact Hop|]. intros d Hd Hc. unfold GInv in G. rewrite Es in G. apply G; [exact Hd|].
          apply andb_true_iff in Er. destruct Er as [_ Er]. apply (set_eqb_seteq N.eqb Neqb_spec) in Er. apply Er. exact Hc.
        * apply start_ginv; [exact B | exact Hop|]. intros d Hd _. right. cbn. apply (b_docs _ _ st B). exact Hd.
      + (* completed *)
        cbn [negb resumable andb]. rewrite andb_false_r. cbn [andb]. apply start_ginv; [exact B | exact Hop|].
        intros d Hd _. right. cbn. apply (b_docs _ _ st B). exact Hd.
    - (* ---------------- visit *)
      cbn in Hop. unfold do_visit. destruct (r_state st) eqn:Es; try exact G.
      destruct (qget (r_queue st) c) as [|e q'] eqn:Eq; [exact G|].
      unfold GInv in G. rewrite Es in G. destruct G as [G0 [G1 [G3 [G4 G2]]]].
      assert (Hne : qget (r_queue st) c <> []) by (rewrite Eq; discriminate).
      pose proof (G1 c) as Hs. rewrite Eq in Hs. inversion Hs as [|x l Hs' Hall]; subst x l.
      rewrite Forall_forall in Hall.
      (* the queues after the event has been taken *)
      assert (Q1 : forall c', StronglySorted evl (qget (qset (r_queue st) c q') c')).
      { intros c'. destruct (N.eq_dec c c') as [<-|E]; [rewrite qget_qset_same by exact Hne; exact Hs' | rewrite qget_qset_other by exact E; apply G1]. }
      assert (Qin : forall c' e', In e' (qget (qset (r_queue st) c q') c') -> In e' (qget (r_queue st) c') /\ (c' = c -> In e' q')).
      { intros c' e' He'. destruct (N.eq_dec c c') as [<-|E].
        - rewrite qget_qset_same in He' by exact Hne. split; [rewrite Eq; right; exact He' | intros _; exact He'].
        - rewrite qget_qset_other in He' by exact E. split; [exact He' | intros E'; symmetry in E'; contradiction]. }
      assert (Q3a : forall c' e', In e' (qget (qset (r_queue st) c q') c') -> lookup (upd (r_last st) c (e_cas e)) c' < e_cas e').
      { intros c' e' He'. destruct (Qin c' e' He') as [Hin Hq']. destruct (N.eq_dec c c') as [<-|E].
        - rewrite lookup_upd_same. apply (Hall e'). apply Hq'. reflexivity.
        - rewrite lookup_upd_other by exact E. apply (G3 c' e' Hin). }
      assert (Hec : col_of (e_id e) = c) by (apply (b_queue _ _ st B c e); rewrite Eq; left; reflexivity).
      (* a document that is not the one visited keeps its witness *)
      assert (Q2o : forall d, In d (r_docs st) -> In (col d) (r_cols st) -> d_id d <> e_id e ->
                good d \/ exists e', In e' (qget (qset (r_queue st) c q') (col d)) /\ e_id e' = d_id d).
      { intros d Hd Hc Hne'. destruct (G2 d Hd Hc) as [Hg|[e' [He' Hid]]]; [left; exact Hg|]. right. exists e'. split; [|exact Hid].
        destruct (N.eq_dec c (col d)) as [E|E].
        - rewrite <- E in *. rewrite qget_qset_same by exact Hne. rewrite Eq in He'. destruct He' as [<-|He']; [congruence | exact He'].
        - rewrite qget_qset_other by exact E. exact He'. }
      destruct (e_skip e) eqn:Et.
      + (* the callback cancels on the snapshot copy *)
        unfold GInv. cbn. split; [exact G0|]. split; [exact Q1|]. split; [|split].
        * intros c' e' He'. split; [apply Q3a; exact He' | apply (G3 c' e'); apply (Qin c' e' He')].
        * intros c' e' He' Ht'. apply (G4 c' e'); [apply (Qin c' e' He') | exact Ht'].
        * intros d Hd Hc. destruct (N.eq_dec (d_id d) (e_id e)) as [E|E].
          -- left. apply (G4 c e); [rewrite Eq; left; reflexivity | exact Et | exact Hd | exact E].
          -- apply Q2o; assumption.
      + (* ResyncDocument *)
        set (wrt := visit_wrote col_of syncs fixed (r_regen st) s (e_id e) (r_docs st)).
        assert (Hlk : forall id, lookup (r_idx st) id <= lookup (if wrt then bump (r_idx st) (e_id e) (r_clock st + 1) else r_idx st) id).
        { intros id. destruct wrt; [|lia]. destruct (N.eq_dec (e_id e) id) as [<-|E].
          - rewrite lookup_bump_same. pose proof (lookup_le_clock body empty col_of syncs st (e_id e) B). lia.
          - rewrite lookup_bump_other by exact E. lia. }
        unfold GInv. cbn. split; [exact G0|]. split; [exact Q1|]. split; [|split].
        * intros c' e' He'. split; [apply Q3a; exact He'|].
          destruct (G3 c' e' (proj1 (Qin c' e' He'))) as [_ Hb]. specialize (Hlk (e_id e')). lia.
        * intros c' e' He' Ht' d' Hd' Hid. apply visit_docs_in in Hd'. destruct Hd' as [d [Hd ->]].
          destruct (d_id d =? e_id e) eqn:E.
          -- apply N.eqb_eq in E. rewrite <- E. apply HA; assumption.
          -- apply (G4 c' e' (proj1 (Qin c' e' He')) Ht' d Hd Hid).
        * intros d' Hd' Hc. apply visit_docs_in in Hd'. destruct Hd' as [d [Hd ->]].
          destruct (d_id d =? e_id e) eqn:E.
          -- left. apply N.eqb_eq in E. rewrite <- E. apply HA; assumption.
          -- apply N.eqb_neq in E. apply Q2o; assumption.
    - (* ---------------- stop *)
      unfold do_stop. destruct (r_state st) eqn:Es; try exact G.
      unfold GInv in *. rewrite Es in G. cbn. destruct G as [_ [_ [G3 [_ G2]]]].
      intros d Hd Hc. destruct (G2 d Hd Hc) as [Hg|[e [He Hid]]]; [left; exact Hg | right].
      destruct (G3 _ e He) as [Ha Hb]. rewrite Hid in Hb. lia.
    - (* ---------------- crash *)
      unfold do_crash. destruct (r_state st) eqn:Es; try exact G.
      unfold GInv in *. rewrite Es in G. cbn. destruct G as [_ [_ [G3 [_ G2]]]].
      intros d Hd Hc. destruct (G2 d Hd Hc) as [Hg|[e [He Hid]]]; [left; exact Hg | right].
      destruct (G3 _ e He) as [Ha Hb]. rewrite Hid in Hb.
      rewrite (lookup_map_key (fun c => N.min (lookup (r_last st) c) (lookup ck c)) (r_cols st) _ Hc). lia.
    - (* ---------------- finish *)
      unfold do_finish. destruct (r_state st) eqn:Es; try exact G.
      destruct (forallb (fun p => null (snd p)) (r_queue st)) eqn:Ef; [|exact G].
      unfold GInv in *. rewrite Es in G. cbn. destruct G as [_ [_ [_ [_ G2]]]].
      intros d Hd Hc. destruct (G2 d Hd Hc) as [Hg|[e [He _]]]; [exact Hg|].
      rewrite (qget_all_empty _ Ef) in He. destruct He.
    - (* ---------------- load *)
      unfold do_load, GInv in *. cbn. exact G.
  Qed.

  Lemma ginv_run : forall ops st, BInv st -> GInv st -> Forall opok ops ->
    GInv (rrun empty col_of syncs allcols fixed st ops) /\ BInv (rrun empty col_of syncs allcols fixed st ops).
  Proof.
    induction ops as [|op ops IH]; intros st B G F; cbn; [split; assumption|].
    inversion F as [|x l Hop F']; subst. apply IH; [apply binv_step; exact B | apply ginv_step; assumption | exact F'].
  Qed.

  (* the consequence used by every instance *)
  Theorem completed_good : forall ops st, BInv st -> r_state st = MNone -> Forall opok ops ->
    let st' := rrun empty col_of syncs allcols fixed st ops in
    r_state st' = MCompleted -> forall d, In d (r_docs st') -> In (col d) (r_cols st') -> good d.
  Proof.
    intros ops st B Hs F st' Hc d Hd Hcol.
    assert (G0 : GInv st) by (unfold GInv; rewrite Hs; exact I).
    destruct (ginv_run ops st B G0 F) as [G _]. fold st' in G. unfold GInv in G. rewrite Hc in G. apply G; assumption.
  Qed.
End Cover.

Arguments GInv {body}. Arguments opok {body}.
