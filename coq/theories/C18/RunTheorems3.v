(* C18: what the repair of invalidatePrincipals (Switch.always_inval_fixed, /repo bc044df) adds to the run model:
   EVERY run that reports completed has invalidated all principals after its last resync write, whatever happened
   before (reset, changed collection set, crashes), and the computed channel / role sets stored in the principal
   documents are then coherent with the resynced documents: reloading a principal gives the new function's grants. *)
From SG Require Import Base.Prelude C18.Resync C18.SetLemmas C18.ResyncProofs C18.AccessProofs C18.Concurrent C18.HistoryProofs.
From SG Require Import C18.Run C18.RunLemmas C18.RunInv C18.RunTheorems C18.RunTheorems2.
Open Scope N_scope.

Section Repaired.
  Variable body : Type.
  Variable empty : body.
  Variable col_of : N -> N.
  Variable syncs : N -> body -> verdict.
  Variable allcols : list N.
  Variable fixed : switches.
  Hypothesis Hfix : sw_inval fixed = true.
  Notation doc := (doc body).
  Notation rst := (rst body).
  Notation rop := (rop body).
  Notation step := (rstep empty col_of syncs allcols fixed).
  Notation run := (rrun empty col_of syncs allcols fixed).

  (* the CAS clock only grows *)
  Lemma clock_step : forall st op, r_clock st <= r_clock (step st op).
  Proof.
    intros st op. destruct op as [w|reset regen cols|c s| |ck ch|pseqs|u]; cbn [rstep];
      [unfold do_write | unfold do_start | unfold do_visit | unfold do_stop | unfold do_crash | unfold do_finish | unfold do_load];
      destruct (r_state st);
      repeat match goal with
             | |- context [if ?c then _ else _] => destruct c
             | |- context [match ?q with [] => _ | _ :: _ => _ end] => destruct q
             end; cbn; lia.
  Qed.

  (* a resync write implies a positive clock; completed (or no run yet): nothing rewritten since the last invalidation *)
  Definition CInv (st : rst) : Prop :=
    (r_dirty st = true -> 0 < r_clock st) /\
    match r_state st with
    | MCompleted | MNone => r_dirty st = false
    | _ => True
    end.

  Lemma cinv_step : forall st op, CInv st -> CInv (step st op).
  Proof.
    intros st op C. pose proof C as [C1 C2]. pose proof (clock_step st op) as Hck.
    destruct op as [w|reset regen cols|c s| |ck ch|pseqs|u]; cbn [rstep] in *.
    - unfold do_write, CInv in *. cbn in *. split; [intros H; specialize (C1 H); lia | exact C2].
    - unfold do_start in *. destruct (r_state st) eqn:Es; try exact C;
        (destruct (negb (subset N.eqb (if null cols then allcols else cols) allcols)); [exact C | split; [exact C1 | exact I]]).
    - unfold do_visit in *. destruct (r_state st) eqn:Es; try exact C.
      destruct (qget (r_queue st) c); [exact C|]. destruct (e_skip e); [split; [exact C1 | exact I]|].
      unfold CInv. cbn in *. split; [|exact I].
      destruct (visit_wrote col_of syncs fixed (r_regen st) s (e_id e) (r_docs st)); [intros _; lia|].
      rewrite orb_false_r. exact C1.
    - unfold do_stop. destruct (r_state st) eqn:Es; try exact C. split; [exact C1 | exact I].
    - unfold do_crash. destruct (r_state st) eqn:Es; try exact C. split; [exact C1 | exact I].
    - unfold do_finish. destruct (r_state st) eqn:Es; try exact C.
      destruct (forallb (fun p => null (snd p)) (r_queue st)); [|exact C].
      unfold CInv. cbn. rewrite Hfix. cbn.
      match goal with |- context [if ?c then false else _] => destruct c eqn:E end; [split; [discriminate | reflexivity]|].
      apply orb_false_iff in E. destruct E as [E _]. apply orb_false_iff in E. destruct E as [E _]. apply N.ltb_ge in E.
      destruct (r_dirty st); [specialize (C1 eq_refl); lia | split; [discriminate | reflexivity]].
    - unfold do_load, CInv in *. cbn. exact C.
  Qed.

  Lemma cinv_run : forall ops st, CInv st -> CInv (run st ops).
  Proof. induction ops as [|op ops IH]; intros st C; cbn; [exact C | apply IH, cinv_step, C]. Qed.

  Theorem completed_run_invalidates : forall ops st0, r_state st0 = MNone -> r_dirty st0 = false ->
    r_state (run st0 ops) = MCompleted -> r_dirty (run st0 ops) = false.
  Proof.
    intros ops st0 Hs Hd Hc. assert (C0 : CInv st0) by (unfold CInv; rewrite Hs, Hd; split; [discriminate | reflexivity]).
    pose proof (cinv_run ops st0 C0) as [_ C]. rewrite Hc in C. exact C.
  Qed.

  (* on a database that has been written to (positive clock: the sequence counter is positive, so the invalidation
     "at the current sequence" is effective): completed => the stored computed sets are coherent with the documents *)
  Definition KInv (st : rst) : Prop :=
    0 < r_clock st /\ (r_state st = MCompleted -> coherent (r_docs st) (r_ps st)).

  Lemma kinv_step : forall st op, KInv st -> KInv (step st op).
  Proof.
    intros st op [K1 K2]. pose proof (clock_step st op) as Hck. split; [lia|].
    destruct op as [w|reset regen cols|c s| |ck ch|pseqs|u]; cbn [rstep] in *.
    - unfold do_write. cbn. intros Hc. apply (write_coherent body empty). apply K2. exact Hc.
    - unfold do_start. destruct (r_state st) eqn:Es;
        try (destruct (negb (subset N.eqb (if null cols then allcols else cols) allcols)));
        cbn; intros Hc; first [discriminate Hc | (rewrite Es in Hc; discriminate Hc) | (apply K2; first [reflexivity | exact Hc])].
    - unfold do_visit. destruct (r_state st) eqn:Es;
        try (destruct (qget (r_queue st) c) as [|e q']; [|destruct (e_skip e)]);
        cbn; intros Hc; first [discriminate Hc | (rewrite Es in Hc; discriminate Hc) | (apply K2; first [reflexivity | exact Hc])].
    - unfold do_stop. destruct (r_state st) eqn:Es;
        cbn; intros Hc; first [discriminate Hc | (rewrite Es in Hc; discriminate Hc) | (apply K2; first [reflexivity | exact Hc])].
    - unfold do_crash. destruct (r_state st) eqn:Es;
        cbn; intros Hc; first [discriminate Hc | (rewrite Es in Hc; discriminate Hc) | (apply K2; first [reflexivity | exact Hc])].
    - unfold do_finish. destruct (r_state st) eqn:Es;
        try (intros Hc; first [(rewrite Es in Hc; discriminate Hc) | (apply K2; first [reflexivity | exact Hc])]).
      destruct (forallb (fun p => null (snd p)) (r_queue st)); [|intros Hc; rewrite Es in Hc; discriminate Hc].
      cbn. intros _. rewrite Hfix. apply N.ltb_lt in K1. rewrite K1. cbn. apply coherent_invalidated.
    - unfold do_load. cbn. intros Hc. apply load_coherent. apply K2. exact Hc.
  Qed.

  Lemma kinv_run : forall ops st, KInv st -> KInv (run st ops).
  Proof. induction ops as [|op ops IH]; intros st K; cbn; [exact K | apply IH, kinv_step, K]. Qed.

  (* after a completed run (and whatever writes / loads followed it) every user's roles and effective channels are
     those recomputed from scratch from the documents as they are -- which, for the live documents of the selected
     collections, carry the new function's grants (complete_after_success) *)
  Theorem completed_run_principals : forall ops st0, r_state st0 = MNone -> 0 < r_clock st0 ->
    let st := run st0 ops in
    r_state st = MCompleted ->
    coherent (r_docs st) (r_ps st) /\
    forall u, In u (ps_users (r_ps st)) ->
      seteq (user_rl (r_docs st) u) (compute_user_rl (r_docs st) u) /\
      seteq (effective (r_docs st) (r_ps st) u) (effective (r_docs st) (invalidate_all (r_ps st)) (inval_user u)).
  Proof.
    intros ops st0 Hs Hk st Hc. assert (K0 : KInv st0) by (split; [exact Hk | rewrite Hs; discriminate]).
    pose proof (kinv_run ops st0 K0) as [_ K]. fold st in K. specialize (K Hc).
    split; [exact K|]. intros u Hu. split; [|apply coherent_effective; assumption].
    destruct K as [Cu _]. destruct (Cu u Hu) as [_ Hl]. unfold user_rl.
    destruct (u_rl u) as [c|]; [apply Hl; reflexivity | apply seteq_refl].
  Qed.
End Repaired.
