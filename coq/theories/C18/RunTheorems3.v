(* C18: what the repair of invalidatePrincipals (Switch.always_inval_fixed, /repo bc044df) adds to the run model:
   EVERY run that reports completed has invalidated all principals after its last resync write, whatever happened
   before (reset, changed collection set, crashes), and the computed channel / role sets stored in the principal
   documents are then coherent with the resynced documents: reloading a principal gives the new function's grants. *)
From SG Require Import Base.Prelude C18.Resync C18.SetLemmas C18.ResyncProofs C18.AccessProofs C18.Concurrent C18.HistoryProofs.
From SG Require Import C18.Run C18.RunLemmas C18.RunInv C18.RunTheorems C18.RunTheorems2.
Open Scope N_scope.

Section Repaired.
  Variable body : Type.
  Variable empty : body.
  Variable col_of : N -> N.
  Variable syncs : N -> body -> verdict.
  Variable allcols : list N.
  Variable fixed : switches.
  Hypothesis Hfix : sw_inval fixed = true.
  Notation doc := (doc body).
  Notation rst := (rst body).
  Notation rop := (rop body).
  Notation step := (rstep empty col_of syncs allcols fixed).
  Notation run := (rrun empty col_of syncs allcols fixed).

  (* completed: nothing rewritten since the last invalidation, and the stored computed sets are coherent *)
  Definition CInv (st : rst) : Prop :=
    match r_state st with
    | MCompleted => r_dirty st = false /\ coherent (r_docs st) (r_ps st)
    | MNone => r_dirty st = false
    | _ => True
    end.

  Lemma cinv_step : forall st op, CInv st -> CInv (step st op).
  Proof.
    intros st op C. destruct op as [w|reset regen cols|c s| |ck ch|pseqs|u]; cbn [rstep].
    - unfold do_write, CInv in *. cbn. destruct (r_state st); auto. destruct C as [C1 C2]. split; [exact C1|].
      apply (write_coherent body empty). exact C2.
    - unfold do_start. destruct (r_state st) eqn:Es; try exact C;
        (destruct (negb (subset N.eqb (if null cols then allcols else cols) allcols)); [exact C | exact I]).
    - unfold do_visit. destruct (r_state st) eqn:Es; try exact C.
      destruct (qget (r_queue st) c); [exact C|]. destruct (e_skip e); exact I.
    - unfold do_stop. destruct (r_state st) eqn:Es; try exact C. exact I.
    - unfold do_crash. destruct (r_state st) eqn:Es; try exact C. exact I.
    - unfold do_finish. destruct (r_state st) eqn:Es; try exact C.
      destruct (forallb (fun p => null (snd p)) (r_queue st)); [|exact C].
      unfold CInv. cbn. rewrite Hfix. cbn. split; [reflexivity | apply coherent_invalidated].
    - unfold do_load, CInv in *. cbn. destruct (r_state st); auto. destruct C as [C1 C2]. split; [exact C1|].
      apply load_coherent. exact C2.
  Qed.

  Lemma cinv_run : forall ops st, CInv st -> CInv (run st ops).
  Proof. induction ops as [|op ops IH]; intros st C; cbn; [exact C | apply IH, cinv_step, C]. Qed.

  Theorem completed_run_invalidates : forall ops st0, r_state st0 = MNone -> r_dirty st0 = false ->
    r_state (run st0 ops) = MCompleted -> r_dirty (run st0 ops) = false.
  Proof.
    intros ops st0 Hs Hd Hc. assert (C0 : CInv st0) by (unfold CInv; rewrite Hs; exact Hd).
    pose proof (cinv_run ops st0 C0) as C. unfold CInv in C. rewrite Hc in C. apply C.
  Qed.

  (* after a completed run (and whatever writes / loads followed it) every user's roles and effective channels are
     those recomputed from scratch from the documents as they are -- which, for the live documents of the selected
     collections, carry the new function's grants (complete_after_success) *)
  Theorem completed_run_principals : forall ops st0, r_state st0 = MNone -> r_dirty st0 = false ->
    let st := run st0 ops in
    r_state st = MCompleted ->
    coherent (r_docs st) (r_ps st) /\
    forall u, In u (ps_users (r_ps st)) ->
      seteq (user_rl (r_docs st) u) (compute_user_rl (r_docs st) u) /\
      seteq (effective (r_docs st) (r_ps st) u) (effective (r_docs st) (invalidate_all (r_ps st)) (inval_user u)).
  Proof.
    intros ops st0 Hs Hd st Hc. assert (C0 : CInv st0) by (unfold CInv; rewrite Hs; exact Hd).
    pose proof (cinv_run ops st0 C0) as C. fold st in C. unfold CInv in C. rewrite Hc in C. destruct C as [_ C].
    split; [exact C|]. intros u Hu. split; [|apply coherent_effective; assumption].
    destruct C as [Cu _]. destruct (Cu u Hu) as [_ Hl]. unfold user_rl.
    destruct (u_rl u) as [c|]; [apply Hl; reflexivity | apply seteq_refl].
  Qed.
End Repaired.
