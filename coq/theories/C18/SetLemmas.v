(* C18: lists read as sets -- boolean tests reflect [seteq]. *)
From SG Require Import Base.Prelude C18.Resync.
Open Scope N_scope.

Section Sets.
  Context {A : Type}.
  Variable eqb : A -> A -> bool.
  Hypothesis eqb_spec : forall x y, eqb x y = true <-> x = y.

  Lemma mem_In : forall x l, mem eqb x l = true <-> In x l.
  Proof.
    intros x l. unfold mem. rewrite existsb_exists. split.
    - intros [y [Hy E]]. apply eqb_spec in E. subst. exact Hy.
    - intros H. exists x. split; [exact H | apply eqb_spec; reflexivity].
  Qed.

  Lemma subset_incl : forall a b, subset eqb a b = true <-> incl a b.
  Proof.
    intros a b. unfold subset. rewrite forallb_forall. split.
    - intros H x Hx. apply mem_In. apply H. exact Hx.
    - intros H x Hx. apply mem_In. apply H. exact Hx.
  Qed.

  Lemma set_eqb_seteq : forall a b, set_eqb eqb a b = true <-> seteq a b.
  Proof.
    intros a b. unfold set_eqb. rewrite andb_true_iff, !subset_incl. unfold seteq, incl. split.
    - intros [H1 H2] x. split; auto.
    - intros H. split; intros x Hx; apply H; exact Hx.
  Qed.

  Lemma set_eqb_refl : forall a, set_eqb eqb a a = true.
  Proof. intros a. apply set_eqb_seteq. intros x. tauto. Qed.
End Sets.

Lemma seteq_refl {A} (a : list A) : seteq a a.
Proof. intros x. tauto. Qed.
Lemma seteq_sym {A} (a b : list A) : seteq a b -> seteq b a.
Proof. intros H x. symmetry. apply H. Qed.
Lemma seteq_trans {A} (a b c : list A) : seteq a b -> seteq b c -> seteq a c.
Proof. intros H1 H2 x. split; intro H; [apply H2, H1, H | apply H1, H2, H]. Qed.
Lemma seteq_app {A} (a a' b b' : list A) : seteq a a' -> seteq b b' -> seteq (a ++ b) (a' ++ b').
Proof. intros H1 H2 x. rewrite !in_app_iff. specialize (H1 x). specialize (H2 x). tauto. Qed.

Lemma seteq_flat_map {A B} (f g : A -> list B) (l l' : list A) :
  seteq l l' -> (forall x, seteq (f x) (g x)) -> seteq (flat_map f l) (flat_map g l').
Proof.
  intros Hl Hf y. rewrite !in_flat_map. split; intros [x [Hx Hy]]; exists x; split.
  - apply Hl. exact Hx. - apply Hf. exact Hy. - apply Hl. exact Hx. - apply Hf. exact Hy.
Qed.

Lemma Neqb_spec : forall x y : N, (x =? y) = true <-> x = y.
Proof. intros. apply N.eqb_eq. Qed.

Lemma pid_eqb_spec : forall a b, pid_eqb a b = true <-> a = b.
Proof.
  intros [x|x] [y|y]; cbn; try (split; congruence); rewrite N.eqb_eq; split; congruence.
Qed.

Lemma grant_eqb_spec : forall a b, grant_eqb a b = true <-> a = b.
Proof.
  intros [p c] [q e]. unfold grant_eqb. cbn. rewrite andb_true_iff, pid_eqb_spec, N.eqb_eq.
  split; [intros [-> ->]; reflexivity | intros E; inversion E; auto].
Qed.

Lemma rgrant_eqb_spec : forall a b, rgrant_eqb a b = true <-> a = b.
Proof.
  intros [p c] [q e]. unfold rgrant_eqb. cbn. rewrite andb_true_iff, !N.eqb_eq.
  split; [intros [-> ->]; reflexivity | intros E; inversion E; auto].
Qed.

Lemma rev_eqb_spec : forall a b, rev_eqb a b = true <-> a = b.
Proof.
  intros [p c] [q e]. unfold rev_eqb. cbn. rewrite andb_true_iff, !N.eqb_eq.
  split; [intros [-> ->]; reflexivity | intros E; inversion E; auto].
Qed.

Lemma rev_eqb_refl : forall a, rev_eqb a a = true.
Proof. intros a. apply rev_eqb_spec. reflexivity. Qed.
