(* C18 -- executable model of resync and of the write path it is compared with.

   Code modelled (current /repo tree):
     db/database.go   getResyncedDocument, ResyncDocument
     db/background_mgr_resync_dcp.go   Run (callback: every non-tombstoned document), invalidatePrincipals
     db/database.go   invalidateAllPrincipals;  auth/auth.go InvalidateChannels / InvalidateRoles,
                      getPrincipal (rebuild of an invalidated principal on its next load)
     db/crud.go       documentUpdateFunc (the part that decides channels / access of a write: the "fresh"
                      database is a replay of the same revisions through this function)

   Conventions: document ids, channel, user and role names are interned as N.  A revision id is
   (generation, digest).  Channel sets, grant sets are lists read as sets ([seteq]); the real
   ChannelMap's removal entries and the sequence stamps inside TimedSets are not modelled (projection:
   the ACTIVE channel set, the granted (principal, channel) pairs, the granted (user, role) pairs).
   The sync function is a parameter [sync : body -> verdict] (it sees the revision body only: the
   functions considered do not use oldDoc, the user context or the user xattr). *)
From SG Require Import Base.Prelude.
Open Scope N_scope.

(* ------------------------------------------------------------------ sets as lists *)
Section SetOps.
  Context {A : Type}.
  Variable eqb : A -> A -> bool.
  Definition mem (x : A) (l : list A) : bool := existsb (eqb x) l.
  Definition subset (a b : list A) : bool := forallb (fun x => mem x b) a.
  Definition set_eqb (a b : list A) : bool := subset a b && subset b a.
End SetOps.

Definition seteq {A} (a b : list A) : Prop := forall x, In x a <-> In x b.

(* ------------------------------------------------------------------ principals, grants, verdicts *)
Inductive pid := PU (n : N) | PR (n : N).          (* access("name", ..) / access("role:name", ..) *)
Definition pid_eqb (a b : pid) : bool :=
  match a, b with PU x, PU y => x =? y | PR x, PR y => x =? y | _, _ => false end.

Definition grant := (pid * N)%type.                (* principal is granted a channel *)
Definition rgrant := (N * N)%type.                 (* user is granted a role *)
Definition grant_eqb (a b : grant) : bool := pid_eqb (fst a) (fst b) && (snd a =? snd b).
Definition rgrant_eqb (a b : rgrant) : bool := (fst a =? fst b) && (snd a =? snd b).

(* [Reject rls]: the function threw / called reject(); [rls] are the role() grants it had made before
   (sync_runner.go compiles whatever was accumulated; access() grants and channels are dropped by
   getResyncedDocument itself, role grants are not -- see [rroles]).  The write path refuses the revision. *)
Inductive verdict :=
| Ok (chs : list N) (acc : list grant) (rls : list rgrant)
| Reject (rls : list rgrant).
(* "Probably the validator rejected the doc": access = nil, channels = nil *)
Definition vchans (v : verdict) : list N := match v with Ok c _ _ => c | Reject _ => [] end.
Definition vaccess (v : verdict) : list grant := match v with Ok _ a _ => a | Reject _ => [] end.
Definition vroles (v : verdict) : list rgrant := match v with Ok _ _ r => r | Reject _ => [] end.
Definition accepted (v : verdict) : bool := match v with Ok _ _ _ => true | Reject _ => false end.

(* which tree: see Switch.v *)
Record switches := mkSw { sw_leaf : bool; sw_rej : bool; sw_inval : bool }.
(* the role grants getResyncedDocument applies: on a rejection the unrepaired code keeps the [roles] map
   returned together with the error; the repair (sw_rej) clears it like [access] *)
Definition rroles (fx : switches) (v : verdict) : list rgrant :=
  match v with Ok _ _ r => r | Reject r => if sw_rej fx then [] else r end.

(* ------------------------------------------------------------------ revisions *)
Definition rev := (N * N)%type.                    (* generation, digest *)
Definition rev_eqb (a b : rev) : bool := (fst a =? fst b) && (snd a =? snd b).
Definition rev_ltb (a b : rev) : bool := (fst a <? fst b) || ((fst a =? fst b) && (snd a <? snd b)).

Section Model.
  Variable body : Type.
  (* the body of a plain deletion ("{}"): a tombstone that is the current revision is stored without body *)
  Variable empty : body.

  (* a leaf of the revision tree; [l_chans] is RevInfo.Channels *)
  Record leaf := mkLeaf { l_rev : rev; l_body : body; l_del : bool; l_chans : list N }.

  (* [d_cur]: current revision (SyncData.RevAndVersion) with the document body and the Deleted flag;
     [d_chans]: active channels of SyncData.Channels; [d_access]/[d_roles]: SyncData.Access/RoleAccess.
     For a tombstoned document the body component of [d_cur] is the body the sync function saw when the
     tombstone became current (the stored document has no body); nothing executable reads it. *)
  Record doc := mkDoc {
    d_id : N; d_leaves : list leaf; d_known : list rev; d_cur : option (rev * body * bool);
    d_chans : list N; d_access : list grant; d_roles : list rgrant;
    d_seq : N; d_recent : list N }.

  Definition cur_rev (d : doc) : option rev := match d_cur d with Some (r, _, _) => Some r | None => None end.
  Definition is_cur (d : doc) (l : leaf) : bool :=
    match d_cur d with Some (r, _, _) => rev_eqb r (l_rev l) | None => false end.
  Definition tombstoned (d : doc) : bool := match d_cur d with Some (_, _, del) => del | None => false end.

  (* channelsForRevTreeID: the channel set that authorises reads of one leaf *)
  Definition leaf_chans (d : doc) (l : leaf) : list N := if is_cur d l then d_chans d else l_chans l.

  (* ---------------------------------------------------------------- winner (RevTree.winningRevision) *)
  Definition better (a b : leaf) : bool :=
    if Bool.eqb (l_del a) (l_del b) then rev_ltb (l_rev b) (l_rev a) else l_del b.
  Fixpoint winner (ls : list leaf) : option leaf :=
    match ls with
    | [] => None
    | l :: r => match winner r with
                | None => Some l
                | Some w => if better l w then Some l else Some w
                end
    end.

  (* ---------------------------------------------------------------- write path (documentUpdateFunc) *)
  (* [w_anc]: the ancestors sent with the revision (PutExistingRev history), nearest first *)
  Record wop := mkW { w_doc : N; w_rev : rev; w_anc : list rev; w_body : body; w_del : bool }.

  Section WithSync.
    Variable sync : body -> verdict.

    Definition add_leaf (ls : list leaf) (w : wop) (chs : list N) : list leaf :=
      (* an ancestor of the new revision stops being a leaf *)
      filter (fun l => negb (mem rev_eqb (l_rev l) (w_anc w))) ls ++ [mkLeaf (w_rev w) (w_body w) (w_del w) chs].

    (* the document of a tombstoned current revision is written without body: whatever fields the deletion
       carried are gone from then on (the function saw them when the revision was written / promoted) *)
    Definition norm_leaves (cur : rev) (ls : list leaf) : list leaf :=
      map (fun l => if rev_eqb (l_rev l) cur && l_del l then mkLeaf (l_rev l) empty true (l_chans l) else l) ls.

    Definition opt_rev_eqb (a b : option rev) : bool :=
      match a, b with Some x, Some y => rev_eqb x y | None, None => true | _, _ => false end.

    Definition add_known (ks : list rev) (w : wop) : list rev := w_rev w :: w_anc w ++ ks.

    (* None: the write is refused / a no-op and the stored document does not change *)
    Definition put_doc (d : doc) (w : wop) : option doc :=
      if mem rev_eqb (w_rev w) (d_known d) then None           (* revision already known: no-op *)
      else match sync (w_body w) with
      | Reject _ => None                                       (* 403 from the sync function *)
      | Ok chs acc rls =>
          match winner (add_leaf (d_leaves d) w []) with
          | None => None
          | Some wl =>
              let is_win := rev_eqb (l_rev wl) (w_rev w) in
              (* "if len(channelSet) > 0 && !isWinningRev { doc.History[newRevID].Channels = channelSet }" *)
              let ls := norm_leaves (l_rev wl) (add_leaf (d_leaves d) w (if is_win then [] else chs)) in
              let ks := add_known (d_known d) w in
              if opt_rev_eqb (cur_rev d) (Some (l_rev wl)) then
                (* "Rev %q leaves %q still current": top-level channels / access untouched *)
                Some (mkDoc (d_id d) ls ks (d_cur d) (d_chans d) (d_access d) (d_roles d) (d_seq d) (d_recent d))
              else if is_win then
                Some (mkDoc (d_id d) ls ks (Some (w_rev w, w_body w, w_del w)) chs acc rls (d_seq d) (d_recent d))
              else
                (* recalculateSyncFnForActiveRev: another leaf became current *)
                match sync (l_body wl) with
                | Reject _ => None
                | Ok c2 a2 r2 =>
                    Some (mkDoc (d_id d) ls ks (Some (l_rev wl, l_body wl, l_del wl)) c2 a2 r2 (d_seq d) (d_recent d))
                end
          end
      end.

    Definition empty_doc (id : N) : doc := mkDoc id [] [] None [] [] [] 0 [].

    Fixpoint put (db : list doc) (w : wop) : list doc :=
      match db with
      | [] => match put_doc (empty_doc (w_doc w)) w with Some d' => [d'] | None => [] end
      | d :: r => if d_id d =? w_doc w
                  then match put_doc d w with Some d' => d' :: r | None => d :: r end
                  else d :: put r w
      end.

    Definition replay (db : list doc) (ws : list wop) : list doc := fold_left put ws db.

    (* ---------------------------------------------------------------- resync of one document *)
    Definition resync_leaf (l : leaf) : leaf :=
      mkLeaf (l_rev l) (l_body l) (l_del l) (vchans (sync (l_body l))).

    (* some NON-winning leaf's channel set differs from what the function produces now *)
    Definition leaf_changed (d : doc) : bool :=
      existsb (fun l => negb (is_cur d l) && negb (set_eqb N.eqb (l_chans l) (vchans (sync (l_body l))))) (d_leaves d).

    (* getResyncedDocument + ResyncDocument.  [fixed]: the switches of Switch.v (sw_leaf = code_fixed, sw_rej = reject_roles_fixed).  [newseq]: the sequence the
       allocator hands out when sequences are regenerated.  None = ErrUpdateCancel (nothing written), and
       also the run loop's / ResyncDocument's skip of tombstones (empty body). *)
    Definition resync_doc (fixed : switches) (regen : bool) (newseq : N) (d : doc) : option doc :=
      match d_cur d with
      | None => None
      | Some (r, b, del) =>
          if del then None
          else
            let v := sync b in
            let changed := negb (set_eqb N.eqb (d_chans d) (vchans v))
                           || negb (set_eqb grant_eqb (d_access d) (vaccess v))
                           || negb (set_eqb rgrant_eqb (d_roles d) (rroles fixed v)) in
            if changed || regen || (sw_leaf fixed && leaf_changed d) then
              Some (mkDoc (d_id d) (map resync_leaf (d_leaves d)) (d_known d) (d_cur d)
                          (vchans v) (vaccess v) (rroles fixed v)
                          (if regen then newseq else d_seq d)
                          (if regen then d_recent d ++ [newseq] else d_recent d))
            else None
      end.

    (* the run loop over the feed; [alloc]: the sequences handed out, in visiting order.
       Result: the database and docs_changed. *)
    Fixpoint resync_db (fixed : switches) (regen : bool) (alloc : list N) (db : list doc) : list doc * N :=
      match db with
      | [] => ([], 0)
      | d :: r =>
          match resync_doc fixed regen (hd 0 alloc) d with
          | Some d' => let (r', n) := resync_db fixed regen (if regen then tl alloc else alloc) r in (d' :: r', N.succ n)
          | None => let (r', n) := resync_db fixed regen alloc r in (d :: r', n)
          end
      end.
  End WithSync.

  (* ------------------------------------------------------------------ principals *)
  (* [u_ch]/[u_rl]/[r_ch]: the computed channel / role sets stored in the principal document;
     None = invalidated (rebuilt from the access views on the next load) *)
  Record user := mkUser { u_name : N; u_adm_ch : list N; u_adm_rl : list N; u_ch : option (list N); u_rl : option (list N) }.
  Record role := mkRole { r_name : N; r_adm_ch : list N; r_ch : option (list N) }.
  Record princs := mkPs { ps_users : list user; ps_roles : list role }.

  (* the access / role_access views: every document with sync data, tombstones included *)
  Definition granted (db : list doc) (p : pid) : list N :=
    flat_map (fun d => map snd (filter (fun g => pid_eqb (fst g) p) (d_access d))) db.
  Definition role_granted (db : list doc) (u : N) : list N :=
    flat_map (fun d => map snd (filter (fun g => fst g =? u) (d_roles d))) db.

  Definition compute_user_ch (db : list doc) (u : user) : list N := u_adm_ch u ++ granted db (PU (u_name u)).
  Definition compute_user_rl (db : list doc) (u : user) : list N := u_adm_rl u ++ role_granted db (u_name u).
  Definition compute_role_ch (db : list doc) (r : role) : list N := r_adm_ch r ++ granted db (PR (r_name r)).

  Definition user_ch (db : list doc) (u : user) : list N := match u_ch u with Some c => c | None => compute_user_ch db u end.
  Definition user_rl (db : list doc) (u : user) : list N := match u_rl u with Some c => c | None => compute_user_rl db u end.
  Definition role_ch (db : list doc) (r : role) : list N := match r_ch r with Some c => c | None => compute_role_ch db r end.

  Definition find_role (ps : princs) (n : N) : option role := find (fun r => r_name r =? n) (ps_roles ps).

  (* InheritedCollectionChannels: own channels plus those of every role held (roles without a document
     contribute nothing) *)
  Definition effective (db : list doc) (ps : princs) (u : user) : list N :=
    user_ch db u ++ flat_map (fun rn => match find_role ps rn with Some r => role_ch db r | None => [] end) (user_rl db u).

  (* documents whose current revision the user is authorised to read (authorizeDoc on the winner) *)
  Definition can_see (db : list doc) (ps : princs) (u : user) (chs : list N) : bool :=
    existsb (fun c => mem N.eqb c (effective db ps u)) chs.
  Definition visible (db : list doc) (ps : princs) (u : user) : list N :=
    map d_id (filter (fun d => negb (tombstoned d) && can_see db ps u (d_chans d)) db).

  Definition invalidate_all (ps : princs) : princs :=
    mkPs (map (fun u => mkUser (u_name u) (u_adm_ch u) (u_adm_rl u) None None) (ps_users ps))
         (map (fun r => mkRole (r_name r) (r_adm_ch r) None) (ps_roles ps)).
  (* every principal loaded once: computed sets stored *)
  Definition warm (db : list doc) (ps : princs) : princs :=
    mkPs (map (fun u => mkUser (u_name u) (u_adm_ch u) (u_adm_rl u) (Some (user_ch db u)) (Some (user_rl db u))) (ps_users ps))
         (map (fun r => mkRole (r_name r) (r_adm_ch r) (Some (role_ch db r))) (ps_roles ps)).

  (* ---------------------------------------------------------------- principals along a history of writes and loads *)
  (* MarkPrincipalsChanged: a write that changes what the document grants a principal invalidates that
     principal's computed CHANNELS (users and roles named by access()), a change of the roles it grants a user
     invalidates that user's computed ROLES -- the two computed sets are invalidated independently *)
  Definition chans_of (p : pid) (acc : list grant) : list N := map snd (filter (fun g => pid_eqb (fst g) p) acc).
  Definition roles_of (u : N) (rls : list rgrant) : list N := map snd (filter (fun g => fst g =? u) rls).
  Definition doc_access (db : list doc) (id : N) : list grant :=
    match find (fun d => d_id d =? id) db with Some d => d_access d | None => [] end.
  Definition doc_roles (db : list doc) (id : N) : list rgrant :=
    match find (fun d => d_id d =? id) db with Some d => d_roles d | None => [] end.
  Definition mark (a a' : list grant) (r r' : list rgrant) (ps : princs) : princs :=
    mkPs (map (fun u => mkUser (u_name u) (u_adm_ch u) (u_adm_rl u)
                          (if set_eqb N.eqb (chans_of (PU (u_name u)) a) (chans_of (PU (u_name u)) a') then u_ch u else None)
                          (if set_eqb N.eqb (roles_of (u_name u) r) (roles_of (u_name u) r') then u_rl u else None)) (ps_users ps))
         (map (fun ro => mkRole (r_name ro) (r_adm_ch ro)
                          (if set_eqb N.eqb (chans_of (PR (r_name ro)) a) (chans_of (PR (r_name ro)) a') then r_ch ro else None)) (ps_roles ps)).

  (* loading a user (GetUser + its roles): every invalidated computed set it needs is rebuilt and stored *)
  Definition load_user (db : list doc) (ps : princs) (n : N) : princs :=
    match find (fun u => u_name u =? n) (ps_users ps) with
    | None => ps
    | Some u0 =>
        let held := user_rl db u0 in
        mkPs (map (fun u => if u_name u =? n
                            then mkUser (u_name u) (u_adm_ch u) (u_adm_rl u) (Some (user_ch db u)) (Some (user_rl db u)) else u) (ps_users ps))
             (map (fun r => if mem N.eqb (r_name r) held then mkRole (r_name r) (r_adm_ch r) (Some (role_ch db r)) else r) (ps_roles ps))
    end.

  Inductive pop := PWrite (w : wop) | PLoad (user : N).

  Definition pstep (sync : body -> verdict) (st : list doc * princs) (op : pop) : list doc * princs :=
    let (db, ps) := st in
    match op with
    | PWrite w => let db' := put sync db w in
                  (db', mark (doc_access db (w_doc w)) (doc_access db' (w_doc w)) (doc_roles db (w_doc w)) (doc_roles db' (w_doc w)) ps)
    | PLoad n => (db, load_user db ps n)
    end.
  Definition hist (sync : body -> verdict) (st : list doc * princs) (ops : list pop) : list doc * princs :=
    fold_left (pstep sync) ops st.
  Definition writes_of (ops : list pop) : list wop :=
    flat_map (fun op => match op with PWrite w => [w] | PLoad _ => [] end) ops.

  (* ResyncManagerDCP.invalidatePrincipals (resync of all collections).  [ifixed]: Switch.regen_inval_fixed *)
  (* [sw_inval fixed]: Switch.always_inval_fixed -- the repaired function invalidates after EVERY completed run, the
     function as found only when docs_changed > 0 *)
  Definition finish (fixed : switches) (ifixed regen : bool) (changed : N) (ps : princs) : princs :=
    if regen && negb ifixed then ps                       (* updateAllPrincipalsSequences; return nil *)
    else if sw_inval fixed || (0 <? changed) then invalidate_all ps else ps.

  Definition run (sync : body -> verdict) (fixed : switches) (ifixed regen : bool) (alloc : list N) (db : list doc) (ps : princs)
    : list doc * N * princs :=
    let (db', n) := resync_db sync fixed regen alloc db in (db', n, finish fixed ifixed regen n ps).
End Model.

Arguments mkLeaf {body}. Arguments l_rev {body}. Arguments l_body {body}. Arguments l_del {body}. Arguments l_chans {body}.
Arguments mkDoc {body}. Arguments d_id {body}. Arguments d_leaves {body}. Arguments d_known {body}. Arguments d_cur {body}.
Arguments d_chans {body}. Arguments d_access {body}. Arguments d_roles {body}. Arguments d_seq {body}. Arguments d_recent {body}.
Arguments cur_rev {body}. Arguments is_cur {body}. Arguments tombstoned {body}. Arguments leaf_chans {body}.
Arguments better {body}. Arguments winner {body}.
Arguments mkW {body}. Arguments w_doc {body}. Arguments w_rev {body}. Arguments w_anc {body}. Arguments w_body {body}. Arguments w_del {body}.
Arguments add_leaf {body}. Arguments add_known {body}. Arguments put_doc {body}. Arguments empty_doc {body}. Arguments norm_leaves {body}.
Arguments put {body}. Arguments replay {body}.
Arguments resync_leaf {body}. Arguments leaf_changed {body}. Arguments resync_doc {body}. Arguments resync_db {body}.
Arguments granted {body}. Arguments role_granted {body}. Arguments compute_user_ch {body}. Arguments compute_user_rl {body}.
Arguments compute_role_ch {body}. Arguments user_ch {body}. Arguments user_rl {body}. Arguments role_ch {body}.
Arguments effective {body}. Arguments can_see {body}. Arguments visible {body}. Arguments warm {body}. Arguments run {body}.
Arguments doc_access {body}. Arguments doc_roles {body}. Arguments load_user {body}. Arguments PWrite {body}. Arguments PLoad {body}.
Arguments pstep {body}. Arguments hist {body}. Arguments writes_of {body}.
