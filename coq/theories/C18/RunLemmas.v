(* C18: list / association-list / queue lemmas used by the proofs about the run model (Run.v), and the
   store invariant [BInv] (the by-CAS index is strictly ordered, every document is in it, every queued event
   belongs to a selected collection), preserved by every step without any hypothesis. *)
From Coq Require Import Sorting.Sorted.
From SG Require Import Base.Prelude C18.Resync C18.SetLemmas C18.ResyncProofs C18.Concurrent C18.Run.
Open Scope N_scope.

(* ------------------------------------------------------------------ association lists *)
Lemma lookup_notin : forall m k, ~ In k (map fst m) -> lookup m k = 0.
Proof.
  induction m as [|[k' v] m IH]; intros k H; cbn; [reflexivity|].
  destruct (k' =? k) eqn:E; [apply N.eqb_eq in E; subst; exfalso; apply H; left; reflexivity|].
  apply IH. intros Hin. apply H. right. exact Hin.
Qed.

Lemma lookup_in : forall m k, 0 < lookup m k -> In (k, lookup m k) m.
Proof.
  induction m as [|[k' v] m IH]; intros k H; cbn in *; [lia|].
  destruct (k' =? k) eqn:E; [apply N.eqb_eq in E; subst; left; reflexivity | right; apply IH; exact H].
Qed.

Lemma lookup_nodup : forall m k v, NoDup (map fst m) -> In (k, v) m -> lookup m k = v.
Proof.
  induction m as [|[k' v'] m IH]; intros k v Hn Hin; cbn in *; [contradiction|].
  inversion Hn as [|x l Hx Hn']; subst. destruct Hin as [E|Hin].
  - inversion E; subst. rewrite N.eqb_refl. reflexivity.
  - destruct (k' =? k) eqn:E; [|apply IH; assumption].
    apply N.eqb_eq in E; subst. exfalso. apply Hx. apply in_map_iff. exists (k, v). split; [reflexivity | exact Hin].
Qed.

Lemma drop_keys : forall m k, ~ In k (map fst (drop m k)).
Proof.
  intros m k H. apply in_map_iff in H. destruct H as [[k' v] [E Hin]]. cbn in E. subst k'.
  apply filter_In in Hin. destruct Hin as [_ Hf]. cbn in Hf. rewrite N.eqb_refl in Hf. discriminate.
Qed.

Lemma lookup_drop_other : forall m k k', k <> k' -> lookup (drop m k) k' = lookup m k'.
Proof.
  induction m as [|[a v] m IH]; intros k k' H; cbn; [reflexivity|].
  destruct (a =? k) eqn:E; cbn.
  - apply N.eqb_eq in E; subst a. destruct (k =? k') eqn:E2; [apply N.eqb_eq in E2; contradiction|]. apply IH. exact H.
  - destruct (a =? k'); [reflexivity | apply IH; exact H].
Qed.

Lemma lookup_snoc_other : forall m k v k', k <> k' -> lookup (m ++ [(k, v)]) k' = lookup m k'.
Proof.
  induction m as [|[a x] m IH]; intros k v k' H; cbn.
  - destruct (k =? k') eqn:E; [apply N.eqb_eq in E; contradiction | reflexivity].
  - destruct (a =? k'); [reflexivity | apply IH; exact H].
Qed.

Lemma lookup_snoc_notin : forall m k v, ~ In k (map fst m) -> lookup (m ++ [(k, v)]) k = v.
Proof.
  induction m as [|[a x] m IH]; intros k v H; cbn.
  - rewrite N.eqb_refl. reflexivity.
  - destruct (a =? k) eqn:E; [apply N.eqb_eq in E; subst; exfalso; apply H; left; reflexivity|].
    apply IH. intros Hin. apply H. right. exact Hin.
Qed.

Lemma lookup_bump_same : forall idx id c, lookup (bump idx id c) id = c.
Proof. intros. unfold bump. apply lookup_snoc_notin. apply drop_keys. Qed.

Lemma lookup_bump_other : forall idx id c id', id <> id' -> lookup (bump idx id c) id' = lookup idx id'.
Proof. intros. unfold bump. rewrite lookup_snoc_other by assumption. apply lookup_drop_other. assumption. Qed.

Lemma lookup_upd_same : forall m k v, lookup (upd m k v) k = v.
Proof. intros. unfold upd. cbn. rewrite N.eqb_refl. reflexivity. Qed.

Lemma lookup_upd_other : forall m k v k', k <> k' -> lookup (upd m k v) k' = lookup m k'.
Proof.
  intros. unfold upd. cbn. destruct (k =? k') eqn:E; [apply N.eqb_eq in E; contradiction|]. apply lookup_drop_other. assumption.
Qed.

Lemma lookup_map_key : forall (f : N -> N) cs c, In c cs -> lookup (map (fun c => (c, f c)) cs) c = f c.
Proof.
  induction cs as [|a cs IH]; intros c H; [destruct H|]. cbn.
  destruct (a =? c) eqn:E; [apply N.eqb_eq in E; subst; reflexivity|].
  destruct H as [->|H]; [rewrite N.eqb_refl in E; discriminate | apply IH; exact H].
Qed.

(* ------------------------------------------------------------------ strictly sorted lists *)
Lemma ss_filter {A} (R : A -> A -> Prop) (f : A -> bool) (l : list A) :
  StronglySorted R l -> StronglySorted R (filter f l).
Proof.
  induction 1 as [|a l Hs IH Hf]; cbn; [constructor|].
  destruct (f a); [|exact IH]. constructor; [exact IH|].
  apply Forall_forall. intros x Hx. apply filter_In in Hx. rewrite Forall_forall in Hf. apply Hf. apply Hx.
Qed.

Lemma ss_snoc {A} (R : A -> A -> Prop) (l : list A) (y : A) :
  StronglySorted R l -> (forall x, In x l -> R x y) -> StronglySorted R (l ++ [y]).
Proof.
  induction 1 as [|a l Hs IH Hf]; intros H; cbn.
  - constructor; [constructor | constructor].
  - constructor; [apply IH; intros x Hx; apply H; right; exact Hx|].
    apply Forall_forall. intros x Hx. apply in_app_or in Hx. destruct Hx as [Hx|[<-|[]]].
    + rewrite Forall_forall in Hf. apply Hf. exact Hx.
    + apply H. left. reflexivity.
Qed.

Lemma nodup_filter {A} (f : A * N -> bool) (l : list (A * N)) : NoDup (map fst l) -> NoDup (map fst (filter f l)).
Proof.
  induction l as [|a l IH]; cbn; intros H; [constructor|]. inversion H as [|x l' Hx Hn]; subst.
  destruct (f a); cbn; [|apply IH; exact Hn]. constructor; [|apply IH; exact Hn].
  intros Hin. apply Hx. apply in_map_iff in Hin. destruct Hin as [p [E Hp]]. apply filter_In in Hp.
  apply in_map_iff. exists p. split; [exact E | apply Hp].
Qed.

Lemma nodup_snoc {A} (l : list A) (y : A) : NoDup l -> ~ In y l -> NoDup (l ++ [y]).
Proof.
  induction l as [|a l IH]; cbn; intros Hn Hy; [constructor; [intros []|constructor]|].
  inversion Hn as [|x l' Hx Hn']; subst. constructor.
  - intros Hin. apply in_app_or in Hin. destruct Hin as [Hin|[<-|[]]]; [exact (Hx Hin) | apply Hy; left; reflexivity].
  - apply IH; [exact Hn' | intros Hin; apply Hy; right; exact Hin].
Qed.

Definition casl (a b : N * N) : Prop := snd a < snd b.
Definition evl (a b : event) : Prop := e_cas a < e_cas b.

(* ------------------------------------------------------------------ queues *)
Lemma qget_qset_same : forall q c l, qget q c <> [] -> qget (qset q c l) c = l.
Proof.
  induction q as [|[c' l'] q IH]; intros c l H; cbn in *; [contradiction|].
  destruct (c' =? c) eqn:E; cbn; rewrite E; [reflexivity | apply IH; exact H].
Qed.

Lemma qget_qset_other : forall q c l c', c <> c' -> qget (qset q c l) c' = qget q c'.
Proof.
  induction q as [|[a l'] q IH]; intros c l c' H; cbn; [reflexivity|].
  destruct (a =? c) eqn:E; cbn.
  - apply N.eqb_eq in E; subst a. destruct (c =? c') eqn:E2; [apply N.eqb_eq in E2; contradiction | apply IH; exact H].
  - destruct (a =? c'); [reflexivity | apply IH; exact H].
Qed.

Lemma qget_map_in : forall (f : N -> list event) cs c, In c cs -> qget (map (fun c => (c, f c)) cs) c = f c.
Proof.
  induction cs as [|a cs IH]; intros c H; [destruct H|]. cbn.
  destruct (a =? c) eqn:E; [apply N.eqb_eq in E; subst; reflexivity|].
  destruct H as [->|H]; [rewrite N.eqb_refl in E; discriminate | apply IH; exact H].
Qed.

Lemma qget_map_notin : forall (f : N -> list event) cs c, ~ In c cs -> qget (map (fun c => (c, f c)) cs) c = [].
Proof.
  induction cs as [|a cs IH]; intros c H; cbn; [reflexivity|].
  destruct (a =? c) eqn:E; [apply N.eqb_eq in E; subst; exfalso; apply H; left; reflexivity|].
  apply IH. intros Hin. apply H. right. exact Hin.
Qed.

Lemma qget_all_empty : forall q, forallb (fun p : N * list event => null (snd p)) q = true -> forall c, qget q c = [].
Proof.
  induction q as [|[a l] q IH]; intros H c; cbn in *; [reflexivity|].
  apply andb_true_iff in H. destruct H as [Hl Hq]. destruct (a =? c); [|apply IH; exact Hq].
  destruct l; [reflexivity | discriminate].
Qed.

Section Store.
  Variable body : Type.
  Variable empty : body.
  Variable col_of : N -> N.
  Variable syncs : N -> body -> verdict.
  Variable allcols : list N.
  Variable fixed : switches.
  Notation doc := (doc body).
  Notation wop := (wop body).
  Notation rst := (rst body).
  Notation step := (rstep empty col_of syncs allcols fixed).
  Notation fn := (Run.fn col_of syncs).

  (* ---------------------------------------------------------------- snapshot *)
  Lemma snapshot_in : forall c ck rg (docs : list doc) idx e,
    In e (snapshot col_of syncs fixed c ck rg docs idx) <->
    exists p, In p idx /\ col_of (fst p) = c /\ ck < snd p /\ e = mkEv (fst p) (snd p) (skip_at col_of syncs fixed rg docs (fst p)).
  Proof.
    intros c ck rg docs idx e. unfold snapshot. rewrite in_flat_map. split.
    - intros [p [Hp He]]. destruct (col_of (fst p) =? c) eqn:E1; [|destruct He].
      destruct (ck <? snd p) eqn:E2; cbn in He; [|destruct He]. destruct He as [<-|[]].
      exists p. apply N.eqb_eq in E1. apply N.ltb_lt in E2. auto.
    - intros [p [Hp [E1 [E2 ->]]]]. exists p. split; [exact Hp|].
      apply N.eqb_eq in E1. apply N.ltb_lt in E2. rewrite E1, E2. left. reflexivity.
  Qed.

  Lemma snapshot_sorted : forall c ck rg (docs : list doc) idx, StronglySorted casl idx -> StronglySorted evl (snapshot col_of syncs fixed c ck rg docs idx).
  Proof.
    intros c ck rg docs idx H. induction H as [|p idx Hs IH Hf]; cbn; [constructor|].
    destruct ((col_of (fst p) =? c) && (ck <? snd p)); cbn; [|exact IH].
    constructor; [exact IH|]. apply Forall_forall. intros e He. apply snapshot_in in He.
    destruct He as [q [Hq [_ [_ ->]]]]. rewrite Forall_forall in Hf. apply (Hf q Hq).
  Qed.

  (* ---------------------------------------------------------------- the write path on a list of documents *)
  Lemma put_in : forall (db : list doc) w d', In d' (put empty (fn (w_doc w)) db w) ->
    In d' db \/
    (wrote empty col_of syncs db w = true /\ d_id d' = w_doc w /\
     ((exists d, In d db /\ d_id d = w_doc w /\ put_doc empty (fn (w_doc w)) d w = Some d') \/
      put_doc empty (fn (w_doc w)) (empty_doc (w_doc w)) w = Some d')).
  Proof.
    intros db w d' H.
    assert (G : In d' db \/ (exists d, In d db /\ d_id d = w_doc w /\ put_doc empty (fn (w_doc w)) d w = Some d') \/
                (put_doc empty (fn (w_doc w)) (empty_doc (w_doc w)) w = Some d' /\ ~ In (w_doc w) (map (@d_id body) db))).
    { clear -H. induction db as [|d db IH]; cbn [put] in H.
      - destruct (put_doc empty (fn (w_doc w)) (empty_doc (w_doc w)) w) as [x|] eqn:E; [|destruct H].
        destruct H as [<-|[]]. right. right. split; [reflexivity | intros []].
      - destruct (d_id d =? w_doc w) eqn:Eid.
        + apply N.eqb_eq in Eid. destruct (put_doc empty (fn (w_doc w)) d w) as [x|] eqn:E.
          * destruct H as [<-|H]; [right; left; exists d; split; [left; reflexivity | split; assumption] | left; right; exact H].
          * left. exact H.
        + destruct H as [<-|H]; [left; left; reflexivity|].
          destruct (IH H) as [Hin|[[x [Hx Hp]]|[Hp Hn]]].
          * left. right. exact Hin.
          * right. left. exists x. split; [right; exact Hx | exact Hp].
          * right. right. split; [exact Hp|]. cbn. intros [Hd|Hd]; [|exact (Hn Hd)].
            apply N.eqb_neq in Eid. exact (Eid Hd). }
    destruct G as [G|[[d [Hd [Hid Hp]]]|[Hp Hn]]]; [left; exact G| |].
    - right. split; [|split; [rewrite (put_doc_id body empty _ d w d' Hp); exact Hid | left; exists d; auto]].
      unfold wrote. apply orb_true_iff. left. apply existsb_exists. exists d. split; [exact Hd|].
      rewrite Hp. apply N.eqb_eq in Hid. rewrite Hid. reflexivity.
    - right. split; [|split; [rewrite (put_doc_id body empty _ _ w d' Hp); reflexivity | right; exact Hp]].
      unfold wrote. apply orb_true_iff. right. rewrite Hp.
      destruct (mem N.eqb (w_doc w) (map (@d_id body) db)) eqn:Em; [|reflexivity].
      apply (mem_In N.eqb Neqb_spec) in Em. contradiction.
  Qed.

  Lemma put_not_wrote : forall (db : list doc) w, wrote empty col_of syncs db w = false -> put empty (fn (w_doc w)) db w = db.
  Proof.
    intros db w H. unfold wrote in H. apply orb_false_iff in H. destruct H as [H1 H2].
    assert (G : forall l, existsb (fun d => (d_id d =? w_doc w) && is_some (put_doc empty (fn (w_doc w)) d w)) l = false ->
                (In (w_doc w) (map (@d_id body) l) \/ put_doc empty (fn (w_doc w)) (empty_doc (w_doc w)) w = None) ->
                put empty (fn (w_doc w)) l w = l).
    { induction l as [|d l IH]; cbn [put existsb]; intros He Hn.
      - destruct Hn as [[]| ->]. reflexivity.
      - apply orb_false_iff in He. destruct He as [Hd Hl]. destruct (d_id d =? w_doc w) eqn:Eid.
        + cbn in Hd. destruct (put_doc empty (fn (w_doc w)) d w); [discriminate | reflexivity].
        + f_equal. apply IH; [exact Hl|]. destruct Hn as [[Hx|Hx]|Hx]; [|left; exact Hx | right; exact Hx].
          apply N.eqb_neq in Eid. contradiction. }
    apply G; [exact H1|]. apply andb_false_iff in H2. destruct H2 as [H2|H2].
    - left. apply negb_false_iff in H2. apply (mem_In N.eqb Neqb_spec) in H2. exact H2.
    - right. destruct (put_doc empty (fn (w_doc w)) (empty_doc (w_doc w)) w); [discriminate | reflexivity].
  Qed.

  (* ---------------------------------------------------------------- the store invariant *)
  Record BInv (st : rst) : Prop := mkBInv {
    b_sorted : StronglySorted casl (r_idx st);
    b_range : forall p, In p (r_idx st) -> 0 < snd p <= r_clock st;
    b_keys : NoDup (map fst (r_idx st));
    b_docs : forall d, In d (r_docs st) -> 0 < lookup (r_idx st) (d_id d);
    b_queue : forall c e, In e (qget (r_queue st) c) -> col_of (e_id e) = c /\ In c (r_cols st);
    b_cols : r_state st = MRunning -> incl (r_cols st) (r_sel st) }.

  Lemma lookup_le_clock : forall st id, BInv st -> lookup (r_idx st) id <= r_clock st.
  Proof.
    intros st id B. destruct (N.eq_dec (lookup (r_idx st) id) 0) as [E|E]; [lia|].
    assert (H : 0 < lookup (r_idx st) id) by lia. apply lookup_in in H. apply (b_range st B) in H. cbn in H. lia.
  Qed.

  Lemma bump_sorted : forall idx id clock, StronglySorted casl idx -> (forall p, In p idx -> 0 < snd p <= clock) ->
    StronglySorted casl (bump idx id (clock + 1)).
  Proof.
    intros idx id clock Hs Hr. unfold bump. apply ss_snoc; [apply ss_filter; exact Hs|].
    intros x Hx. apply filter_In in Hx. destruct Hx as [Hx _]. apply Hr in Hx. unfold casl. cbn. lia.
  Qed.

  Lemma bump_range : forall idx id clock p, (forall p, In p idx -> 0 < snd p <= clock) -> In p (bump idx id (clock + 1)) -> 0 < snd p <= clock + 1.
  Proof.
    intros idx id clock p Hr Hp. unfold bump in Hp. apply in_app_or in Hp. destruct Hp as [Hp|[<-|[]]].
    - apply filter_In in Hp. destruct Hp as [Hp _]. apply Hr in Hp. lia.
    - cbn. lia.
  Qed.

  Lemma bump_keys : forall idx id c, NoDup (map fst idx) -> NoDup (map fst (bump idx id c)).
  Proof.
    intros idx id c H. unfold bump. rewrite map_app. cbn. apply nodup_snoc; [apply nodup_filter; exact H | apply drop_keys].
  Qed.

  Lemma visit_docs_in : forall regen s id (docs : list doc) d', In d' (visit_docs col_of syncs fixed regen s id docs) ->
    exists d, In d docs /\ d' = (if d_id d =? id then after (fn id) fixed regen s d else d).
  Proof.
    intros regen s id docs d' H. unfold visit_docs in H. apply in_map_iff in H. destruct H as [d [<- Hd]]. exists d. auto.
  Qed.

  Lemma visit_docs_id : forall regen s id (docs : list doc) d', In d' (visit_docs col_of syncs fixed regen s id docs) ->
    exists d, In d docs /\ d_id d' = d_id d /\ d_cur d' = d_cur d.
  Proof.
    intros regen s id docs d' H. apply visit_docs_in in H. destruct H as [d [Hd ->]]. exists d. split; [exact Hd|].
    destruct (d_id d =? id); [split; [apply after_id | apply after_cur] | split; reflexivity].
  Qed.

  Lemma start_queue : forall cs ck rg (docs : list doc) idx c e,
    In e (qget (map (fun c0 => (c0, snapshot col_of syncs fixed c0 (lookup ck c0) rg docs idx)) cs) c) -> col_of (e_id e) = c /\ In c cs.
  Proof.
    intros cs ck rg docs idx c e He. destruct (in_dec N.eq_dec c cs) as [Hc|Hc].
    - rewrite (qget_map_in (fun c0 => snapshot col_of syncs fixed c0 (lookup ck c0) rg docs idx) cs c Hc) in He.
      apply snapshot_in in He. destruct He as [p [_ [Hp [_ ->]]]]. cbn. auto.
    - rewrite (qget_map_notin (fun c0 => snapshot col_of syncs fixed c0 (lookup ck c0) rg docs idx) cs c Hc) in He. destruct He.
  Qed.

  Lemma binv_step : forall st op, BInv st -> BInv (step st op).
  Proof.
    intros st op B. destruct op as [w|reset regen cols|c s| |ck ch|pseqs|u]; cbn [rstep].
    - (* write *)
      unfold do_write. destruct (wrote empty col_of syncs (r_docs st) w) eqn:Ew.
      + constructor; cbn.
        * apply bump_sorted; [apply (b_sorted st B) | apply (b_range st B)].
        * intros p Hp. eapply bump_range; [apply (b_range st B) | exact Hp].
        * apply bump_keys. apply (b_keys st B).
        * intros d' Hd'. destruct (N.eq_dec (w_doc w) (d_id d')) as [E|E].
          -- rewrite <- E, lookup_bump_same. lia.
          -- rewrite lookup_bump_other by exact E. apply put_in in Hd'. destruct Hd' as [Hd'|[_ [Hid _]]].
             ++ apply (b_docs st B). exact Hd'.
             ++ symmetry in Hid. contradiction.
        * apply (b_queue st B).
        * apply (b_cols st B).
      + rewrite (put_not_wrote _ _ Ew). constructor; cbn; apply B.
    - (* start *)
      unfold do_start.
      assert (G : forall (cs : list N) (ck : bool), BInv (mkR (r_docs st) (r_idx st) (r_clock st) MRunning cs (if ck then r_pchanged st else 0) (if ck then r_pckpt st else [])
                  (if ck then r_rid st else r_rid st + 1) regen (r_hasall st || null cols)
                  (map (fun c => (c, snapshot col_of syncs fixed c (lookup (if ck then r_pckpt st else []) c) regen (r_docs st) (r_idx st))) cs)
                  (if ck then r_pckpt st else []) (if ck then r_pchanged st else 0) (r_ps st) (r_pseq st) (r_log st) (r_sel st ++ cs) (r_dirty st) (r_alloc st))).
      { intros cs ck. constructor; cbn; try apply B.
        - intros c e He. apply start_queue in He. exact He.
        - intros _ x Hx. apply in_or_app. right. exact Hx. }
      destruct (r_state st); try exact B;
        (destruct (negb (subset N.eqb (if null cols then allcols else cols) allcols)); [exact B | apply G]).
    - (* visit *)
      unfold do_visit. destruct (r_state st) eqn:Es; try exact B. pose proof (b_cols st B Es) as Hcols.
      destruct (qget (r_queue st) c) as [|e q'] eqn:Eq; [exact B|].
      assert (Hq : forall c' e', In e' (qget (qset (r_queue st) c q') c') -> col_of (e_id e') = c' /\ In c' (r_cols st)).
      { intros c' e' He'. destruct (N.eq_dec c c') as [<-|Hne].
        - rewrite qget_qset_same in He' by (rewrite Eq; discriminate). apply (b_queue st B). rewrite Eq. right. exact He'.
        - rewrite qget_qset_other in He' by exact Hne. apply (b_queue st B). exact He'. }
      destruct (e_skip e).
      + constructor; cbn; try apply B; [exact Hq | intros _; exact Hcols].
      + destruct (visit_wrote col_of syncs fixed (r_regen st) s (e_id e) (r_docs st)) eqn:Ew.
        * constructor; cbn.
          -- apply bump_sorted; [apply (b_sorted st B) | apply (b_range st B)].
          -- intros p Hp. eapply bump_range; [apply (b_range st B) | exact Hp].
          -- apply bump_keys. apply (b_keys st B).
          -- intros d' Hd'. apply visit_docs_id in Hd'. destruct Hd' as [d [Hd [Hid _]]]. rewrite Hid.
             destruct (N.eq_dec (e_id e) (d_id d)) as [E|E].
             ++ rewrite <- E, lookup_bump_same. lia.
             ++ rewrite lookup_bump_other by exact E. apply (b_docs st B). exact Hd.
          -- exact Hq.
          -- intros _; exact Hcols.
        * constructor; cbn; try apply B; [|exact Hq|intros _; exact Hcols].
          intros d' Hd'. apply visit_docs_id in Hd'. destruct Hd' as [d [Hd [Hid _]]]. rewrite Hid. apply (b_docs st B). exact Hd.
    - (* stop *)
      unfold do_stop. destruct (r_state st); try exact B. constructor; cbn; try apply B; [intros c e []|discriminate].
    - (* crash *)
      unfold do_crash. destruct (r_state st); try exact B. constructor; cbn; try apply B; [intros c e []|discriminate].
    - (* finish *)
      unfold do_finish. destruct (r_state st); try exact B.
      destruct (forallb (fun p => null (snd p)) (r_queue st)); [|exact B].
      constructor; cbn; try apply B; [intros c e []|discriminate].
    - (* load *)
      unfold do_load. constructor; cbn; apply B.
  Qed.

  Lemma binv_run : forall ops st, BInv st -> BInv (rrun empty col_of syncs allcols fixed st ops).
  Proof. induction ops as [|op ops IH]; intros st B; cbn; [exact B | apply IH, binv_step, B]. Qed.

End Store.

Arguments BInv {body}.

Section Init.
  (* the initial state built from a list of documents with distinct ids *)
  Lemma idx_from_props : forall (body : Type) (db : list (doc body)) n, 0 < n -> NoDup (map (@d_id body) db) ->
    StronglySorted casl (idx_from n db) /\ (forall p, In p (idx_from n db) -> n <= snd p < n + N.of_nat (length db)) /\
    map fst (idx_from n db) = map (@d_id body) db.
  Proof.
    intros body. induction db as [|d db IH]; intros n Hn Hnd; cbn [idx_from length map].
    - split; [constructor|]. split; [intros p []|reflexivity].
    - inversion Hnd as [|x l Hx Hnd']; subst. destruct (IH (n + 1) ltac:(lia) Hnd') as [H1 [H2 H3]]. split; [|split].
      + constructor; [exact H1|]. apply Forall_forall. intros p Hp. apply H2 in Hp. unfold casl. cbn. lia.
      + intros p [<-|Hp]; [cbn; lia|]. apply H2 in Hp. lia.
      + cbn. rewrite H3. reflexivity.
  Qed.

  Lemma binv_init : forall (body : Type) (col_of : N -> N) (db : list (doc body)) ps pseq, NoDup (map (@d_id body) db) -> BInv col_of (rinit db ps pseq).
  Proof.
    intros body col_of db ps pseq Hnd. destruct (idx_from_props body db 1 ltac:(lia) Hnd) as [H1 [H2 H3]].
    constructor; cbn.
    - exact H1.
    - intros p Hp. apply H2 in Hp. lia.
    - rewrite H3. exact Hnd.
    - intros d Hd. assert (Hk : In (d_id d) (map fst (idx_from 1 db))) by (rewrite H3; apply in_map; exact Hd).
      apply in_map_iff in Hk. destruct Hk as [[k v] [Ek Hp]]. cbn in Ek. subst k.
      rewrite (lookup_nodup _ _ v); [apply H2 in Hp; cbn in Hp; lia | rewrite H3; exact Hnd | exact Hp].
    - intros c e [].
    - discriminate.
  Qed.
End Init.

