(* C09 -- the statements of C09_Properties.v, proved from the invariants, the frame lemmas and the
   characterisation of hook-free imports. *)
From SG Require Import Base.Prelude C09.Import C09.ImportInv C09.ImportLoop C09.ImportProcs C09.ImportStep
  C09.ImportFrame C09.ImportChar.
Open Scope N_scope.

(* operations that write the body from outside the gateway *)
Definition is_ext (o : op) : bool := match o with SdkSet _ | SdkDelete => true | _ => false end.
Definition xcount (o : op) : N := if is_ext o then 1 else 0.
Definition ext_count (o : op) : N := match o with Race g n x => xcount x | _ => xcount o end.
Definition count_ext (ops : list op) : N := fold_right (fun o a => ext_count o + a) 0 ops.
(* operations during which no external body write happens (gateway operations, races between them, and the
   external touch of an unrelated xattr) *)
Definition no_ext_write (o : op) : bool :=
  match o with SdkSet _ | SdkDelete => false | Race g n x => negb (is_ext x) | _ => true end.
Definition is_import_op (o : op) : bool := match o with Read | Feed _ => true | _ => false end.

Section Thms.
Variable crc : N -> N.
Variable delcrc : N.

Notation Inv := (Inv crc delcrc).
Notation DocInv := (DocInv crc delcrc).
Notation own := (own crc delcrc).
Notation importable := (importable crc delcrc).
Notation pend := (pend crc delcrc).
Notation stepF := (step true crc delcrc).
Notation runF := (run true crc delcrc).
Notation sstep := (simple_step true crc delcrc).

Definition st1 (s : state) (o : op) : state := fst (fst (stepF s o)).

Lemma run_app s l1 l2 : runF s (l1 ++ l2) = runF (runF s l1) l2.
Proof. revert s; induction l1 as [|o l IH]; intros s; cbn; auto. Qed.

Lemma run_snoc s l o : runF s (l ++ [o]) = st1 (runF s l) o.
Proof. rewrite run_app. reflexivity. Qed.

(* ---------- frames ---------- *)

Definition le_rev (a b : N) : Prop := b <= a.
Lemma le_rev_refl a : le_rev a a. Proof. unfold le_rev; lia. Qed.
Lemma le_rev_trans a b c : le_rev a b -> le_rev b c -> le_rev a c. Proof. unfold le_rev; lia. Qed.
Lemma le_trans' (a b c : N) : a <= b -> b <= c -> a <= c. Proof. lia. Qed.
Lemma le_refl' (a : N) : a <= a. Proof. lia. Qed.

(* with nothing interposed, a simple op changes [exts] by at most its own count and leaves the hook alone *)
Lemma sstep_nofire_exts o s s' r : sstep no_fire o s = (s', r) ->
  exts s' <= exts s + xcount o /\ hk s' = hk s.
Proof.
  intros E. destruct (is_gw_op o) eqn:G.
  - split.
    + apply (gw_step_frame crc delcrc true _ exts eq) in E; eauto using eq_trans. unfold xcount; lia.
    + apply (gw_step_frame crc delcrc true _ hk eq) in E; eauto using eq_trans.
  - destruct o; try discriminate; cbn [simple_step] in E; unfold xcount; cbn [is_ext].
    + inversion E; subst. cbn. split; [lia|auto].
    + unfold ext_del in E. destruct (d_st (doc s)); inversion E; subst; cbn; split; auto; lia.
    + unfold ext_touch in E. destruct (d_st (doc s)); inversion E; subst; cbn; split; auto; lia.
    + unfold legacy_write in E. destruct (d_st (doc s)); inversion E; subst; cbn; split; auto; lia.
    + unfold foreign_write in E. destruct (d_st (doc s)); [destruct (foreign_ok _ _)| |]; inversion E; subst; cbn; split; auto; lia.
    + inversion E; subst. split; auto; lia.
Qed.

Lemma sstep_nofire_mono o s s' r : sstep no_fire o s = (s', r) -> exts s <= exts s' /\ imports s <= imports s'.
Proof.
  intros E. destruct (is_gw_op o) eqn:G.
  - split.
    + apply (gw_step_frame crc delcrc true _ exts eq) in E; eauto using eq_trans. lia.
    + apply (gw_step_frame crc delcrc true _ imports N.le) in E; eauto using le_trans', le_refl';
        try (intros; cbn; lia).
  - destruct o; try discriminate; cbn [simple_step] in E.
    + inversion E; subst. cbn. lia.
    + unfold ext_del in E. destruct (d_st (doc s)); inversion E; subst; cbn; lia.
    + unfold ext_touch in E. destruct (d_st (doc s)); inversion E; subst; cbn; lia.
    + unfold legacy_write in E. destruct (d_st (doc s)); inversion E; subst; cbn; lia.
    + unfold foreign_write in E. destruct (d_st (doc s)); [destruct (foreign_ok _ _)| |]; inversion E; subst; cbn; lia.
    + inversion E; subst. lia.
Qed.

(* potential used for races: external writes done so far plus the one the pending hook may still do *)
Definition hcount (s : state) : N := match hk s with Some (_, x) => xcount x | None => 0 end.
Definition phi (s : state) : N := exts s + hcount s.

Lemma fire1_phi s : le_rev (phi s) (phi (fire1 true crc delcrc s)).
Proof.
  unfold le_rev, phi, hcount, fire1. destruct (hk s) as [[n x]|] eqn:H; [|rewrite H; lia].
  destruct (n =? 1).
  - destruct (sstep no_fire x (set_hk s None)) as [s1 r] eqn:E. cbn [fst].
    destruct (sstep_nofire_exts _ _ _ _ E) as [A B]. cbn in A, B. rewrite B. lia.
  - cbn. lia.
Qed.

Lemma fire1_mono s : exts s <= exts (fire1 true crc delcrc s) /\ imports s <= imports (fire1 true crc delcrc s).
Proof.
  unfold fire1. destruct (hk s) as [[n x]|]; [|lia].
  destruct (n =? 1); [|cbn; lia].
  destruct (sstep no_fire x (set_hk s None)) as [s1 r] eqn:E. cbn [fst].
  apply sstep_nofire_mono in E. cbn in E. exact E.
Qed.

Lemma step_exts s o : exts (st1 s o) <= exts s + ext_count o /\ exts s <= exts (st1 s o) /\
                      imports s <= imports (st1 s o).
Proof.
  unfold st1, step.
  assert (Simple : forall o', (forall g n x, o' <> Race g n x) ->
     exts (push_ev (fst (sstep no_fire o' s))) <= exts s + xcount o' /\
     exts s <= exts (push_ev (fst (sstep no_fire o' s))) /\ imports s <= imports (push_ev (fst (sstep no_fire o' s)))).
  { intros o' _. destruct (sstep no_fire o' s) as [s1 r] eqn:E. cbn [fst].
    destruct (sstep_nofire_exts _ _ _ _ E) as [A _]. destruct (sstep_nofire_mono _ _ _ _ E) as [B C].
    cbn. auto. }
  destruct o; try (match goal with |- context [sstep no_fire ?oo s] =>
                     specialize (Simple oo ltac:(intros; discriminate));
                     destruct (sstep no_fire oo s) as [s1 r]; cbn [fst] in *; exact Simple end).
  cbn [ext_count].
  destruct (is_gw_op o1 && is_hook_op o2 && (1 <=? n)) eqn:V; [|cbn; lia].
  apply andb_true_iff in V. destruct V as [V _]. apply andb_true_iff in V. destruct V as [G _].
  destruct (sstep (fire1 true crc delcrc) o1 (set_hk s (Some (n, o2)))) as [s1 r] eqn:E. cbn [fst].
  pose proof E as E1. pose proof E as E2.
  apply (gw_step_frame crc delcrc true _ phi le_rev le_rev_refl le_rev_trans) in E; auto using fire1_phi;
    try (intros; unfold le_rev, phi, hcount; cbn; lia).
  apply (gw_step_frame crc delcrc true _ exts N.le le_refl' le_trans') in E1; auto;
    try (intros; cbn; lia); try (intros; apply fire1_mono).
  apply (gw_step_frame crc delcrc true _ imports N.le le_refl' le_trans') in E2; auto;
    try (intros; cbn; lia); try (intros; apply fire1_mono).
  unfold le_rev, phi, hcount in E. cbn in E, E1, E2. cbn. lia.
Qed.

(* ---------- reachable states ---------- *)

Lemma reach_Inv ops : Inv 0 0 (runF init ops).
Proof. apply run_Inv. lia. Qed.

Lemma Inv_rebase s ka kb : Inv 0 0 s -> imports s + pend (doc s) + ka <= exts s + kb -> Inv ka kb s.
Proof. intros [[D F C] W] H. split; [constructor|]; auto. Qed.

(* the counting invariant re-based at an arbitrary reachable state: imports plus pending import can only grow
   by the number of external writes *)
Lemma step_potential s o : Inv 0 0 s ->
  imports (st1 s o) + pend (doc (st1 s o)) + exts s <= exts (st1 s o) + imports s + pend (doc s).
Proof.
  intros HI. assert (H : Inv (exts s) (imports s + pend (doc s)) s) by (apply Inv_rebase; auto; lia).
  apply (step_Inv crc delcrc _ _ s o) in H. destruct H as [[_ _ C] _]. unfold st1. lia.
Qed.

Lemma run_exts ops : forall s, exts (runF s ops) <= exts s + count_ext ops.
Proof.
  induction ops as [|o ops IH]; intros s; cbn [run count_ext fold_right]; [lia|].
  specialize (IH (st1 s o)). destruct (step_exts s o) as (A & _). unfold st1 in *. unfold count_ext in IH. lia.
Qed.

Theorem imports_bounded ops : imports (runF init ops) <= count_ext ops.
Proof.
  pose proof (reach_Inv ops) as [[_ _ C] _]. pose proof (run_exts ops init). cbn in H. lia.
Qed.

Lemma no_ext_count o : no_ext_write o = true -> ext_count o = 0.
Proof.
  destruct o; cbn; try discriminate; try reflexivity. unfold xcount. destruct (is_ext o2); cbn; congruence.
Qed.

Lemma pend_importable d : pend d = 0 <-> importable d = false.
Proof. unfold ImportInv.pend. destruct (importable d); split; intros; try lia; congruence. Qed.

Lemma quiet_step s o : Inv 0 0 s -> no_ext_write o = true -> importable (doc s) = false ->
  imports (st1 s o) = imports s /\ importable (doc (st1 s o)) = false /\ exts (st1 s o) = exts s.
Proof.
  intros HI Q NI. apply pend_importable in NI.
  pose proof (step_potential s o HI) as P. destruct (step_exts s o) as (A & B & C).
  rewrite (no_ext_count o Q) in A. rewrite NI in P.
  split; [lia|]. split; [apply pend_importable; lia|lia].
Qed.

Lemma quiet_run l : forall s, Inv 0 0 s -> forallb no_ext_write l = true -> importable (doc s) = false ->
  imports (runF s l) = imports s /\ importable (doc (runF s l)) = false.
Proof.
  induction l as [|o l IH]; intros s HI Q NI; cbn [run]; auto.
  cbn in Q. apply andb_true_iff in Q. destruct Q as [Qo Ql].
  destruct (quiet_step s o HI Qo NI) as (A & B & _).
  destruct (IH (st1 s o)) as [C D]; auto.
  - apply step_Inv; auto.
  - unfold st1 in *. split; auto. congruence.
Qed.

(* ---------- the three variants of the detection ---------- *)

Definition variants_own (d : bdoc) : Prop :=
  exists sy, d_sync d = Some sy /\
    sd_is_sg_write sy (d_cas d) (body_crc crc delcrc d) (d_vv d) = true /\
    doc_is_sg_write crc delcrc d None = true /\
    doc_is_sg_write crc delcrc d (raw_of d) = true /\
    (sd_xattr_only delcrc sy (d_cas d) (is_tomb d) (d_vv d) = 1 \/
     sd_xattr_only delcrc sy (d_cas d) (is_tomb d) (d_vv d) = 2).

Lemma own_variants c d : DocInv c d -> own d = true -> variants_own d.
Proof.
  intros D O. unfold ImportInv.own in O. destruct (d_sync d) as [sy|] eqn:Es; [|discriminate].
  exists sy. split; auto. split; [exact O|].
  split; [rewrite (doc_is_sg_write_none crc delcrc c) by (auto; congruence); unfold ImportInv.own; rewrite Es; auto|].
  split; [rewrite (doc_is_sg_write_raw crc delcrc c) by (auto; congruence); unfold ImportInv.own; rewrite Es; auto|].
  assert (O' : own d = true) by (unfold ImportInv.own; rewrite Es; auto).
  rewrite (own_crc crc delcrc c d sy D Es) in O'. apply N.eqb_eq in O'.
  unfold sd_xattr_only. destruct (d_cas d =? s_cas sy); auto.
  rewrite (cv_ok_inv crc delcrc c d sy D Es). cbn [negb].
  unfold is_tomb. destruct (d_st d) eqn:St; cbn; auto.
  unfold Import.body_crc, is_alive in O'. rewrite St in O'. cbn in O'. rewrite <- O', N.eqb_refl. cbn. auto.
Qed.

(* ---------- hook-free steps ---------- *)

Lemma step_simple s o : (forall g n x, o <> Race g n x) ->
  stepF s o = (push_ev (fst (sstep no_fire o s)), snd (sstep no_fire o s), false).
Proof.
  intros NR. unfold step. destruct o; try (destruct (sstep no_fire _ s); reflexivity).
  exfalso. eapply NR; eauto.
Qed.

Theorem gateway_write_recognised s b s' f : Inv 0 0 s ->
  stepF s (match b with Some x => GwWrite x | None => GwDelete end) = (s', ROk, f) ->
  variants_own (doc s') /\ bstate (doc s') = target b.
Proof.
  intros HI E.
  assert (E' : exists s1, gw_put true crc delcrc no_fire b s = (s1, ROk) /\ s' = push_ev s1).
  { destruct b; rewrite step_simple in E by (intros; discriminate); cbn [simple_step] in E;
    destruct (gw_put true crc delcrc no_fire _ s) as [s1 r]; inversion E; subst; eauto. }
  destruct E' as (s1 & E1 & ->).
  destruct (gw_put_ok crc delcrc 0 0 no_fire (no_fire_ok crc delcrc 0 0) b s HI _ _ E1) as (I1 & _ & P).
  destruct (P eq_refl) as [O B]. cbn [doc push_ev]. split; auto.
  eapply own_variants; eauto. apply I1.
Qed.

Theorem own_write_never_imported s o : Inv 0 0 s -> is_import_op o = true -> own (doc s) = true ->
  imports (st1 s o) = imports s /\ hist_of (doc (st1 s o)) = hist_of (doc s) /\
  bstate (doc (st1 s o)) = bstate (doc s) /\ own (doc (st1 s o)) = true.
Proof.
  intros HI IO O. unfold st1. destruct o; try discriminate; rewrite step_simple by (intros; discriminate);
    cbn [simple_step fst].
  - rewrite (gw_read_nofire crc delcrc 0 0) by auto. rewrite O. cbn. auto.
  - destruct (gw_feed true crc delcrc no_fire k s) as [s1 r] eqn:E. cbn.
    destruct (gw_feed_nofire crc delcrc 0 0 _ _ _ _ HI E) as [_ [(Imp & _)|[[A B]|(_ & O' & H1 & H2 & H3)]]]; auto.
    + unfold ImportInv.importable in Imp. rewrite O, andb_false_r in Imp. discriminate.
    + rewrite A. auto.
Qed.

(* a pending external write survives the delivery of any feed event -- in particular of a delayed gateway-write
   event that triggers the attachment-metadata migration: the delivery either imports it or leaves the document alone *)
Theorem feed_never_hides_external_write s k : Inv 0 0 s -> importable (doc s) = true ->
  (imports (st1 s (Feed k)) = N.succ (imports s) /\ own (doc (st1 s (Feed k))) = true) \/
  (doc (st1 s (Feed k)) = doc s /\ imports (st1 s (Feed k)) = imports s).
Proof.
  intros HI Imp. unfold st1. rewrite step_simple by (intros; discriminate). cbn [simple_step fst].
  destruct (gw_feed true crc delcrc no_fire k s) as [s1 r] eqn:E. cbn.
  destruct (gw_feed_nofire crc delcrc 0 0 _ _ _ _ HI E) as [_ [(_ & Im & seq & Ed)|[[A B]|(O & _)]]]; auto.
  - left. split; auto. rewrite Ed. unfold ImportInv.own, import_doc, sd_is_sg_write. cbn. rewrite N.eqb_refl. reflexivity.
  - unfold ImportInv.importable in Imp. rewrite O, andb_false_r in Imp. discriminate.
Qed.

(* shape of the revision created by an import (read or feed delivery) *)
Definition import_shape (d d' : bdoc) : Prop :=
  exists nr, hist_of d' = nr :: hist_of d /\
    r_parent nr = cur_gen d /\ r_gen nr = N.succ (cur_gen d) /\
    r_del nr = negb (is_alive d) /\ (is_alive d = true -> r_body nr = d_body d) /\
    bstate d' = bstate d /\ own d' = true.

Lemma import_doc_shape c d nc seq : DocInv c d -> import_shape d (import_doc crc delcrc d nc seq).
Proof.
  intros D. exists (import_rev d). unfold import_doc, hist_of. cbn.
  repeat split; auto.
  - intros A. unfold raw_of. rewrite A. reflexivity.
  - unfold ImportInv.own, sd_is_sg_write. cbn. rewrite N.eqb_refl. reflexivity.
Qed.

Theorem import_revision_shape s o : Inv 0 0 s -> is_import_op o = true ->
  imports (st1 s o) <> imports s ->
  importable (doc s) = true /\ imports (st1 s o) = N.succ (imports s) /\ import_shape (doc s) (doc (st1 s o)).
Proof.
  intros HI IO NE. pose proof (inv_doc _ _ _ _ _ (proj1 HI)) as D.
  unfold st1 in *. destruct o; try discriminate; rewrite step_simple in * by (intros; discriminate);
    cbn [simple_step fst] in *.
  - rewrite (gw_read_nofire crc delcrc 0 0) in * by auto.
    destruct (own (doc s)); [cbn in NE; congruence|].
    destruct (importable (doc s)); [|cbn in NE; congruence].
    cbn. repeat split; auto. eapply import_doc_shape; eauto.
  - destruct (gw_feed true crc delcrc no_fire k s) as [s1 r] eqn:E. cbn in *.
    destruct (gw_feed_nofire crc delcrc 0 0 _ _ _ _ HI E) as [_ [(Imp & Im & seq & Ed)|[[A B]|(_ & _ & _ & _ & B)]]]; [|congruence|congruence].
    repeat split; auto. rewrite Ed. eapply import_doc_shape; eauto.
Qed.

(* a race between two import paths imports at most once *)
Theorem import_race_once s g n x : Inv 0 0 s -> is_import_op g = true -> is_import_op x = true ->
  imports (st1 s (Race g n x)) <= imports s + 1.
Proof.
  intros HI G X. pose proof (step_potential s (Race g n x) HI) as P.
  destruct (step_exts s (Race g n x)) as (A & B & _).
  assert (Z : ext_count (Race g n x) = 0) by (cbn; unfold xcount; destruct x; try discriminate; reflexivity).
  rewrite Z in A. assert (pend (doc s) <= 1) by (unfold ImportInv.pend; destruct (importable (doc s)); lia). lia.
Qed.

(* gateway operations that are not accepted writes leave liveness and body of the bucket document alone *)
Theorem gateway_preserves_body s o s' r f : Inv 0 0 s -> is_gw_op o = true -> stepF s o = (s', r, f) ->
  bstate (doc s') = match o, r with
                    | GwWrite b, ROk => (Alive, b)
                    | GwDelete, ROk => (Tomb, 0)
                    | _, _ => bstate (doc s)
                    end.
Proof.
  intros HI G E. pose proof (step_Inv crc delcrc 0 0 s o HI) as I'. rewrite E in I'. cbn [fst] in I'.
  destruct I' as [_ W']. rewrite <- W'. destruct HI as [_ W]. rewrite <- W.
  assert (NR : forall g n x, o <> Race g n x) by (intros; destruct o; discriminate).
  rewrite step_simple in E by auto. inversion E; subst s' r f; clear E. cbn [wb push_ev].
  assert (Put : forall b, wb (fst (gw_put true crc delcrc no_fire b s)) =
                match snd (gw_put true crc delcrc no_fire b s) with ROk => target b | _ => wb s end).
  { intros b. unfold gw_put. destruct (upd_loop _ _ _ _ _ _ _ s) as [s1 lr] eqn:EL.
    apply (put_loop_frame crc delcrc true _ wb eq) in EL; eauto using eq_trans.
    destruct lr as [|e]; cbn; [destruct b; reflexivity|]. destruct e; cbn; auto. }
  destruct o; try discriminate; cbn [simple_step].
  - rewrite (Put (Some b)). destruct (snd _); reflexivity.
  - rewrite (Put None). destruct (snd _); reflexivity.
  - destruct (gw_meta crc delcrc no_fire s) as [s1 r] eqn:E. cbn.
    apply (gw_meta_frame crc delcrc _ wb eq) in E; eauto using eq_trans.
  - destruct (gw_read true crc delcrc no_fire s) as [s1 r] eqn:E. cbn.
    apply (gw_read_frame crc delcrc true _ wb eq) in E; eauto using eq_trans.
  - destruct (gw_feed true crc delcrc no_fire k s) as [s1 r] eqn:E. cbn.
    apply (gw_feed_frame crc delcrc true _ wb eq) in E; eauto using eq_trans.
Qed.

(* ---------- idempotence ---------- *)

Lemma after_read_not_importable s : Inv 0 0 s -> importable (doc (st1 s Read)) = false.
Proof.
  intros HI. unfold st1. rewrite step_simple by (intros; discriminate). cbn [simple_step fst].
  rewrite (gw_read_nofire crc delcrc 0 0) by auto.
  destruct (own (doc s)) eqn:O.
  - cbn. unfold ImportInv.importable. rewrite O, andb_false_r. reflexivity.
  - destruct (importable (doc s)) eqn:Imp; cbn; auto.
    unfold ImportInv.importable, ImportInv.own, import_doc, sd_is_sg_write. cbn. rewrite N.eqb_refl, andb_false_r. reflexivity.
Qed.

Theorem import_idempotent_read s l : Inv 0 0 s -> forallb no_ext_write l = true ->
  imports (runF (st1 s Read) l) = imports (st1 s Read).
Proof.
  intros HI Q. apply quiet_run; auto.
  - apply step_Inv; auto.
  - apply after_read_not_importable; auto.
Qed.

Theorem import_idempotent s o l : Inv 0 0 s -> is_import_op o = true -> imports (st1 s o) <> imports s ->
  forallb no_ext_write l = true -> imports (runF (st1 s o) l) = imports (st1 s o).
Proof.
  intros HI IO NE Q. destruct (import_revision_shape s o HI IO NE) as (_ & _ & nr & _ & _ & _ & _ & _ & _ & O).
  apply quiet_run; auto.
  - apply step_Inv; auto.
  - unfold ImportInv.importable. rewrite O, andb_false_r. reflexivity.
Qed.

Theorem history_chain ops : chain (hist_of (doc (runF init ops))).
Proof. eapply hist_chain. apply (inv_doc _ _ _ _ _ (proj1 (reach_Inv ops))). Qed.

(* ---------- the body of the latest external write is what the gateway shows ---------- *)
Hypothesis crc_inj : forall a b, crc a = crc b -> a = b.
Hypothesis crc_del : forall a, crc a <> delcrc.

Lemma own_head c d : DocInv c d -> own d = true ->
  exists nr t, hist_of d = nr :: t /\
    (is_alive d = true -> r_del nr = false /\ r_body nr = d_body d) /\
    (d_st d = Tomb -> r_del nr = true).
Proof.
  intros D O. pose proof O as O'. unfold ImportInv.own in O'. destruct (d_sync d) as [sy|] eqn:Es; [|discriminate].
  rewrite (own_crc crc delcrc c d sy D Es) in O. apply N.eqb_eq in O.
  destruct (di_sync _ _ _ _ D _ Es) as (_ & _ & _ & (nr & t & Eh & Hc) & _).
  exists nr, t. unfold hist_of. rewrite Es. split; auto.
  rewrite Hc in O. unfold Import.body_crc, ImportInv.rev_crc in O. split.
  - intros A. rewrite A in O. destruct (r_del nr).
    + exfalso. eapply crc_del; eauto.
    + split; auto; symmetry; apply crc_inj; auto.
  - intros St. unfold is_alive in O. rewrite St in O. cbn in O. destruct (r_del nr); auto.
    exfalso. eapply crc_del; eauto.
Qed.

(* after a read through the gateway the current revision is a revision FOR the bucket's body *)
Definition current_matches_bucket (d : bdoc) : Prop :=
  own d = true /\
  exists nr t, hist_of d = nr :: t /\
    (is_alive d = true -> r_del nr = false /\ r_body nr = d_body d) /\
    (d_st d = Tomb -> r_del nr = true).

Theorem read_shows_bucket_body s s' r f : Inv 0 0 s -> stepF s Read = (s', r, f) ->
  (is_alive (doc s) = true \/ (d_st (doc s) = Tomb /\ has_sync (doc s) = true)) ->
  r = ROk /\ bstate (doc s') = bstate (doc s) /\ current_matches_bucket (doc s').
Proof.
  intros HI E Ex. pose proof (inv_doc _ _ _ _ _ (proj1 HI)) as D.
  rewrite step_simple in E by (intros; discriminate). cbn [simple_step] in E.
  rewrite (gw_read_nofire crc delcrc 0 0) in E by auto.
  destruct (own (doc s)) eqn:O.
  - inversion E; subst. cbn. repeat split; auto. eapply own_head; eauto.
  - assert (Imp : importable (doc s) = true).
    { unfold ImportInv.importable. rewrite O. destruct Ex as [A|[_ Hs]]; [rewrite A|rewrite Hs, orb_true_r]; reflexivity. }
    rewrite Imp in E. inversion E; subst. cbn [doc push_ev add_import set_doc fst snd].
    split; auto. split; [reflexivity|].
    assert (D' : DocInv (N.succ (clk s)) (import_doc crc delcrc (doc s) (N.succ (clk s)) (N.succ (nseq s)))).
    { pose proof (step_Inv crc delcrc 0 0 s Read HI) as I'. rewrite step_simple in I' by (intros; discriminate).
      cbn [simple_step fst] in I'. rewrite (gw_read_nofire crc delcrc 0 0) in I' by auto. rewrite O, Imp in I'.
      apply (inv_doc _ _ _ _ _ (proj1 I')). }
    assert (O' : own (import_doc crc delcrc (doc s) (N.succ (clk s)) (N.succ (nseq s))) = true).
    { unfold ImportInv.own, import_doc, sd_is_sg_write. cbn. rewrite N.eqb_refl. reflexivity. }
    split; auto. eapply own_head; eauto.
Qed.

Definition quiet (o : op) : bool :=
  match o with Read | Feed _ | SdkTouch | GwMetaOnly => true | _ => false end.

Lemma quiet_step_body s o : Inv 0 0 s -> quiet o = true -> bstate (doc (st1 s o)) = bstate (doc s).
Proof.
  intros HI Q. unfold st1. destruct (stepF s o) as [[s' r] f] eqn:E. cbn [fst].
  destruct o; try discriminate.
  - (* touch *)
    rewrite step_simple in E by (intros; discriminate). cbn [simple_step] in E. unfold ext_touch in E.
    destruct (d_st (doc s)) eqn:St; inversion E; subst; cbn; auto. unfold bstate. cbn. congruence.
  - apply (gateway_preserves_body s GwMetaOnly) in E; auto.
  - apply (gateway_preserves_body s Read) in E; auto.
  - apply (gateway_preserves_body s (Feed k)) in E; auto.
Qed.

Lemma quiet_run_body l : forall s, Inv 0 0 s -> forallb quiet l = true -> bstate (doc (runF s l)) = bstate (doc s).
Proof.
  induction l as [|o l IH]; intros s HI Q; cbn [run]; auto.
  cbn in Q. apply andb_true_iff in Q. destruct Q as [Qo Ql].
  fold (st1 s o). rewrite IH; auto; [apply quiet_step_body; auto | apply step_Inv; auto].
Qed.

Theorem external_write_visible ops b l s' r f :
  forallb quiet l = true ->
  stepF (runF init (ops ++ [SdkSet b] ++ l)) Read = (s', r, f) ->
  r = ROk /\ bstate (doc s') = (Alive, b) /\
  exists nr t, hist_of (doc s') = nr :: t /\ r_del nr = false /\ r_body nr = b.
Proof.
  intros Q E. rewrite app_assoc, run_app in E. rewrite run_snoc in E.
  set (s0 := runF init ops) in *. set (s1 := st1 s0 (SdkSet b)) in *.
  assert (I0 : Inv 0 0 s0) by apply reach_Inv.
  assert (I1 : Inv 0 0 s1) by (apply step_Inv; auto).
  assert (B1 : bstate (doc s1) = (Alive, b)).
  { subst s1. unfold st1. rewrite step_simple by (intros; discriminate). cbn. unfold bstate.
    destruct (d_st (doc s0)); reflexivity. }
  set (s2 := runF s1 l) in *.
  assert (I2 : Inv 0 0 s2) by (apply run_Inv_from; auto).
  assert (B2 : bstate (doc s2) = (Alive, b)) by (subst s2; rewrite quiet_run_body; auto).
  assert (A2 : is_alive (doc s2) = true) by (apply is_alive_true; unfold bstate in B2; congruence).
  destruct (read_shows_bucket_body s2 s' r f I2 E (or_introl A2)) as (R1 & R2 & O & nr & t & Eh & Ha & _).
  split; auto. rewrite R2, B2. split; auto.
  assert (A' : is_alive (doc s') = true).
  { rewrite B2 in R2. unfold bstate in R2. apply is_alive_true. congruence. }
  destruct (Ha A') as [Hd Hb]. exists nr, t. repeat split; auto.
  rewrite Hb. rewrite B2 in R2. unfold bstate in R2. inversion R2; auto.
Qed.

End Thms.
