(* C09 -- the version vector (HLV) an import writes: AddVersion / InvalidateMV as pure functions on association
   lists, and the facts the property theorems need: the new vector dominates the previous one (GetValue-wise),
   the previous current version of another source moves to the previous versions, merge versions are retired. *)
From SG Require Import Base.Prelude C09.Import C09.ImportInv.
Open Scope N_scope.

(* ---------- association lists ---------- *)

Lemma aget_adel_same l k : aget (adel l k) k = None.
Proof.
  unfold adel. induction l as [|[a x] t IH]; cbn; auto.
  destruct (a =? k) eqn:E; cbn; auto. rewrite E. exact IH.
Qed.

Lemma aget_adel_other l k k' : k' <> k -> aget (adel l k) k' = aget l k'.
Proof.
  intros NE. unfold adel. induction l as [|[a x] t IH]; cbn; auto.
  destruct (a =? k) eqn:E; cbn.
  - apply N.eqb_eq in E. subst a. assert (X : (k =? k') = false) by (apply N.eqb_neq; congruence). rewrite X. exact IH.
  - rewrite IH. reflexivity.
Qed.

Lemma aget_aset_same l k x : aget (aset l k x) k = Some x.
Proof. unfold aset. cbn. rewrite N.eqb_refl. reflexivity. Qed.

Lemma aget_aset_other l k x k' : k' <> k -> aget (aset l k x) k' = aget l k'.
Proof.
  intros NE. unfold aset. cbn. assert (X : (k =? k') = false) by (apply N.eqb_neq; congruence).
  rewrite X. apply aget_adel_other; auto.
Qed.

(* ---------- InvalidateMV ---------- *)

Lemma aget_invalidate v k :
  aget (hlv_invalidate_mv v) k =
  if k =? v_src v then aget (v_pv v) k
  else match aget (v_mv v) k with Some x => Some x | None => aget (v_pv v) k end.
Proof.
  unfold hlv_invalidate_mv. induction (v_mv v) as [|[a x] t IH]; cbn [fold_right aget fst snd].
  - destruct (k =? v_src v); reflexivity.
  - destruct (a =? v_src v) eqn:Ea.
    + rewrite IH. destruct (k =? v_src v) eqn:Ek; auto.
      apply N.eqb_eq in Ea. subst a. rewrite N.eqb_sym, Ek. reflexivity.
    + destruct (a =? k) eqn:Eak.
      * apply N.eqb_eq in Eak. subst a. rewrite aget_aset_same. rewrite Ea. reflexivity.
      * rewrite aget_aset_other by (apply N.eqb_neq in Eak; congruence). exact IH.
Qed.

(* ---------- AddVersion ---------- *)

Definition hlv_dominates (v' v : vvd) : Prop :=
  forall k x, hlv_get v k = Some x -> exists y, hlv_get v' k = Some y /\ x <= y.

Lemma hlv_dominates_refl v : hlv_dominates v v.
Proof. intros k x E. exists x. split; auto. lia. Qed.

Lemma hlv_dominates_trans a b c : hlv_dominates a b -> hlv_dominates b c -> hlv_dominates a c.
Proof.
  intros H1 H2 k x E. destruct (H2 k x E) as (y & Ey & Ly). destruct (H1 k y Ey) as (z & Ez & Lz).
  exists z. split; auto. lia.
Qed.

Lemma hlv_get_set_cvcas c v k : hlv_get (set_cvcas c v) k = hlv_get v k.
Proof. reflexivity. Qed.

(* what AddVersion produces *)
Lemma hlv_add_shape v src ver v' : hlv_add v src ver = Some v' ->
  v_src v' = src /\ v_ver v' = ver /\ v_cvcas v' = v_cvcas v /\ v_mv v' = [] /\
  (forall x, hlv_get v src = Some x -> x <= ver) /\
  v_pv v' = if src =? v_src v then hlv_invalidate_mv v
            else adel (aset (hlv_invalidate_mv v) (v_src v) (v_ver v)) src.
Proof.
  unfold hlv_add. intros E.
  destruct (hlv_get v src) as [x0|] eqn:G.
  - destruct (ver <? x0) eqn:L; [discriminate|]. apply N.ltb_ge in L.
    destruct (src =? v_src v); inversion E; subst v'; cbn; repeat split; auto; intros x X; inversion X; subst; auto.
  - destruct (src =? v_src v); inversion E; subst v'; cbn; repeat split; auto; intros x X; discriminate.
Qed.

(* the new vector dominates the old one: nothing the old vector knew is forgotten or moved backwards *)
Theorem hlv_add_dominates v src ver v' : hlv_add v src ver = Some v' -> hlv_dominates v' v.
Proof.
  intros E. destruct (hlv_add_shape _ _ _ _ E) as (Hs & Hv & _ & Hm & Hle & Hp).
  intros k x G. unfold hlv_get at 1. rewrite Hs, Hv, Hm, Hp. cbn [aget].
  destruct (k =? src) eqn:Ek.
  - apply N.eqb_eq in Ek. subst k. exists ver. split; auto.
  - apply N.eqb_neq in Ek. exists x. split; [|lia].
    destruct (src =? v_src v) eqn:Es.
    + (* same source as the current version: the merge versions move to pv *)
      apply N.eqb_eq in Es. rewrite aget_invalidate.
      unfold hlv_get in G. assert (X : (k =? v_src v) = false) by (apply N.eqb_neq; congruence).
      rewrite X in *. exact G.
    + (* another source: the current version moves to pv as well *)
      rewrite aget_adel_other by auto.
      unfold hlv_get in G. destruct (k =? v_src v) eqn:Ec.
      * apply N.eqb_eq in Ec. subst k. inversion G; subst. apply aget_aset_same.
      * rewrite aget_aset_other by (apply N.eqb_neq in Ec; auto). rewrite aget_invalidate, Ec. exact G.
Qed.

(* the previous current version of ANOTHER source is kept as a previous version, with its value *)
Lemma hlv_add_moves_cv v src ver v' : hlv_add v src ver = Some v' -> src <> v_src v ->
  aget (v_pv v') (v_src v) = Some (v_ver v) /\ aget (v_pv v') src = None.
Proof.
  intros E NE. destruct (hlv_add_shape _ _ _ _ E) as (_ & _ & _ & _ & _ & Hp).
  assert (X : (src =? v_src v) = false) by (apply N.eqb_neq; auto). rewrite X in Hp. rewrite Hp. split.
  - rewrite aget_adel_other by congruence. apply aget_aset_same.
  - apply aget_adel_same.
Qed.

(* a version of the same source only replaces the current version's value *)
Lemma hlv_add_same_source v ver v' : hlv_add v (v_src v) ver = Some v' ->
  v_src v' = v_src v /\ v_ver v' = ver /\ v_ver v <= ver /\ v_pv v' = hlv_invalidate_mv v.
Proof.
  intros E. destruct (hlv_add_shape _ _ _ _ E) as (A & B & _ & _ & Hle & Hp).
  rewrite N.eqb_refl in Hp. repeat split; auto. apply Hle. unfold hlv_get. rewrite N.eqb_refl. reflexivity.
Qed.
