(* C09 (deepening) -- statements about the detection as a total function, exactly-once import of an external write,
   the body / _mou / version vector written by an import, proved from the invariants of ImportInv.v .. ImportThms.v
   and the pure HLV lemmas of ImportHLV.v. *)
From SG Require Import Base.Prelude C09.Import C09.ImportInv C09.ImportLoop C09.ImportProcs C09.ImportStep
  C09.ImportFrame C09.ImportChar C09.ImportThms C09.ImportHLV.
Open Scope N_scope.

(* the gateway's write stamped the document: _sync.cas was macro-expanded to the CAS of that very write *)
Definition stamped (d : bdoc) : Prop := exists sy, d_sync d = Some sy /\ s_cas sy = d_cas d.
(* _mou.cas was macro-expanded to the CAS of the write: the write is marked as a metadata-only update *)
Definition mou_stamped (d : bdoc) : Prop := exists m, d_mou d = Some m /\ m_cas m = d_cas d.

Section Commit.
Variable crc : N -> N.
Variable delcrc : N.

(* ---------- what the CAS loop commits, independent of the invariants ---------- *)

Lemma store_write_shape cur p u nc d' : store_write crc delcrc cur p u nc = WOk d' ->
  exists cl c0 st b, d' = apply_upd crc delcrc cl c0 st b u nc.
Proof.
  unfold store_write. intros H.
  destruct (u_tomb u), (p_tomb p), (d_st cur), (u_body u), (is_alive (p_doc p)), (d_cas (p_doc p) =? 0),
    (d_cas cur =? d_cas (p_doc p)); cbn in H; try discriminate; injection H as <-; eauto.
Qed.

Lemma store_write_stamped cur p u nc d' : u_macro u = true -> store_write crc delcrc cur p u nc = WOk d' -> stamped d'.
Proof.
  intros M H. destruct (store_write_shape _ _ _ _ _ H) as (cl & c0 & st & b & ->).
  unfold stamped, apply_upd. rewrite M. cbn. eauto.
Qed.

Lemma store_write_mou cur p u nc d' pc : u_mou u = MouSet pc -> store_write crc delcrc cur p u nc = WOk d' ->
  d_mou d' = Some (mkMou nc pc) /\ d_cas d' = nc.
Proof.
  intros M H. destruct (store_write_shape _ _ _ _ _ H) as (cl & c0 & st & b & ->).
  unfold apply_upd. rewrite M. cbn. auto.
Qed.

Variable fire : state -> state.

Lemma upd_loop_commit (M : Type) (cb : M -> state -> prev -> state * cbres * M) (P : update -> Prop) :
  (forall m s p s1 u m', cb m s p = (s1, CbWrite u, m') -> P u) ->
  forall fuel m pv s s', upd_loop crc delcrc fire fuel cb m pv s = (s', LOk) ->
  exists cur p u nc, P u /\ store_write crc delcrc cur p u nc = WOk (doc s').
Proof.
  intros Hcb. induction fuel as [|f IH]; intros m pv s s' E; cbn [upd_loop] in E; [discriminate|].
  destruct (cb m s _) as [[s1 r1] m'] eqn:Ecb.
  destruct r1 as [|e|u].
  - eapply IH; eauto.
  - discriminate.
  - destruct (store_write crc delcrc (doc (fire s1)) _ u (N.succ (clk (fire s1)))) as [d'| |] eqn:SW.
    + inversion E; subst s'. cbn [doc set_doc]. apply Hcb in Ecb.
      eexists _, _, _, _. split; [exact Ecb|exact SW].
    + eapply IH; eauto.
    + discriminate.
Qed.

Lemma odw_early fixed s d del s' r : odw fixed crc delcrc fire s d del = (s', Some r) -> forall u, r <> CbWrite u.
Proof.
  unfold odw. intros E u. destruct (negb (d_cas (doc s) =? d_cas d)); [inversion E; subst; discriminate|].
  destruct (import_run fixed crc delcrc fire false _ d _ s) as [sx ir]. destruct ir; inversion E; subst; discriminate.
Qed.

Lemma put_cb_macro fixed b m s p s1 u m' :
  put_cb fixed crc delcrc fire b m s p = (s1, CbWrite u, m') -> u_macro u = true.
Proof.
  unfold put_cb. intros E.
  match type of E with (let '(_, _) := ?X in _) = _ => destruct X as [s0 early] eqn:E0 end.
  destruct early as [r0|].
  - inversion E; subst. exfalso.
    destruct (doc_is_sg_write crc delcrc (p_doc p) None); [discriminate|].
    eapply odw_early; eauto.
  - match type of E with (match ?X with _ => _ end) = _ => destruct X end; [|discriminate].
    match type of E with (match ?X with _ => _ end) = _ => destruct X end; inversion E; subst; reflexivity.
Qed.

Lemma gw_put_stamped fixed b s s' : gw_put fixed crc delcrc fire b s = (s', ROk) -> stamped (doc s').
Proof.
  unfold gw_put. intros E.
  destruct (upd_loop crc delcrc fire 6 (put_cb fixed crc delcrc fire b) (client_rev (doc s)) None s) as [s1 lr] eqn:EL.
  destruct lr as [|e].
  - inversion E; subst s'. cbn [doc set_wb].
    apply (upd_loop_commit _ _ (fun u => u_macro u = true)) in EL; [|intros; eapply put_cb_macro; eauto].
    destruct EL as (cur & p & u & nc & Mu & SW). eapply store_write_stamped; eauto.
  - inversion E; subst. destruct e; discriminate.
Qed.

Lemma meta_cb_mou m s p s1 u m' : meta_cb m s p = (s1, CbWrite u, m') -> exists pc, u_mou u = MouSet pc.
Proof.
  unfold meta_cb. intros E. destruct (negb (is_alive (p_doc p))); [discriminate|].
  destruct (d_sync (p_doc p)); inversion E; subst; cbn; eauto.
Qed.

Lemma gw_meta_mou s s' : gw_meta crc delcrc fire s = (s', ROk) -> mou_stamped (doc s').
Proof.
  unfold gw_meta. intros E.
  destruct (upd_loop crc delcrc fire 6 meta_cb tt None s) as [s1 lr] eqn:EL.
  destruct lr as [|e]; [|inversion E; subst; destruct e; discriminate].
  inversion E; subst s'.
  apply (upd_loop_commit _ _ (fun u => exists pc, u_mou u = MouSet pc)) in EL; [|intros; eapply meta_cb_mou; eauto].
  destruct EL as (cur & p & u & nc & [pc Mu] & SW).
  destruct (store_write_mou _ _ _ _ _ _ Mu SW) as [A B]. exists (mkMou nc pc). rewrite A, B. auto.
Qed.

End Commit.

(* ---------- the detection on a stamped document: a total function that answers "gateway write" whatever the
   body, the delete flag and the version vector it is handed ---------- *)

Lemma stamped_detection crc delcrc d : stamped d ->
  exists sy, d_sync d = Some sy /\ s_cas sy = d_cas d /\
    (forall rawcrc vv, sd_is_sg_write sy (d_cas d) rawcrc vv = true) /\
    (forall isdel vv, sd_xattr_only delcrc sy (d_cas d) isdel vv = 1) /\
    (forall raw, doc_is_sg_write crc delcrc d raw = true).
Proof.
  intros (sy & Es & Ec). exists sy. split; auto. split; auto.
  assert (X : (d_cas d =? s_cas sy) = true) by (apply N.eqb_eq; auto).
  split; [|split].
  - intros. unfold sd_is_sg_write. rewrite X. reflexivity.
  - intros. unfold sd_xattr_only. rewrite X. reflexivity.
  - intros raw. unfold doc_is_sg_write. rewrite Es. destruct raw; unfold sd_is_sg_write; rewrite X; reflexivity.
Qed.

Definition is_put_op (o : op) : bool :=
  match o with GwWrite _ | GwDelete | Race (GwWrite _) _ _ | Race GwDelete _ _ => true | _ => false end.

Section Deep.
Variable crc : N -> N.
Variable delcrc : N.

Notation Inv := (Inv crc delcrc).
Notation DocInv := (DocInv crc delcrc).
Notation own := (own crc delcrc).
Notation importable := (importable crc delcrc).
Notation pend := (pend crc delcrc).
Notation stepF := (step true crc delcrc).
Notation runF := (run true crc delcrc).
Notation st1 := (st1 crc delcrc).
Notation import_doc := (import_doc crc delcrc).

Lemma stamped_own d : stamped d -> own d = true.
Proof.
  intros (sy & Es & Ec). unfold ImportInv.own, sd_is_sg_write. rewrite Es.
  assert (X : (d_cas d =? s_cas sy) = true) by (apply N.eqb_eq; auto). rewrite X. reflexivity.
Qed.

(* 1a. a document last written by the gateway (an accepted write, plain or with anything interposed before its
       CAS write) carries the CAS of that write in _sync: every variant of the detection classifies it as a gateway
       write for EVERY body / checksum, delete flag and version vector, and no read or feed delivery imports it *)
Theorem sgw_write_never_imported s o s' f : Inv 0 0 s -> is_put_op o = true -> stepF s o = (s', ROk, f) ->
  stamped (doc s') /\
  forall o', is_import_op o' = true ->
    imports (st1 s' o') = imports s' /\ hist_of (doc (st1 s' o')) = hist_of (doc s') /\
    bstate (doc (st1 s' o')) = bstate (doc s').
Proof.
  intros HI P E.
  assert (St : stamped (doc s')).
  { unfold step in E.
    destruct o as [b0| | |b0|b0 h0|b| | | |k|g n x]; try discriminate.
    - cbn [simple_step] in E. destruct (gw_put true crc delcrc no_fire (Some b) s) as [s1 r] eqn:G.
      cbn in E. inversion E; subst. cbn [doc push_ev]. eapply gw_put_stamped; eauto.
    - cbn [simple_step] in E. destruct (gw_put true crc delcrc no_fire None s) as [s1 r] eqn:G.
      cbn in E. inversion E; subst. cbn [doc push_ev]. eapply gw_put_stamped; eauto.
    - destruct (is_gw_op g && is_hook_op x && (1 <=? n)); [|discriminate].
      destruct g; try discriminate; cbn [simple_step] in E.
      + destruct (gw_put true crc delcrc (fire1 true crc delcrc) (Some b) (set_hk s (Some (n, x)))) as [s1 r] eqn:G.
        cbn in E. inversion E; subst. cbn [doc push_ev set_hk]. eapply gw_put_stamped; eauto.
      + destruct (gw_put true crc delcrc (fire1 true crc delcrc) None (set_hk s (Some (n, x)))) as [s1 r] eqn:G.
        cbn in E. inversion E; subst. cbn [doc push_ev set_hk]. eapply gw_put_stamped; eauto. }
  split; auto. intros o' IO.
  assert (I' : Inv 0 0 s').
  { pose proof (step_Inv crc delcrc 0 0 s o HI) as X. rewrite E in X. exact X. }
  destruct (own_write_never_imported crc delcrc s' o' I' IO (stamped_own _ St)) as (A & B & C & _). auto.
Qed.

(* ---------- exactly once ---------- *)

Definition potential (s : state) : N := imports s + pend (doc s).

Lemma potential_step s o : Inv 0 0 s -> no_ext_write o = true -> potential (st1 s o) <= potential s.
Proof.
  intros HI Q. pose proof (step_potential crc delcrc s o HI) as P. destruct (step_exts crc delcrc s o) as (A & B & _).
  rewrite (no_ext_count o Q) in A. unfold potential. fold (st1 s o) in *. unfold ImportThms.st1 in *. lia.
Qed.

Lemma potential_run l : forall s, Inv 0 0 s -> forallb no_ext_write l = true -> potential (runF s l) <= potential s.
Proof.
  induction l as [|o l IH]; intros s HI Q; cbn [run]; [lia|].
  cbn in Q. apply andb_true_iff in Q. destruct Q as [Qo Ql].
  specialize (IH (st1 s o) (step_Inv crc delcrc 0 0 s o HI) Ql).
  pose proof (potential_step s o HI Qo). unfold ImportThms.st1 in *. lia.
Qed.

Lemma imports_run_mono l : forall s, imports s <= imports (runF s l).
Proof.
  induction l as [|o l IH]; intros s; cbn [run]; [lia|].
  destruct (step_exts crc delcrc s o) as (_ & _ & C). specialize (IH (ImportThms.st1 crc delcrc s o)).
  unfold ImportThms.st1 in *. lia.
Qed.

Lemma current_event_importable_feed s k : Inv 0 0 s -> importable (doc s) = true ->
  nth (N.to_nat k) (evs s) absent_doc = doc s ->
  imports (st1 s (Feed k)) = N.succ (imports s) /\ importable (doc (st1 s (Feed k))) = false.
Proof.
  intros HI Imp Ek. pose proof (inv_doc _ _ _ _ _ (proj1 HI)) as D.
  destruct (importable_facts crc delcrc _ _ D Imp) as (NZ & RT & SG & O).
  unfold ImportThms.st1. rewrite step_simple by (intros; discriminate). cbn [simple_step fst].
  unfold gw_feed. rewrite Ek. set (d := doc s) in *.
  assert (NA : d_st d <> Absent) by (eapply not_absent_cas; eauto).
  assert (Go : forall isdel, isdel = negb (is_alive d) ->
     imports (push_ev (fst (import_run true crc delcrc no_fire true isdel d (raw_of d) s))) = N.succ (imports s) /\
     importable (doc (push_ev (fst (import_run true crc delcrc no_fire true isdel d (raw_of d) s)))) = false).
  { intros isdel ->. subst d. rewrite (import_run_progress crc delcrc 0 0 true) by auto. cbn. split; auto.
    unfold ImportInv.importable, ImportInv.own, ImportChar.import_doc, sd_is_sg_write. cbn.
    rewrite N.eqb_refl, andb_false_r. reflexivity. }
  unfold ImportInv.importable in Imp. apply andb_true_iff in Imp. destruct Imp as [AS _].
  destruct (d_st d) eqn:St; [congruence| |].
  - assert (T : is_tomb d = false) by (unfold is_tomb; rewrite St; reflexivity).
    assert (A : is_alive d = true) by (unfold is_alive; rewrite St; reflexivity).
    rewrite T. cbn [andb].
    destruct (d_sync d) as [sy|] eqn:Es.
    + unfold ImportInv.own in O. rewrite Es in O. rewrite O. cbn [fst]. apply Go. rewrite A. reflexivity.
    + cbn [fst]. apply Go. rewrite A. reflexivity.
  - assert (T : is_tomb d = true) by (unfold is_tomb; rewrite St; reflexivity).
    assert (A : is_alive d = false) by (unfold is_alive; rewrite St; reflexivity).
    rewrite T. cbn [andb]. rewrite A in AS. cbn in AS. unfold has_sync in AS.
    destruct (d_sync d) as [sy|] eqn:Es; [|discriminate].
    assert (NX : no_xattrs d = false) by (unfold no_xattrs; rewrite Es; reflexivity). rewrite NX.
    unfold ImportInv.own in O. rewrite Es in O. rewrite O. cbn [fst]. apply Go. rewrite A. reflexivity.
Qed.

(* 1b. a document mutated outside the gateway (pending: not recognised as own write) is imported EXACTLY once:
       - at most once, whatever gateway operations (reads, feed deliveries of any recorded event in any multiplicity,
         writes with their on-demand import, metadata-only rewrites, races among all of these) follow;
       - a read imports it, and so does the delivery of its own feed event, and nothing that follows imports again *)
Theorem sdk_write_always_imported_once s l : Inv 0 0 s -> importable (doc s) = true ->
  forallb no_ext_write l = true ->
  imports (runF s l) <= imports s + 1 /\
  imports (runF s (Read :: l)) = imports s + 1 /\
  (forall k, nth (N.to_nat k) (evs s) absent_doc = doc s -> imports (runF s (Feed k :: l)) = imports s + 1).
Proof.
  intros HI Imp Q.
  assert (P1 : potential s = imports s + 1) by (unfold potential, ImportInv.pend; rewrite Imp; reflexivity).
  split; [|split].
  - pose proof (potential_run l s HI Q) as P. unfold potential in P at 1. lia.
  - cbn [run]. fold (st1 s Read).
    rewrite (import_idempotent_read crc delcrc s l HI Q).
    unfold ImportThms.st1. rewrite step_simple by (intros; discriminate). cbn [simple_step fst].
    rewrite (gw_read_nofire crc delcrc 0 0) by auto.
    destruct (importable_facts crc delcrc _ _ (inv_doc _ _ _ _ _ (proj1 HI)) Imp) as (_ & _ & _ & O).
    rewrite O, Imp. cbn. lia.
  - intros k Ek. cbn [run]. fold (st1 s (Feed k)).
    destruct (current_event_importable_feed s k HI Imp Ek) as [A B].
    destruct (quiet_run crc delcrc l (st1 s (Feed k)) (step_Inv crc delcrc 0 0 s (Feed k) HI) Q B) as [C _].
    unfold ImportThms.st1 in *. rewrite C, A. lia.
Qed.

(* ---------- the document an import writes ---------- *)

Lemma import_step_doc s o : Inv 0 0 s -> is_import_op o = true -> imports (st1 s o) <> imports s ->
  importable (doc s) = true /\ exists seq, doc (st1 s o) = import_doc (doc s) (N.succ (clk s)) seq.
Proof.
  intros HI IO NE. unfold ImportThms.st1 in *.
  destruct o; try discriminate; rewrite step_simple in * by (intros; discriminate); cbn [simple_step fst] in *.
  - rewrite (gw_read_nofire crc delcrc 0 0) in * by auto.
    destruct (own (doc s)); [cbn in NE; congruence|].
    destruct (importable (doc s)); [|cbn in NE; congruence]. cbn. eauto.
  - destruct (gw_feed true crc delcrc no_fire k s) as [s1 r] eqn:E. cbn in *.
    destruct (gw_feed_nofire crc delcrc 0 0 _ _ _ _ HI E) as [_ [(Imp & Im & seq & Ed)|[[A B]|(_ & _ & _ & _ & B)]]];
      [|congruence|congruence].
    eauto.
Qed.

(* 1c. the imported revision is a revision FOR what the last external writer left in the bucket: its body is the
       SDK body, it is a tombstone revision iff the SDK deleted the document; the import itself rewrites neither
       the body nor the liveness ([wb]: liveness and body as left by the last writer) *)
Theorem import_preserves_body s o : Inv 0 0 s -> is_import_op o = true -> imports (st1 s o) <> imports s ->
  exists nr, hist_of (doc (st1 s o)) = nr :: hist_of (doc s) /\
    r_body nr = snd (wb s) /\ (r_del nr = true <-> fst (wb s) = Tomb) /\ (r_del nr = false <-> fst (wb s) = Alive) /\
    bstate (doc (st1 s o)) = wb s /\ wb (st1 s o) = wb s.
Proof.
  intros HI IO NE. destruct (import_step_doc s o HI IO NE) as (Imp & seq & Ed).
  pose proof (inv_doc _ _ _ _ _ (proj1 HI)) as D. destruct HI as [H0 W].
  destruct (importable_facts crc delcrc _ _ D Imp) as (NZ & _).
  assert (W' : wb (st1 s o) = bstate (doc (st1 s o))).
  { pose proof (step_Inv crc delcrc 0 0 s o (conj H0 W)) as X. apply X. }
  exists (import_rev (doc s)). rewrite Ed in *. rewrite W' , W.
  unfold ImportChar.import_doc, hist_of, import_rev, bstate, raw_of. cbn.
  destruct (st_cases crc delcrc _ _ D NZ) as [[A St]|[A [St B0]]]; rewrite A, St; cbn;
    repeat split; auto; try congruence; try discriminate.
Qed.

(* 1d. an import rewrites only metadata and says so in _mou: _mou.cas is the CAS of the import's own write and
       _mou.pCas the CAS of the imported mutation (or, when that mutation was itself a metadata-only update, the
       pCas it carried); the rewritten document is recognised whatever body it is compared with, so the feed event
       of the import's own write -- and any other event, read or gateway operation -- does not import it again *)
Theorem metadata_only_update_not_reimported s o : Inv 0 0 s -> is_import_op o = true ->
  imports (st1 s o) <> imports s ->
  d_mou (doc (st1 s o)) = Some (mkMou (d_cas (doc (st1 s o))) (mou_pcas (doc s))) /\
  mou_match (doc (st1 s o)) = true /\ stamped (doc (st1 s o)) /\
  bstate (doc (st1 s o)) = bstate (doc s) /\
  (forall k, imports (st1 (st1 s o) (Feed k)) = imports (st1 s o) /\
             bstate (doc (st1 (st1 s o) (Feed k))) = bstate (doc s) /\
             hist_of (doc (st1 (st1 s o) (Feed k))) = hist_of (doc (st1 s o))) /\
  (forall l, forallb no_ext_write l = true -> imports (runF (st1 s o) l) = imports (st1 s o)).
Proof.
  intros HI IO NE. destruct (import_step_doc s o HI IO NE) as (Imp & seq & Ed).
  pose proof (step_Inv crc delcrc 0 0 s o HI) as I'. fold (st1 s o) in I'.
  assert (St : stamped (doc (st1 s o))) by (rewrite Ed; unfold stamped, ImportChar.import_doc; cbn; eauto).
  split; [rewrite Ed; reflexivity|].
  split; [rewrite Ed; unfold mou_match, ImportChar.import_doc; cbn; apply N.eqb_refl|].
  split; [exact St|].
  assert (Bs : bstate (doc (st1 s o)) = bstate (doc s)) by (rewrite Ed; reflexivity).
  split; [exact Bs|]. split.
  - intros k. destruct (own_write_never_imported crc delcrc (st1 s o) (Feed k) I' eq_refl (stamped_own _ St)) as (A & B & C & _).
    unfold ImportThms.st1 in *. rewrite C. auto.
  - intros l Q. apply (import_idempotent crc delcrc s o l HI IO NE Q).
Qed.

(* the other metadata-only rewrite (resync): on a document recognised as own write it never causes an import,
   the document stays recognised, and an accepted rewrite is marked in _mou *)
Theorem meta_rewrite_not_reimported s s' r f : Inv 0 0 s -> own (doc s) = true -> stepF s GwMetaOnly = (s', r, f) ->
  imports s' = imports s /\ own (doc s') = true /\ bstate (doc s') = bstate (doc s) /\
  (r = ROk -> mou_stamped (doc s')) /\
  (forall l, forallb no_ext_write l = true -> imports (runF s' l) = imports s').
Proof.
  intros HI O E.
  assert (NI : importable (doc s) = false) by (unfold ImportInv.importable; rewrite O, andb_false_r; reflexivity).
  destruct (quiet_step crc delcrc s GwMetaOnly HI eq_refl NI) as (A & B & _).
  pose proof (step_Inv crc delcrc 0 0 s GwMetaOnly HI) as I'.
  pose proof (gateway_preserves_body crc delcrc s GwMetaOnly s' r f HI eq_refl E) as Bs.
  unfold ImportThms.st1 in *. rewrite E in *. cbn [fst] in *.
  split; [exact A|]. split; [|split; [exact Bs|split]].
  - (* still has sync data (body and liveness untouched, and not importable) *)
    assert (Hs : has_sync (doc s') = true).
    { rewrite step_simple in E by (intros; discriminate). cbn [simple_step] in E.
      destruct (gw_meta crc delcrc no_fire s) as [s1 r1] eqn:G. inversion E; subst s' r f. cbn [doc push_ev].
      assert (Hs0 : has_sync (doc s) = true) by (unfold ImportInv.own, has_sync in *; destruct (d_sync (doc s)); congruence).
      unfold gw_meta in G. destruct (upd_loop crc delcrc no_fire 6 meta_cb tt None s) as [s2 lr] eqn:EL.
      inversion G; subst s1 r1.
      (* has_sync is monotone along the loop: every committed document carries sync data, failures leave it alone *)
      clear - EL Hs0. revert EL. generalize tt at 1. generalize (@None prev). generalize 6%nat. intros fuel.
      revert s Hs0. induction fuel as [|fu IH]; intros s Hs0 pv m EL; cbn [upd_loop] in EL; [inversion EL; subst; auto|].
      destruct (meta_cb m s _) as [[sa ra] ma] eqn:Ecb.
      assert (Fd : doc sa = doc s).
      { symmetry. apply (meta_cb_frame _ doc eq (@eq_refl _) (fun _ _ => eq_refl)) in Ecb. exact Ecb. }
      unfold no_fire in EL.
      destruct ra as [|e|u].
      - eapply IH; [|exact EL]. rewrite Fd; auto.
      - inversion EL; subst. rewrite Fd; auto.
      - destruct (store_write crc delcrc (doc sa) _ u (N.succ (clk sa))) as [d'| |] eqn:SW.
        + inversion EL; subst. cbn [doc set_doc].
          destruct (store_write_shape _ _ _ _ _ _ _ SW) as (cl & c0 & st & b & ->). reflexivity.
        + eapply IH; [|exact EL]. rewrite Fd; auto.
        + inversion EL; subst. rewrite Fd; auto. }
    unfold ImportInv.importable in B. rewrite Hs, orb_true_r in B. cbn in B. apply negb_false_iff in B. exact B.
  - intros ->. rewrite step_simple in E by (intros; discriminate). cbn [simple_step] in E.
    destruct (gw_meta crc delcrc no_fire s) as [s1 r1] eqn:G. inversion E; subst. cbn [doc push_ev].
    eapply gw_meta_mou; eauto.
  - intros l Q. apply (quiet_run crc delcrc l s' I' Q B).
Qed.

(* ---------- 2. the version vector written by an import ---------- *)

(* reachable documents never make AddVersion fail: every value the vector records for the gateway's own source is
   older than the document's CAS *)
Theorem import_hlv_never_rejects s : Inv 0 0 s -> exists v, import_hlv (doc s) = Some v.
Proof. intros HI. eapply import_hlv_some. apply (inv_doc _ _ _ _ _ (proj1 HI)). Qed.

Definition hlv_updated_by_import (d : bdoc) : bool :=
  match d_vv d with Some v => negb ((v_cvcas v =? d_cas d) || mou_match d) | None => true end.

Theorem import_hlv_dominates_previous s o : Inv 0 0 s -> is_import_op o = true ->
  imports (st1 s o) <> imports s ->
  exists v' sy', d_vv (doc (st1 s o)) = Some v' /\ import_hlv (doc s) = Some v' /\
    d_sync (doc (st1 s o)) = Some sy' /\ s_cv sy' = v_ver v' /\ s_cvsrc sy' = v_src v' /\
    (* nothing the previous vector knew is forgotten or moved backwards *)
    (forall v, d_vv (doc s) = Some v -> hlv_dominates v' v) /\
    (* the mutation becomes the current version: own source id, version = its CAS, cvCas = its CAS; merge versions
       are retired; a previous current version of another source moves to the previous versions *)
    (hlv_updated_by_import (doc s) = true ->
       v_src v' = local_src /\ v_ver v' = d_cas (doc s) /\ v_cvcas v' = d_cas (doc s) /\ v_mv v' = [] /\
       (d_vv (doc s) = None -> v_pv v' = []) /\
       forall v, d_vv (doc s) = Some v ->
         (v_src v <> local_src ->
            aget (v_pv v') (v_src v) = Some (v_ver v) /\ aget (v_pv v') local_src = None) /\
         (v_src v = local_src -> v_ver v <= d_cas (doc s) /\ v_pv v' = hlv_invalidate_mv v)) /\
    (* ... unless it already is the current version (cvCas = cas) or a metadata-only update of it (_mou.cas = cas) *)
    (hlv_updated_by_import (doc s) = false -> d_vv (doc s) = Some v').
Proof.
  intros HI IO NE. destruct (import_step_doc s o HI IO NE) as (Imp & seq & Ed).
  pose proof (inv_doc _ _ _ _ _ (proj1 HI)) as D.
  destruct (import_hlv_some crc delcrc _ _ D) as [v' Ev].
  assert (Evv : import_vv (doc s) = v') by (unfold import_vv; rewrite Ev; reflexivity).
  exists v'. eexists. rewrite Ed. unfold ImportChar.import_doc. cbn [d_vv d_sync]. rewrite Evv.
  split; [reflexivity|]. split; [exact Ev|]. split; [reflexivity|]. cbn [s_cv s_cvsrc].
  split; [reflexivity|]. split; [reflexivity|].
  unfold import_hlv in Ev. unfold hlv_updated_by_import.
  destruct (d_vv (doc s)) as [v|] eqn:Evd.
  - destruct ((v_cvcas v =? d_cas (doc s)) || mou_match (doc s)) eqn:Sk; cbn [negb].
    + inversion Ev; subst v'. split; [|split; [discriminate|auto]].
      intros v0 E0. inversion E0; subst. apply hlv_dominates_refl.
    + destruct (hlv_add v local_src (d_cas (doc s))) as [v2|] eqn:Ea; [|discriminate].
      cbn in Ev. inversion Ev; subst v'. clear Ev.
      split; [|split; [|discriminate]].
      * intros v0 E0. inversion E0; subst v0. intros k x G.
        destruct (hlv_add_dominates _ _ _ _ Ea k x G) as (y & Gy & Ly). exists y. split; auto.
      * intros _. destruct (hlv_add_shape _ _ _ _ Ea) as (A1 & A2 & A3 & A4 & A5 & A6).
        cbn [set_cvcas v_src v_ver v_cvcas v_mv v_pv].
        split; auto. split; auto. split; auto. split; auto. split; [discriminate|].
        intros v0 E0. inversion E0; subst v0. split.
        -- intros NS. apply (hlv_add_moves_cv _ _ _ _ Ea). congruence.
        -- intros ES. rewrite <- ES in Ea. destruct (hlv_add_same_source _ _ _ Ea) as (_ & _ & B3 & B4). auto.
  - inversion Ev; subst v'. cbn. split; [intros; discriminate|]. split; [|discriminate].
    intros _. repeat split; auto; intros; discriminate.
Qed.

(* ---------- 3. an SDK write landing inside an import (between an attempt's read / decision and its CAS write) ---------- *)

(* the hook is either still armed with the SDK write, or it has run and the ghost body is that write's body *)
Definition armed (b : N) (p : option (N * op) * (dstat * N)) : Prop :=
  match fst p with Some (_, x) => x = SdkSet b | None => snd p = (Alive, b) end.
Definition hkwb (s : state) := (hk s, wb s).

Lemma fire1_armed b s : armed b (hkwb s) -> armed b (hkwb (fire1 true crc delcrc s)).
Proof.
  unfold armed, hkwb, fire1. cbn [fst snd]. destruct (hk s) as [[n x]|] eqn:H; [|rewrite H; auto].
  intros ->. destruct (n =? 1); cbn; auto.
Qed.

Theorem raced_import_keeps_sdk_body s g n b s' r : Inv 0 0 s -> is_import_op g = true ->
  stepF s (Race g n (SdkSet b)) = (s', r, true) ->
  bstate (doc s') = (Alive, b) /\ wb s' = (Alive, b).
Proof.
  intros HI IO E. pose proof (step_Inv crc delcrc 0 0 s (Race g n (SdkSet b)) HI) as I'. rewrite E in I'. cbn [fst] in I'.
  assert (W : wb s' = (Alive, b)).
  { unfold step in E. destruct (is_gw_op g && is_hook_op (SdkSet b) && (1 <=? n)); [|discriminate].
    destruct (simple_step true crc delcrc (fire1 true crc delcrc) g (set_hk s (Some (n, SdkSet b)))) as [s1 r1] eqn:E1.
    inversion E; subst s' r. clear E. cbn [wb push_ev set_hk].
    assert (A : armed b (hkwb s1)).
    { destruct g; try discriminate; cbn [simple_step] in E1.
      - apply (gw_read_frame crc delcrc true _ hkwb (fun a c => armed b a -> armed b c)) in E1;
          auto; try reflexivity; try (intros; apply fire1_armed; auto).
      - apply (gw_feed_frame crc delcrc true _ hkwb (fun a c => armed b a -> armed b c)) in E1;
          auto; try reflexivity; try (intros; apply fire1_armed; auto). }
    unfold armed, hkwb in A. cbn [fst snd] in A. destruct (hk s1); [discriminate|exact A]. }
  split; auto. destruct I' as [_ Wb]. rewrite <- Wb. exact W.
Qed.

Hypothesis crc_inj : forall a b, crc a = crc b -> a = b.
Hypothesis crc_del : forall a, crc a <> delcrc.

(* the retry path never produces a stale result: after an import operation during which an SDK write of body b landed,
   the bucket holds b, and the document is either recognised with a current revision FOR b (the retry imported the
   new body) or still pending (and then imported exactly once later: sdk_write_always_imported_once) -- never
   recognised with a revision for the body the import started from *)
Theorem raced_import_takes_latest s g n b s' r : Inv 0 0 s -> is_import_op g = true ->
  stepF s (Race g n (SdkSet b)) = (s', r, true) ->
  bstate (doc s') = (Alive, b) /\
  (own (doc s') = true -> exists nr t, hist_of (doc s') = nr :: t /\ r_del nr = false /\ r_body nr = b) /\
  (own (doc s') = false -> importable (doc s') = true).
Proof.
  intros HI IO E. destruct (raced_import_keeps_sdk_body s g n b s' r HI IO E) as [B _].
  pose proof (step_Inv crc delcrc 0 0 s (Race g n (SdkSet b)) HI) as I'. rewrite E in I'. cbn [fst] in I'.
  pose proof (inv_doc _ _ _ _ _ (proj1 I')) as D.
  assert (A : is_alive (doc s') = true) by (apply is_alive_true; unfold bstate in B; congruence).
  split; auto. split.
  - intros O. destruct (own_head crc delcrc crc_inj crc_del _ _ D O) as (nr & t & Eh & Ha & _).
    destruct (Ha A) as [Hd Hb]. exists nr, t. repeat split; auto. rewrite Hb. unfold bstate in B. congruence.
  - intros O. unfold ImportInv.importable. rewrite A, O. reflexivity.
Qed.

End Deep.
