(* C09 -- what an import attempt does when nothing is interposed (hook-free Read / Feed): it either commits
   exactly one well-defined document, computed from the bucket document, or leaves the document alone. *)
From SG Require Import Base.Prelude C09.Import C09.ImportInv C09.ImportLoop C09.ImportProcs C09.ImportStep C09.ImportFrame.
Open Scope N_scope.

Section Char.
Variable crc : N -> N.
Variable delcrc : N.
Variable ka kb : N.

Notation Inv := (Inv crc delcrc ka kb).
Notation Snap := (Snap crc delcrc).
Notation DocInv := (DocInv crc delcrc).
Notation own := (own crc delcrc).
Notation importable := (importable crc delcrc).
Notation PrevOk := (PrevOk crc delcrc).
Notation body_crc := (body_crc crc delcrc).

(* the document an import of [d] writes under CAS [nc] with sequence [seq] *)
Definition import_vv (d : bdoc) : vvd :=
  match import_hlv d with Some v => v | None => mkVV local_src (d_cas d) (d_cas d) [] [] end.
Definition import_rev (d : bdoc) : rev :=
  R (N.succ (cur_gen d)) (cur_gen d) (negb (is_alive d)) (match raw_of d with Some b => b | None => 0 end).
Definition import_doc (d : bdoc) (nc seq : N) : bdoc :=
  mkDoc (d_st d) (d_body d) nc
        (Some (mkSync nc (body_crc d) (v_ver (import_vv d)) (import_rev d :: hist_of d) seq false (v_src (import_vv d))))
        (Some (import_vv d)) (Some (mkMou nc (mou_pcas d))).

Definition import_upd (d : bdoc) (seq : N) : update :=
  mkUpd (negb (is_alive d))
        (if doc_deleted d then Some (match raw_of d with Some b => b | None => 0 end) else None)
        (mkSync 0 0 (v_ver (import_vv d)) (import_rev d :: hist_of d) seq false (v_src (import_vv d))) true
        (Some (import_vv d, false)) (MouSet (mou_pcas d)).

Lemma import_attempt_write s d s1 u :
  import_attempt crc delcrc (negb (is_alive d)) (raw_of d) s d = (s1, CbWrite u) ->
  s1 = set_nseq s (N.succ (nseq s)) /\ u = import_upd d (N.succ (nseq s)) /\
  d_cas d <> 0 /\ (negb (is_alive d) && negb (has_revtree d)) = false /\
  doc_is_sg_write crc delcrc d (raw_of d) = false.
Proof.
  unfold import_attempt. intros E.
  destruct (d_cas d =? 0) eqn:Z; [discriminate|]. apply N.eqb_neq in Z.
  destruct (negb (is_alive d) && negb (has_revtree d)) eqn:RT; [discriminate|].
  destruct (doc_is_sg_write crc delcrc d (raw_of d)) eqn:SG; [discriminate|].
  unfold import_upd, import_vv. destruct (import_hlv d) as [vv'|]; [|discriminate].
  inversion E; subst. repeat split; auto.
Qed.

Lemma apply_import_upd c d nc seq : DocInv c d -> d_cas d <> 0 ->
  apply_upd crc delcrc false d (d_st d) (d_body d) (import_upd d seq) nc = import_doc d nc seq.
Proof.
  intros D NZ. unfold apply_upd, import_doc, import_upd. cbn.
  destruct (st_cases crc delcrc _ _ D NZ) as [[A St]|[A [St B0]]]; unfold Import.body_crc; rewrite A, St; cbn; congruence.
Qed.

(* the commit of an import attempt can only land on the document it was computed from *)
Lemma import_commit s2 p u d' s s1 :
  Inv s2 -> PrevOk s2 p ->
  import_attempt crc delcrc (negb (is_alive (p_doc p))) (raw_of (p_doc p)) s (p_doc p) = (s1, CbWrite u) ->
  store_write crc delcrc (doc s2) p u (N.succ (clk s2)) = WOk d' ->
  doc s2 = p_doc p /\ importable (p_doc p) = true /\
  d' = import_doc (p_doc p) (N.succ (clk s2)) (N.succ (nseq s)).
Proof.
  intros I2 P2 EA SW. destruct (import_attempt_write _ _ _ _ EA) as (-> & -> & NZ & RT & SG).
  assert (Dd : DocInv (clk s2) (p_doc p)) by apply P2.
  destruct (store_write_same_doc crc delcrc ka kb s2 p (import_upd (p_doc p) (N.succ (nseq s))) d' I2 P2) as [Ecur Ed']; auto.
  - cbn. intros A. unfold doc_deleted. rewrite A. reflexivity.
  - split; auto. split; [eapply importable_of_not_sg; eauto|].
    rewrite Ed'. eapply apply_import_upd; eauto.
Qed.

Notation loopN := (upd_loop crc delcrc no_fire).
Notation icb := (import_cb true crc delcrc).

(* hook-free import loop: commit of [import_doc (doc s)] or no change of the document *)
Lemma import_loop_nofire feed : forall fuel m pv s s' r,
  Inv s -> IMemOk crc delcrc m pv s -> PrevOk s (the_prev pv s) ->
  loopN fuel (icb feed) m pv s = (s', r) ->
  (r = LOk /\ importable (doc s) = true /\
     exists seq, doc s' = import_doc (doc s) (N.succ (clk s)) seq /\ clk s' = N.succ (clk s)) \/
  (r <> LOk /\ doc s' = doc s /\ clk s' = clk s).
Proof.
  induction fuel as [|f IH]; intros m pv s s' r HI HM HP E; cbn [upd_loop] in E.
  - inversion E; subst. right. repeat split; auto. discriminate.
  - fold (the_prev pv s) in E. set (p := the_prev pv s) in *.
    destruct (icb feed m s p) as [[s1 r1] m'] eqn:Ecb.
    destruct (import_cb_ok crc delcrc ka kb no_fire (no_fire_ok crc delcrc ka kb) feed m pv s HI HM HP _ _ _ Ecb)
      as (I1 & M1 & Mem1 & _).
    pose proof (import_cb_resolve crc delcrc ka kb feed m pv s HI HM HP _ _ _ Ecb) as Res.
    (* the callback only touches the sequence counter *)
    assert (Fr : doc s1 = doc s /\ clk s1 = clk s).
    { split.
      - apply (import_cb_frame crc delcrc true _ doc eq (@eq_refl _) (fun _ _ => eq_refl)) in Ecb. auto.
      - apply (import_cb_frame crc delcrc true _ clk eq (@eq_refl _) (fun _ _ => eq_refl)) in Ecb. auto. }
    destruct Fr as [Fd Fc]. unfold no_fire in E.
    assert (Retry : loopN f (icb feed) m' None s1 = (s', r) ->
      (r = LOk /\ importable (doc s) = true /\
         exists seq, doc s' = import_doc (doc s) (N.succ (clk s)) seq /\ clk s' = N.succ (clk s)) \/
      (r <> LOk /\ doc s' = doc s /\ clk s' = clk s)).
    { intros E'. apply IH in E'; auto.
      - rewrite Fd, Fc in E'. exact E'.
      - apply PrevOk_read. apply I1. }
    destruct r1 as [|e|u].
    + apply Retry; exact E.
    + inversion E; subst. right. repeat split; auto. discriminate.
    + destruct (store_write crc delcrc (doc s1) p u (N.succ (clk s1))) as [d'| |] eqn:SW.
      * inversion E; subst s' r; clear E. left. split; auto.
        destruct Res as [[_ [X|X]]|EA]; try discriminate.
        destruct (import_commit s1 p u d' s s1 I1 (PrevOk_mono crc delcrc _ _ _ HP M1) EA SW) as (Ec & Im & Ed).
        rewrite Fd in Ec. rewrite <- Ec in Im, Ed. rewrite Fc in Ed.
        split; auto. exists (N.succ (nseq s)). cbn. split; auto. lia.
      * apply Retry; exact E.
      * inversion E; subst. right. repeat split; auto. discriminate.
Qed.

(* frames of the hook-free procedures on everything but document, clock, sequence counter and import count *)
Definition ghosts (s : state) := (exts s, wb s, evs s, hk s).
Lemma ghosts_set_doc s d : ghosts (set_doc s d) = ghosts s. Proof. reflexivity. Qed.
Lemma ghosts_set_nseq s n : ghosts (set_nseq s n) = ghosts s. Proof. reflexivity. Qed.
Lemma ghosts_add_import s : ghosts s = ghosts (add_import s). Proof. reflexivity. Qed.

Lemma import_run_nofire feed ex s s' r :
  Inv s -> Snap s ex ->
  import_run true crc delcrc no_fire feed (negb (is_alive ex)) ex (raw_of ex) s = (s', r) ->
  ghosts s' = ghosts s /\
  ((r = IImported /\ importable (doc s) = true /\ imports s' = N.succ (imports s) /\
      exists seq, doc s' = import_doc (doc s) (N.succ (clk s)) seq) \/
   (r <> IImported /\ doc s' = doc s /\ imports s' = imports s)).
Proof.
  intros HI Sx E. split.
  - symmetry. eapply (import_run_frame crc delcrc true _ ghosts eq); eauto using eq_trans.
    intros; reflexivity.
  - unfold import_run in E.
    destruct (loopN 6 (icb feed) (mkImem (negb (is_alive ex)) (d_cas ex) (raw_of ex)) (Some (mkPrev ex false)) s)
      as [s1 lr] eqn:EL.
    assert (Im : imports s1 = imports s).
    { symmetry. eapply (upd_loop_frame crc delcrc _ imports eq); eauto using eq_trans.
      - intros; reflexivity.
      - intros. eapply (import_cb_frame crc delcrc true _ imports eq); eauto. }
    apply import_loop_nofire in EL; auto.
    + destruct EL as [(-> & Imp & seq & Ed & _)|(NL & Ed & _)].
      * inversion E; subst. left. repeat split; auto. cbn. congruence. exists seq. exact Ed.
      * right. destruct lr as [|e]; [congruence|].
        destruct e; inversion E; subst; repeat split; auto; discriminate.
    + cbn. auto.
    + cbn [the_prev]. split; cbn; auto. discriminate.
Qed.

(* ---------- progress: an on-demand import of an importable document commits at its first attempt ---------- *)

Lemma store_write_self c d seq nc : DocInv c d -> d_cas d <> 0 ->
  store_write crc delcrc d (mkPrev d false) (import_upd d seq) nc = WOk (import_doc d nc seq).
Proof.
  intros D NZ. unfold store_write. cbn [u_tomb import_upd p_doc p_tomb u_body].
  rewrite N.eqb_refl.
  destruct (st_cases crc delcrc _ _ D NZ) as [[A St]|[A [St B0]]]; rewrite A, St; cbn [negb].
  - unfold doc_deleted. rewrite A. cbn [negb andb]. f_equal.
    rewrite <- (apply_import_upd c) by auto. rewrite St. reflexivity.
  - f_equal. rewrite <- (apply_import_upd c) by auto. rewrite St, B0. reflexivity.
Qed.

Lemma importable_facts c d : DocInv c d -> importable d = true ->
  d_cas d <> 0 /\ (negb (is_alive d) && negb (has_revtree d)) = false /\
  doc_is_sg_write crc delcrc d (raw_of d) = false /\ own d = false.
Proof.
  intros D Imp. unfold ImportInv.importable in Imp. apply andb_true_iff in Imp. destruct Imp as [AS NO].
  apply negb_true_iff in NO.
  assert (NA : d_st d <> Absent).
  { intros X. pose proof (di_abs _ _ _ _ D X) as Y. rewrite Y in AS. cbn in AS. discriminate. }
  pose proof (di_pos _ _ _ _ D NA) as Pos.
  split; [lia|]. split; [|split; auto].
  - destruct (is_alive d) eqn:A; cbn; auto. cbn in AS. unfold has_sync in AS.
    destruct (d_sync d) as [sy|] eqn:Es; [|discriminate].
    destruct (di_sync _ _ _ _ D _ Es) as (_ & _ & _ & (r & t & Eh & _) & _).
    unfold has_revtree, cur_rev, hist_of. rewrite Es, Eh. reflexivity.
  - destruct (d_sync d) as [sy|] eqn:Es.
    + rewrite (doc_is_sg_write_raw crc delcrc c) by (auto; congruence). exact NO.
    + rewrite doc_is_sg_write_nosync by auto. apply N.eqb_neq. lia.
Qed.

Lemma import_attempt_importable c s d : DocInv c d -> importable d = true ->
  import_attempt crc delcrc (negb (is_alive d)) (raw_of d) s d =
  (set_nseq s (N.succ (nseq s)), CbWrite (import_upd d (N.succ (nseq s)))).
Proof.
  intros D Imp. destruct (importable_facts c d D Imp) as (NZ & RT & SG & _).
  unfold import_attempt. apply N.eqb_neq in NZ. rewrite NZ, RT, SG.
  unfold import_upd, import_vv. destruct (import_hlv_some crc delcrc c d D) as [vv' E]. rewrite E. reflexivity.
Qed.

Lemma import_run_progress feed s :
  Inv s -> importable (doc s) = true ->
  import_run true crc delcrc no_fire feed (negb (is_alive (doc s))) (doc s) (raw_of (doc s)) s =
  (add_import (set_doc (set_nseq s (N.succ (nseq s))) (import_doc (doc s) (N.succ (clk s)) (N.succ (nseq s)))), IImported).
Proof.
  intros HI Imp. pose proof (inv_doc _ _ _ _ _ (proj1 HI)) as D.
  destruct (importable_facts _ _ D Imp) as (NZ & _).
  unfold import_run. cbn [upd_loop]. unfold import_cb. cbn [p_doc im_cas im_del im_raw].
  rewrite N.eqb_refl. cbn [negb andb].
  rewrite (import_attempt_importable _ s _ D Imp). unfold no_fire.
  cbn [doc set_nseq clk]. rewrite (store_write_self _ _ _ _ D NZ). reflexivity.
Qed.

(* ---------- the two hook-free import operations ---------- *)

Lemma gw_read_nofire s : Inv s ->
  gw_read true crc delcrc no_fire s =
    if own (doc s) then (s, ROk)
    else if importable (doc s)
    then (add_import (set_doc (set_nseq s (N.succ (nseq s))) (import_doc (doc s) (N.succ (clk s)) (N.succ (nseq s)))), ROk)
    else (s, RNotFound).
Proof.
  intros HI. pose proof (inv_doc _ _ _ _ _ (proj1 HI)) as D. unfold gw_read. cbv zeta.
  destruct (d_sync (doc s)) as [sy|] eqn:Es.
  - (* sync data present: the three variants agree with [own] *)
    assert (NA : d_st (doc s) <> Absent).
    { intros X. rewrite (di_abs _ _ _ _ D X) in Es. discriminate. }
    assert (NX : no_xattrs (doc s) = false) by (unfold no_xattrs; rewrite Es; reflexivity).
    rewrite NX, andb_false_r.
    rewrite (doc_is_sg_write_raw crc delcrc _ _ D) by congruence.
    unfold has_sync. rewrite Es.
    assert (Imp : importable (doc s) = negb (own (doc s))).
    { unfold ImportInv.importable, has_sync. rewrite Es, orb_true_r. reflexivity. }
    rewrite Imp. destruct (own (doc s)) eqn:O; cbn [negb].
    + destruct (d_st (doc s)); congruence.
    + rewrite (import_run_progress false) by (auto; rewrite Imp, O; reflexivity).
      destruct (d_st (doc s)); congruence.
  - (* no sync data *)
    assert (O : own (doc s) = false) by (unfold ImportInv.own; rewrite Es; reflexivity).
    destruct (di_nosync _ _ _ _ D Es) as [Ev Em].
    assert (NX : no_xattrs (doc s) = true) by (unfold no_xattrs; rewrite Es, Ev, Em; reflexivity).
    rewrite O, NX, andb_true_r. unfold ImportInv.importable, has_sync. rewrite Es, O, orb_false_r, andb_true_r.
    destruct (d_st (doc s)) eqn:St.
    + unfold is_alive. rewrite St. reflexivity.
    + assert (A : is_alive (doc s) = true) by (unfold is_alive; rewrite St; reflexivity).
      assert (T : is_tomb (doc s) = false) by (unfold is_tomb; rewrite St; reflexivity).
      assert (Imp : importable (doc s) = true).
      { unfold ImportInv.importable, has_sync. rewrite Es, O, A. reflexivity. }
      rewrite (import_run_progress false) by auto.
      rewrite A, T.
      rewrite doc_is_sg_write_nosync by auto.
      assert (Z : (d_cas (doc s) =? 0) = false).
      { apply N.eqb_neq. pose proof (di_pos _ _ _ _ D). rewrite St in H.
        assert (0 < d_cas (doc s)) by (apply H; congruence). lia. }
      rewrite Z. reflexivity.
    + assert (A : is_alive (doc s) = false) by (unfold is_alive; rewrite St; reflexivity).
      assert (T : is_tomb (doc s) = true) by (unfold is_tomb; rewrite St; reflexivity).
      rewrite A, T. reflexivity.
Qed.

(* outcome of a hook-free feed delivery: an import of the bucket document, nothing, or the attachment-metadata
   migration of a document that is (and stays) an own write *)
Definition feed_outcome (s s' : state) : Prop :=
  (importable (doc s) = true /\ imports s' = N.succ (imports s) /\
      exists seq, doc s' = import_doc (doc s) (N.succ (clk s)) seq) \/
  (doc s' = doc s /\ imports s' = imports s) \/
  (own (doc s) = true /\ own (doc s') = true /\ hist_of (doc s') = hist_of (doc s) /\
   bstate (doc s') = bstate (doc s) /\ imports s' = imports s).

Lemma gw_feed_nofire k s s' r : Inv s -> gw_feed true crc delcrc no_fire k s = (s', r) ->
  ghosts s' = ghosts s /\ feed_outcome s s'.
Proof.
  intros HI E. unfold gw_feed in E. set (ev := nth (N.to_nat k) (evs s) absent_doc) in *.
  assert (Triv : forall r0, (s, r0) = (s', r) -> ghosts s' = ghosts s /\ feed_outcome s s')
    by (intros r0 X; inversion X; subst; split; auto; right; left; auto).
  assert (Run : forall isdel, isdel = negb (is_alive ev) -> d_st ev <> Absent ->
     (fst (import_run true crc delcrc no_fire true isdel ev (raw_of ev) s), ROk) = (s', r) ->
    ghosts s' = ghosts s /\ feed_outcome s s').
  { intros isdel -> NA X.
    destruct (import_run true crc delcrc no_fire true (negb (is_alive ev)) ev (raw_of ev) s) as [s1 ir] eqn:EI.
    apply import_run_nofire in EI; auto; [|apply (nth_Snap crc delcrc ka kb no_fire (no_fire_ok crc delcrc ka kb)); auto].
    inversion X; subst s1 r. destruct EI as [G [(_ & A & B & C)|(_ & A & B)]]; split; auto.
    - left; auto.
    - right; left; auto. }
  assert (Mig : forall sy, d_st ev <> Absent -> d_sync ev = Some sy ->
     sd_is_sg_write sy (d_cas ev) (Import.body_crc crc delcrc ev) (d_vv ev) = true ->
     ((if s_att sy then migrate crc ev sy s else s), ROk) = (s', r) -> ghosts s' = ghosts s /\ feed_outcome s s').
  { intros sy NA Es SG X. destruct (s_att sy); [|eapply Triv; eauto].
    assert (Em : s' = migrate crc ev sy s) by (inversion X; auto). clear X E Triv Run.
    assert (G : ghosts (migrate crc ev sy s) = ghosts s) by (unfold migrate; destruct (_ && _); reflexivity).
    assert (Im : imports (migrate crc ev sy s) = imports s) by (unfold migrate; destruct (_ && _); reflexivity).
    destruct (migrate_ok crc delcrc ka kb no_fire (no_fire_ok crc delcrc ka kb) ev sy s HI) as (_ & _ & Hm); auto.
    { apply (nth_Snap crc delcrc ka kb no_fire (no_fire_ok crc delcrc ka kb)); auto. }
    rewrite Em. split; [exact G|]. destruct Hm as [Eq|(_ & O & O' & H1 & H2)].
    - right; left. rewrite Eq. auto.
    - right; right. repeat split; auto. }
  destruct (d_st ev) eqn:St; [eapply Triv; eauto| |].
  - assert (T : is_tomb ev = false) by (unfold is_tomb; rewrite St; reflexivity).
    assert (A : negb (is_alive ev) = false) by (unfold is_alive; rewrite St; reflexivity).
    rewrite T in E. cbn [andb] in E.
    destruct (d_sync ev) as [sy|] eqn:Es.
    + destruct (sd_is_sg_write sy (d_cas ev) (Import.body_crc crc delcrc ev) (d_vv ev)) eqn:SG.
      * eapply Mig; eauto. congruence.
      * eapply (Run false); eauto; congruence.
    + eapply (Run false); eauto; congruence.
  - assert (T : is_tomb ev = true) by (unfold is_tomb; rewrite St; reflexivity).
    assert (A : negb (is_alive ev) = true) by (unfold is_alive; rewrite St; reflexivity).
    rewrite T in E. cbn [andb] in E.
    destruct (no_xattrs ev); [eapply Triv; eauto|].
    destruct (d_sync ev) as [sy|] eqn:Es; [|eapply Triv; eauto].
    destruct (sd_is_sg_write sy (d_cas ev) (Import.body_crc crc delcrc ev) (d_vv ev)) eqn:SG.
    + eapply Mig; eauto. congruence.
    + eapply (Run true); eauto; congruence.
Qed.

End Char.
