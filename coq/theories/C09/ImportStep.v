(* C09 -- the invariants hold after every list of operations (including races). *)
From SG Require Import Base.Prelude C09.Import C09.ImportInv C09.ImportLoop C09.ImportProcs.
Open Scope N_scope.

Section Step.
Variable crc : N -> N.
Variable delcrc : N.
Variable ka kb : N.

Notation Inv := (Inv crc delcrc ka kb).
Notation Snap := (Snap crc delcrc).
Notation stepF := (step true crc delcrc).
Notation runF := (run true crc delcrc).

Lemma no_fire_ok : forall s, Inv s -> Inv (no_fire s) /\ mono s (no_fire s).
Proof. intros s H; split; auto using mono_refl. Qed.

Lemma Inv_set_hk s h : Inv s -> Inv (set_hk s h).
Proof. intros [[D F C] W]. split; [constructor|]; auto. Qed.

Lemma mono_set_hk s h : mono s (set_hk s h).
Proof. repeat split; cbn; auto; lia. Qed.

Lemma fire1_ok : forall s, Inv s -> Inv (fire1 true crc delcrc s) /\ mono s (fire1 true crc delcrc s).
Proof.
  intros s HI. unfold fire1. destruct (hk s) as [[n x]|]; [|split; auto using mono_refl].
  destruct (n =? 1).
  - destruct (simple_step true crc delcrc no_fire x (set_hk s None)) as [s1 r] eqn:E. cbn [fst].
    destruct (simple_step_ok crc delcrc ka kb no_fire no_fire_ok x (set_hk s None) (Inv_set_hk s None HI) _ _ E) as [I1 M1].
    split; auto.
  - split; [apply Inv_set_hk; auto | apply mono_set_hk].
Qed.

Lemma Inv_push_ev s : Inv s -> Inv (push_ev s).
Proof.
  intros [[D F C] W]. split; [constructor|]; cbn; auto.
  apply Forall_app. split.
  - eapply Forall_impl; [|exact F]. intros e [De Oe]. split; auto.
  - constructor; [|constructor]. split; auto. left; reflexivity.
Qed.

Lemma step_Inv s o : Inv s -> Inv (fst (fst (stepF s o))).
Proof.
  intros HI. unfold step.
  assert (Simple : forall f, (forall s, Inv s -> Inv (f s) /\ mono s (f s)) -> forall s0, Inv s0 ->
            Inv (fst (simple_step true crc delcrc f o s0))).
  { intros f Hf s0 H0. destruct (simple_step true crc delcrc f o s0) as [s1 r] eqn:E.
    apply (simple_step_ok crc delcrc ka kb f Hf o s0 H0 _ _ E). }
  destruct o; try (specialize (Simple no_fire no_fire_ok s HI);
                   match goal with |- context [simple_step true crc delcrc no_fire ?oo s] =>
                     destruct (simple_step true crc delcrc no_fire oo s) as [s1 r] end;
                   cbn [fst] in *; apply Inv_push_ev; exact Simple).
  destruct (is_gw_op o1 && is_hook_op o2 && (1 <=? n)).
  - destruct (simple_step true crc delcrc (fire1 true crc delcrc) o1 (set_hk s (Some (n, o2)))) as [s1 r] eqn:E.
    cbn [fst]. apply Inv_push_ev. apply Inv_set_hk.
    apply (simple_step_ok crc delcrc ka kb _ fire1_ok o1 _ (Inv_set_hk s _ HI) _ _ E).
  - cbn [fst]. apply Inv_push_ev. exact HI.
Qed.

Lemma run_Inv_from ops : forall s, Inv s -> Inv (runF s ops).
Proof. induction ops as [|o ops IH]; intros s HI; cbn [run]; auto. apply IH. apply step_Inv; auto. Qed.

Theorem run_Inv ops : ka <= kb -> Inv (runF init ops).
Proof. intros H. apply run_Inv_from. apply init_Inv; auto. Qed.

End Step.
