(* C09 -- the code as found ([fixed = false]: db/crud.go OnDemandImportForWrite takes the delete flag of the import
   from the incoming gateway write; db/import.go importDoc keeps the delete flag of its first attempt when it
   re-reads the document) violates the statement proved for the repaired code in C09_Properties.v.
   Witnesses by computation on the faithful model (replayed on the real code by the harness: signatures
   odw-import-delete-flag and ondemand-retry-delete-flag). *)
From SG Require Import Base.Prelude C09.Import C09.ImportInv C09.ImportThms C09.C09_Properties.
Open Scope N_scope.

(* an external delete followed by a (rejected, 409) gateway write: the document is resurrected with body {} *)
Lemma unrepaired_write_resurrects_external_delete :
  let s := run false N.succ 0 init [GwWrite 1; SdkDelete] in
  exists s' f, step false N.succ 0 s (GwWrite 2) = (s', RConflict, f) /\
               bstate (doc s) = (Tomb, 0) /\ bstate (doc s') = (Alive, 0).
Proof. vm_compute. eexists _, _. repeat split; reflexivity. Qed.

(* an external write followed by a (failing) gateway delete: the external body is removed from the bucket *)
Lemma unrepaired_delete_destroys_external_write :
  let s := run false N.succ 0 init [GwWrite 1; SdkSet 2] in
  exists s' r f, step false N.succ 0 s GwDelete = (s', r, f) /\ r <> ROk /\
               bstate (doc s) = (Alive, 2) /\ bstate (doc s') = (Tomb, 0).
Proof. vm_compute. eexists _, _, _. repeat split; try reflexivity. discriminate. Qed.

(* an external delete landing inside an on-demand import (GetDocument): resurrected with body {} *)
Lemma unrepaired_read_race_resurrects_external_delete :
  let s := run false N.succ 0 init [GwWrite 1; SdkSet 2] in
  exists s' r, step false N.succ 0 s (Race Read 1 SdkDelete) = (s', r, true) /\ bstate (doc s') = (Alive, 0).
Proof. vm_compute. eexists _, _. repeat split; reflexivity. Qed.

Theorem C09_gateway_preserves_external_body_refuted : ~ gateway_preserves_external_body_statement false.
Proof.
  intros H.
  specialize (H N.succ 0 [GwWrite 1; SdkDelete] (GwWrite 2)).
  destruct unrepaired_write_resurrects_external_delete as (s' & f & E & B0 & B1).
  specialize (H s' RConflict f eq_refl E). rewrite B1 in H. cbv beta iota in H.
  rewrite B0 in H. discriminate.
Qed.
Print Assumptions C09_gateway_preserves_external_body_refuted.
