(* C09 -- frame properties: which parts of the state the gateway procedures can change at all.
   Used for: ghost counters are only moved by the operations they count; hook-free imports are functions of
   the bucket document. *)
From SG Require Import Base.Prelude C09.Import.
Open Scope N_scope.

Section Frame.
Variable crc : N -> N.
Variable delcrc : N.
Variable fixed : bool.

Variable A : Type.
Variable pi : state -> A.
Variable R : A -> A -> Prop.
Hypothesis R_refl : forall a, R a a.
Hypothesis R_trans : forall a b c, R a b -> R b c -> R a c.
Hypothesis pi_set_doc : forall s d, pi (set_doc s d) = pi s.
Hypothesis pi_set_nseq : forall s n, pi (set_nseq s n) = pi s.
Hypothesis pi_add_import : forall s, R (pi s) (pi (add_import s)).
Hypothesis pi_add_cancel : forall s, R (pi s) (pi (add_cancel s)).
Hypothesis pi_add_err : forall s, R (pi s) (pi (add_err s)).

Variable fire : state -> state.
Hypothesis fire_R : forall s, R (pi s) (pi (fire s)).

Lemma upd_loop_frame (M : Type) (cb : M -> state -> prev -> state * cbres * M) :
  (forall m s p s1 r m', cb m s p = (s1, r, m') -> R (pi s) (pi s1)) ->
  forall fuel m pv s s' r, upd_loop crc delcrc fire fuel cb m pv s = (s', r) -> R (pi s) (pi s').
Proof.
  intros Hcb. induction fuel as [|f IH]; intros m pv s s' r E; cbn [upd_loop] in E.
  - inversion E; subst; auto.
  - destruct (cb m s _) as [[s1 r1] m'] eqn:Ecb. apply Hcb in Ecb.
    assert (R (pi s) (pi (fire s1))) by (eapply R_trans; eauto).
    destruct r1 as [|e|u].
    + apply IH in E. eauto.
    + inversion E; subst; auto.
    + destruct (store_write crc delcrc (doc (fire s1)) _ u (N.succ (clk (fire s1)))) as [d'| |].
      * inversion E; subst. rewrite pi_set_doc. auto.
      * apply IH in E. eauto.
      * inversion E; subst; auto.
Qed.

Lemma import_attempt_frame isdel raw s d s1 r :
  import_attempt crc delcrc isdel raw s d = (s1, r) -> R (pi s) (pi s1).
Proof.
  unfold import_attempt. intros E.
  destruct (d_cas d =? 0); [inversion E; subst; auto|].
  destruct (isdel && negb (has_revtree d)); [inversion E; subst; auto|].
  destruct (doc_is_sg_write crc delcrc d raw); [inversion E; subst; auto|].
  destruct (import_hlv d); inversion E; subst; rewrite pi_set_nseq; auto.
Qed.

Lemma import_cb_frame feed m s p s1 r m' :
  import_cb fixed crc delcrc feed m s p = (s1, r, m') -> R (pi s) (pi s1).
Proof.
  unfold import_cb. intros E.
  destruct (negb (d_cas (p_doc p) =? im_cas m) && feed); [inversion E; subst; auto|].
  destruct (negb (d_cas (p_doc p) =? im_cas m) && doc_body_nil (p_doc p)); [inversion E; subst; auto|].
  match type of E with (let '(_, _) := ?X in _) = _ => destruct X as [sa ra] eqn:EA end.
  inversion E; subst. eapply import_attempt_frame; eauto.
Qed.

Lemma import_run_frame feed isdel ex raw s s' r :
  import_run fixed crc delcrc fire feed isdel ex raw s = (s', r) -> R (pi s) (pi s').
Proof.
  unfold import_run. intros E.
  destruct (upd_loop crc delcrc fire 6 _ _ _ s) as [s1 lr] eqn:EL.
  apply (upd_loop_frame _ _ (import_cb_frame feed)) in EL.
  destruct lr as [|e]; [inversion E; subst; eauto|].
  destruct e; inversion E; subst; eauto.
Qed.

Lemma odw_frame s d del s' r : odw fixed crc delcrc fire s d del = (s', r) -> R (pi s) (pi s').
Proof.
  unfold odw. intros E. destruct (negb (d_cas (doc s) =? d_cas d)); [inversion E; subst; auto|].
  destruct (import_run fixed crc delcrc fire false _ d _ s) as [s1 ir] eqn:EI.
  apply import_run_frame in EI. destruct ir; inversion E; subst; auto.
Qed.

Lemma put_cb_frame b m s p s1 r m' : put_cb fixed crc delcrc fire b m s p = (s1, r, m') -> R (pi s) (pi s1).
Proof.
  unfold put_cb. intros E.
  match type of E with (let '(_, _) := ?X in _) = _ => destruct X as [s0 early] eqn:E0 end.
  assert (R0 : R (pi s) (pi s0)).
  { destruct (doc_is_sg_write crc delcrc (p_doc p) None); [inversion E0; subst; auto|].
    eapply odw_frame; eauto. }
  destruct early; [inversion E; subst; auto|].
  match type of E with (match ?X with _ => _ end) = _ => destruct X end;
    [|inversion E; subst; auto].
  match type of E with (match ?X with _ => _ end) = _ => destruct X end;
    inversion E; subst; rewrite pi_set_nseq; auto.
Qed.

Lemma meta_cb_frame m s p s1 r m' : meta_cb m s p = (s1, r, m') -> R (pi s) (pi s1).
Proof.
  unfold meta_cb. intros E. destruct (negb (is_alive (p_doc p))); [inversion E; subst; auto|].
  destruct (d_sync (p_doc p)); inversion E; subst; auto. rewrite pi_set_nseq. auto.
Qed.

(* the CAS loop of a gateway write, before the ghost [wb] is updated *)
Lemma put_loop_frame b m s s' r :
  upd_loop crc delcrc fire 6 (put_cb fixed crc delcrc fire b) m None s = (s', r) -> R (pi s) (pi s').
Proof. apply upd_loop_frame. intros; eapply put_cb_frame; eauto. Qed.

Lemma gw_meta_frame s s' r : gw_meta crc delcrc fire s = (s', r) -> R (pi s) (pi s').
Proof.
  unfold gw_meta. intros E. destruct (upd_loop crc delcrc fire 6 meta_cb tt None s) as [s1 lr] eqn:EL.
  apply (upd_loop_frame _ _ meta_cb_frame) in EL. inversion E; subst; auto.
Qed.

Lemma gw_read_frame s s' r : gw_read fixed crc delcrc fire s = (s', r) -> R (pi s) (pi s').
Proof.
  unfold gw_read. intros E.
  destruct (d_st (doc s)); [inversion E; subst; auto| |];
  (destruct (is_tomb (doc s) && no_xattrs (doc s)); [inversion E; subst; auto|];
   destruct (doc_is_sg_write crc delcrc (doc s) (raw_of (doc s))); [inversion E; subst; auto|];
   destruct (import_run fixed crc delcrc fire false _ (doc s) _ s) as [s1 ir] eqn:EI;
   apply import_run_frame in EI; destruct ir; inversion E; subst; auto).
Qed.

Lemma migrate_frame ev sy s : R (pi s) (pi (migrate crc ev sy s)).
Proof. unfold migrate. destruct (_ && _); auto. rewrite pi_set_doc. auto. Qed.

Lemma gw_feed_frame k s s' r : gw_feed fixed crc delcrc fire k s = (s', r) -> R (pi s) (pi s').
Proof.
  unfold gw_feed. intros E. set (ev := nth (N.to_nat k) (evs s) absent_doc) in *.
  assert (Run : forall isdel, (fst (import_run fixed crc delcrc fire true isdel ev (raw_of ev) s), ROk) = (s', r) ->
                 R (pi s) (pi s')).
  { intros isdel X. destruct (import_run fixed crc delcrc fire true isdel ev (raw_of ev) s) as [s1 ir] eqn:EI.
    apply import_run_frame in EI. inversion X; subst; auto. }
  destruct (d_st ev); [inversion E; subst; auto| |];
  (destruct (is_tomb ev && no_xattrs ev); [inversion E; subst; auto|];
   destruct (d_sync ev) as [sy|];
   [destruct (sd_is_sg_write sy (d_cas ev) (body_crc crc delcrc ev) (d_vv ev));
      [inversion E; subst; destruct (s_att sy); auto using migrate_frame|eauto]
   |destruct (is_tomb ev); [inversion E; subst; auto|eauto]]).
Qed.

(* every gateway operation, for projections the ghost body state does not influence *)
Hypothesis pi_set_wb : forall s w, R (pi s) (pi (set_wb s w)).

Lemma gw_step_frame o s s' r : is_gw_op o = true ->
  simple_step fixed crc delcrc fire o s = (s', r) -> R (pi s) (pi s').
Proof.
  intros G E. destruct o; try discriminate; cbn [simple_step] in E.
  - unfold gw_put in E. destruct (upd_loop _ _ _ _ _ _ _ s) as [s1 lr] eqn:EL.
    apply put_loop_frame in EL. destruct lr; inversion E; subst; eauto.
  - unfold gw_put in E. destruct (upd_loop _ _ _ _ _ _ _ s) as [s1 lr] eqn:EL.
    apply put_loop_frame in EL. destruct lr; inversion E; subst; eauto.
  - eapply gw_meta_frame; eauto.
  - eapply gw_read_frame; eauto.
  - eapply gw_feed_frame; eauto.
Qed.

End Frame.
