(* C09 -- invariants of the import model and their preservation by the storage layer. *)
From SG Require Import Base.Prelude C09.Import.
Open Scope N_scope.

Lemma dstat_eqb_eq a b : dstat_eqb a b = true <-> a = b.
Proof. destruct a, b; cbn; split; congruence. Qed.

Lemma is_alive_true d : is_alive d = true <-> d_st d = Alive.
Proof. apply dstat_eqb_eq. Qed.
Lemma is_alive_false d : is_alive d = false <-> d_st d <> Alive.
Proof. unfold is_alive. destruct (d_st d); cbn; split; congruence. Qed.
Lemma is_tomb_true d : is_tomb d = true <-> d_st d = Tomb.
Proof. apply dstat_eqb_eq. Qed.

Lemma rev_eqb_eq a b : rev_eqb a b = true <-> a = b.
Proof.
  destruct a, b; unfold rev_eqb; cbn.
  rewrite !andb_true_iff, !N.eqb_eq, Bool.eqb_true_iff. split.
  - intros [[[-> ->] ->] ->]; reflexivity.
  - intros E; inversion E; auto.
Qed.

(* the revision list of a document is a chain: newest first, each revision is the child of the next one with
   generation + 1; the oldest is a root of generation 1 *)
Fixpoint chain (h : list rev) : Prop :=
  match h with
  | [] => True
  | r :: t => match t with
              | [] => r_parent r = 0 /\ r_gen r = 1
              | r' :: _ => r_parent r = r_gen r' /\ r_gen r = N.succ (r_gen r')
              end /\ chain t
  end.

Definition bstate (d : bdoc) : dstat * N := (d_st d, d_body d).
Definition older (e d : bdoc) : Prop := e = d \/ d_cas e < d_cas d.

(* how a procedure may move the state: the clock never goes back, and a changed document carries a CAS newer
   than everything that existed before; the recorded events are only extended at top level *)
Definition mono (s s' : state) : Prop :=
  clk s <= clk s' /\ (doc s' = doc s \/ clk s < d_cas (doc s')) /\ evs s' = evs s.

Lemma mono_refl s : mono s s.
Proof. repeat split; auto; lia. Qed.

Lemma mono_trans a b c : mono a b -> mono b c -> mono a c.
Proof.
  intros (H1 & H2 & H3) (H4 & H5 & H6). repeat split; try lia; try congruence.
  destruct H5 as [E|L]; [rewrite E; destruct H2; [left; auto | right; auto]|right; lia].
Qed.

(* ---------- version vectors ---------- *)

(* every value the vector records for this gateway's own source is older than [c] *)
Definition hlv_local_lt (v : vvd) (c : N) : Prop :=
  (v_src v = local_src -> v_ver v < c) /\ alist_local_lt (v_mv v) c = true /\ alist_local_lt (v_pv v) c = true.

Lemma alist_local_lt_mono l c c' : c <= c' -> alist_local_lt l c = true -> alist_local_lt l c' = true.
Proof.
  intros L. unfold alist_local_lt. rewrite !forallb_forall. intros H p Hp. specialize (H p Hp).
  destruct (fst p =? local_src); cbn in *; auto. apply N.ltb_lt in H. apply N.ltb_lt. lia.
Qed.

Lemma hlv_local_lt_mono v c c' : c <= c' -> hlv_local_lt v c -> hlv_local_lt v c'.
Proof.
  intros L (A & B & C). split; [intros E; specialize (A E); lia|].
  split; eapply alist_local_lt_mono; eauto.
Qed.

Lemma alist_local_lt_get l c x : alist_local_lt l c = true -> aget l local_src = Some x -> x < c.
Proof.
  induction l as [|[a y] t IH]; cbn; [discriminate|]. intros H G.
  apply andb_true_iff in H. destruct H as [H1 H2]. cbn in H1.
  destruct (a =? local_src) eqn:E; cbn in H1.
  - inversion G; subst. apply N.ltb_lt; auto.
  - auto.
Qed.

Lemma hlv_local_lt_get v c x : hlv_local_lt v c -> hlv_get v local_src = Some x -> x < c.
Proof.
  intros (A & B & C) G. unfold hlv_get in G.
  destruct (local_src =? v_src v) eqn:E.
  - inversion G; subst. apply A. apply N.eqb_eq in E. auto.
  - destruct (aget (v_mv v) local_src) eqn:M.
    + inversion G; subst. exact (alist_local_lt_get _ _ _ B M).
    + exact (alist_local_lt_get _ _ _ C G).
Qed.

Lemma alist_local_lt_adel l c k : alist_local_lt l c = true -> alist_local_lt (adel l k) c = true.
Proof.
  unfold alist_local_lt, adel. rewrite !forallb_forall. intros H p Hp. apply filter_In in Hp. apply H. tauto.
Qed.

Lemma alist_local_lt_aset l c k x : alist_local_lt l c = true -> (k = local_src -> x < c) ->
  alist_local_lt (aset l k x) c = true.
Proof.
  intros H Hx. pose proof (alist_local_lt_adel _ _ k H) as H'. unfold aset, alist_local_lt in *.
  cbn [forallb fst snd]. rewrite H', andb_true_r.
  destruct (k =? local_src) eqn:E; cbn; auto. apply N.ltb_lt. apply Hx. apply N.eqb_eq; auto.
Qed.

Lemma hlv_invalidate_mv_lt v c : hlv_local_lt v c -> alist_local_lt (hlv_invalidate_mv v) c = true.
Proof.
  intros (_ & B & C). unfold hlv_invalidate_mv. revert B.
  induction (v_mv v) as [|p t IH]; intros B; cbn [fold_right]; auto.
  cbn in B. apply andb_true_iff in B. destruct B as [B1 B2].
  destruct (fst p =? v_src v); auto.
  apply alist_local_lt_aset; auto. intros E. rewrite E in B1. cbn in B1. apply N.ltb_lt; auto.
Qed.

(* adding a version of the own source that is not older than [c0 <= c'] keeps the bound at any later [c'] *)
Lemma hlv_add_local_lt v ver c c' v' : hlv_local_lt v c -> ver < c' -> c <= c' ->
  hlv_add v local_src ver = Some v' -> hlv_local_lt v' c'.
Proof.
  intros H Lv Lc E. pose proof (hlv_invalidate_mv_lt v c H) as P.
  apply (alist_local_lt_mono _ _ _ Lc) in P. unfold hlv_add in E.
  destruct (match hlv_get v local_src with Some x => ver <? x | None => false end); [discriminate|].
  destruct (local_src =? v_src v) eqn:S; inversion E; subst v'; clear E;
    (split; [intros _; exact Lv|split; [reflexivity|]]).
  - exact P.
  - change (alist_local_lt (adel (aset (hlv_invalidate_mv v) (v_src v) (v_ver v)) local_src) c' = true).
    apply alist_local_lt_adel. apply alist_local_lt_aset; auto.
    intros X. apply N.eqb_neq in S. congruence.
Qed.

Lemma hlv_add_ok v ver c : hlv_local_lt v c -> c <= ver -> exists v', hlv_add v local_src ver = Some v'.
Proof.
  intros H L. unfold hlv_add.
  destruct (hlv_get v local_src) as [x|] eqn:G.
  - pose proof (hlv_local_lt_get _ _ _ H G). assert (X : (ver <? x) = false) by (apply N.ltb_ge; lia). rewrite X.
    destruct (local_src =? v_src v); eauto.
  - destruct (local_src =? v_src v); eauto.
Qed.

Lemma set_cvcas_local_lt v c x : hlv_local_lt v c -> hlv_local_lt (set_cvcas x v) c.
Proof. intros H; exact H. Qed.

Section Inv.
Variable crc : N -> N.
Variable delcrc : N.
(* the counting invariant is kept relative to two constants so that it can be re-based at any reachable
   state: imports + pending + ka <= external writes + kb *)
Variable ka kb : N.

Definition rev_crc (r : rev) : N := if r_del r then delcrc else crc (r_body r).

(* the verdict every variant of the detection reaches on a document with sync data (under the invariant) *)
Definition own (d : bdoc) : bool :=
  match d_sync d with
  | Some sy => sd_is_sg_write sy (d_cas d) (body_crc crc delcrc d) (d_vv d)
  | None => false
  end.

Definition importable (d : bdoc) : bool := (is_alive d || has_sync d) && negb (own d).
Definition pend (d : bdoc) : N := if importable d then 1 else 0.

Record DocInv (c : N) (d : bdoc) : Prop := {
  di_cas : d_cas d <= c;
  di_abs : d_st d = Absent -> d = absent_doc;
  di_pos : d_st d <> Absent -> 0 < d_cas d;
  di_body : d_st d <> Alive -> d_body d = 0;
  di_nosync : d_sync d = None -> d_vv d = None /\ d_mou d = None;
  di_sync : forall sy, d_sync d = Some sy ->
      s_cas sy <= d_cas d /\
      (exists v, d_vv d = Some v /\ v_ver v = s_cv sy /\ v_src v = s_cvsrc sy) /\
      chain (s_hist sy) /\
      (exists r t, s_hist sy = r :: t /\ s_crc sy = rev_crc r) /\
      (s_cas sy = d_cas d -> body_crc crc delcrc d = s_crc sy);
  di_hlv : forall v, d_vv d = Some v -> hlv_local_lt v (d_cas d)
}.

Definition Snap (s : state) (e : bdoc) : Prop := DocInv (clk s) e /\ older e (doc s).

Record Inv0 (s : state) : Prop := {
  inv_doc : DocInv (clk s) (doc s);
  inv_evs : Forall (Snap s) (evs s);
  inv_cnt : imports s + pend (doc s) + ka <= exts s + kb
}.
Definition Inv (s : state) : Prop := Inv0 s /\ wb s = bstate (doc s).

Lemma DocInv_le c c' d : DocInv c d -> c <= c' -> DocInv c' d.
Proof. intros [] L; constructor; auto; lia. Qed.

Lemma Snap_mono s s' e : Snap s e -> mono s s' -> Snap s' e.
Proof.
  intros [D O] (H1 & H2 & _). split; [eapply DocInv_le; eauto|].
  destruct H2 as [E|L]; [rewrite E; auto|]. right. pose proof (di_cas _ _ D). lia.
Qed.

Lemma Snap_cur s : DocInv (clk s) (doc s) -> Snap s (doc s).
Proof. intros D; split; auto. left; reflexivity. Qed.

(* a snapshot with the CAS of the current document IS the current document *)
Lemma Snap_cas_eq s e : Snap s e -> d_cas e = d_cas (doc s) -> e = doc s.
Proof. intros [_ [E|L]] C; auto; lia. Qed.

Lemma absent_DocInv c : DocInv c absent_doc.
Proof.
  constructor; cbn; try lia; auto; try congruence.
Qed.

Lemma init_Inv : ka <= kb -> Inv init.
Proof.
  intros Hk.
  split; [constructor|reflexivity]; cbn.
  - apply absent_DocInv.
  - constructor; [|constructor]. split; [apply absent_DocInv | left; reflexivity].
  - unfold pend, importable, own; cbn. lia.
Qed.

(* ---------- facts about the detection under the invariant ---------- *)

Lemma cv_ok_inv c d sy : DocInv c d -> d_sync d = Some sy -> cv_ok sy (d_vv d) = true.
Proof.
  intros D E. destruct (di_sync _ _ D _ E) as (_ & (v & Ev & Hv & Hs) & _).
  unfold cv_ok. rewrite Ev, Hv, Hs, !N.eqb_refl. reflexivity.
Qed.

Lemma own_spec c d sy : DocInv c d -> d_sync d = Some sy ->
  own d = (d_cas d =? s_cas sy) || (body_crc crc delcrc d =? s_crc sy).
Proof.
  intros D E. unfold own, sd_is_sg_write. rewrite E, (cv_ok_inv _ _ _ D E).
  destruct (d_cas d =? s_cas sy) eqn:C; cbn; [reflexivity|].
  destruct (body_crc crc delcrc d =? s_crc sy); reflexivity.
Qed.

(* under the invariant: own <-> the stored checksum is the checksum of the bucket body *)
Lemma own_crc c d sy : DocInv c d -> d_sync d = Some sy ->
  own d = (body_crc crc delcrc d =? s_crc sy).
Proof.
  intros D E. rewrite (own_spec _ _ _ D E).
  destruct (d_cas d =? s_cas sy) eqn:C; cbn; [|reflexivity].
  apply N.eqb_eq in C. destruct (di_sync _ _ D _ E) as (_ & _ & _ & _ & H).
  symmetry; apply N.eqb_eq; apply H; auto.
Qed.

Lemma doc_is_sg_write_raw c d : DocInv c d -> d_sync d <> None ->
  doc_is_sg_write crc delcrc d (raw_of d) = own d.
Proof.
  intros D E. unfold doc_is_sg_write, own, raw_of. destruct (d_sync d) as [sy|]; [|congruence].
  unfold body_crc. destruct (is_alive d); reflexivity.
Qed.

Lemma doc_is_sg_write_none c d : DocInv c d -> d_sync d <> None ->
  doc_is_sg_write crc delcrc d None = own d.
Proof.
  intros D E. unfold doc_is_sg_write, own. destruct (d_sync d) as [sy|]; [|congruence]. reflexivity.
Qed.

Lemma doc_is_sg_write_nosync d raw : d_sync d = None -> doc_is_sg_write crc delcrc d raw = (d_cas d =? 0).
Proof. intros E. unfold doc_is_sg_write. rewrite E. reflexivity. Qed.

End Inv.
