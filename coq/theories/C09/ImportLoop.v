(* C09 -- the CAS retry loop (rosmar WriteUpdateWithXattrs) preserves the invariants, for any callback that
   meets its specification and any interposed action [fire] that preserves them. *)
From SG Require Import Base.Prelude C09.Import C09.ImportInv.
Open Scope N_scope.

Section Loop.
Variable crc : N -> N.
Variable delcrc : N.
Variable ka kb : N.

Notation Inv := (Inv crc delcrc ka kb).
Notation Inv0 := (Inv0 crc delcrc ka kb).
Notation Snap := (Snap crc delcrc).
Notation DocInv := (DocInv crc delcrc).

Definition PrevOk (s : state) (p : prev) : Prop :=
  Snap s (p_doc p) /\ (p_tomb p = true -> d_st (p_doc p) = Tomb).

Lemma PrevOk_mono s s' p : PrevOk s p -> mono s s' -> PrevOk s' p.
Proof. intros [A B] M; split; auto. eapply Snap_mono; eauto. Qed.

Lemma PrevOk_read s : DocInv (clk s) (doc s) -> PrevOk s (mkPrev (doc s) (is_tomb (doc s))).
Proof. intros D; split; cbn; [apply Snap_cur; auto | apply is_tomb_true]. Qed.

Lemma apply_upd_cas cl cur st b u nc : d_cas (apply_upd crc delcrc cl cur st b u nc) = nc.
Proof. reflexivity. Qed.

Lemma store_write_cas cur p u nc d' : store_write crc delcrc cur p u nc = WOk d' -> d_cas d' = nc.
Proof.
  unfold store_write. intros H.
  destruct (u_tomb u), (p_tomb p), (d_st cur), (u_body u), (is_alive (p_doc p)), (d_cas (p_doc p) =? 0),
    (d_cas cur =? d_cas (p_doc p)); cbn in H; try discriminate; injection H as <-; apply apply_upd_cas.
Qed.

Lemma mono_set_doc s d : d_cas d = N.succ (clk s) -> mono s (set_doc s d).
Proof. intros E; repeat split; cbn; try lia. Qed.

Variable fire : state -> state.
Hypothesis fire_ok : forall s, Inv s -> Inv (fire s) /\ mono s (fire s).

Section Generic.
Variable M : Type.
Variable cb : M -> state -> prev -> state * cbres * M.
(* invariant of the callback memory; it may refer to the previous document supplied for the first attempt *)
Variable MemOk : M -> option prev -> state -> Prop.
Variable Q : state -> Prop.
Hypothesis MemOk_mono : forall m s s', MemOk m None s -> mono s s' -> MemOk m None s'.

Definition WriteSpec (p : prev) (u : update) : Prop :=
  forall s2 d', Inv s2 -> PrevOk s2 p ->
    store_write crc delcrc (doc s2) p u (N.succ (clk s2)) = WOk d' -> Q (set_doc s2 d').

Definition the_prev (pv : option prev) (s : state) : prev :=
  match pv with Some p => p | None => mkPrev (doc s) (is_tomb (doc s)) end.

Hypothesis cb_ok : forall m pv s, Inv s -> MemOk m pv s -> PrevOk s (the_prev pv s) ->
  forall s1 r m', cb m s (the_prev pv s) = (s1, r, m') ->
  Inv s1 /\ mono s s1 /\ MemOk m' None s1 /\ (forall u, r = CbWrite u -> WriteSpec (the_prev pv s) u).

Lemma upd_loop_ok : forall fuel m pv s s' r, Inv s -> MemOk m pv s ->
  (forall p, pv = Some p -> PrevOk s p) ->
  upd_loop crc delcrc fire fuel cb m pv s = (s', r) ->
  mono s s' /\ match r with LOk => Q s' | LErr _ => Inv s' end.
Proof.
  induction fuel as [|f IH]; intros m pv s s' r HI HM HP E; cbn [upd_loop] in E.
  - inversion E; subst. split; [apply mono_refl | exact HI].
  - fold (the_prev pv s) in E. set (p := the_prev pv s) in *.
    assert (Pp : PrevOk s p).
    { subst p. destruct pv as [p0|]; [apply HP; reflexivity|]. apply PrevOk_read. apply HI. }
    destruct (cb m s p) as [[s1 r1] m'] eqn:Ecb.
    destruct (cb_ok m pv s HI HM Pp _ _ _ Ecb) as (I1 & M1 & Mem1 & HW).
    destruct (fire_ok s1 I1) as [I2 M2].
    assert (M02 : mono s (fire s1)) by (eapply mono_trans; eauto).
    assert (Mem2 : MemOk m' None (fire s1)) by (eapply MemOk_mono; eauto).
    destruct r1 as [|e|u].
    + apply IH in E; auto; [|intros ? X; discriminate].
      destruct E as [Mo R]. split; [eapply mono_trans; eauto | exact R].
    + inversion E; subst. split; auto.
    + destruct (store_write crc delcrc (doc (fire s1)) p u (N.succ (clk (fire s1)))) as [d'| |] eqn:SW.
      * inversion E; subst. split.
        -- eapply mono_trans; [exact M02|]. apply mono_set_doc. eapply store_write_cas; eauto.
        -- eapply (HW u eq_refl); eauto. eapply PrevOk_mono; eauto.
      * apply IH in E; auto; [|intros ? X; discriminate].
        destruct E as [Mo R]. split; [eapply mono_trans; eauto | exact R].
      * inversion E; subst. split; auto.
Qed.

End Generic.
End Loop.
