(* C09 -- every gateway procedure of the model (repaired code, [fixed = true]) preserves the invariants, for any
   interposed action [fire] that does. *)
From SG Require Import Base.Prelude C09.Import C09.ImportInv C09.ImportLoop.
Open Scope N_scope.

Section Procs.
Variable crc : N -> N.
Variable delcrc : N.
Variable ka kb : N.

Notation Inv := (Inv crc delcrc ka kb).
Notation Inv0 := (Inv0 crc delcrc ka kb).
Notation Snap := (Snap crc delcrc).
Notation DocInv := (DocInv crc delcrc).
Notation own := (own crc delcrc).
Notation pend := (pend crc delcrc).
Notation importable := (importable crc delcrc).
Notation PrevOk := (PrevOk crc delcrc).
Notation rev_crc := (rev_crc crc delcrc).
Notation body_crc := (body_crc crc delcrc).

(* ---------- small facts ---------- *)

Lemma chain_cons h del tag :
  chain h ->
  chain (R (N.succ (match h with r :: _ => r_gen r | [] => 0 end))
           (match h with r :: _ => r_gen r | [] => 0 end) del tag :: h).
Proof. intros C. destruct h as [|r t]; [cbn; auto | split; [cbn; auto | exact C]]. Qed.

Lemma cur_gen_hist d : cur_gen d = match hist_of d with r :: _ => r_gen r | [] => 0 end.
Proof. unfold cur_gen, cur_rev. destruct (hist_of d); reflexivity. Qed.

Lemma hist_chain c d : DocInv c d -> chain (hist_of d).
Proof.
  intros D. unfold hist_of. destruct (d_sync d) as [sy|] eqn:E; [|exact I].
  destruct (di_sync _ _ _ _ D _ E) as (_ & _ & C & _). exact C.
Qed.

Lemma evs_set_doc s d' : Forall (Snap s) (evs s) -> d_cas d' = N.succ (clk s) ->
  Forall (Snap (set_doc s d')) (evs (set_doc s d')).
Proof.
  intros F E. cbn. eapply Forall_impl; [|exact F]. intros e [D O]. split; cbn.
  - eapply DocInv_le; eauto. lia.
  - right. pose proof (di_cas _ _ _ _ D). lia.
Qed.

Lemma pend_own d : own d = true -> pend d = 0.
Proof. intros O. unfold pend, importable. rewrite O, andb_false_r. reflexivity. Qed.

Lemma pend_le1 d : pend d <= 1.
Proof. unfold pend. destruct (importable d); lia. Qed.

Lemma commit_Inv0 s d' : Inv0 s -> d_cas d' = N.succ (clk s) -> DocInv (N.succ (clk s)) d' ->
  pend d' <= pend (doc s) -> Inv0 (set_doc s d').
Proof.
  intros [D F C] E D' P. constructor; cbn.
  - exact D'.
  - apply (evs_set_doc s d'); auto.
  - lia.
Qed.

(* the document written by a macro-expanded gateway write (Put or import) *)
Lemma apply_upd_DocInv cl cur st' body' u nc :
  st' <> Absent -> u_macro u = true ->
  (exists v m, u_vv u = Some (v, m) /\ v_ver v = s_cv (u_sync u) /\ v_src v = s_cvsrc (u_sync u) /\
               hlv_local_lt v nc) ->
  chain (s_hist (u_sync u)) ->
  (exists r t, s_hist (u_sync u) = r :: t /\
               rev_crc r = match st' with Alive => crc body' | _ => delcrc end) ->
  0 < nc ->
  DocInv nc (apply_upd crc delcrc cl cur st' body' u nc) /\
  own (apply_upd crc delcrc cl cur st' body' u nc) = true.
Proof.
  intros NA Mac (v & m & Ev & Hv & Hs & Hl) Ch (r & t & Eh & Hc) Pos.
  unfold apply_upd. rewrite Mac, Ev. split.
  - constructor; cbn [d_cas d_st d_body d_sync d_vv d_mou].
    + lia.
    + intros X; congruence.
    + auto.
    + destruct st'; congruence.
    + congruence.
    + intros sy E. inversion E; subst sy; clear E. cbn.
      split; [lia|]. split; [|split; [exact Ch|split]].
      * destruct m; eexists; split; try reflexivity; cbn; auto.
      * exists r, t. split; auto.
      * intros _. unfold Import.body_crc, is_alive. cbn. destruct st'; cbn; congruence.
    + intros v0 E. destruct m; inversion E; subst v0; exact Hl.
  - unfold ImportInv.own, sd_is_sg_write. cbn. rewrite N.eqb_refl. reflexivity.
Qed.

Lemma bstate_apply_upd cl cur st' body' u nc :
  bstate (apply_upd crc delcrc cl cur st' body' u nc) = (st', match st' with Alive => body' | _ => 0 end).
Proof. reflexivity. Qed.

Lemma not_absent_cas c d : DocInv c d -> d_cas d <> 0 -> d_st d <> Absent.
Proof. intros D N A. apply (di_abs _ _ _ _ D) in A. subst d. cbn in N. congruence. Qed.

Lemma absent_cas c d : DocInv c d -> d_st d = Absent -> d_cas d = 0.
Proof. intros D A. apply (di_abs _ _ _ _ D) in A. subst d. reflexivity. Qed.

Lemma st_cases c d : DocInv c d -> d_cas d <> 0 ->
  (is_alive d = true /\ d_st d = Alive) \/ (is_alive d = false /\ d_st d = Tomb /\ d_body d = 0).
Proof.
  intros D N. pose proof (not_absent_cas _ _ D N) as NA. unfold is_alive.
  destruct (d_st d) eqn:E; cbn; try congruence; [left; auto|right; repeat split; auto].
  apply (di_body _ _ _ _ D). congruence.
Qed.

(* ---------- the HLV written by an import ---------- *)

Lemma import_hlv_lt c d vv' nc : DocInv c d -> c < nc -> import_hlv d = Some vv' -> hlv_local_lt vv' nc.
Proof.
  intros D L E. pose proof (di_cas _ _ _ _ D) as Cd. unfold import_hlv in E.
  destruct (d_vv d) as [v|] eqn:Ev.
  - pose proof (di_hlv _ _ _ _ D _ Ev) as Hl.
    destruct ((v_cvcas v =? d_cas d) || mou_match d).
    + inversion E; subst. eapply hlv_local_lt_mono; [|exact Hl]. lia.
    + destruct (hlv_add v local_src (d_cas d)) as [v2|] eqn:Ea; [|discriminate].
      inversion E; subst vv'. apply set_cvcas_local_lt.
      eapply hlv_add_local_lt; [exact Hl| | |exact Ea]; lia.
  - inversion E; subst vv'. split; [cbn; intros _; lia|split; reflexivity].
Qed.

Lemma import_hlv_some c d : DocInv c d -> exists vv', import_hlv d = Some vv'.
Proof.
  intros D. unfold import_hlv. destruct (d_vv d) as [v|] eqn:Ev; [|eauto].
  destruct ((v_cvcas v =? d_cas d) || mou_match d); [eauto|].
  destruct (hlv_add_ok v (d_cas d) (d_cas d) (di_hlv _ _ _ _ D _ Ev)) as [v' E]; [lia|].
  rewrite E. cbn. eauto.
Qed.

(* ---------- the interposed action ---------- *)
Variable fire : state -> state.
Hypothesis fire_ok : forall s, Inv s -> Inv (fire s) /\ mono s (fire s).

(* ================= import ================= *)

Definition IMemOk (m : imem) (pv : option prev) (s : state) : Prop :=
  match pv with
  | Some p => im_cas m = d_cas (p_doc p) /\ im_raw m = raw_of (p_doc p) /\ im_del m = negb (is_alive (p_doc p))
  | None => exists e, Snap s e /\ im_cas m = d_cas e /\ im_raw m = raw_of e /\ im_del m = negb (is_alive e)
  end.

Definition ImportQ (s : state) : Prop := Inv s /\ own (doc s) = true /\ imports s + 1 + ka <= exts s + kb.

Lemma IMemOk_mono m s s' : IMemOk m None s -> mono s s' -> IMemOk m None s'.
Proof. intros (e & Sn & R) Mo. exists e. split; auto. eapply Snap_mono; eauto. Qed.

Lemma Inv_set_nseq s n : Inv s -> Inv (set_nseq s n).
Proof. intros [[D F C] W]. split; [constructor|]; auto. Qed.

Lemma mono_set_nseq s n : mono s (set_nseq s n).
Proof. repeat split; cbn; auto; lia. Qed.

(* a CAS-guarded metadata write whose delete-ness agrees with the document it was computed from can only
   land on that very document, and leaves liveness and body alone *)
Lemma store_write_same_doc s2 p u d' :
  Inv s2 -> PrevOk s2 p -> d_cas (p_doc p) <> 0 ->
  u_tomb u = negb (is_alive (p_doc p)) -> (is_alive (p_doc p) = true -> u_body u = None) ->
  store_write crc delcrc (doc s2) p u (N.succ (clk s2)) = WOk d' ->
  doc s2 = p_doc p /\
  d' = apply_upd crc delcrc false (p_doc p) (d_st (p_doc p)) (d_body (p_doc p)) u (N.succ (clk s2)).
Proof.
  intros I2 [Sn Pt] NZ UT UB SW. set (d := p_doc p) in *.
  assert (Dd : DocInv (clk s2) d) by apply Sn.
  assert (Same : d_cas (doc s2) =? d_cas d = true -> doc s2 = d).
  { intros C. apply N.eqb_eq in C. symmetry. apply (Snap_cas_eq crc delcrc); auto. }
  unfold store_write in SW. fold d in SW. rewrite UT in SW.
  destruct (st_cases _ _ Dd NZ) as [[A St]|[A [St B0]]]; rewrite A in *; cbn [negb] in SW.
  - (* alive: WriteWithXattrs, body untouched *)
    rewrite (UB eq_refl) in SW.
    destruct (p_tomb p) eqn:PT; [specialize (Pt eq_refl); congruence|].
    destruct (d_st (doc s2)) eqn:Sc.
    + destruct (d_cas d =? 0) eqn:Z; [apply N.eqb_eq in Z; congruence|discriminate].
    + destruct (d_cas (doc s2) =? d_cas d) eqn:C; [|discriminate].
      specialize (Same eq_refl). inversion SW; subst d'. split; auto. rewrite Same, St. reflexivity.
    + destruct (d_cas (doc s2) =? d_cas d); discriminate.
  - (* tombstone: WriteTombstoneWithXattrs without body removal *)
    cbn [orb] in SW.
    destruct (d_st (doc s2)) eqn:Sc.
    + destruct (d_cas d =? 0) eqn:Z; [apply N.eqb_eq in Z; congruence|]. cbn in SW. discriminate.
    + destruct (d_cas (doc s2) =? d_cas d) eqn:C; [|discriminate].
      specialize (Same eq_refl). rewrite Same in Sc. congruence.
    + destruct (d_cas (doc s2) =? d_cas d) eqn:C; [|discriminate].
      specialize (Same eq_refl). inversion SW; subst d'. split; auto. rewrite Same, St, B0. reflexivity.
Qed.

Lemma importable_of_not_sg c d : DocInv c d -> d_cas d <> 0 ->
  doc_is_sg_write crc delcrc d (raw_of d) = false ->
  (negb (is_alive d) && negb (has_revtree d)) = false ->
  importable d = true.
Proof.
  intros D NZ SG RT. unfold ImportInv.importable.
  destruct (d_sync d) as [sy|] eqn:E.
  - rewrite (doc_is_sg_write_raw crc delcrc c) in SG by (auto; congruence).
    unfold has_sync. rewrite E, SG, orb_true_r. reflexivity.
  - unfold ImportInv.own, has_sync, has_revtree, cur_rev, hist_of in *. rewrite E in *. cbn in *.
    destruct (is_alive d); cbn in *; congruence.
Qed.

Lemma import_attempt_ok s d : Inv s -> Snap s d ->
  forall s1 r, import_attempt crc delcrc (negb (is_alive d)) (raw_of d) s d = (s1, r) ->
  Inv s1 /\ mono s s1 /\
  (forall u p, r = CbWrite u -> p_doc p = d -> WriteSpec crc delcrc ka kb ImportQ p u).
Proof.
  intros HI Sd s1 r E. assert (Dd : DocInv (clk s) d) by apply Sd.
  unfold import_attempt in E.
  destruct (d_cas d =? 0) eqn:Z; [inversion E; subst; split; [exact HI | split; [apply mono_refl | intros; discriminate]]|].
  apply N.eqb_neq in Z.
  destruct (negb (is_alive d) && negb (has_revtree d)) eqn:RT;
    [inversion E; subst; split; [exact HI | split; [apply mono_refl | intros; discriminate]]|].
  destruct (doc_is_sg_write crc delcrc d (raw_of d)) eqn:SG;
    [inversion E; subst; split; [exact HI | split; [apply mono_refl | intros; discriminate]]|].
  destruct (import_hlv d) as [vv'|] eqn:EH;
    [|inversion E; subst; split; [apply Inv_set_nseq; auto | split; [apply mono_set_nseq | intros; discriminate]]].
  inversion E; subst s1 r; clear E.
  split; [apply Inv_set_nseq; auto|]. split; [apply mono_set_nseq|].
  intros u p Eu Ep s2 d' I2 P2 SW. inversion Eu; subst u; clear Eu.
  assert (D2 : DocInv (clk s2) d) by (rewrite <- Ep; apply P2).
  match type of SW with store_write _ _ _ _ ?uu _ = _ => set (u := uu) in * end.
  destruct (store_write_same_doc s2 p u d' I2 P2) as [Ecur Ed']; auto.
  - rewrite Ep; auto.
  - rewrite Ep. reflexivity.
  - rewrite Ep. intros A. subst u. cbn. unfold doc_deleted. rewrite A. reflexivity.
  - rewrite Ep in *. clear SW.
    assert (Imp : importable d = true) by (eapply importable_of_not_sg; eauto).
    destruct I2 as [[Dc Fc Cc] Wc]. rewrite Ecur in Dc, Cc, Wc.
    assert (NA : d_st d <> Absent) by (eapply not_absent_cas; eauto).
    (* the written document *)
    assert (DO : DocInv (N.succ (clk s2)) d' /\ own d' = true).
    { assert (Hh : s_hist (u_sync u) = R (N.succ (cur_gen d)) (cur_gen d) (negb (is_alive d))
                                           (match raw_of d with Some b => b | None => 0 end) :: hist_of d) by reflexivity.
      subst d'. apply apply_upd_DocInv; auto; try lia.
      - subst u. cbn. eexists _, _. split; [reflexivity|]. split; [reflexivity|]. split; [reflexivity|].
        eapply import_hlv_lt; eauto. lia.
      - rewrite Hh, cur_gen_hist. apply chain_cons. eapply hist_chain; eauto.
      - rewrite Hh. eexists _, _. split; [reflexivity|]. unfold ImportInv.rev_crc. cbn.
        unfold raw_of. destruct (st_cases _ _ D2 Z) as [[A St]|[A [St B0]]]; rewrite A, St; reflexivity. }
    destruct DO as [Dd' Od'].
    assert (Bs : bstate d' = bstate d).
    { subst d'. rewrite bstate_apply_upd. unfold bstate.
      destruct (st_cases _ _ D2 Z) as [[A St]|[A [St B0]]]; rewrite St; congruence. }
    unfold ImportInv.pend in Cc. rewrite Imp in Cc.
    assert (I0 : Inv0 (set_doc s2 d')).
    { apply commit_Inv0.
      - constructor; rewrite ?Ecur; auto. unfold ImportInv.pend. rewrite Imp. exact Cc.
      - subst d'. reflexivity.
      - exact Dd'.
      - rewrite pend_own by auto. lia. }
    split; [split; [exact I0|]|split].
    + cbn. rewrite Bs, Wc. reflexivity.
    + exact Od'.
    + cbn. lia.
Qed.

Lemma import_cb_ok feed : forall m pv s, Inv s -> IMemOk m pv s -> PrevOk s (the_prev pv s) ->
  forall s1 r m', import_cb true crc delcrc feed m s (the_prev pv s) = (s1, r, m') ->
  Inv s1 /\ mono s s1 /\ IMemOk m' None s1 /\
  (forall u, r = CbWrite u -> WriteSpec crc delcrc ka kb ImportQ (the_prev pv s) u).
Proof.
  intros m pv s HI HM HP s1 r m' E.
  set (p := the_prev pv s) in *. set (d := p_doc p) in *.
  assert (Sd : Snap s d) by apply HP.
  (* the memory describes [d] whenever the CAS values agree *)
  assert (Hm : d_cas d = im_cas m -> im_raw m = raw_of d /\ im_del m = negb (is_alive d)).
  { intros C. destruct pv as [p0|]; cbn in HM.
    - subst d p. cbn. tauto.
    - destruct HM as (e & Se & C1 & C2 & C3). subst d p. cbn in *.
      assert (e = doc s) by (apply (Snap_cas_eq crc delcrc); auto; congruence). subst e. auto. }
  assert (HmNone : IMemOk m None s).
  { destruct pv as [p0|]; cbn in HM; [|exact HM]. exists d. subst d p; cbn in *. tauto. }
  assert (Fin : forall isdel raw, isdel = negb (is_alive d) -> raw = raw_of d ->
     (let '(s1, r) := import_attempt crc delcrc isdel raw s d in (s1, r, mkImem isdel (d_cas d) raw)) = (s1, r, m') ->
     Inv s1 /\ mono s s1 /\ IMemOk m' None s1 /\
     (forall u, r = CbWrite u -> WriteSpec crc delcrc ka kb ImportQ p u)).
  { intros isdel raw -> -> E'.
    destruct (import_attempt crc delcrc (negb (is_alive d)) (raw_of d) s d) as [s1' r'] eqn:EA.
    inversion E'; subst s1' r' m'; clear E'.
    destruct (import_attempt_ok s d HI Sd _ _ EA) as (I1 & M1 & W).
    split; [exact I1|]. split; [exact M1|]. split.
    - exists d. cbn. split; [eapply Snap_mono; eauto|auto].
    - intros u Eu. eapply W; eauto. }
  unfold import_cb in E. fold d in E.
  destruct (negb (d_cas d =? im_cas m)) eqn:Mis; cbn [andb] in E.
  - destruct feed; [inversion E; subst; split; [exact HI | split; [apply mono_refl | split; [exact HmNone | intros; discriminate]]]|].
    destruct (doc_body_nil d) eqn:BN; [inversion E; subst; split; [exact HI | split; [apply mono_refl | split; [exact HmNone | intros; discriminate]]]|].
    assert (Hdel : doc_deleted d = negb (is_alive d)).
    { unfold doc_deleted, doc_body_nil in *. destruct (is_alive d), (has_sync d); cbn in *; congruence. }
    apply Fin in E; auto.
    rewrite Hdel. unfold raw_of. destruct (is_alive d); reflexivity.
  - apply negb_false_iff, N.eqb_eq in Mis. destruct (Hm Mis) as [R1 R2].
    apply Fin in E; auto.
Qed.

(* in the repaired code every attempt that gets past the CAS-mismatch handling works on the document it was
   handed, with the delete flag and raw body of that very document *)
Lemma import_cb_resolve feed : forall m pv s, Inv s -> IMemOk m pv s -> PrevOk s (the_prev pv s) ->
  forall s1 r m', import_cb true crc delcrc feed m s (the_prev pv s) = (s1, r, m') ->
  (s1 = s /\ (r = CbErr ECasFail \/ r = CbErr EOther)) \/
  import_attempt crc delcrc (negb (is_alive (p_doc (the_prev pv s)))) (raw_of (p_doc (the_prev pv s))) s
                 (p_doc (the_prev pv s)) = (s1, r).
Proof.
  intros m pv s HI HM HP s1 r m' E.
  set (p := the_prev pv s) in *. set (d := p_doc p) in *.
  assert (Sd : Snap s d) by apply HP.
  assert (Hm : d_cas d = im_cas m -> im_raw m = raw_of d /\ im_del m = negb (is_alive d)).
  { intros C. destruct pv as [p0|]; cbn in HM.
    - subst d p. cbn. tauto.
    - destruct HM as (e & Se & C1 & C2 & C3). subst d p. cbn in *.
      assert (e = doc s) by (apply (Snap_cas_eq crc delcrc); auto; congruence). subst e. auto. }
  assert (Fin : forall isdel raw, isdel = negb (is_alive d) -> raw = raw_of d ->
     (let '(s1, r) := import_attempt crc delcrc isdel raw s d in (s1, r, mkImem isdel (d_cas d) raw)) = (s1, r, m') ->
     import_attempt crc delcrc (negb (is_alive d)) (raw_of d) s d = (s1, r)).
  { intros isdel raw -> -> E'.
    destruct (import_attempt crc delcrc (negb (is_alive d)) (raw_of d) s d) as [s1' r']. inversion E'; subst; auto. }
  unfold import_cb in E. fold d in E.
  destruct (negb (d_cas d =? im_cas m)) eqn:Mis; cbn [andb] in E.
  - destruct feed; [inversion E; subst; left; auto|].
    destruct (doc_body_nil d) eqn:BN; [inversion E; subst; left; auto|].
    assert (Hdel : doc_deleted d = negb (is_alive d)).
    { unfold doc_deleted, doc_body_nil in *. destruct (is_alive d), (has_sync d); cbn in *; congruence. }
    right. apply Fin in E; auto.
    rewrite Hdel. unfold raw_of. destruct (is_alive d); reflexivity.
  - apply negb_false_iff, N.eqb_eq in Mis. destruct (Hm Mis) as [R1 R2].
    right. apply Fin in E; auto.
Qed.

Lemma Inv_add_import s : Inv s -> own (doc s) = true -> imports s + 1 + ka <= exts s + kb -> Inv (add_import s).
Proof.
  intros [[D F C] W] O Sl. split; [constructor|]; cbn; auto.
  rewrite pend_own by auto. lia.
Qed.

Lemma mono_add_import s : mono s (add_import s).
Proof. repeat split; cbn; auto; lia. Qed.

Lemma Inv_add_cancel s : Inv s -> Inv (add_cancel s).
Proof. intros [[D F C] W]. split; [constructor|]; auto. Qed.
Lemma Inv_add_err s : Inv s -> Inv (add_err s).
Proof. intros [[D F C] W]. split; [constructor|]; auto. Qed.
Lemma mono_add_cancel s : mono s (add_cancel s).
Proof. repeat split; cbn; auto; lia. Qed.
Lemma mono_add_err s : mono s (add_err s).
Proof. repeat split; cbn; auto; lia. Qed.

Lemma import_run_ok feed isdel ex ex_raw s :
  Inv s -> Snap s ex -> ex_raw = raw_of ex -> isdel = negb (is_alive ex) ->
  forall s' r, import_run true crc delcrc fire feed isdel ex ex_raw s = (s', r) ->
  Inv s' /\ mono s s' /\ (r = IImported -> own (doc s') = true).
Proof.
  intros HI Sx -> -> s' r E. unfold import_run in E.
  destruct (upd_loop crc delcrc fire 6 (import_cb true crc delcrc feed) (mkImem (negb (is_alive ex)) (d_cas ex) (raw_of ex))
              (Some (mkPrev ex false)) s) as [s1 lr] eqn:EL.
  eapply (upd_loop_ok crc delcrc ka kb fire fire_ok imem _ IMemOk ImportQ IMemOk_mono (import_cb_ok feed)) in EL;
    [| exact HI | cbn; auto | intros p Ep; inversion Ep; subst p; split; cbn; auto; discriminate].
  destruct EL as [Mo R].
  destruct lr as [|e].
  - destruct R as (I1 & O1 & Sl). inversion E; subst s' r; clear E.
    split; [apply Inv_add_import; auto|]. split; [eapply mono_trans; [exact Mo|apply mono_add_import]|].
    intros _. exact O1.
  - assert (X : (s' = s1 \/ s' = add_cancel s1 \/ s' = add_err s1) /\ r <> IImported)
      by (destruct e; inversion E; subst; split; auto; discriminate).
    destruct X as [ [ -> | [ -> | -> ] ] NI ].
    + split; [exact R|]. split; [exact Mo|]. congruence.
    + split; [apply Inv_add_cancel; exact R|]. split; [eapply mono_trans; [exact Mo|apply mono_add_cancel]|]. congruence.
    + split; [apply Inv_add_err; exact R|]. split; [eapply mono_trans; [exact Mo|apply mono_add_err]|]. congruence.
Qed.

(* ================= gateway write (Put) ================= *)

Lemma odw_ok s deleted : Inv s ->
  forall s' r, odw true crc delcrc fire s (doc s) deleted = (s', r) -> Inv s' /\ mono s s'.
Proof.
  intros HI s' r E. unfold odw in E. rewrite N.eqb_refl in E. cbn [negb] in E.
  set (d := doc s) in *.
  assert (Hd : odw_is_delete true d deleted = negb (is_alive d)).
  { unfold odw_is_delete, doc_body_nil, doc_deleted. destruct (is_alive d), (has_sync d); reflexivity. }
  assert (Hr : (if doc_deleted d then None else raw_of d) = raw_of d).
  { unfold doc_deleted, raw_of. destruct (is_alive d), (has_sync d); reflexivity. }
  rewrite Hd, Hr in E.
  destruct (import_run true crc delcrc fire false (negb (is_alive d)) d (raw_of d) s) as [s1 ir] eqn:EI.
  destruct (import_run_ok false _ d _ s HI (Snap_cur crc delcrc s (inv_doc _ _ _ _ _ (proj1 HI))) eq_refl eq_refl _ _ EI)
    as (I1 & M1 & _).
  destruct ir; inversion E; subst; auto.
Qed.

Definition target (b : option N) : dstat * N := match b with Some x => (Alive, x) | None => (Tomb, 0) end.

Definition PutQ (b : option N) (s : state) : Prop :=
  Inv0 s /\ own (doc s) = true /\ bstate (doc s) = target b.

Definition PMemOk (m : list rev) (pv : option prev) (s : state) : Prop := pv = None.

Lemma store_write_put cur p u nc d' b :
  u_tomb u = (match b with None => true | Some _ => false end) -> u_body u = b ->
  store_write crc delcrc cur p u nc = WOk d' ->
  exists cl cur', d' = apply_upd crc delcrc cl cur' (fst (target b)) (snd (target b)) u nc.
Proof.
  intros UT UB SW. unfold store_write in SW. rewrite UT, UB in SW.
  destruct b as [x|]; cbn [target fst snd].
  - destruct (p_tomb p).
    + destruct (d_st cur); try discriminate; inversion SW; eauto.
    + destruct (d_st cur).
      * destruct (d_cas (p_doc p) =? 0); try discriminate; inversion SW; eauto.
      * destruct (d_cas cur =? d_cas (p_doc p)); try discriminate; inversion SW; eauto.
      * discriminate.
  - destruct (d_st cur).
    + destruct (is_alive (p_doc p) || negb (d_cas (p_doc p) =? 0)); try discriminate; inversion SW; eauto.
    + destruct (d_cas cur =? d_cas (p_doc p)); try discriminate; inversion SW; eauto.
    + destruct (is_alive (p_doc p)); try discriminate.
      destruct (d_cas cur =? d_cas (p_doc p)); try discriminate; inversion SW; eauto.
Qed.

Lemma put_cb_ok b : forall m pv s, Inv s -> PMemOk m pv s -> PrevOk s (the_prev pv s) ->
  forall s1 r m', put_cb true crc delcrc fire b m s (the_prev pv s) = (s1, r, m') ->
  Inv s1 /\ mono s s1 /\ PMemOk m' None s1 /\
  (forall u, r = CbWrite u -> WriteSpec crc delcrc ka kb (PutQ b) (the_prev pv s) u).
Proof.
  intros m pv s HI HM HP s1 r m' E. unfold PMemOk in HM. subst pv. cbn [the_prev] in *.
  unfold put_cb in E. cbn [p_doc] in E. set (d := doc s) in *.
  set (deleted := match b with None => true | Some _ => false end) in *.
  assert (Step1 : exists s0 early, (if doc_is_sg_write crc delcrc d None then (s, None)
                       else odw true crc delcrc fire s d deleted) = (s0, early) /\ Inv s0 /\ mono s s0).
  { destruct (doc_is_sg_write crc delcrc d None).
    - exists s, None. split; [reflexivity|]. split; [exact HI|apply mono_refl].
    - destruct (odw true crc delcrc fire s d deleted) as [s0 early] eqn:EO.
      exists s0, early. split; auto. eapply odw_ok; eauto. }
  destruct Step1 as (s0 & early & E1 & I0 & M0). rewrite E1 in E.
  destruct early as [r0|].
  { inversion E; subst. split; [exact I0|]. split; [exact M0|]. split; [reflexivity|]. intros u Eu.
    (* odw only ever returns CbRetry or CbErr *)
    exfalso. clear - E1 Eu. destruct (doc_is_sg_write crc delcrc d None); [discriminate|].
    unfold odw in E1. destruct (negb (d_cas (doc s) =? d_cas d)); [inversion E1; subst; discriminate|].
    destruct (import_run true crc delcrc fire false _ d _ s) as [sx ir]. destruct ir; inversion E1; subst; discriminate. }
  set (parent := match m with
        | [] => match cur_rev d with Some r => if r_del r then Some (r_gen r) else None | None => Some 0 end
        | m0 :: _ => if list_eqb rev_eqb (hist_of d) m then Some (r_gen m0) else None end) in *.
  assert (Hpar : forall pg, parent = Some pg -> pg = cur_gen d).
  { intros pg. subst parent. unfold cur_gen. destruct m as [|m0 mt].
    - destruct (cur_rev d) as [r0|]; [destruct (r_del r0)|]; intros X; inversion X; reflexivity.
    - destruct (list_eqb rev_eqb (hist_of d) (m0 :: mt)) eqn:L; intros X; inversion X; subst.
      apply (list_eqb_eq rev_eqb rev_eqb_eq) in L. unfold cur_rev. rewrite L. reflexivity. }
  destruct parent as [pg|] eqn:EP.
  2:{ inversion E; subst. split; [exact I0|]. split; [exact M0|]. split; [reflexivity|]. intros; discriminate. }
  specialize (Hpar pg eq_refl). subst pg.
  destruct (match d_vv d with Some v => hlv_add v local_src (d_cas d) | None => Some (mkVV local_src (d_cas d) 0 [] []) end)
    as [vv'|] eqn:EH.
  2:{ inversion E; subst. split; [apply Inv_set_nseq; exact I0|].
      split; [eapply mono_trans; [exact M0|apply mono_set_nseq]|]. split; [reflexivity|]. intros; discriminate. }
  inversion E; subst s1 r m'; clear E.
  split; [apply Inv_set_nseq; exact I0|]. split; [eapply mono_trans; [exact M0|apply mono_set_nseq]|].
  split; [reflexivity|].
  intros u Eu s2 d' I2 P2 SW. inversion Eu; subst u; clear Eu.
  assert (Dd : DocInv (clk s2) d) by apply P2.
  match type of SW with store_write _ _ _ _ ?uu _ = _ => set (u := uu) in * end.
  assert (Hh : s_hist (u_sync u) = R (N.succ (cur_gen d)) (cur_gen d) deleted
                                      (match b with Some x => x | None => 0 end) :: hist_of d) by reflexivity.
  apply (store_write_put _ _ _ _ _ b) in SW; [|reflexivity|reflexivity].
  destruct SW as (cl & cur' & Ed').
  assert (DO : DocInv (N.succ (clk s2)) d' /\ own d' = true).
  { subst d'. apply apply_upd_DocInv; try lia.
    - destruct b; cbn; congruence.
    - reflexivity.
    - subst u. cbn. eexists _, _. split; [reflexivity|].
      assert (Hl : hlv_local_lt vv' (N.succ (clk s2)) /\ v_ver vv' = d_cas d /\ v_src vv' = local_src).
      { pose proof (di_cas _ _ _ _ Dd) as Cd. destruct (d_vv d) as [v|] eqn:Ev.
        - split; [eapply (hlv_add_local_lt v (d_cas d) (d_cas d)); [eapply di_hlv; eauto| | |exact EH]; lia|].
          unfold hlv_add in EH. destruct (match hlv_get v local_src with Some x => _ | None => false end); [discriminate|].
          destruct (local_src =? v_src v); inversion EH; subst; auto.
        - inversion EH; subst vv'. split; [|split; reflexivity].
          split; [cbn; intros _; lia|split; reflexivity]. }
      destruct Hl as (Hl & Hv & Hs). auto.
    - rewrite Hh, cur_gen_hist. apply chain_cons. eapply hist_chain; eauto.
    - rewrite Hh. eexists _, _. split; [reflexivity|]. unfold ImportInv.rev_crc. subst deleted. destruct b; reflexivity. }
  destruct DO as [Dd' Od'].
  split; [|split; [exact Od'|]].
  - apply commit_Inv0; auto.
    + apply I2.
    + subst d'. reflexivity.
    + rewrite pend_own by auto. lia.
  - cbn [doc set_doc]. subst d'. rewrite bstate_apply_upd. destruct b; reflexivity.
Qed.

Lemma PMemOk_mono m s s' : PMemOk m None s -> mono s s' -> PMemOk m None s'.
Proof. auto. Qed.

Lemma Inv_set_wb s w : Inv0 s -> w = bstate (doc s) -> Inv (set_wb s w).
Proof. intros [D F C] ->. split; [constructor|]; auto. Qed.

Lemma mono_set_wb s w : mono s (set_wb s w).
Proof. repeat split; cbn; auto; lia. Qed.

Lemma gw_put_ok b s : Inv s ->
  forall s' r, gw_put true crc delcrc fire b s = (s', r) ->
  Inv s' /\ mono s s' /\ (r = ROk -> own (doc s') = true /\ bstate (doc s') = target b).
Proof.
  intros HI s' r E. unfold gw_put in E.
  destruct (upd_loop crc delcrc fire 6 (put_cb true crc delcrc fire b) (client_rev (doc s)) None s) as [s1 lr] eqn:EL.
  eapply (upd_loop_ok crc delcrc ka kb fire fire_ok _ _ PMemOk (PutQ b) PMemOk_mono (put_cb_ok b)) in EL;
    [| exact HI | reflexivity | intros p Ep; discriminate].
  destruct EL as [Mo R]. destruct lr as [|e].
  - destruct R as (I0 & O1 & B1). inversion E; subst s' r; clear E.
    split; [apply Inv_set_wb; auto|]. split; [eapply mono_trans; [exact Mo|apply mono_set_wb]|].
    intros _. cbn. auto.
  - inversion E; subst s' r; clear E. split; [exact R|]. split; [exact Mo|].
    destruct e; cbn; discriminate.
Qed.

(* ================= metadata-only rewrite (resync) ================= *)

(* a write that keeps the xattrs (an SDK write, or the resync rewrite) under a fresh CAS *)
Lemma keep_DocInv c d st' b' nc sy' :
  DocInv c d -> c < nc -> st' <> Absent -> (st' <> Alive -> b' = 0) ->
  match d_sync d, sy' with
  | Some sy, Some sy2 => s_cas sy2 = s_cas sy /\ s_crc sy2 = s_crc sy /\ s_cv sy2 = s_cv sy /\ s_hist sy2 = s_hist sy /\
                         s_cvsrc sy2 = s_cvsrc sy
  | None, None => True
  | _, _ => False
  end ->
  forall mou', (d_sync d = None -> mou' = None) ->
  DocInv nc (mkDoc st' b' nc sy' (d_vv d) mou').
Proof.
  intros D L NA B0 Hs mou' Hm. pose proof (di_cas _ _ _ _ D) as Cd. constructor; cbn.
  - lia.
  - congruence.
  - intros _. lia.
  - exact B0.
  - intros E. subst sy'. destruct (d_sync d) as [sy|] eqn:Es; [contradiction|].
    split; [apply (di_nosync _ _ _ _ D Es) | auto].
  - intros sy2 E. subst sy'. destruct (d_sync d) as [sy|] eqn:Es; [|contradiction].
    destruct Hs as (H1 & H2 & H3 & H4 & H5).
    destruct (di_sync _ _ _ _ D _ Es) as (A1 & (v & Ev & Hv & Hsr) & A3 & (r & t & Eh & Hc) & A5).
    rewrite H1, H2, H3, H4, H5. split; [lia|]. split; [eauto|]. split; [auto|]. split; [eauto|]. intros X. lia.
  - intros v Ev. eapply hlv_local_lt_mono; [|eapply di_hlv; eauto]. lia.
Qed.

Lemma keep_pend c d st' nc sy' mou' :
  DocInv c d -> DocInv nc (mkDoc st' (d_body d) nc sy' (d_vv d) mou') -> st' = d_st d ->
  match d_sync d, sy' with
  | Some sy, Some sy2 => s_crc sy2 = s_crc sy
  | None, None => True
  | _, _ => False
  end ->
  pend (mkDoc st' (d_body d) nc sy' (d_vv d) mou') <= pend d.
Proof.
  intros D D' -> Hs. unfold ImportInv.pend, ImportInv.importable.
  assert (A : is_alive (mkDoc (d_st d) (d_body d) nc sy' (d_vv d) mou') = is_alive d) by reflexivity.
  rewrite A.
  destruct (d_sync d) as [sy|] eqn:Es; destruct sy' as [sy2|]; try contradiction.
  - rewrite (own_crc crc delcrc _ _ sy2 D') by reflexivity.
    rewrite (own_crc crc delcrc _ _ sy D) by auto.
    assert (Bc : body_crc (mkDoc (d_st d) (d_body d) nc (Some sy2) (d_vv d) mou') = body_crc d) by reflexivity.
    rewrite Bc, Hs. unfold has_sync. cbn. rewrite Es. destruct (is_alive d || true), (body_crc d =? s_crc sy); cbn; lia.
  - unfold ImportInv.own, has_sync. cbn. rewrite Es. cbn. destruct (is_alive d); cbn; lia.
Qed.

Definition TMemOk (m : unit) (pv : option prev) (s : state) : Prop := True.

Lemma meta_cb_ok : forall m pv s, Inv s -> TMemOk m pv s -> PrevOk s (the_prev pv s) ->
  forall s1 r m', meta_cb m s (the_prev pv s) = (s1, r, m') ->
  Inv s1 /\ mono s s1 /\ TMemOk m' None s1 /\
  (forall u, r = CbWrite u -> WriteSpec crc delcrc ka kb Inv (the_prev pv s) u).
Proof.
  intros m pv s HI _ HP s1 r m' E. set (p := the_prev pv s) in *. set (d := p_doc p) in *.
  unfold meta_cb in E. fold d in E.
  destruct (is_alive d) eqn:A; cbn [negb] in E;
    [|inversion E; subst; split; [exact HI|split; [apply mono_refl|split; [exact I|intros; discriminate]]]].
  destruct (d_sync d) as [sy|] eqn:Es;
    [|inversion E; subst; split; [exact HI|split; [apply mono_refl|split; [exact I|intros; discriminate]]]].
  inversion E; subst s1 r m'; clear E.
  split; [apply Inv_set_nseq; exact HI|]. split; [apply mono_set_nseq|]. split; [exact I|].
  intros u Eu s2 d' I2 P2 SW. inversion Eu; subst u; clear Eu.
  assert (Dd : DocInv (clk s2) d) by apply P2.
  assert (St : d_st d = Alive) by (apply is_alive_true; auto).
  assert (NZ : d_cas d <> 0).
  { pose proof (di_pos _ _ _ _ Dd). rewrite St in H. assert (0 < d_cas d) by (apply H; congruence). lia. }
  match type of SW with store_write _ _ _ _ ?uu _ = _ => set (u := uu) in * end.
  destruct (store_write_same_doc s2 p u d' I2 P2) as [Ecur Ed']; auto.
  - fold d. rewrite A. reflexivity.
  - fold d in Ed'. rewrite St in Ed'. clear SW.
    destruct I2 as [[Dc Fc Cc] Wc]. rewrite Ecur in Dc, Cc, Wc. fold d in Dc, Cc, Wc.
    assert (Ed2 : d' = mkDoc Alive (d_body d) (N.succ (clk s2))
                         (Some (mkSync (s_cas sy) (s_crc sy) (s_cv sy) (s_hist sy) (N.succ (nseq s)) false (s_cvsrc sy)))
                         (d_vv d) (Some (mkMou (N.succ (clk s2)) (mou_pcas d)))) by (subst d'; reflexivity).
    assert (Dd' : DocInv (N.succ (clk s2)) d').
    { rewrite Ed2. eapply keep_DocInv; eauto; try lia; try congruence.
      rewrite Es. cbn. auto. }
    assert (Pd : pend d' <= pend d).
    { rewrite Ed2. eapply keep_pend; eauto.
      - rewrite <- Ed2. exact Dd'.
      - rewrite Es. reflexivity. }
    split.
    + apply commit_Inv0; auto.
      * constructor; rewrite ?Ecur; auto.
      * rewrite Ed2. reflexivity.
      * rewrite Ecur. exact Pd.
    + cbn [wb set_doc doc]. rewrite Wc, Ed2. unfold bstate. cbn. rewrite St. reflexivity.
Qed.

Lemma TMemOk_mono m s s' : TMemOk m None s -> mono s s' -> TMemOk m None s'.
Proof. auto. Qed.

Lemma gw_meta_ok s : Inv s -> forall s' r, gw_meta crc delcrc fire s = (s', r) -> Inv s' /\ mono s s'.
Proof.
  intros HI s' r E. unfold gw_meta in E.
  destruct (upd_loop crc delcrc fire 6 meta_cb tt None s) as [s1 lr] eqn:EL.
  eapply (upd_loop_ok crc delcrc ka kb fire fire_ok _ _ TMemOk Inv TMemOk_mono meta_cb_ok) in EL;
    [| exact HI | exact I | intros p Ep; discriminate].
  destruct EL as [Mo R]. inversion E; subst. split; auto. destruct lr; auto.
Qed.

(* ================= read and feed ================= *)

Lemma gw_read_ok s : Inv s -> forall s' r, gw_read true crc delcrc fire s = (s', r) -> Inv s' /\ mono s s'.
Proof.
  intros HI s' r E. unfold gw_read in E.
  destruct (d_st (doc s)) eqn:St; [inversion E; subst; split; auto using mono_refl| |];
  (destruct (is_tomb (doc s) && no_xattrs (doc s)); [inversion E; subst; split; auto using mono_refl|];
   destruct (doc_is_sg_write crc delcrc (doc s) (raw_of (doc s))); [inversion E; subst; split; auto using mono_refl|];
   destruct (import_run true crc delcrc fire false (negb (is_alive (doc s))) (doc s) (raw_of (doc s)) s) as [s1 ir] eqn:EI;
   destruct (import_run_ok false _ (doc s) _ s HI (Snap_cur crc delcrc s (inv_doc _ _ _ _ _ (proj1 HI))) eq_refl eq_refl _ _ EI)
     as (I1 & M1 & _);
   destruct ir; inversion E; subst; auto).
Qed.

Lemma nth_Snap s k : Inv s -> d_st (nth k (evs s) absent_doc) <> Absent -> Snap s (nth k (evs s) absent_doc).
Proof.
  intros HI NA. destruct (Nat.lt_ge_cases k (length (evs s))) as [L|G].
  - pose proof (inv_evs _ _ _ _ _ (proj1 HI)) as F. rewrite Forall_forall in F. apply F. apply nth_In; auto.
  - rewrite nth_overflow in NA by lia. cbn in NA. congruence.
Qed.

(* attachment-metadata migration on the delivery of a gateway-write event: guarded by the event's CAS, so it can
   only rewrite the very document the event describes, which is an own write *)
Lemma migrate_ok ev sy s : Inv s -> Snap s ev -> d_sync ev = Some sy ->
  sd_is_sg_write sy (d_cas ev) (body_crc ev) (d_vv ev) = true ->
  Inv (migrate crc ev sy s) /\ mono s (migrate crc ev sy s) /\
  (migrate crc ev sy s = s \/
   (ev = doc s /\ own (doc s) = true /\ own (doc (migrate crc ev sy s)) = true /\
    hist_of (doc (migrate crc ev sy s)) = hist_of (doc s) /\ bstate (doc (migrate crc ev sy s)) = bstate (doc s))).
Proof.
  intros HI Se Es SG. unfold migrate.
  destruct ((d_cas (doc s) =? d_cas ev) && is_alive (doc s)) eqn:C;
    [|split; [exact HI|split; [apply mono_refl|left; reflexivity]]].
  apply andb_true_iff in C. destruct C as [C A]. apply N.eqb_eq in C.
  assert (Ee : ev = doc s) by (apply (Snap_cas_eq crc delcrc); auto). subst ev.
  set (d := doc s) in *. destruct HI as [[D F Cn] W]. fold d in D, Cn, W.
  assert (O : own d = true) by (unfold ImportInv.own; rewrite Es; exact SG).
  assert (St : d_st d = Alive) by (apply is_alive_true; auto).
  pose proof (own_crc crc delcrc _ _ _ D Es) as OC. rewrite O in OC. symmetry in OC. apply N.eqb_eq in OC.
  unfold Import.body_crc in OC. rewrite A in OC.
  destruct (di_sync _ _ _ _ D _ Es) as (A1 & (v & Ev & Hv) & A3 & (r & t & Eh & Hc) & A5).
  set (d' := mkDoc Alive (d_body d) (N.succ (clk s))
                   (Some (mkSync (N.succ (clk s)) (crc (d_body d)) (s_cv sy) (s_hist sy) (s_seq sy) false (s_cvsrc sy)))
                   (d_vv d) (Some (mkMou (N.succ (clk s)) (s_cas sy)))).
  assert (D' : DocInv (N.succ (clk s)) d').
  { constructor; cbn [d_cas d_st d_body d_sync d_vv d_mou d']; try lia; try congruence.
    - intros sy2 E2. inversion E2; subst sy2; clear E2. cbn.
      split; [lia|]. split; [eauto|]. split; [auto|]. split; [exists r, t; split; auto; congruence|].
      intros _. reflexivity.
    - intros v0 Ev0. eapply hlv_local_lt_mono; [|eapply di_hlv; eauto]. pose proof (di_cas _ _ _ _ D). lia. }
  assert (O' : own d' = true).
  { unfold ImportInv.own, sd_is_sg_write. cbn. rewrite N.eqb_refl. reflexivity. }
  split; [|split].
  - split.
    + apply commit_Inv0; [constructor; auto | reflexivity | exact D' |].
      rewrite pend_own by auto. lia.
    + cbn [wb set_doc doc]. rewrite W. unfold bstate. cbn. congruence.
  - repeat split; cbn; lia.
  - right. split; auto. split; auto. split; [exact O'|]. split.
    + unfold hist_of. cbn. fold d. rewrite Es. reflexivity.
    + unfold bstate. cbn. fold d. congruence.
Qed.

Lemma gw_feed_ok k s : Inv s -> forall s' r, gw_feed true crc delcrc fire k s = (s', r) -> Inv s' /\ mono s s'.
Proof.
  intros HI s' r E. unfold gw_feed in E.
  set (ev := nth (N.to_nat k) (evs s) absent_doc) in *.
  assert (Triv : forall r0, (s, r0) = (s', r) -> Inv s' /\ mono s s')
    by (intros r0 X; inversion X; subst; split; auto using mono_refl).
  assert (Run : forall isdel, isdel = negb (is_alive ev) -> d_st ev <> Absent ->
     (fst (import_run true crc delcrc fire true isdel ev (raw_of ev) s), ROk) = (s', r) -> Inv s' /\ mono s s').
  { intros isdel Ei NA X.
    destruct (import_run true crc delcrc fire true isdel ev (raw_of ev) s) as [s1 ir] eqn:EI.
    destruct (import_run_ok true isdel ev _ s HI (nth_Snap s _ HI NA) eq_refl Ei _ _ EI) as (I1 & M1 & _).
    inversion X; subst; auto. }
  destruct (d_st ev) eqn:St; [eapply Triv; eauto| |].
  - (* alive *)
    assert (T : is_tomb ev = false) by (unfold is_tomb; rewrite St; reflexivity).
    assert (A : negb (is_alive ev) = false) by (unfold is_alive; rewrite St; reflexivity).
    rewrite T in E. cbn [andb] in E.
    destruct (d_sync ev) as [sy|] eqn:Es.
    + destruct (sd_is_sg_write sy (d_cas ev) (body_crc ev) (d_vv ev)) eqn:SG.
      * inversion E; subst s' r. destruct (s_att sy); [|split; auto using mono_refl].
        destruct (migrate_ok ev sy s HI) as (A1 & A2 & _); auto.
        apply nth_Snap; auto. fold ev. rewrite St. discriminate.
      * eapply (Run false); eauto; congruence.
    + eapply (Run false); eauto; congruence.
  - (* tombstone *)
    assert (T : is_tomb ev = true) by (unfold is_tomb; rewrite St; reflexivity).
    assert (A : negb (is_alive ev) = true) by (unfold is_alive; rewrite St; reflexivity).
    rewrite T in E. cbn [andb] in E.
    destruct (no_xattrs ev); [eapply Triv; eauto|].
    destruct (d_sync ev) as [sy|] eqn:Es; [|eapply Triv; eauto].
    destruct (sd_is_sg_write sy (d_cas ev) (body_crc ev) (d_vv ev)) eqn:SG.
    + inversion E; subst s' r. destruct (s_att sy); [|split; auto using mono_refl].
      destruct (migrate_ok ev sy s HI) as (A1 & A2 & _); auto.
      apply nth_Snap; auto. fold ev. rewrite St. discriminate.
    + eapply (Run true); eauto; congruence.
Qed.

(* ================= external operations ================= *)

Lemma ext_set_ok s b : Inv s -> Inv (ext_set s b) /\ mono s (ext_set s b).
Proof.
  intros [[D F C] W]. unfold ext_set. split.
  - set (nc := N.succ (clk s)).
    assert (D' : DocInv nc (match d_st (doc s) with
                            | Alive => mkDoc Alive b nc (d_sync (doc s)) (d_vv (doc s)) (d_mou (doc s))
                            | _ => mkDoc Alive b nc None None None end)).
    { assert (Cl : DocInv nc (mkDoc Alive b nc None None None)).
      { constructor; cbn; try lia; try congruence; auto. }
      destruct (d_st (doc s)) eqn:St; auto.
      eapply keep_DocInv; eauto; try congruence.
      - subst nc; lia.
      - destruct (d_sync (doc s)); auto.
      - intros E. apply (di_nosync _ _ _ _ D E). }
    split; [constructor|]; cbn.
    + exact D'.
    + eapply Forall_impl; [|exact F]. intros e [De Oe]. split; cbn.
      * eapply DocInv_le; eauto. lia.
      * right. pose proof (di_cas _ _ _ _ De).
        destruct (d_st (doc s)); cbn; lia.
    + match goal with |- _ + pend ?d + _ <= _ => pose proof (pend_le1 d) end. lia.
    + destruct (d_st (doc s)); reflexivity.
  - repeat split; cbn; try lia. right. destruct (d_st (doc s)); cbn; lia.
Qed.

Lemma ext_del_ok s : Inv s -> forall s' r, ext_del s = (s', r) -> Inv s' /\ mono s s'.
Proof.
  intros HI s' r E. unfold ext_del in E.
  set (d' := mkDoc Tomb 0 (N.succ (clk s)) (d_sync (doc s)) (d_vv (doc s)) (d_mou (doc s))) in *.
  assert (Go : d_st (doc s) <> Absent ->
    Inv (set_wb (add_ext (set_doc s d')) (Tomb, 0)) /\ mono s (set_wb (add_ext (set_doc s d')) (Tomb, 0))).
  { intros NA. destruct HI as [[D F C] W].
    assert (Mo : mono s (set_wb (add_ext (set_doc s d')) (Tomb, 0))) by (repeat split; cbn; lia).
    split; [|exact Mo].
    assert (D' : DocInv (N.succ (clk s)) d').
    { eapply keep_DocInv; eauto; try congruence; try lia;
       [destruct (d_sync (doc s)); auto | intros X; apply (di_nosync _ _ _ _ D X)]. }
    split; [constructor|]; cbn.
    - exact D'.
    - eapply Forall_impl; [|exact F]. intros e Se. eapply Snap_mono; [exact Se|exact Mo].
    - pose proof (pend_le1 d'). lia.
    - reflexivity. }
  destruct (d_st (doc s)) eqn:St.
  - inversion E; subst; split; auto using mono_refl.
  - inversion E; subst. apply Go. congruence.
  - inversion E; subst. apply Go. congruence.
Qed.

Lemma ext_touch_ok s : Inv s -> forall s' r, ext_touch s = (s', r) -> Inv s' /\ mono s s'.
Proof.
  intros HI s' r E. unfold ext_touch in E.
  destruct (d_st (doc s)) eqn:St; try (inversion E; subst; split; auto using mono_refl; fail).
  destruct HI as [[D F C] W]. inversion E; subst s' r; clear E.
  set (d' := mkDoc Alive (d_body (doc s)) (N.succ (clk s)) (d_sync (doc s)) (d_vv (doc s)) (d_mou (doc s))).
  assert (D' : DocInv (N.succ (clk s)) d').
  { eapply keep_DocInv; eauto; try congruence; try lia.
    - destruct (d_sync (doc s)); auto.
    - intros X; apply (di_nosync _ _ _ _ D X). }
  assert (P : pend d' <= pend (doc s)).
  { eapply keep_pend; eauto. destruct (d_sync (doc s)); auto. }
  split.
  - split.
    + apply commit_Inv0; [constructor; auto | reflexivity | exact D' | exact P].
    + cbn [wb set_doc doc]. rewrite W. unfold bstate. subst d'. cbn. congruence.
  - subst d'. repeat split; cbn; lia.
Qed.

Lemma legacy_write_ok s b : Inv s -> forall s' r, legacy_write crc s b = (s', r) -> Inv s' /\ mono s s'.
Proof.
  intros HI s' r E. unfold legacy_write in E.
  destruct (d_st (doc s)) eqn:St; try (inversion E; subst; split; auto using mono_refl; fail).
  inversion E; subst s' r; clear E.
  set (nc := N.succ (clk s)). set (seq := N.succ (nseq s)).
  set (d' := mkDoc Alive b nc (Some (mkSync nc (crc b) 0 [R 1 0 false b] seq true local_src))
                   (Some (mkVV local_src 0 nc [] [])) None).
  assert (D' : DocInv nc d').
  { constructor; cbn [d_cas d_st d_body d_sync d_vv d_mou d']; try lia; try congruence.
    - intros sy2 E2. inversion E2; subst sy2; clear E2. cbn.
      split; [lia|]. split; [eauto|]. split; [auto|]. split; [eexists _, _; split; reflexivity|].
      intros _. reflexivity.
    - intros v0 Ev0. inversion Ev0; subst v0. split; [cbn; intros _; subst nc; lia|split; reflexivity]. }
  assert (O' : own d' = true).
  { unfold ImportInv.own, sd_is_sg_write. cbn. rewrite N.eqb_refl. reflexivity. }
  split.
  - apply Inv_set_wb; [|reflexivity].
    apply (commit_Inv0 (set_nseq s seq) d'); auto.
    + apply (Inv_set_nseq s seq HI).
    + rewrite pend_own by auto. lia.
  - repeat split; cbn; lia.
Qed.

Lemma foreign_write_ok s b h : Inv s -> forall s' r, foreign_write crc s b h = (s', r) -> Inv s' /\ mono s s'.
Proof.
  intros HI s' r E. unfold foreign_write in E.
  destruct (d_st (doc s)) eqn:St; try (inversion E; subst; split; auto using mono_refl; fail).
  destruct (foreign_ok h (N.succ (clk s))) eqn:FO; [|inversion E; subst; split; auto using mono_refl].
  inversion E; subst s' r; clear E.
  set (nc := N.succ (clk s)) in *. set (seq := N.succ (nseq s)).
  set (d' := mkDoc Alive b nc (Some (mkSync nc (crc b) (v_ver h) [R 1 0 false b] seq false (v_src h)))
                   (Some (set_cvcas nc h)) None).
  unfold foreign_ok in FO. apply andb_true_iff in FO. destruct FO as [FO F3].
  apply andb_true_iff in FO. destruct FO as [F1 F2]. apply negb_true_iff, N.eqb_neq in F1.
  assert (D' : DocInv nc d').
  { constructor; cbn [d_cas d_st d_body d_sync d_vv d_mou d']; try lia; try congruence.
    - intros sy2 E2. inversion E2; subst sy2; clear E2. cbn.
      split; [lia|]. split; [eauto|]. split; [auto|]. split; [eexists _, _; split; reflexivity|].
      intros _. reflexivity.
    - intros v0 Ev0. inversion Ev0; subst v0. split; [cbn; intros X; congruence|split; assumption]. }
  assert (O' : own d' = true).
  { unfold ImportInv.own, sd_is_sg_write. cbn. rewrite N.eqb_refl. reflexivity. }
  split.
  - apply Inv_set_wb; [|reflexivity].
    apply (commit_Inv0 (set_nseq s seq) d'); auto.
    + apply (Inv_set_nseq s seq HI).
    + rewrite pend_own by auto. lia.
  - repeat split; cbn; lia.
Qed.

Lemma simple_step_ok o s : Inv s ->
  forall s' r, simple_step true crc delcrc fire o s = (s', r) -> Inv s' /\ mono s s'.
Proof.
  intros HI s' r E. destruct o; cbn [simple_step] in E.
  - inversion E; subst. apply ext_set_ok; auto.
  - eapply ext_del_ok; eauto.
  - eapply ext_touch_ok; eauto.
  - eapply legacy_write_ok; eauto.
  - eapply foreign_write_ok; eauto.
  - destruct (gw_put_ok (Some b) s HI _ _ E) as (A & B & _). auto.
  - destruct (gw_put_ok None s HI _ _ E) as (A & B & _). auto.
  - eapply gw_meta_ok; eauto.
  - eapply gw_read_ok; eauto.
  - eapply gw_feed_ok; eauto.
  - inversion E; subst. split; auto using mono_refl.
Qed.

End Procs.
