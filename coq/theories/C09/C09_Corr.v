(* C09 correspondence: the op lists executed on a real collection by harness/db/verif_c09_test.go, together
   with the projected observation after every op, are re-run here on the model (vm_compute).
   crc32c is instantiated with an injective function on body ids (the harness checks that the real crc32c
   values of the bodies it uses are pairwise distinct and differ from DeleteCrc32c). *)
From SG Require Export Base.Prelude Base.Bytes C09.Import.
Open Scope N_scope.

Definition ccrc (b : N) : N := N.succ b.
Definition cdel : N := 0.

(* observation after an op; field order = harness c09Obs.coq() *)
Record obs := O {
  o_st : N; o_body : N; o_hassync : bool; o_cur : N; o_hist : list rev;
  o_fcas : bool; o_fcrc : bool; o_hasvv : bool; o_fcv : bool; o_fcvcas : bool;
  o_hasmou : bool; o_fmou : bool; o_fpcas : bool;
  o_vfull : N; o_vdoc : N; o_vxattr : N; o_res : N; o_sequp : bool; o_imports : N; o_fired : bool; o_att : bool;
  (* deepening: _vv current version (source id; the hand-made version constant when the source is foreign, else 0),
     merge / previous versions (source id, version constant), _sync.rev.src agrees with _vv.src, and the deltas of
     ImportCancelCAS / ImportErrorCount during the op.  (The VALUE of a version of the gateway's own source is an HLC
     reading or a CAS: its relation to CAS values -- version of an imported mutation = its CAS -- is checked on the real
     values by the harness monitor import_hlv_dominates_previous, cvCas / _mou.pCas through o_fcvcas / o_fpcas.) *)
  o_cvsrc : N; o_cvk : N; o_mv : alist; o_pv : alist; o_fsrc : bool; o_cancel : N; o_errs : N }.

Inductive case := C (ops : list op) (observed : list obs).

Definition alist_sub (a b : alist) : bool :=
  forallb (fun p => match aget b (fst p) with Some x => x =? snd p | None => false end) a.
Definition amap_eqb (a b : alist) : bool :=
  (N.of_nat (length a) =? N.of_nat (length b)) && alist_sub a b && alist_sub b a.

Definition obs_eqb (a b : obs) : bool :=
  (o_cvsrc a =? o_cvsrc b) && (o_cvk a =? o_cvk b) &&
  amap_eqb (o_mv a) (o_mv b) && amap_eqb (o_pv a) (o_pv b) && Bool.eqb (o_fsrc a) (o_fsrc b) &&
  (o_cancel a =? o_cancel b) && (o_errs a =? o_errs b) &&
  (o_st a =? o_st b) && (o_body a =? o_body b) && Bool.eqb (o_hassync a) (o_hassync b) && (o_cur a =? o_cur b) &&
  list_eqb rev_eqb (o_hist a) (o_hist b) &&
  Bool.eqb (o_fcas a) (o_fcas b) && Bool.eqb (o_fcrc a) (o_fcrc b) && Bool.eqb (o_hasvv a) (o_hasvv b) &&
  Bool.eqb (o_fcv a) (o_fcv b) && Bool.eqb (o_fcvcas a) (o_fcvcas b) && Bool.eqb (o_hasmou a) (o_hasmou b) &&
  Bool.eqb (o_fmou a) (o_fmou b) && Bool.eqb (o_fpcas a) (o_fpcas b) &&
  (o_vfull a =? o_vfull b) && (o_vdoc a =? o_vdoc b) && (o_vxattr a =? o_vxattr b) && (o_res a =? o_res b) &&
  Bool.eqb (o_sequp a) (o_sequp b) && (o_imports a =? o_imports b) && Bool.eqb (o_fired a) (o_fired b) && Bool.eqb (o_att a) (o_att b).

Definition res_code (r : res) : N :=
  match r with ROk => 0 | RConflict => 1 | RNotFound => 2 | RIgnored => 3 | ROther => 9 end.
Definition b2n (b : bool) : N := if b then 1 else 0.

(* projection of the model state, mirroring c09Env.observe *)
Definition project (lastseq : N) (s : state) (r : res) (imp0 can0 err0 : N) (fired : bool) : obs * N :=
  let d := doc s in
  let cvsrc := match d_vv d with Some v => v_src v | None => 99 end in
  let cvk := match d_vv d with Some v => if v_src v =? local_src then 0 else v_ver v | None => 0 end in
  let mv := match d_vv d with Some v => v_mv v | None => [] end in
  let pv := match d_vv d with Some v => v_pv v | None => [] end in
  let dc := cancels s - can0 in
  let de := imperrs s - err0 in
  let st := match d_st d with Absent => 0 | Alive => 1 | Tomb => 2 end in
  match d_st d with
  | Absent => (O 0 0 false 0 [] false false false false false false false false 2 2 3 (res_code r) false (imports s - imp0) fired false
                 99 0 [] [] false dc de, lastseq)
  | _ =>
    let body := if is_alive d then d_body d else 0 in
    let hasvv := match d_vv d with Some _ => true | None => false end in
    let hasmou := match d_mou d with Some _ => true | None => false end in
    let fcvcas := match d_vv d with Some v => v_cvcas v =? d_cas d | None => false end in
    let fmou := match d_mou d with Some m => m_cas m =? d_cas d | None => false end in
    let fpcas := match d_mou d, d_vv d with Some m, Some v => m_pcas m =? v_cvcas v | _, _ => false end in
    match d_sync d with
    | None =>
        (O st body false 0 [] false false hasvv false fcvcas hasmou fmou fpcas 2 2 3 (res_code r) false (imports s - imp0) fired false
           cvsrc cvk mv pv false dc de, lastseq)
    | Some sy =>
        let fcv := match d_vv d with Some v => v_ver v =? s_cv sy | None => false end in
        let fsrc := match d_vv d with Some v => v_src v =? s_cvsrc sy | None => false end in
        (O st body true (cur_gen d) (s_hist sy)
           (d_cas d =? s_cas sy) (body_crc ccrc cdel d =? s_crc sy) hasvv fcv fcvcas hasmou fmou fpcas
           (b2n (sd_is_sg_write sy (d_cas d) (body_crc ccrc cdel d) (d_vv d)))
           (b2n (doc_is_sg_write ccrc cdel d None))
           (sd_xattr_only cdel sy (d_cas d) (is_tomb d) (d_vv d))
           (res_code r) (negb (s_seq sy =? lastseq)) (imports s - imp0) fired (s_att sy)
           cvsrc cvk mv pv fsrc dc de, s_seq sy)
    end
  end.

Fixpoint trace (s : state) (lastseq : N) (ops : list op) : list obs :=
  match ops with
  | [] => []
  | o :: rest =>
      let '(s', r, fired) := step code_fixed ccrc cdel s o in
      let '(ob, ls) := project lastseq s' r (imports s) (cancels s) (imperrs s) fired in
      ob :: trace s' ls rest
  end.

Definition check (c : case) : bool :=
  match c with C ops observed => list_eqb obs_eqb (trace init 0 ops) observed end.

Definition mismatches (cs : list case) : list N := failing check cs.
