(* C09 -- External writes are imported exactly once; the gateway's own writes never are.
   Nothing but the property theorems (each closed by [exact] of a lemma of ImportThms.v) and a non-vacuity example.

   [run code_fixed crc delcrc init ops] is the state of the model after the operations [ops] (external SDK
   set / delete / xattr touch, gateway write / delete / metadata-only rewrite / read, delivery of any recorded
   feed event, and races [Race g n x]: gateway operation g with operation x executed between its n-th read and
   its CAS write).  [crc] (crc32c of a body) and [delcrc] are universally quantified; the two theorems about
   bodies assume that crc distinguishes the bodies involved.  [code_fixed = true]: the repaired
   OnDemandImportForWrite / importDoc (see C09_Refuted.v for the code as found). *)
From SG Require Import Base.Prelude C09.Import C09.ImportInv C09.ImportProcs C09.ImportChar C09.ImportThms
  C09.ImportHLV C09.ImportDeep.
Open Scope N_scope.

Definition reach crc delcrc (ops : list op) : state := run code_fixed crc delcrc init ops.
Definition after crc delcrc (s : state) (o : op) : state := fst (fst (step code_fixed crc delcrc s o)).

(* 1. own writes are recognised by every variant of the detection (SyncData.IsSGWrite, Document.IsSGWrite with and
      without raw body, IsSGWriteXattrOnly never answers "not a gateway write") ... *)
Theorem C09_gateway_write_is_recognised : forall crc delcrc ops b s' f,
  step code_fixed crc delcrc (reach crc delcrc ops) (match b with Some x => GwWrite x | None => GwDelete end) = (s', ROk, f) ->
  variants_own crc delcrc (doc s') /\ bstate (doc s') = target b.
Proof. intros crc delcrc ops b s' f. apply gateway_write_recognised. apply reach_Inv. Qed.
Print Assumptions C09_gateway_write_is_recognised.

(* ... and a document recognised as an own write is not imported by a read or by the delivery of ANY recorded
   feed event (current, stale, redelivered): no import, no revision, body and liveness untouched, still an own write
   (the only thing such a delivery may do is migrate attachment metadata out of _sync) *)
Theorem C09_own_write_never_imported : forall crc delcrc ops o,
  is_import_op o = true -> own crc delcrc (doc (reach crc delcrc ops)) = true ->
  imports (after crc delcrc (reach crc delcrc ops) o) = imports (reach crc delcrc ops) /\
  hist_of (doc (after crc delcrc (reach crc delcrc ops) o)) = hist_of (doc (reach crc delcrc ops)) /\
  bstate (doc (after crc delcrc (reach crc delcrc ops) o)) = bstate (doc (reach crc delcrc ops)) /\
  own crc delcrc (doc (after crc delcrc (reach crc delcrc ops) o)) = true.
Proof. intros crc delcrc ops o. apply own_write_never_imported. apply reach_Inv. Qed.
Print Assumptions C09_own_write_never_imported.

(* a pending external write is never hidden by a feed delivery: whatever recorded event is delivered -- in particular
   a DELAYED gateway-write event that makes the import listener migrate attachment metadata (a metadata-only rewrite
   guarded by the event's CAS) -- the delivery either imports the external write or leaves the document untouched *)
Theorem C09_feed_never_hides_external_write : forall crc delcrc ops k,
  importable crc delcrc (doc (reach crc delcrc ops)) = true ->
  (imports (after crc delcrc (reach crc delcrc ops) (Feed k)) = N.succ (imports (reach crc delcrc ops)) /\
   own crc delcrc (doc (after crc delcrc (reach crc delcrc ops) (Feed k))) = true) \/
  (doc (after crc delcrc (reach crc delcrc ops) (Feed k)) = doc (reach crc delcrc ops) /\
   imports (after crc delcrc (reach crc delcrc ops) (Feed k)) = imports (reach crc delcrc ops)).
Proof. intros crc delcrc ops k. apply feed_never_hides_external_write. apply reach_Inv. Qed.
Print Assumptions C09_feed_never_hides_external_write.

(* 2. no import loop: once nothing is pending, NO sequence of gateway operations -- writes (accepted or rejected),
      metadata-only rewrites, reads, feed deliveries in any order and multiplicity, races among them, external
      touches of unrelated xattrs -- causes an import *)
Theorem C09_no_import_without_external_write : forall crc delcrc ops l,
  forallb no_ext_write l = true ->
  importable crc delcrc (doc (reach crc delcrc ops)) = false ->
  imports (run code_fixed crc delcrc (reach crc delcrc ops) l) = imports (reach crc delcrc ops) /\
  importable crc delcrc (doc (run code_fixed crc delcrc (reach crc delcrc ops) l)) = false.
Proof. intros crc delcrc ops l Q NI. apply quiet_run; auto. apply reach_Inv. Qed.
Print Assumptions C09_no_import_without_external_write.

(* over ALL histories (races included) there are never more imports than external body writes *)
Theorem C09_imports_bounded_by_external_writes : forall crc delcrc ops,
  imports (reach crc delcrc ops) <= count_ext ops.
Proof. exact imports_bounded. Qed.
Print Assumptions C09_imports_bounded_by_external_writes.

(* 3. import is idempotent: after a read, and after any read / feed delivery that imported, no further gateway
      activity imports again *)
Theorem C09_import_idempotent_after_read : forall crc delcrc ops l,
  forallb no_ext_write l = true ->
  imports (run code_fixed crc delcrc (after crc delcrc (reach crc delcrc ops) Read) l) =
  imports (after crc delcrc (reach crc delcrc ops) Read).
Proof. intros crc delcrc ops l. apply import_idempotent_read. apply reach_Inv. Qed.
Print Assumptions C09_import_idempotent_after_read.

Theorem C09_import_idempotent : forall crc delcrc ops o l,
  is_import_op o = true ->
  imports (after crc delcrc (reach crc delcrc ops) o) <> imports (reach crc delcrc ops) ->
  forallb no_ext_write l = true ->
  imports (run code_fixed crc delcrc (after crc delcrc (reach crc delcrc ops) o) l) =
  imports (after crc delcrc (reach crc delcrc ops) o).
Proof. intros crc delcrc ops o l. apply import_idempotent. apply reach_Inv. Qed.
Print Assumptions C09_import_idempotent.

(* a race between the feed import and the on-demand import (either order, any hook position, any event) imports
   at most once *)
Theorem C09_import_race_once : forall crc delcrc ops g n x,
  is_import_op g = true -> is_import_op x = true ->
  imports (after crc delcrc (reach crc delcrc ops) (Race g n x)) <= imports (reach crc delcrc ops) + 1.
Proof. intros crc delcrc ops g n x. apply import_race_once. apply reach_Inv. Qed.
Print Assumptions C09_import_race_once.

(* 4. the imported revision: child of the previous current revision, generation + 1, deleted iff the bucket
      document is a tombstone, created for the bucket's body; body and liveness untouched; recognised afterwards *)
Theorem C09_import_parent_generation : forall crc delcrc ops o,
  is_import_op o = true ->
  imports (after crc delcrc (reach crc delcrc ops) o) <> imports (reach crc delcrc ops) ->
  importable crc delcrc (doc (reach crc delcrc ops)) = true /\
  imports (after crc delcrc (reach crc delcrc ops) o) = N.succ (imports (reach crc delcrc ops)) /\
  import_shape crc delcrc (doc (reach crc delcrc ops)) (doc (after crc delcrc (reach crc delcrc ops) o)).
Proof. intros crc delcrc ops o. apply import_revision_shape. apply reach_Inv. Qed.
Print Assumptions C09_import_parent_generation.

Theorem C09_history_is_chain : forall crc delcrc ops, chain (hist_of (doc (reach crc delcrc ops))).
Proof. exact history_chain. Qed.
Print Assumptions C09_history_is_chain.

(* 5. after a read through the gateway the current revision is a revision for the bucket's body (or a tombstone
      revision for an externally deleted document), under the hypothesis that crc32c distinguishes the bodies *)
Theorem C09_read_shows_bucket_body : forall crc delcrc,
  (forall a b, crc a = crc b -> a = b) -> (forall a, crc a <> delcrc) ->
  forall ops s' r f,
  step code_fixed crc delcrc (reach crc delcrc ops) Read = (s', r, f) ->
  (is_alive (doc (reach crc delcrc ops)) = true \/
   (d_st (doc (reach crc delcrc ops)) = Tomb /\ has_sync (doc (reach crc delcrc ops)) = true)) ->
  r = ROk /\ bstate (doc s') = bstate (doc (reach crc delcrc ops)) /\ current_matches_bucket crc delcrc (doc s').
Proof. intros crc delcrc Hi Hd ops s' r f. apply read_shows_bucket_body; auto. apply reach_Inv. Qed.
Print Assumptions C09_read_shows_bucket_body.

(* the body of the latest external write is what the gateway shows, whatever happened before it and whatever
   reads, feed deliveries (current or stale), metadata-only rewrites and xattr touches happen in between *)
Theorem C09_latest_external_body_visible : forall crc delcrc,
  (forall a b, crc a = crc b -> a = b) -> (forall a, crc a <> delcrc) ->
  forall ops b l s' r f,
  forallb quiet l = true ->
  step code_fixed crc delcrc (reach crc delcrc (ops ++ [SdkSet b] ++ l)) Read = (s', r, f) ->
  r = ROk /\ bstate (doc s') = (Alive, b) /\
  exists nr t, hist_of (doc s') = nr :: t /\ r_del nr = false /\ r_body nr = b.
Proof. intros crc delcrc Hi Hd. exact (external_write_visible crc delcrc Hi Hd). Qed.
Print Assumptions C09_latest_external_body_visible.

(* 6. gateway operations that are not ACCEPTED writes (imports by read / feed, metadata-only rewrites, rejected
      writes with their on-demand import) never change body or liveness of the bucket document.
      This is the statement the code as found violates (C09_Refuted.v). *)
Definition gateway_preserves_external_body_statement (fixed : bool) : Prop :=
  forall crc delcrc ops o s' r f,
  is_gw_op o = true ->
  step fixed crc delcrc (run fixed crc delcrc init ops) o = (s', r, f) ->
  bstate (doc s') = match o, r with
                    | GwWrite b, ROk => (Alive, b)
                    | GwDelete, ROk => (Tomb, 0)
                    | _, _ => bstate (doc (run fixed crc delcrc init ops))
                    end.

Theorem C09_gateway_preserves_external_body : gateway_preserves_external_body_statement code_fixed.
Proof. intros crc delcrc ops o s' r f G E. eapply gateway_preserves_body; eauto. apply reach_Inv. Qed.
Print Assumptions C09_gateway_preserves_external_body.

(* ======================================================================================================== *)
(* Deepening: the detection as a total function, exactly-once, body / _mou / version vector of an import      *)

(* 7. [sgw_write_never_imported] a document last written by the gateway (an ACCEPTED write; plain, or with any
      operation interposed before its CAS write) carries the CAS of that write in _sync.cas: SyncData.IsSGWrite,
      IsSGWriteXattrOnly and Document.IsSGWrite answer "gateway write" for EVERY body / checksum, delete flag and
      version vector they are handed, and no read or feed delivery imports it *)
Theorem C09_sgw_write_never_imported : forall crc delcrc ops o s' f,
  is_put_op o = true -> step code_fixed crc delcrc (reach crc delcrc ops) o = (s', ROk, f) ->
  (exists sy, d_sync (doc s') = Some sy /\ s_cas sy = d_cas (doc s') /\
     (forall rawcrc vv, sd_is_sg_write sy (d_cas (doc s')) rawcrc vv = true) /\
     (forall isdel vv, sd_xattr_only delcrc sy (d_cas (doc s')) isdel vv = 1) /\
     (forall raw, doc_is_sg_write crc delcrc (doc s') raw = true)) /\
  forall o', is_import_op o' = true ->
    imports (after crc delcrc s' o') = imports s' /\ hist_of (doc (after crc delcrc s' o')) = hist_of (doc s') /\
    bstate (doc (after crc delcrc s' o')) = bstate (doc s').
Proof.
  intros crc delcrc ops o s' f P E.
  destruct (sgw_write_never_imported crc delcrc _ o s' f (reach_Inv crc delcrc ops) P E) as [St H].
  split; [apply stamped_detection; exact St | exact H].
Qed.
Print Assumptions C09_sgw_write_never_imported.

(* 8. [sdk_write_always_imported_once] a document mutated outside the gateway and not yet recognised (pending) is
      imported exactly once however many feed events (any recorded event, any multiplicity), on-demand reads,
      on-demand writes, metadata-only rewrites and races among them follow: never more than once; a read imports it,
      the delivery of its own feed event imports it, and whatever follows imports nothing more *)
Theorem C09_sdk_write_always_imported_once : forall crc delcrc ops l,
  importable crc delcrc (doc (reach crc delcrc ops)) = true -> forallb no_ext_write l = true ->
  imports (run code_fixed crc delcrc (reach crc delcrc ops) l) <= imports (reach crc delcrc ops) + 1 /\
  imports (run code_fixed crc delcrc (reach crc delcrc ops) (Read :: l)) = imports (reach crc delcrc ops) + 1 /\
  (forall k, nth (N.to_nat k) (evs (reach crc delcrc ops)) absent_doc = doc (reach crc delcrc ops) ->
     imports (run code_fixed crc delcrc (reach crc delcrc ops) (Feed k :: l)) = imports (reach crc delcrc ops) + 1).
Proof. intros crc delcrc ops l. apply sdk_write_always_imported_once. apply reach_Inv. Qed.
Print Assumptions C09_sdk_write_always_imported_once.

(* 9. [import_preserves_body] the imported revision is a revision for what the last external writer left: its body
      is the SDK body, it is a tombstone revision iff the SDK deleted the document, and the import rewrites neither
      body nor liveness of the bucket document *)
Theorem C09_import_preserves_body : forall crc delcrc ops o,
  is_import_op o = true ->
  imports (after crc delcrc (reach crc delcrc ops) o) <> imports (reach crc delcrc ops) ->
  exists nr, hist_of (doc (after crc delcrc (reach crc delcrc ops) o)) = nr :: hist_of (doc (reach crc delcrc ops)) /\
    r_body nr = snd (wb (reach crc delcrc ops)) /\
    (r_del nr = true <-> fst (wb (reach crc delcrc ops)) = Tomb) /\
    (r_del nr = false <-> fst (wb (reach crc delcrc ops)) = Alive) /\
    bstate (doc (after crc delcrc (reach crc delcrc ops) o)) = wb (reach crc delcrc ops) /\
    wb (after crc delcrc (reach crc delcrc ops) o) = wb (reach crc delcrc ops).
Proof. intros crc delcrc ops o. apply import_preserves_body. apply reach_Inv. Qed.
Print Assumptions C09_import_preserves_body.

(* [wb] really is what the last writer left: the body of the last external set, (Tomb, 0) after an external delete *)
Theorem C09_wb_is_last_external_write : forall crc delcrc ops b,
  wb (reach crc delcrc (ops ++ [SdkSet b])) = (Alive, b) /\
  (d_st (doc (reach crc delcrc ops)) <> Absent -> wb (reach crc delcrc (ops ++ [SdkDelete])) = (Tomb, 0)).
Proof.
  intros crc delcrc ops b. unfold reach. rewrite !run_snoc. unfold st1. split.
  - rewrite step_simple by (intros; discriminate). reflexivity.
  - rewrite step_simple by (intros; discriminate). cbn [simple_step fst]. unfold ext_del, code_fixed.
    destruct (d_st (doc (run true crc delcrc init ops))); intros NA; [congruence| |]; reflexivity.
Qed.
Print Assumptions C09_wb_is_last_external_write.

(* 10. [metadata_only_update_not_reimported] the import's own write is a metadata-only update and is marked as one:
       _mou.cas = the CAS of that write, _mou.pCas = the CAS of the imported mutation (or the pCas that mutation
       carried when it was itself a metadata-only update); _sync.cas is stamped too.  The next feed event -- for
       the import's own write or any other recorded version -- is not imported again, and neither is anything else *)
Theorem C09_metadata_only_update_not_reimported : forall crc delcrc ops o,
  is_import_op o = true ->
  imports (after crc delcrc (reach crc delcrc ops) o) <> imports (reach crc delcrc ops) ->
  let s' := after crc delcrc (reach crc delcrc ops) o in
  d_mou (doc s') = Some (mkMou (d_cas (doc s')) (mou_pcas (doc (reach crc delcrc ops)))) /\
  mou_match (doc s') = true /\ stamped (doc s') /\
  bstate (doc s') = bstate (doc (reach crc delcrc ops)) /\
  (forall k, imports (after crc delcrc s' (Feed k)) = imports s' /\
             bstate (doc (after crc delcrc s' (Feed k))) = bstate (doc (reach crc delcrc ops)) /\
             hist_of (doc (after crc delcrc s' (Feed k))) = hist_of (doc s')) /\
  (forall l, forallb no_ext_write l = true -> imports (run code_fixed crc delcrc s' l) = imports s').
Proof. intros crc delcrc ops o IO NE. apply metadata_only_update_not_reimported; auto. apply reach_Inv. Qed.
Print Assumptions C09_metadata_only_update_not_reimported.

(* ... and the gateway's other metadata-only rewrite (resync) of a recognised document never triggers an import *)
Theorem C09_meta_rewrite_not_reimported : forall crc delcrc ops s' r f,
  own crc delcrc (doc (reach crc delcrc ops)) = true ->
  step code_fixed crc delcrc (reach crc delcrc ops) GwMetaOnly = (s', r, f) ->
  imports s' = imports (reach crc delcrc ops) /\ own crc delcrc (doc s') = true /\
  bstate (doc s') = bstate (doc (reach crc delcrc ops)) /\
  (r = ROk -> mou_stamped (doc s')) /\
  (forall l, forallb no_ext_write l = true -> imports (run code_fixed crc delcrc s' l) = imports s').
Proof. intros crc delcrc ops s' r f. apply meta_rewrite_not_reimported. apply reach_Inv. Qed.
Print Assumptions C09_meta_rewrite_not_reimported.

(* 11. [import_hlv_dominates_previous] the version vector an import writes: it dominates the previous vector
       (GetValue-wise: no source is forgotten or moved backwards); unless the mutation already is the current version
       (_vv.cvCas = cas) or a metadata-only update of it (_mou.cas = cas), the mutation becomes the current version
       with the gateway's own source id, version = the CAS of the imported mutation, cvCas = that CAS; merge versions
       are retired into the previous versions; a previous current version of ANOTHER source moves to the previous
       versions with its value; _sync.rev records the same current version *)
Theorem C09_import_hlv_dominates_previous : forall crc delcrc ops o,
  is_import_op o = true ->
  imports (after crc delcrc (reach crc delcrc ops) o) <> imports (reach crc delcrc ops) ->
  let d := doc (reach crc delcrc ops) in
  let d' := doc (after crc delcrc (reach crc delcrc ops) o) in
  exists v' sy', d_vv d' = Some v' /\ import_hlv d = Some v' /\
    d_sync d' = Some sy' /\ s_cv sy' = v_ver v' /\ s_cvsrc sy' = v_src v' /\
    (forall v, d_vv d = Some v -> hlv_dominates v' v) /\
    (hlv_updated_by_import d = true ->
       v_src v' = local_src /\ v_ver v' = d_cas d /\ v_cvcas v' = d_cas d /\ v_mv v' = [] /\
       (d_vv d = None -> v_pv v' = []) /\
       forall v, d_vv d = Some v ->
         (v_src v <> local_src -> aget (v_pv v') (v_src v) = Some (v_ver v) /\ aget (v_pv v') local_src = None) /\
         (v_src v = local_src -> v_ver v <= d_cas d /\ v_pv v' = hlv_invalidate_mv v)) /\
    (hlv_updated_by_import d = false -> d_vv d = Some v').
Proof. intros crc delcrc ops o IO NE. apply import_hlv_dominates_previous; auto. apply reach_Inv. Qed.
Print Assumptions C09_import_hlv_dominates_previous.

(* AddVersion never rejects the import of a reachable document (every value recorded for the gateway's own source is
   older than the document's CAS), and AddVersion itself never forgets or moves back a source *)
Theorem C09_import_hlv_never_rejects : forall crc delcrc ops, exists v, import_hlv (doc (reach crc delcrc ops)) = Some v.
Proof. intros crc delcrc ops. apply (import_hlv_never_rejects crc delcrc). apply reach_Inv. Qed.
Print Assumptions C09_import_hlv_never_rejects.

Theorem C09_add_version_dominates : forall v src ver v', hlv_add v src ver = Some v' -> hlv_dominates v' v.
Proof. exact hlv_add_dominates. Qed.
Print Assumptions C09_add_version_dominates.

(* 12. races: an SDK write of body b landing INSIDE an import -- between the n-th attempt's read / decision and its
       compare-and-swap write, for a read (on-demand import, which retries on the new document) or a feed delivery
       (which cancels: ErrImportCasFailure) -- is never lost and never mis-imported: afterwards the bucket holds b, and
       the document is either recognised with a current revision FOR b or still pending (then imported exactly once
       later, theorem 8); it is never recognised with a revision for the body the import started from *)
Theorem C09_raced_import_takes_latest : forall crc delcrc,
  (forall a b, crc a = crc b -> a = b) -> (forall a, crc a <> delcrc) ->
  forall ops g n b s' r,
  is_import_op g = true ->
  step code_fixed crc delcrc (reach crc delcrc ops) (Race g n (SdkSet b)) = (s', r, true) ->
  bstate (doc s') = (Alive, b) /\
  (own crc delcrc (doc s') = true -> exists nr t, hist_of (doc s') = nr :: t /\ r_del nr = false /\ r_body nr = b) /\
  (own crc delcrc (doc s') = false -> importable crc delcrc (doc s') = true).
Proof.
  intros crc delcrc Hi Hd ops g n b s' r IO E.
  eapply (raced_import_takes_latest crc delcrc Hi Hd); eauto. apply reach_Inv.
Qed.
Print Assumptions C09_raced_import_takes_latest.

(* non-vacuity: a concrete history with a gateway write, an external write, a redelivered stale event, a racing
   pair of import paths and a metadata-only rewrite: exactly one import, for the external body *)
Example C09_nonvacuous :
  let ops := [GwWrite 1; SdkSet 2; Feed 1; Race Read 1 (Feed 2); Feed 2; GwMetaOnly; Read] in
  let s := reach N.succ 0 ops in
  imports s = 1 /\ count_ext ops = 1 /\ own N.succ 0 (doc s) = true /\
  bstate (doc s) = (Alive, 2) /\
  hist_of (doc s) = [R 2 1 false 2; R 1 0 false 1] /\
  importable N.succ 0 (doc (reach N.succ 0 [GwWrite 1; SdkSet 2])) = true.
Proof. vm_compute. repeat split; reflexivity. Qed.

(* ... and one with a legacy document (attachment metadata in _sync): the delayed event of the gateway write is
   delivered after an external write; the migration does nothing and the external write is imported by the read *)
Example C09_nonvacuous_migration :
  let s := reach N.succ 0 [LegacyWrite 1; SdkSet 2; Feed 1; Read] in
  imports s = 1 /\ hist_of (doc s) = [R 2 1 false 2; R 1 0 false 1] /\
  importable N.succ 0 (doc (reach N.succ 0 [LegacyWrite 1; SdkSet 2; Feed 1])) = true /\
  (* delivered in time, the same event migrates the metadata *)
  match d_sync (doc (reach N.succ 0 [LegacyWrite 1])), d_sync (doc (reach N.succ 0 [LegacyWrite 1; Feed 1])) with
  | Some a, Some b => s_att a = true /\ s_att b = false
  | _, _ => False
  end.
Proof. vm_compute. repeat split; reflexivity. Qed.

(* ... and one with a document replicated from another cluster (current version of source 7, a merge version of
   source 8, previous versions of source 9 and of the gateway's own source): the import of a later SDK write makes the
   mutation the current version (own source, version = its CAS 2) and moves 7@5 and 8@3 to the previous versions *)
Example C09_nonvacuous_hlv :
  let h := mkVV 7 5 0 [(8, 3)] [(9, 1); (0, 0)] in
  let s := reach N.succ 0 [ForeignWrite 1 h; SdkSet 2; Read; Feed 3; GwMetaOnly; Feed 4] in
  imports s = 1 /\
  match d_vv (doc s) with
  | Some v => v_src v = 0 /\ v_ver v = 2 /\ v_cvcas v = 2 /\ v_mv v = [] /\
              aget (v_pv v) 7 = Some 5 /\ aget (v_pv v) 8 = Some 3 /\ aget (v_pv v) 9 = Some 1 /\ aget (v_pv v) 0 = None
  | None => False
  end /\ cancels s = 0 /\ imperrs s = 0.
Proof. vm_compute. repeat split; reflexivity. Qed.

(* ... and the retry path: an SDK write landing inside an on-demand import is imported by the retry (one import, for
   the NEW body); landing inside a feed import it makes the feed import cancel (ImportCancelCAS) and stays pending *)
Example C09_nonvacuous_retry :
  let s0 := reach N.succ 0 [GwWrite 1; SdkSet 2] in
  let '(s1, r1, f1) := step code_fixed N.succ 0 s0 (Race Read 1 (SdkSet 3)) in
  let '(s2, r2, f2) := step code_fixed N.succ 0 s0 (Race (Feed 2) 1 (SdkSet 3)) in
  f1 = true /\ imports s1 = 1 /\ hist_of (doc s1) = [R 2 1 false 3; R 1 0 false 1] /\ bstate (doc s1) = (Alive, 3) /\
  f2 = true /\ imports s2 = 0 /\ cancels s2 = 1 /\ importable N.succ 0 (doc s2) = true /\ bstate (doc s2) = (Alive, 3).
Proof. vm_compute. repeat split; reflexivity. Qed.
