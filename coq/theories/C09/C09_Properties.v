(* C09 -- External writes are imported exactly once; the gateway's own writes never are.
   Nothing but the property theorems (each closed by [exact] of a lemma of ImportThms.v) and a non-vacuity example.

   [run code_fixed crc delcrc init ops] is the state of the model after the operations [ops] (external SDK
   set / delete / xattr touch, gateway write / delete / metadata-only rewrite / read, delivery of any recorded
   feed event, and races [Race g n x]: gateway operation g with operation x executed between its n-th read and
   its CAS write).  [crc] (crc32c of a body) and [delcrc] are universally quantified; the two theorems about
   bodies assume that crc distinguishes the bodies involved.  [code_fixed = true]: the repaired
   OnDemandImportForWrite / importDoc (see C09_Refuted.v for the code as found). *)
From SG Require Import Base.Prelude C09.Import C09.ImportInv C09.ImportProcs C09.ImportChar C09.ImportThms.
Open Scope N_scope.

Definition reach crc delcrc (ops : list op) : state := run code_fixed crc delcrc init ops.
Definition after crc delcrc (s : state) (o : op) : state := fst (fst (step code_fixed crc delcrc s o)).

(* 1. own writes are recognised by every variant of the detection (SyncData.IsSGWrite, Document.IsSGWrite with and
      without raw body, IsSGWriteXattrOnly never answers "not a gateway write") ... *)
Theorem C09_gateway_write_is_recognised : forall crc delcrc ops b s' f,
  step code_fixed crc delcrc (reach crc delcrc ops) (match b with Some x => GwWrite x | None => GwDelete end) = (s', ROk, f) ->
  variants_own crc delcrc (doc s') /\ bstate (doc s') = target b.
Proof. intros crc delcrc ops b s' f. apply gateway_write_recognised. apply reach_Inv. Qed.
Print Assumptions C09_gateway_write_is_recognised.

(* ... and a document recognised as an own write is not imported by a read or by the delivery of ANY recorded
   feed event (current, stale, redelivered): no import, no revision, body and liveness untouched, still an own write
   (the only thing such a delivery may do is migrate attachment metadata out of _sync) *)
Theorem C09_own_write_never_imported : forall crc delcrc ops o,
  is_import_op o = true -> own crc delcrc (doc (reach crc delcrc ops)) = true ->
  imports (after crc delcrc (reach crc delcrc ops) o) = imports (reach crc delcrc ops) /\
  hist_of (doc (after crc delcrc (reach crc delcrc ops) o)) = hist_of (doc (reach crc delcrc ops)) /\
  bstate (doc (after crc delcrc (reach crc delcrc ops) o)) = bstate (doc (reach crc delcrc ops)) /\
  own crc delcrc (doc (after crc delcrc (reach crc delcrc ops) o)) = true.
Proof. intros crc delcrc ops o. apply own_write_never_imported. apply reach_Inv. Qed.
Print Assumptions C09_own_write_never_imported.

(* a pending external write is never hidden by a feed delivery: whatever recorded event is delivered -- in particular
   a DELAYED gateway-write event that makes the import listener migrate attachment metadata (a metadata-only rewrite
   guarded by the event's CAS) -- the delivery either imports the external write or leaves the document untouched *)
Theorem C09_feed_never_hides_external_write : forall crc delcrc ops k,
  importable crc delcrc (doc (reach crc delcrc ops)) = true ->
  (imports (after crc delcrc (reach crc delcrc ops) (Feed k)) = N.succ (imports (reach crc delcrc ops)) /\
   own crc delcrc (doc (after crc delcrc (reach crc delcrc ops) (Feed k))) = true) \/
  (doc (after crc delcrc (reach crc delcrc ops) (Feed k)) = doc (reach crc delcrc ops) /\
   imports (after crc delcrc (reach crc delcrc ops) (Feed k)) = imports (reach crc delcrc ops)).
Proof. intros crc delcrc ops k. apply feed_never_hides_external_write. apply reach_Inv. Qed.
Print Assumptions C09_feed_never_hides_external_write.

(* 2. no import loop: once nothing is pending, NO sequence of gateway operations -- writes (accepted or rejected),
      metadata-only rewrites, reads, feed deliveries in any order and multiplicity, races among them, external
      touches of unrelated xattrs -- causes an import *)
Theorem C09_no_import_without_external_write : forall crc delcrc ops l,
  forallb no_ext_write l = true ->
  importable crc delcrc (doc (reach crc delcrc ops)) = false ->
  imports (run code_fixed crc delcrc (reach crc delcrc ops) l) = imports (reach crc delcrc ops) /\
  importable crc delcrc (doc (run code_fixed crc delcrc (reach crc delcrc ops) l)) = false.
Proof. intros crc delcrc ops l Q NI. apply quiet_run; auto. apply reach_Inv. Qed.
Print Assumptions C09_no_import_without_external_write.

(* over ALL histories (races included) there are never more imports than external body writes *)
Theorem C09_imports_bounded_by_external_writes : forall crc delcrc ops,
  imports (reach crc delcrc ops) <= count_ext ops.
Proof. exact imports_bounded. Qed.
Print Assumptions C09_imports_bounded_by_external_writes.

(* 3. import is idempotent: after a read, and after any read / feed delivery that imported, no further gateway
      activity imports again *)
Theorem C09_import_idempotent_after_read : forall crc delcrc ops l,
  forallb no_ext_write l = true ->
  imports (run code_fixed crc delcrc (after crc delcrc (reach crc delcrc ops) Read) l) =
  imports (after crc delcrc (reach crc delcrc ops) Read).
Proof. intros crc delcrc ops l. apply import_idempotent_read. apply reach_Inv. Qed.
Print Assumptions C09_import_idempotent_after_read.

Theorem C09_import_idempotent : forall crc delcrc ops o l,
  is_import_op o = true ->
  imports (after crc delcrc (reach crc delcrc ops) o) <> imports (reach crc delcrc ops) ->
  forallb no_ext_write l = true ->
  imports (run code_fixed crc delcrc (after crc delcrc (reach crc delcrc ops) o) l) =
  imports (after crc delcrc (reach crc delcrc ops) o).
Proof. intros crc delcrc ops o l. apply import_idempotent. apply reach_Inv. Qed.
Print Assumptions C09_import_idempotent.

(* a race between the feed import and the on-demand import (either order, any hook position, any event) imports
   at most once *)
Theorem C09_import_race_once : forall crc delcrc ops g n x,
  is_import_op g = true -> is_import_op x = true ->
  imports (after crc delcrc (reach crc delcrc ops) (Race g n x)) <= imports (reach crc delcrc ops) + 1.
Proof. intros crc delcrc ops g n x. apply import_race_once. apply reach_Inv. Qed.
Print Assumptions C09_import_race_once.

(* 4. the imported revision: child of the previous current revision, generation + 1, deleted iff the bucket
      document is a tombstone, created for the bucket's body; body and liveness untouched; recognised afterwards *)
Theorem C09_import_parent_generation : forall crc delcrc ops o,
  is_import_op o = true ->
  imports (after crc delcrc (reach crc delcrc ops) o) <> imports (reach crc delcrc ops) ->
  importable crc delcrc (doc (reach crc delcrc ops)) = true /\
  imports (after crc delcrc (reach crc delcrc ops) o) = N.succ (imports (reach crc delcrc ops)) /\
  import_shape crc delcrc (doc (reach crc delcrc ops)) (doc (after crc delcrc (reach crc delcrc ops) o)).
Proof. intros crc delcrc ops o. apply import_revision_shape. apply reach_Inv. Qed.
Print Assumptions C09_import_parent_generation.

Theorem C09_history_is_chain : forall crc delcrc ops, chain (hist_of (doc (reach crc delcrc ops))).
Proof. exact history_chain. Qed.
Print Assumptions C09_history_is_chain.

(* 5. after a read through the gateway the current revision is a revision for the bucket's body (or a tombstone
      revision for an externally deleted document), under the hypothesis that crc32c distinguishes the bodies *)
Theorem C09_read_shows_bucket_body : forall crc delcrc,
  (forall a b, crc a = crc b -> a = b) -> (forall a, crc a <> delcrc) ->
  forall ops s' r f,
  step code_fixed crc delcrc (reach crc delcrc ops) Read = (s', r, f) ->
  (is_alive (doc (reach crc delcrc ops)) = true \/
   (d_st (doc (reach crc delcrc ops)) = Tomb /\ has_sync (doc (reach crc delcrc ops)) = true)) ->
  r = ROk /\ bstate (doc s') = bstate (doc (reach crc delcrc ops)) /\ current_matches_bucket crc delcrc (doc s').
Proof. intros crc delcrc Hi Hd ops s' r f. apply read_shows_bucket_body; auto. apply reach_Inv. Qed.
Print Assumptions C09_read_shows_bucket_body.

(* the body of the latest external write is what the gateway shows, whatever happened before it and whatever
   reads, feed deliveries (current or stale), metadata-only rewrites and xattr touches happen in between *)
Theorem C09_latest_external_body_visible : forall crc delcrc,
  (forall a b, crc a = crc b -> a = b) -> (forall a, crc a <> delcrc) ->
  forall ops b l s' r f,
  forallb quiet l = true ->
  step code_fixed crc delcrc (reach crc delcrc (ops ++ [SdkSet b] ++ l)) Read = (s', r, f) ->
  r = ROk /\ bstate (doc s') = (Alive, b) /\
  exists nr t, hist_of (doc s') = nr :: t /\ r_del nr = false /\ r_body nr = b.
Proof. intros crc delcrc Hi Hd. exact (external_write_visible crc delcrc Hi Hd). Qed.
Print Assumptions C09_latest_external_body_visible.

(* 6. gateway operations that are not ACCEPTED writes (imports by read / feed, metadata-only rewrites, rejected
      writes with their on-demand import) never change body or liveness of the bucket document.
      This is the statement the code as found violates (C09_Refuted.v). *)
Definition gateway_preserves_external_body_statement (fixed : bool) : Prop :=
  forall crc delcrc ops o s' r f,
  is_gw_op o = true ->
  step fixed crc delcrc (run fixed crc delcrc init ops) o = (s', r, f) ->
  bstate (doc s') = match o, r with
                    | GwWrite b, ROk => (Alive, b)
                    | GwDelete, ROk => (Tomb, 0)
                    | _, _ => bstate (doc (run fixed crc delcrc init ops))
                    end.

Theorem C09_gateway_preserves_external_body : gateway_preserves_external_body_statement code_fixed.
Proof. intros crc delcrc ops o s' r f G E. eapply gateway_preserves_body; eauto. apply reach_Inv. Qed.
Print Assumptions C09_gateway_preserves_external_body.

(* non-vacuity: a concrete history with a gateway write, an external write, a redelivered stale event, a racing
   pair of import paths and a metadata-only rewrite: exactly one import, for the external body *)
Example C09_nonvacuous :
  let ops := [GwWrite 1; SdkSet 2; Feed 1; Race Read 1 (Feed 2); Feed 2; GwMetaOnly; Read] in
  let s := reach N.succ 0 ops in
  imports s = 1 /\ count_ext ops = 1 /\ own N.succ 0 (doc s) = true /\
  bstate (doc s) = (Alive, 2) /\
  hist_of (doc s) = [R 2 1 false 2; R 1 0 false 1] /\
  importable N.succ 0 (doc (reach N.succ 0 [GwWrite 1; SdkSet 2])) = true.
Proof. vm_compute. repeat split; reflexivity. Qed.

(* ... and one with a legacy document (attachment metadata in _sync): the delayed event of the gateway write is
   delivered after an external write; the migration does nothing and the external write is imported by the read *)
Example C09_nonvacuous_migration :
  let s := reach N.succ 0 [LegacyWrite 1; SdkSet 2; Feed 1; Read] in
  imports s = 1 /\ hist_of (doc s) = [R 2 1 false 2; R 1 0 false 1] /\
  importable N.succ 0 (doc (reach N.succ 0 [LegacyWrite 1; SdkSet 2; Feed 1])) = true /\
  (* delivered in time, the same event migrates the metadata *)
  match d_sync (doc (reach N.succ 0 [LegacyWrite 1])), d_sync (doc (reach N.succ 0 [LegacyWrite 1; Feed 1])) with
  | Some a, Some b => s_att a = true /\ s_att b = false
  | _, _ => False
  end.
Proof. vm_compute. repeat split; reflexivity. Qed.
