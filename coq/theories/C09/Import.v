(* C09 -- executable model of import / own-write detection on ONE bucket document.

   Modelled code (see props/C09.json for the full list):
     db/document.go   SyncData.IsSGWrite, SyncData.IsSGWriteXattrOnly, Document.IsSGWrite,
                      computeMetadataOnlyUpdate, UnmarshalWithXattrs (tombstone => empty body, doc.Deleted)
     db/import.go     importDoc (callback run by updateAndReturnDoc), ImportDocRaw, ImportDoc
     db/import_listener.go  ImportFeedEvent (feed-side own-write filter, ImportFromFeed)
     db/crud.go       GetDocumentWithRaw / OnDemandImportForGet, OnDemandImportForWrite, Put's callback,
                      documentUpdateFunc (mouMatch, sequence), updateHLV (Import / NewVersion),
                      the xattr / macro-expansion part of updateAndReturnDoc
     db/database.go   ResyncDocument (metadata-only rewrite)
     rosmar           WriteUpdateWithXattrs retry loop, WriteWithXattrs / WriteTombstoneWithXattrs /
                      WriteResurrectionWithXattrs CAS rules, SetRaw / Delete / SetXattrs, CAS clock
     base.LeakyDataStore  the update callback fired after each attempt's callback (race placement)

                      db/hybrid_logical_vector.go  AddVersion, InvalidateMV, GetValue, SetPreviousVersion (the
                      Import and NewVersion cases of updateHLV: source id, version, cvCas, merge versions, previous versions)
                      db/import.go  the counters ImportCount / ImportCancelCAS / ImportErrorCount

   Data: body ids, CAS values, sequences, generations, source ids and versions are N.  Body id 0 stands for the empty
   object {}.  Source id 0 is this gateway's own source (EncodedSourceID), other ids are other clusters.
   crc32c is a Section variable; the theorems assume it distinguishes the bodies involved. *)
From SG Require Export Base.Prelude.
Open Scope N_scope.

(* [true]: the repaired code (delete-ness of an on-demand import is derived from the bucket document that is
   imported); [false]: the code as found (db/crud.go OnDemandImportForWrite takes it from the incoming
   write, db/import.go importDoc keeps the flag of the first attempt when it re-reads the document). *)
Definition code_fixed : bool := true.

Inductive dstat := Absent | Alive | Tomb.
Definition dstat_eqb (a b : dstat) : bool :=
  match a, b with Absent, Absent | Alive, Alive | Tomb, Tomb => true | _, _ => false end.

(* a revision of the (linear) revision tree: generation, generation of its parent (0 = none), deleted flag and
   the body it was created for (its id is a digest of generation, parent id and body) *)
Record rev := R { r_gen : N; r_parent : N; r_del : bool; r_body : N }.
Definition rev_eqb (a b : rev) : bool :=
  (r_gen a =? r_gen b) && (r_parent a =? r_parent b) && Bool.eqb (r_del a) (r_del b) && (r_body a =? r_body b).

(* [s_att]: (pre-4.0) attachment metadata is still stored inside _sync and awaits migration to _globalSync *)
(* [s_cvsrc], [s_cv]: _sync.rev.src / _sync.rev.ver *)
Record syncd := mkSync { s_cas : N; s_crc : N; s_cv : N; s_hist : list rev; s_seq : N; s_att : bool; s_cvsrc : N }.   (* _sync *)

(* association lists source id -> version (HLVVersions maps) *)
Definition alist := list (N * N).
Fixpoint aget (l : alist) (k : N) : option N :=
  match l with [] => None | (a, x) :: t => if a =? k then Some x else aget t k end.
Definition adel (l : alist) (k : N) : alist := filter (fun p => negb (fst p =? k)) l.
Definition aset (l : alist) (k x : N) : alist := (k, x) :: adel l k.

(* _vv: current version (source, version), cvCas, merge versions, previous versions *)
Record vvd := mkVV { v_src : N; v_ver : N; v_cvcas : N; v_mv : alist; v_pv : alist }.
Definition local_src : N := 0.

(* HybridLogicalVector.GetValue: current version, then merge versions, then previous versions *)
Definition hlv_get (v : vvd) (k : N) : option N :=
  if k =? v_src v then Some (v_ver v)
  else match aget (v_mv v) k with Some x => Some x | None => aget (v_pv v) k end.

(* InvalidateMV: every merge version moves to the previous versions (overriding an entry of the same source),
   except one that shares its source with cv.  (A Go map has one entry per source; for a list with a repeated
   source the first entry wins, as in [aget].) *)
Definition hlv_invalidate_mv (v : vvd) : alist :=
  fold_right (fun p pv => if fst p =? v_src v then pv else aset pv (fst p) (snd p)) (v_pv v) (v_mv v).

(* AddVersion(Version{src, ver}) on an HLV that has a current version; None = the error
   "attempting to add new version vector entry with a value that is less than the existing value for the same source" *)
Definition hlv_add (v : vvd) (src ver : N) : option vvd :=
  if match hlv_get v src with Some x => ver <? x | None => false end then None
  else
    let pv1 := hlv_invalidate_mv v in
    if src =? v_src v then Some (mkVV src ver (v_cvcas v) [] pv1)
    else Some (mkVV src ver (v_cvcas v) [] (adel (aset pv1 (v_src v) (v_ver v)) src)).

Definition set_cvcas (c : N) (v : vvd) : vvd := mkVV (v_src v) (v_ver v) c (v_mv v) (v_pv v).
(* every value recorded for this gateway's own source is older than [c] *)
Definition alist_local_lt (l : alist) (c : N) : bool :=
  forallb (fun p => negb (fst p =? local_src) || (snd p <? c)) l.
Record moud := mkMou { m_cas : N; m_pcas : N }.                                            (* _mou *)

Record bdoc := mkDoc { d_st : dstat; d_body : N; d_cas : N;
                       d_sync : option syncd; d_vv : option vvd; d_mou : option moud }.
Definition absent_doc : bdoc := mkDoc Absent 0 0 None None None.

Inductive op :=
| SdkSet (b : N) | SdkDelete | SdkTouch
| LegacyWrite (b : N)
| ForeignWrite (b : N) (h : vvd)
| GwWrite (b : N) | GwDelete | GwMetaOnly | Read | Feed (k : N)
| Race (g : op) (n : N) (x : op).

Inductive res := ROk | RConflict | RNotFound | RIgnored | ROther.

(* [imports], [exts], [wb] are ghost: ImportCount, number of external body writes, and liveness + body as left
   by the last writer (an external write or an ACCEPTED gateway write); [cancels], [imperrs]: the counters
   ImportCancelCAS and ImportErrorCount *)
Record state := mkSt { clk : N; doc : bdoc; nseq : N; evs : list bdoc;
                       imports : N; exts : N; hk : option (N * op); wb : dstat * N;
                       cancels : N; imperrs : N }.
Definition init : state := mkSt 0 absent_doc 0 [absent_doc] 0 0 None (Absent, 0) 0 0.

Definition set_doc (s : state) (d : bdoc) : state :=
  mkSt (N.succ (clk s)) d (nseq s) (evs s) (imports s) (exts s) (hk s) (wb s) (cancels s) (imperrs s).
Definition set_nseq (s : state) (n : N) : state :=
  mkSt (clk s) (doc s) n (evs s) (imports s) (exts s) (hk s) (wb s) (cancels s) (imperrs s).
Definition set_hk (s : state) (h : option (N * op)) : state :=
  mkSt (clk s) (doc s) (nseq s) (evs s) (imports s) (exts s) h (wb s) (cancels s) (imperrs s).
Definition add_import (s : state) : state :=
  mkSt (clk s) (doc s) (nseq s) (evs s) (N.succ (imports s)) (exts s) (hk s) (wb s) (cancels s) (imperrs s).
Definition add_ext (s : state) : state :=
  mkSt (clk s) (doc s) (nseq s) (evs s) (imports s) (N.succ (exts s)) (hk s) (wb s) (cancels s) (imperrs s).
Definition set_wb (s : state) (w : dstat * N) : state :=
  mkSt (clk s) (doc s) (nseq s) (evs s) (imports s) (exts s) (hk s) w (cancels s) (imperrs s).
Definition push_ev (s : state) : state :=
  mkSt (clk s) (doc s) (nseq s) (evs s ++ [doc s]) (imports s) (exts s) (hk s) (wb s) (cancels s) (imperrs s).
Definition add_cancel (s : state) : state :=
  mkSt (clk s) (doc s) (nseq s) (evs s) (imports s) (exts s) (hk s) (wb s) (N.succ (cancels s)) (imperrs s).
Definition add_err (s : state) : state :=
  mkSt (clk s) (doc s) (nseq s) (evs s) (imports s) (exts s) (hk s) (wb s) (cancels s) (N.succ (imperrs s)).

Definition hist_of (d : bdoc) : list rev := match d_sync d with Some sy => s_hist sy | None => [] end.
Definition cur_rev (d : bdoc) : option rev := hd_error (hist_of d).
Definition has_sync (d : bdoc) : bool := match d_sync d with Some _ => true | None => false end.
Definition has_revtree (d : bdoc) : bool := match cur_rev d with Some _ => true | None => false end.
Definition is_alive (d : bdoc) : bool := dstat_eqb (d_st d) Alive.
Definition is_tomb (d : bdoc) : bool := dstat_eqb (d_st d) Tomb.
(* UnmarshalWithXattrs: no body but a _sync xattr => doc.Deleted, body replaced by {} *)
Definition doc_deleted (d : bdoc) : bool := negb (is_alive d) && has_sync d.
(* doc.Body(ctx) == nil *)
Definition doc_body_nil (d : bdoc) : bool := negb (is_alive d) && negb (has_sync d).

Section Model.
Variable fixed : bool.      (* which code is modelled: instantiated with [code_fixed] (see above) *)
Variable crc : N -> N.      (* crc32c of the body with a given id *)
Variable delcrc : N.        (* base.DeleteCrc32c = crc32c of the empty value *)

Definition body_crc (d : bdoc) : N := if is_alive d then crc (d_body d) else delcrc.

(* ---------------------------------------------------------------------------------------- *)
(* own-write detection (db/document.go)                                                     *)

Definition cv_ok (sy : syncd) (vv : option vvd) : bool :=
  match vv with Some v => (v_src v =? s_cvsrc sy) && (v_ver v =? s_cv sy) | None => true end.

(* SyncData.IsSGWrite(cas, rawBody, userXattr = none, cv) *)
Definition sd_is_sg_write (sy : syncd) (cas rawcrc : N) (vv : option vvd) : bool :=
  if cas =? s_cas sy then true
  else if negb (rawcrc =? s_crc sy) then false
  else cv_ok sy vv.

(* SyncData.IsSGWriteXattrOnly: 0 = not a gateway write, 1 = gateway write, 2 = ambiguous (body needed) *)
Definition sd_xattr_only (sy : syncd) (cas : N) (isdel : bool) (vv : option vvd) : N :=
  if cas =? s_cas sy then 1
  else if isdel && negb (s_crc sy =? delcrc) then 0
  else if negb (cv_ok sy vv) then 0
  else if isdel then 1 else 2.

(* Document.IsSGWrite(rawBody): [raw = Some b] when a non-empty raw body is supplied *)
Definition doc_is_sg_write (d : bdoc) (raw : option N) : bool :=
  match d_sync d with
  | None => d_cas d =? 0
  | Some sy =>
      match raw with
      | Some b => sd_is_sg_write sy (d_cas d) (crc b) (d_vv d)
      | None => sd_is_sg_write sy (d_cas d) (body_crc d) (d_vv d)
      end
  end.

(* ---------------------------------------------------------------------------------------- *)
(* storage layer (rosmar)                                                                   *)

Record prev := mkPrev { p_doc : bdoc; p_tomb : bool }.    (* sgbucket.BucketDocument handed to the callback *)

Inductive mouact := MouKeep | MouDel | MouSet (pcas : N).
Record update := mkUpd { u_tomb : bool;                   (* UpdatedDoc.IsTombstone *)
                         u_body : option N;               (* UpdatedDoc.Doc (None: leave the body alone) *)
                         u_sync : syncd;
                         u_macro : bool;                  (* _sync.cas / _sync.value_crc32c macro-expanded *)
                         u_vv : option (vvd * bool);      (* _vv to write, with cvCas macro-expanded or not *)
                         u_mou : mouact }.

Inductive errk := EConflict | EAlready | ECancelled | ECasFail | EUpdateCancel | EOther | EFuel | EHlv.
Inductive cbres := CbRetry | CbErr (e : errk) | CbWrite (u : update).
Inductive wres := WOk (d : bdoc) | WRetry | WErr.
Inductive lres := LOk | LErr (e : errk).

Definition apply_upd (cleared : bool) (cur : bdoc) (st' : dstat) (body' : N) (u : update) (nc : N) : bdoc :=
  let b' := match st' with Alive => body' | _ => 0 end in
  let crc' := match st' with Alive => crc body' | _ => delcrc end in
  let sy := u_sync u in
  let sy' := if u_macro u then mkSync nc crc' (s_cv sy) (s_hist sy) (s_seq sy) (s_att sy) (s_cvsrc sy) else sy in
  let vv0 := if cleared then None else d_vv cur in
  let mou0 := if cleared then None else d_mou cur in
  let vv' := match u_vv u with
             | Some (v, true) => Some (set_cvcas nc v)
             | Some (v, false) => Some v
             | None => vv0 end in
  let mou' := match u_mou u with MouKeep => mou0 | MouDel => None | MouSet pc => Some (mkMou nc pc) end in
  mkDoc st' b' nc (Some sy') vv' mou'.

Definition store_write (cur : bdoc) (p : prev) (u : update) (nc : N) : wres :=
  let pd := p_doc p in
  let cas_ok := d_cas cur =? d_cas pd in
  if u_tomb u then
    (* WriteTombstoneWithXattrs(cas = previous.Cas, deleteBody = previous.Body != nil) *)
    let delbody := is_alive pd in
    let reqex := delbody || negb (d_cas pd =? 0) in
    match d_st cur with
    | Absent => if reqex then WErr else WOk (apply_upd false cur Tomb 0 u nc)
    | Tomb => if delbody then WErr else if cas_ok then WOk (apply_upd false cur Tomb 0 u nc) else WRetry
    | Alive => if cas_ok then WOk (apply_upd false cur Tomb 0 u nc) else WRetry
    end
  else if p_tomb p then
    (* WriteResurrectionWithXattrs: no CAS check, fails with KeyExists (retry) if the document is alive *)
    match u_body u with
    | None => WErr
    | Some b => match d_st cur with
                | Alive => WRetry
                | _ => WOk (apply_upd true cur Alive b u nc)
                end
    end
  else
    (* WriteWithXattrs(cas = previous.Cas) *)
    match d_st cur with
    | Absent => if d_cas pd =? 0
                then match u_body u with Some b => WOk (apply_upd false cur Alive b u nc) | None => WErr end
                else WRetry
    | Tomb => match u_body u with Some _ => WRetry | None => if cas_ok then WErr else WRetry end
    | Alive => if cas_ok
               then WOk (apply_upd false cur Alive (match u_body u with Some b => b | None => d_body cur end) u nc)
               else WRetry
    end.

(* external (SDK) operations; result code as reported by the harness *)
Definition ext_set (s : state) (b : N) : state :=
  let d := doc s in
  let nc := N.succ (clk s) in
  let d' := match d_st d with
            | Alive => mkDoc Alive b nc (d_sync d) (d_vv d) (d_mou d)
            | _ => mkDoc Alive b nc None None None       (* xattrs are cleared when a tombstone is resurrected *)
            end in
  set_wb (add_ext (set_doc s d')) (Alive, b).

Definition ext_del (s : state) : state * res :=
  let d := doc s in
  match d_st d with
  | Absent => (s, RNotFound)
  | _ => (set_wb (add_ext (set_doc s (mkDoc Tomb 0 (N.succ (clk s)) (d_sync d) (d_vv d) (d_mou d)))) (Tomb, 0), ROk)
  end.

Definition ext_touch (s : state) : state * res :=
  let d := doc s in
  match d_st d with
  | Alive => (set_doc s (mkDoc Alive (d_body d) (N.succ (clk s)) (d_sync d) (d_vv d) (d_mou d)), ROk)
  | _ => (s, RIgnored)
  end.

(* a document as an older gateway version wrote it: a gateway write (CAS and checksum macro-expanded) whose
   attachment metadata is still inside _sync; only on a missing document *)
Definition legacy_write (s : state) (b : N) : state * res :=
  match d_st (doc s) with
  | Absent =>
      let nc := N.succ (clk s) in
      let seq := N.succ (nseq s) in
      (set_wb (set_doc (set_nseq s seq)
                 (mkDoc Alive b nc (Some (mkSync nc (crc b) 0 [R 1 0 false b] seq true local_src))
                      (Some (mkVV local_src 0 nc [] [])) None))
              (Alive, b), ROk)
  | _ => (s, RIgnored)
  end.

(* a document as another cluster's gateway wrote it and XDCR delivered it here: a gateway write (CAS and checksum
   agree with the document) whose version vector [h] has a current version of a foreign source and arbitrary merge /
   previous versions; entries of this gateway's own source must be older than the document (XDCR only delivers
   versions that are not ahead of the CAS).  Only on a missing document. *)
Definition foreign_ok (h : vvd) (nc : N) : bool :=
  negb (v_src h =? local_src) && alist_local_lt (v_mv h) nc && alist_local_lt (v_pv h) nc.

Definition foreign_write (s : state) (b : N) (h : vvd) : state * res :=
  match d_st (doc s) with
  | Absent =>
      let nc := N.succ (clk s) in
      let seq := N.succ (nseq s) in
      if foreign_ok h nc then
        (set_wb (set_doc (set_nseq s seq)
                   (mkDoc Alive b nc (Some (mkSync nc (crc b) (v_ver h) [R 1 0 false b] seq false (v_src h)))
                          (Some (set_cvcas nc h)) None))
                (Alive, b), ROk)
      else (s, RIgnored)
  | _ => (s, RIgnored)
  end.

(* MigrateAttachmentMetadata(docID, cas = the FEED EVENT's cas, the event's sync data): UpdateXattrs of _sync
   (without the attachment metadata, cas / checksum macro-expanded), _globalSync and _mou, guarded by that cas:
   a no-op when the document has moved on since the event *)
Definition migrate (ev : bdoc) (sy : syncd) (s : state) : state :=
  let cur := doc s in
  if (d_cas cur =? d_cas ev) && is_alive cur then
    let nc := N.succ (clk s) in
    set_doc s (mkDoc Alive (d_body cur) nc
                     (Some (mkSync nc (crc (d_body cur)) (s_cv sy) (s_hist sy) (s_seq sy) false (s_cvsrc sy)))
                     (d_vv cur) (Some (mkMou nc (s_cas sy))))
  else s.

(* ---------------------------------------------------------------------------------------- *)
(* gateway procedures, parameterised by what happens when an attempt's callback completes   *)

Definition mou_match (d : bdoc) : bool := match d_mou d with Some m => m_cas m =? d_cas d | None => false end.
(* computeMetadataOnlyUpdate(doc.Cas, _, doc.MetadataOnlyUpdate).PreviousHexCAS *)
Definition mou_pcas (d : bdoc) : N :=
  match d_mou d with Some m => if m_cas m =? d_cas d then m_pcas m else d_cas d | None => d_cas d end.
Definition cur_gen (d : bdoc) : N := match cur_rev d with Some r => r_gen r | None => 0 end.
Definition raw_of (d : bdoc) : option N := if is_alive d then Some (d_body d) else None.

Section Procs.
Variable fire : state -> state.

(* rosmar WriteUpdateWithXattrs.  [m] is the state the Go closure keeps between attempts (captured variables
   that the callback assigns: importDoc's existingDoc / body / isDelete, Put's matchRev). *)
Fixpoint upd_loop {M : Type} (fuel : nat) (cb : M -> state -> prev -> state * cbres * M) (m : M)
         (pv : option prev) (s : state) : state * lres :=
  match fuel with
  | O => (s, LErr EFuel)
  | S f =>
      let p := match pv with Some p => p | None => mkPrev (doc s) (is_tomb (doc s)) end in
      let '(s1, r, m') := cb m s p in
      let s2 := fire s1 in
      match r with
      | CbRetry => upd_loop f cb m' None s2
      | CbErr e => (s2, LErr e)
      | CbWrite u =>
          match store_write (doc s2) p u (N.succ (clk s2)) with
          | WOk d' => (set_doc s2 d', LOk)
          | WRetry => upd_loop f cb m' None s2
          | WErr => (s2, LErr EOther)
          end
      end
  end.

(* the callback importDoc hands to updateAndReturnDoc, followed by documentUpdateFunc / updateHLV(Import) *)
Record imem := mkImem { im_del : bool; im_cas : N; im_raw : option N }.   (* isDelete, existingDoc.Cas, existingDoc.Body *)

(* updateHLV(Import): the HLV an import of [d] writes.  Unchanged when the mutation is already the current version
   (_vv.cvCas = cas, or _mou.cas = cas); otherwise AddVersion(own source, cas) and cvCas := cas.  None: AddVersion failed. *)
Definition import_hlv (d : bdoc) : option vvd :=
  match d_vv d with
  | Some v => if (v_cvcas v =? d_cas d) || mou_match d then Some v
              else option_map (set_cvcas (d_cas d)) (hlv_add v local_src (d_cas d))
  | None => Some (mkVV local_src (d_cas d) (d_cas d) [] [])
  end.

(* one attempt once it is settled which document version is imported and whether it is a delete *)
Definition import_attempt (isdel : bool) (ex_raw : option N) (s : state) (d : bdoc) : state * cbres :=
  if d_cas d =? 0 then (s, CbErr ECancelled)
  else if isdel && negb (has_revtree d) then (s, CbErr ECancelled)
  else if doc_is_sg_write d ex_raw then (s, CbErr EAlready)
  else
    let tag := match ex_raw with Some b => b | None => 0 end in
    let pg := cur_gen d in
    let nr := R (N.succ pg) pg isdel tag in
    let seq := N.succ (nseq s) in
    match import_hlv d with
    | None => (set_nseq s seq, CbErr EHlv)        (* the error surfaces after the sequence was allocated *)
    | Some vv' =>
        let sy := mkSync 0 0 (v_ver vv') (nr :: hist_of d) seq false (v_src vv') in
        let ub := if doc_deleted d then Some tag else None in
        (set_nseq s seq, CbWrite (mkUpd isdel ub sy true (Some (vv', false)) (MouSet (mou_pcas d))))
    end.

Definition import_cb (feed : bool) (m : imem) (s : state) (p : prev) : state * cbres * imem :=
  let d := p_doc p in
  let mism := negb (d_cas d =? im_cas m) in
  if mism && feed then (s, CbErr ECasFail, m)
  else if mism && doc_body_nil d then (s, CbErr EOther, m)
  else
    let isdel := if mism then (if fixed then doc_deleted d else im_del m) else im_del m in
    let ex_raw := if mism then (if fixed && isdel then None else Some (if is_alive d then d_body d else 0))
                  else im_raw m in
    let '(s1, r) := import_attempt isdel ex_raw s d in
    (s1, r, mkImem isdel (d_cas d) ex_raw).

Inductive ires := IImported | IAlready | ICancelled | ICasFail | IErr | IHlvErr.

Definition import_run (feed isdel : bool) (ex : bdoc) (ex_raw : option N) (s : state) : state * ires :=
  let '(s', r) := upd_loop 6 (import_cb feed) (mkImem isdel (d_cas ex) ex_raw) (Some (mkPrev ex false)) s in
  match r with
  | LOk => (add_import s', IImported)
  | LErr EAlready => (s', IAlready)
  | LErr ECancelled => (s', ICancelled)
  | LErr ECasFail => (add_cancel s', ICasFail)          (* ImportCancelCAS *)
  | LErr EHlv => (add_err s', IHlvErr)                  (* ImportErrorCount *)
  | LErr _ => (add_err s', IErr)
  end.

(* OnDemandImportForWrite(doc, deleted): [Some e] = the error it returns *)
Definition odw_is_delete (d : bdoc) (incoming_deleted : bool) : bool :=
  if fixed then doc_body_nil d || doc_deleted d
  else if doc_body_nil d then true else incoming_deleted.

Definition odw (s : state) (d : bdoc) (incoming_deleted : bool) : state * option cbres :=
  if negb (d_cas (doc s) =? d_cas d) then (s, Some CbRetry)
  else
    let isdel := odw_is_delete d incoming_deleted in
    let ex_raw := if doc_deleted d then None else raw_of d in
    let '(s', r) := import_run false isdel d ex_raw s in
    match r with
    | IImported | IAlready | ICancelled => (s', None)
    | _ => (s', Some (CbErr EOther))
    end.

(* Put's callback ([b = None]: _deleted), then documentUpdateFunc / updateHLV(NewVersion) *)
Definition put_cb (b : option N) (matchrev : list rev) (s : state) (p : prev) : state * cbres * list rev :=
  let d := p_doc p in
  let deleted := match b with None => true | Some _ => false end in
  let '(s1, early) := if doc_is_sg_write d None then (s, None) else odw s d deleted in
  match early with
  | Some r => (s1, r, matchrev)
  | None =>
      let cur := cur_rev d in
      (* "matchRev = doc.GetRevTreeID()" assigns the captured variable: later attempts see it *)
      let matchrev' := match matchrev with [] => hist_of d | _ => matchrev end in
      let parent :=
        match matchrev with
        | [] =>
          match cur with
          | Some r => if r_del r then Some (r_gen r) else None      (* 409 Document exists *)
          | None => Some 0
          end
        | m :: _ =>
          (* the revision id is a digest of its whole ancestry: it is a leaf iff it heads the current chain *)
          if list_eqb rev_eqb (hist_of d) matchrev then Some (r_gen m) else None   (* not a leaf: 409 *)
        end in
      match parent with
      | None => (s1, CbErr EConflict, matchrev')
      | Some pg =>
          let nr := R (N.succ pg) pg deleted (match b with Some x => x | None => 0 end) in
          let seq := N.succ (nseq s1) in
          (* the version is an HLC reading taken after the version the write is based on (and above every value
             of the own source in the HLV) and before the write's own CAS: modelled by that version's CAS *)
          let ver := d_cas d in
          match (match d_vv d with Some v => hlv_add v local_src ver | None => Some (mkVV local_src ver 0 [] []) end) with
          | None => (set_nseq s1 seq, CbErr EHlv, matchrev')
          | Some vv' =>
              let sy := mkSync 0 0 ver (nr :: hist_of d) seq false local_src in
              let mou := match d_mou d with Some _ => if is_alive d then MouDel else MouKeep | None => MouKeep end in
              (set_nseq s1 seq, CbWrite (mkUpd deleted b sy true (Some (vv', true)) mou), matchrev')
          end
      end
  end.

(* ResyncDocument(regenerateSequences = true)'s callback *)
Definition meta_cb (m : unit) (s : state) (p : prev) : state * cbres * unit :=
  let d := p_doc p in
  if negb (is_alive d) then (s, CbErr EUpdateCancel, tt)
  else match d_sync d with
       | None => (s, CbErr EUpdateCancel, tt)
       | Some sy =>
           let seq := N.succ (nseq s) in
           let sy' := mkSync (s_cas sy) (s_crc sy) (s_cv sy) (s_hist sy) seq false (s_cvsrc sy) in
           (set_nseq s seq, CbWrite (mkUpd false None sy' false None (MouSet (mou_pcas d))), tt)
       end.

Definition res_of_lres (r : lres) : res :=
  match r with
  | LOk => ROk
  | LErr EConflict => RConflict
  | LErr (EAlready | ECancelled | ECasFail | EUpdateCancel) => RIgnored
  | LErr _ => ROther
  end.

(* client side of a gateway write: the parent revision is what _sync records as current (raw read) *)
Definition client_rev (d : bdoc) : list rev :=
  match cur_rev d with Some r => if r_del r then [] else hist_of d | None => [] end.

Definition gw_put (b : option N) (s : state) : state * res :=
  let '(s', r) := upd_loop 6 (put_cb b) (client_rev (doc s)) None s in
  match r with
  | LOk => (set_wb s' (match b with Some x => (Alive, x) | None => (Tomb, 0) end), ROk)
  | _ => (s', res_of_lres r)
  end.

Definition gw_meta (s : state) : state * res :=
  let '(s', r) := upd_loop 6 meta_cb tt None s in (s', res_of_lres r).

(* GetDocumentWithRaw *)
Definition no_xattrs (d : bdoc) : bool :=
  match d_sync d, d_vv d, d_mou d with None, None, None => true | _, _, _ => false end.

Definition gw_read (s : state) : state * res :=
  let d := doc s in
  match d_st d with
  | Absent => (s, RNotFound)
  | _ =>
      if is_tomb d && no_xattrs d then (s, RNotFound)
      else if doc_is_sg_write d (raw_of d) then (s, if has_sync d then ROk else RNotFound)
      else
        let '(s', r) := import_run false (negb (is_alive d)) d (raw_of d) s in
        match r with
        | IImported | IAlready => (s', ROk)
        | IHlvErr => (s', ROther)
        | _ => (s', RNotFound)
        end
  end.

(* importListener.ImportFeedEvent on the event for a recorded document version *)
Definition gw_feed (k : N) (s : state) : state * res :=
  let ev := nth (N.to_nat k) (evs s) absent_doc in
  match d_st ev with
  | Absent => (s, RIgnored)
  | _ =>
      let isdel := is_tomb ev in
      if isdel && no_xattrs ev then (s, RIgnored)
      else
        match d_sync ev with
        | None => if isdel then (s, ROk)
                  else (fst (import_run true false ev (raw_of ev) s), ROk)
        | Some sy =>
            if sd_is_sg_write sy (d_cas ev) (body_crc ev) (d_vv ev)
            then ((if s_att sy then migrate ev sy s else s), ROk)
            else (fst (import_run true isdel ev (raw_of ev) s), ROk)
        end
  end.

Definition simple_step (o : op) (s : state) : state * res :=
  match o with
  | SdkSet b => (ext_set s b, ROk)
  | SdkDelete => ext_del s
  | SdkTouch => ext_touch s
  | LegacyWrite b => legacy_write s b
  | ForeignWrite b h => foreign_write s b h
  | GwWrite b => gw_put (Some b) s
  | GwDelete => gw_put None s
  | GwMetaOnly => gw_meta s
  | Read => gw_read s
  | Feed k => gw_feed k s
  | Race _ _ _ => (s, RIgnored)
  end.

End Procs.

Definition no_fire (s : state) : state := s.

(* LeakyDataStore update callback: the n-th completed attempt callback runs op x (once) *)
Definition fire1 (s : state) : state :=
  match hk s with
  | None => s
  | Some (n, x) =>
      if n =? 1 then fst (simple_step no_fire x (set_hk s None))
      else set_hk s (Some (N.pred n, x))
  end.

Definition is_gw_op (o : op) : bool :=
  match o with GwWrite _ | GwDelete | GwMetaOnly | Read | Feed _ => true | _ => false end.
Definition is_hook_op (o : op) : bool :=
  match o with SdkSet _ | SdkDelete | SdkTouch | Read | Feed _ => true | _ => false end.

(* one top-level op; the boolean says whether the interposed op of a race was executed *)
Definition step (s : state) (o : op) : state * res * bool :=
  let '(s', r, f) :=
    match o with
    | Race g n x =>
        if is_gw_op g && is_hook_op x && (1 <=? n)
        then let '(s1, r) := simple_step fire1 g (set_hk s (Some (n, x))) in
             (set_hk s1 None, r, match hk s1 with None => true | Some _ => false end)
        else (s, RIgnored, false)
    | _ => let '(s1, r) := simple_step no_fire o s in (s1, r, false)
    end in
  (push_ev s', r, f).

Fixpoint run (s : state) (ops : list op) : state :=
  match ops with [] => s | o :: r => run (fst (fst (step s o))) r end.

End Model.
