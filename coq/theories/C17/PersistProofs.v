(* C17 proofs, part 2: persistence, restart, status (model: Persist.v). *)
From SG Require Import Base.Prelude C20.SeqIdGen C20.SeqId C20.SeqIdOrder C20.SeqIdCodec
  C17.Checkpointer C17.CheckpointerProofs C17.Persist.
Open Scope N_scope.

(* ---------- order helpers ---------- *)
Lemma nothing_before_zero x : before x zero_seq = false.
Proof.
  destruct x as [t l s]. unfold before, Before, Before_fuel, zero_seq, mk; cbn [Before_f TriggeredBy LowSeq Seq].
  break_ifs; lia.
Qed.

Lemma sle_zero x : sle zero_seq x.
Proof. apply nothing_before_zero. Qed.

Lemma oseq_eqb_eq a b : oseq_eqb a b = true <-> a = b.
Proof.
  destruct a as [x|], b as [y|]; cbn; try (split; congruence).
  rewrite seqid_eqb_eq. split; congruence.
Qed.

(* ---------- put / setRetry ---------- *)
Lemma put_shape down d mrev h sq d' res : put down d mrev h sq = (d', res) ->
  (d' = d /\ forall r, res <> WOk r) \/ (exists r, d' = Some (mkDoc r h sq) /\ res = WOk r /\ down = false).
Proof.
  unfold put. destruct down; [intros H; inversion H; left; split; [reflexivity|discriminate]|].
  destruct d as [x|].
  - destruct (mrev =? d_rev x); intros H; inversion H; subst.
    + right; eexists; repeat split.
    + left; split; [reflexivity|discriminate].
  - destruct (mrev =? 0); intros H; inversion H; subst.
    + right; eexists; repeat split.
    + left; split; [reflexivity|discriminate].
Qed.

Lemma put_matching d h sq : exists r, put false d (rev_of d) h sq = (Some (mkDoc r h sq), WOk r).
Proof.
  unfold put, rev_of. destruct d as [x|].
  - rewrite N.eqb_refl. eexists; reflexivity.
  - cbn. eexists; reflexivity.
Qed.

Lemma set_retry_shape fuel : forall sd down d rev h sq d' res,
  set_retry fuel sd down d rev h sq = (d', res) ->
  (d' = d /\ res = None) \/ (exists r, d' = Some (mkDoc r h sq) /\ res = Some r /\ down = false).
Proof.
  induction fuel as [|f IH]; intros sd down d rev h sq d' res; cbn [set_retry].
  - intros H; inversion H; left; split; reflexivity.
  - destruct (put down d rev h sq) as [d1 r1] eqn:Hp.
    destruct (put_shape _ _ _ _ _ _ _ Hp) as [[-> Hno]|[r [-> [-> Hd]]]].
    + destruct r1 as [r| | |]; [exfalso; eapply Hno; reflexivity| | |]; intros H; exact (IH _ _ _ _ _ _ _ _ H).
    + intros H; inversion H; subst. right; exists r; repeat split.
Qed.

(* the local write goes through whatever rev id is remembered: at most one corrective round *)
Lemma set_retry_local_ok d rev h sq :
  exists r, set_retry retry_attempts SLocal false d rev h sq = (Some (mkDoc r h sq), Some r).
Proof.
  unfold retry_attempts. cbn [set_retry]. unfold put at 1. destruct d as [x|].
  - destruct (rev =? d_rev x) eqn:E; [eexists; reflexivity|].
    cbn [set_retry rev_of]. unfold put. rewrite N.eqb_refl. eexists; reflexivity.
  - destruct (rev =? 0) eqn:E; [eexists; reflexivity|].
    cbn [set_retry]. unfold put. cbn. eexists; reflexivity.
Qed.

(* the remote write goes through unless the document is gone while a rev id is remembered *)
Lemma set_retry_remote_ok d rev h sq : (d <> None \/ rev = 0) ->
  exists r, set_retry retry_attempts SRemote false d rev h sq = (Some (mkDoc r h sq), Some r).
Proof.
  intros Hc. unfold retry_attempts. cbn [set_retry]. unfold put at 1. destruct d as [x|].
  - destruct (rev =? d_rev x) eqn:E; [eexists; reflexivity|].
    cbn [set_retry rev_of]. unfold put. rewrite N.eqb_refl. eexists; reflexivity.
  - destruct Hc as [Hc| ->]; [congruence|]. cbn. eexists; reflexivity.
Qed.

Lemma set_retry_remote_gone fuel rev h sq : rev <> 0 ->
  set_retry fuel SRemote false None rev h sq = (None, None).
Proof.
  intros Hr. induction fuel as [|f IH]; cbn [set_retry]; [reflexivity|].
  unfold put. destruct (rev =? 0) eqn:E; [apply N.eqb_eq in E; congruence|]. exact IH.
Qed.

(* ---------- CheckpointNow ---------- *)
Definition holds (d : store) (h : N) (s : seqid) : Prop :=
  exists r, d = Some (mkDoc r h (Some (canon s))).

Record tick_spec (thr : N) (ld rd : bool) (w w' : world) (r : option seqid) : Prop := {
  (* the lists move exactly as in the list calculus *)
  ts_lists : exists ou, step thr (m_st (w_mem w)) Tick = (m_st (w_mem w'), ou) /\ ret ou = r;
  ts_hash : m_hash (w_mem w') = m_hash (w_mem w);
  (* nothing to checkpoint: nothing is written *)
  ts_none : r = None -> w_loc w' = w_loc w /\ w_rem w' = w_rem w /\ m_last (w_mem w') = m_last (w_mem w) /\
                        n_set (m_stats (w_mem w')) = n_set (m_stats (w_mem w));
  (* each document is left alone or holds the computed value under the current hash *)
  ts_loc : forall s, r = Some s -> w_loc w' = w_loc w \/ holds (w_loc w') (m_hash (w_mem w)) s;
  ts_rem : forall s, r = Some s -> w_rem w' = w_rem w \/ holds (w_rem w') (m_hash (w_mem w)) s;
  (* local first: the remote is written only after the local holds the value *)
  ts_order : forall s, r = Some s -> w_rem w' <> w_rem w -> holds (w_loc w') (m_hash (w_mem w)) s;
  (* the local write succeeds whenever the store is up, whatever rev id was remembered *)
  ts_loc_up : forall s, r = Some s -> ld = false -> holds (w_loc w') (m_hash (w_mem w)) s;
  ts_loc_down : forall s, r = Some s -> ld = true -> w_loc w' = w_loc w /\ w_rem w' = w_rem w;
  (* both up: the remote write succeeds unless the remote document vanished under a remembered rev id *)
  ts_rem_up : forall s, r = Some s -> ld = false -> rd = false -> (w_rem w <> None \/ m_rrev (w_mem w) = 0) ->
      holds (w_rem w') (m_hash (w_mem w)) s /\ m_last (w_mem w') = s /\
      n_set (m_stats (w_mem w')) = n_set (m_stats (w_mem w)) + 1;
  ts_rem_gone : forall s, r = Some s -> ld = false -> rd = false -> w_rem w = None -> m_rrev (w_mem w) <> 0 ->
      w_rem w' = None /\ m_last (w_mem w') = m_last (w_mem w) /\ m_rrev (w_mem w') = 0;
  (* lastCheckpointSeq and SetCheckpointCount move together, and only when both documents hold the value *)
  ts_last : (m_last (w_mem w') = m_last (w_mem w) /\ n_set (m_stats (w_mem w')) = n_set (m_stats (w_mem w))) \/
            (exists s, r = Some s /\ m_last (w_mem w') = s /\
                       n_set (m_stats (w_mem w')) = n_set (m_stats (w_mem w)) + 1 /\
                       holds (w_loc w') (m_hash (w_mem w)) s /\ holds (w_rem w') (m_hash (w_mem w)) s);
  (* the notification counters are not touched *)
  ts_counts : n_exp (m_stats (w_mem w')) = n_exp (m_stats (w_mem w)) /\
              n_proc (m_stats (w_mem w')) = n_proc (m_stats (w_mem w)) /\
              n_known (m_stats (w_mem w')) = n_known (m_stats (w_mem w)) /\
              n_hit (m_stats (w_mem w')) = n_hit (m_stats (w_mem w)) /\
              n_miss (m_stats (w_mem w')) = n_miss (m_stats (w_mem w))
}.

Ltac ts_simpl :=
  cbn [w_mem w_loc w_rem set_mem_st m_st m_hash m_last m_stats m_rrev m_lrev
       n_set n_exp n_proc n_known n_hit n_miss].
Ltac ts_auto Hstep :=
  ts_simpl; try discriminate; try tauto;
  try (eexists; split; [exact Hstep|reflexivity]);
  try (left; split; reflexivity);
  try (intros; congruence).

Lemma tick_ok thr ld rd w w' r : tick thr ld rd w = (w', r) -> tick_spec thr ld rd w w' r.
Proof.
  unfold tick. destruct w as [m L R]; cbn [w_mem w_loc w_rem].
  destruct (update_lists thr (expected (m_st m)) (processed (m_st m))) as [[r0 e] p] eqn:Hu.
  assert (Hstep : step thr (m_st m) Tick = (mkSt e p (lookup (m_st m)), obs r0 (mkSt e p (lookup (m_st m)))))
    by (cbn [step]; rewrite Hu; reflexivity).
  destruct r0 as [s|].
  2:{ intros H; inversion H; subst; clear H. constructor; ts_auto Hstep. }
  destruct (set_retry retry_attempts SLocal ld L (m_lrev m) (m_hash m) (Some (canon s))) as [L' lres] eqn:HL.
  pose proof (set_retry_shape _ _ _ _ _ _ _ _ _ HL) as HLs.
  destruct lres as [lr|].
  2:{ intros H; inversion H; subst; clear H.
      destruct HLs as [[-> _]|[r1 [_ [Hx _]]]]; [|discriminate].
      assert (Hld : ld = true).
      { destruct ld; [reflexivity|]. destruct (set_retry_local_ok L (m_lrev m) (m_hash m) (Some (canon s))) as [r1 Hr].
        rewrite Hr in HL; inversion HL. }
      constructor; ts_auto Hstep. }
  destruct HLs as [[_ Hx]|[r1 [-> [Hr1 Hld]]]]; [discriminate|]. inversion Hr1; subst r1; clear Hr1.
  destruct (set_retry retry_attempts SRemote rd R (m_rrev m) (m_hash m) (Some (canon s))) as [R' rres] eqn:HR.
  pose proof (set_retry_shape _ _ _ _ _ _ _ _ _ HR) as HRs.
  assert (HLh : holds (Some (mkDoc lr (m_hash m) (Some (canon s)))) (m_hash m) s) by (eexists; reflexivity).
  destruct rres as [rr|].
  2:{ intros H; inversion H; subst; clear H.
      destruct HRs as [[-> _]|[r1 [_ [Hx _]]]]; [|discriminate].
      constructor; ts_auto Hstep.
      - intros s0 E; inversion E; subst. right; exact HLh.
      - intros s0 E _ -> Hc. exfalso.
        destruct (set_retry_remote_ok R (m_rrev m) (m_hash m) (Some (canon s)) Hc) as [r1 Hr].
        rewrite Hr in HR; inversion HR. }
  destruct HRs as [[_ Hx]|[r1 [-> [Hr1 Hrd]]]]; [discriminate|]. inversion Hr1; subst r1; clear Hr1.
  assert (HRh : holds (Some (mkDoc rr (m_hash m) (Some (canon s)))) (m_hash m) s) by (eexists; reflexivity).
  intros H; inversion H; subst; clear H.
  constructor; ts_auto Hstep.
  - intros s0 E; inversion E; subst. right; exact HLh.
  - intros s0 E; inversion E; subst. right; exact HRh.
  - intros s0 E _ _ _; inversion E; subst. repeat split. exact HRh.
  - intros s0 E _ _ -> Hne. exfalso. rewrite set_retry_remote_gone in HR by exact Hne. inversion HR.
  - right. exists s. repeat split; [exact HLh|exact HRh].
Qed.

(* ---------- setLastCheckpointSeq ---------- *)
Lemma put_down d mrev h sq : put true d mrev h sq = (d, WErr).
Proof. reflexivity. Qed.

Record rollback_spec (wd : bool) (L R : store) (cp : option seqid) (L' R' : store) (lr rr : N) : Prop := {
  rb_pick : cp = seq_of L \/ cp = seq_of R;
  rb_lower : val_of cp = (if before (val_of (seq_of R)) (val_of (seq_of L)) then val_of (seq_of R) else val_of (seq_of L));
  rb_le_l : sle (val_of cp) (val_of (seq_of L));
  rb_le_r : sle (val_of cp) (val_of (seq_of R));
  rb_loc : L' = L \/ exists r, L' = Some (mkDoc r (hash_of R) (seq_of R));
  rb_rem : R' = R \/ exists r, R' = Some (mkDoc r (hash_of L) (seq_of L));
  rb_agree : wd = false -> seq_of L' = cp /\ seq_of R' = cp /\ lr = rev_of L' /\ rr = rev_of R';
  rb_down : wd = true -> L' = L /\ R' = R;
  rb_same : seq_of L = seq_of R -> L' = L /\ R' = R /\ lr = rev_of L /\ rr = rev_of R
}.

Lemma rollback_ok wd L R cp L' R' lr rr : rollback wd L R = (cp, L', R', lr, rr) -> rollback_spec wd L R cp L' R' lr rr.
Proof.
  unfold rollback. destruct (oseq_eqb (seq_of L) (seq_of R)) eqn:Heq.
  - apply oseq_eqb_eq in Heq. intros H; injection H as H1 H2 H3 H4 H5; subst cp L' R' lr rr.
    constructor; try tauto; try (rewrite <- Heq); try apply sle_refl.
    + destruct (before (val_of (seq_of L)) (val_of (seq_of L))); reflexivity.
    + intros _. repeat split; congruence.
  - assert (Hne : seq_of L <> seq_of R) by (intros E; apply oseq_eqb_eq in E; congruence).
    destruct (before (val_of (seq_of R)) (val_of (seq_of L))) eqn:Hb.
    + assert (Hle : sle (val_of (seq_of R)) (val_of (seq_of L))) by (apply before_asym; exact Hb).
      destruct wd.
      * rewrite put_down. intros H; injection H as H1 H2 H3 H4 H5; subst cp L' R' lr rr.
        constructor; try tauto; try discriminate; try apply sle_refl; try exact Hle; try (rewrite Hb; reflexivity); try (right; eexists; reflexivity); try (intros _; repeat split; reflexivity).
      * destruct (put_matching L (hash_of R) (seq_of R)) as [r Hp]. rewrite Hp.
        intros H; injection H as H1 H2 H3 H4 H5; subst cp L' R' lr rr.
        constructor; try tauto; try discriminate; try apply sle_refl; try exact Hle; try (rewrite Hb; reflexivity); try (right; eexists; reflexivity); try (intros _; repeat split; reflexivity).
    + assert (Hle : sle (val_of (seq_of L)) (val_of (seq_of R))) by exact Hb.
      destruct wd.
      * rewrite put_down. intros H; injection H as H1 H2 H3 H4 H5; subst cp L' R' lr rr.
        constructor; try tauto; try discriminate; try apply sle_refl; try exact Hle; try (rewrite Hb; reflexivity); try (right; eexists; reflexivity); try (intros _; repeat split; reflexivity).
      * destruct (put_matching R (hash_of L) (seq_of L)) as [r Hp]. rewrite Hp.
        intros H; injection H as H1 H2 H3 H4 H5; subst cp L' R' lr rr.
        constructor; try tauto; try discriminate; try apply sle_refl; try exact Hle; try (rewrite Hb; reflexivity); try (right; eexists; reflexivity); try (intros _; repeat split; reflexivity).
Qed.

Definition lower_of (L R : store) : seqid :=
  if before (val_of (seq_of R)) (val_of (seq_of L)) then val_of (seq_of R) else val_of (seq_of L).

Lemma resume_text_ok h wd L R :
  sle (val_of (resume_text h wd L R)) (val_of (seq_of L)) /\
  sle (val_of (resume_text h wd L R)) (val_of (seq_of R)) /\
  (resume_text h wd L R = None \/
   (hash_of L = h /\ hash_of R = h /\
    (resume_text h wd L R = seq_of L \/ resume_text h wd L R = seq_of R) /\
    val_of (resume_text h wd L R) = lower_of L R)) /\
  (hash_of L <> h \/ hash_of R <> h -> resume_text h wd L R = None) /\
  (hash_of L = h -> hash_of R = h -> val_of (resume_text h wd L R) = lower_of L R).
Proof.
  unfold resume_text, lower_of. destruct (rollback wd L R) as [[[[cp L'] R'] lr] rr] eqn:Hr.
  destruct (rollback_ok _ _ _ _ _ _ _ _ Hr) as [Hpick Hlow Hl Hrr _ _ _ _ _].
  destruct ((hash_of L =? h) && (hash_of R =? h)) eqn:Hh.
  - apply andb_true_iff in Hh. destruct Hh as [H1 H2]. apply N.eqb_eq in H1, H2.
    repeat split; try assumption.
    + right. repeat split; assumption.
    + intros [H|H]; congruence.
    + intros _ _; exact Hlow.
  - cbn [val_of]. repeat split; try apply sle_zero.
    + left; reflexivity.
    + intros H1 H2. rewrite H1, H2, !N.eqb_refl in Hh. discriminate.
Qed.

Record restart_spec (h : N) (wd : bool) (w w' : world) : Prop := {
  rs_last : m_last (w_mem w') = val_of (resume_text h wd (w_loc w) (w_rem w));
  rs_hash : m_hash (w_mem w') = h;
  rs_lists : m_st (w_mem w') = init;
  rs_roll : exists cp, rollback wd (w_loc w) (w_rem w) = (cp, w_loc w', w_rem w', m_lrev (w_mem w'), m_rrev (w_mem w'));
  rs_counts : n_exp (m_stats (w_mem w')) = 0 /\ n_proc (m_stats (w_mem w')) = 0 /\ n_known (m_stats (w_mem w')) = 0 /\
              n_set (m_stats (w_mem w')) = 0;
  rs_hit : (resume_text h wd (w_loc w) (w_rem w) <> None -> n_hit (m_stats (w_mem w')) = 1 /\ n_miss (m_stats (w_mem w')) = 0) /\
           (resume_text h wd (w_loc w) (w_rem w) = None -> n_hit (m_stats (w_mem w')) = 0 /\ n_miss (m_stats (w_mem w')) = 1)
}.

Lemma restart_ok h wd w : restart_spec h wd w (restart h wd w).
Proof.
  unfold restart. destruct (rollback wd (w_loc w) (w_rem w)) as [[[[cp L'] R'] lr] rr] eqn:Hr.
  constructor; cbn [w_mem w_loc w_rem m_last m_hash m_st m_lrev m_rrev m_stats].
  - reflexivity.
  - reflexivity.
  - reflexivity.
  - exists cp; exact Hr.
  - destruct (resume_text h wd (w_loc w) (w_rem w)); cbn; repeat split.
  - destruct (resume_text h wd (w_loc w) (w_rem w)); cbn; split; intros H; try congruence; split; reflexivity.
Qed.
