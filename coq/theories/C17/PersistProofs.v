(* C17 proofs, part 2: persistence, restart, status (model: Persist.v). *)
From SG Require Import Base.Prelude C20.SeqIdGen C20.SeqId C20.SeqIdOrder C20.SeqIdCodec
  C17.Checkpointer C17.CheckpointerProofs C17.Persist.
Open Scope N_scope.

(* ---------- order helpers ---------- *)
Lemma nothing_before_zero x : before x zero_seq = false.
Proof.
  destruct x as [t l s]. unfold before, Before, Before_fuel, zero_seq, mk; cbn [Before_f TriggeredBy LowSeq Seq].
  break_ifs; lia.
Qed.

Lemma sle_zero x : sle zero_seq x.
Proof. apply nothing_before_zero. Qed.

Lemma oseq_eqb_eq a b : oseq_eqb a b = true <-> a = b.
Proof.
  destruct a as [x|], b as [y|]; cbn; try (split; congruence).
  rewrite seqid_eqb_eq. split; congruence.
Qed.

(* ---------- put / setRetry ---------- *)
Lemma put_shape down d mrev h sq d' res : put down d mrev h sq = (d', res) ->
  (d' = d /\ forall r, res <> WOk r) \/ (exists r, d' = Some (mkDoc r h sq) /\ res = WOk r /\ down = false).
Proof.
  unfold put. destruct down; [intros H; inversion H; left; split; [reflexivity|discriminate]|].
  destruct d as [x|].
  - destruct (mrev =? d_rev x); intros H; inversion H; subst.
    + right; eexists; repeat split.
    + left; split; [reflexivity|discriminate].
  - destruct (mrev =? 0); intros H; inversion H; subst.
    + right; eexists; repeat split.
    + left; split; [reflexivity|discriminate].
Qed.

Lemma put_matching d h sq : exists r, put false d (rev_of d) h sq = (Some (mkDoc r h sq), WOk r).
Proof.
  unfold put, rev_of. destruct d as [x|].
  - rewrite N.eqb_refl. eexists; reflexivity.
  - cbn. eexists; reflexivity.
Qed.

Lemma set_retry_shape fuel : forall sd down d rev h sq d' res,
  set_retry fuel sd down d rev h sq = (d', res) ->
  (d' = d /\ res = None) \/ (exists r, d' = Some (mkDoc r h sq) /\ res = Some r /\ down = false).
Proof.
  induction fuel as [|f IH]; intros sd down d rev h sq d' res; cbn [set_retry].
  - intros H; inversion H; left; split; reflexivity.
  - destruct (put down d rev h sq) as [d1 r1] eqn:Hp.
    destruct (put_shape _ _ _ _ _ _ _ Hp) as [[-> Hno]|[r [-> [-> Hd]]]].
    + destruct r1 as [r| | |]; [exfalso; eapply Hno; reflexivity| | |]; intros H; exact (IH _ _ _ _ _ _ _ _ H).
    + intros H; inversion H; subst. right; exists r; repeat split.
Qed.

(* the local write goes through whatever rev id is remembered: at most one corrective round *)
Lemma set_retry_local_ok2 f d rev h sq :
  exists r, set_retry (S (S f)) SLocal false d rev h sq = (Some (mkDoc r h sq), Some r).
Proof.
  cbn [set_retry]. unfold put at 1. destruct d as [x|].
  - destruct (rev =? d_rev x) eqn:E; [eexists; reflexivity|].
    cbn [rev_of]. unfold put. rewrite N.eqb_refl. eexists; reflexivity.
  - destruct (rev =? 0) eqn:E; [eexists; reflexivity|].
    unfold put. cbn. eexists; reflexivity.
Qed.

Lemma set_retry_local_ok d rev h sq :
  exists r, set_retry retry_attempts SLocal false d rev h sq = (Some (mkDoc r h sq), Some r).
Proof. exact (set_retry_local_ok2 8 d rev h sq). Qed.

(* the remote write goes through unless the document is gone while a rev id is remembered *)
Lemma set_retry_remote_ok2 f d rev h sq : (d <> None \/ rev = 0) ->
  exists r, set_retry (S (S f)) SRemote false d rev h sq = (Some (mkDoc r h sq), Some r).
Proof.
  intros Hc. cbn [set_retry]. unfold put at 1. destruct d as [x|].
  - destruct (rev =? d_rev x) eqn:E; [eexists; reflexivity|].
    cbn [rev_of]. unfold put. rewrite N.eqb_refl. eexists; reflexivity.
  - destruct Hc as [Hc| ->]; [congruence|]. cbn. eexists; reflexivity.
Qed.

Lemma set_retry_remote_ok d rev h sq : (d <> None \/ rev = 0) ->
  exists r, set_retry retry_attempts SRemote false d rev h sq = (Some (mkDoc r h sq), Some r).
Proof. exact (set_retry_remote_ok2 8 d rev h sq). Qed.

Lemma set_retry_remote_gone fuel rev h sq : rev <> 0 ->
  set_retry fuel SRemote false None rev h sq = (None, None).
Proof.
  intros Hr. induction fuel as [|f IH]; cbn [set_retry]; [reflexivity|].
  unfold put. destruct (rev =? 0) eqn:E; [apply N.eqb_eq in E; congruence|]. exact IH.
Qed.

(* ---------- CheckpointNow ---------- *)
Definition holds (d : store) (h : N) (s : seqid) : Prop :=
  exists r, d = Some (mkDoc r h (Some (canon s))).

Record tick_spec (thr : N) (ld rd : bool) (w w' : world) (r : option seqid) : Prop := {
  (* the lists move exactly as in the list calculus *)
  ts_lists : exists ou, step thr (m_st (w_mem w)) Tick = (m_st (w_mem w'), ou) /\ ret ou = r;
  ts_hash : m_hash (w_mem w') = m_hash (w_mem w);
  (* nothing to checkpoint: nothing is written *)
  ts_none : r = None -> w_loc w' = w_loc w /\ w_rem w' = w_rem w /\ m_last (w_mem w') = m_last (w_mem w) /\
                        n_set (m_stats (w_mem w')) = n_set (m_stats (w_mem w));
  (* each document is left alone or holds the computed value under the current hash *)
  ts_loc : forall s, r = Some s -> w_loc w' = w_loc w \/ holds (w_loc w') (m_hash (w_mem w)) s;
  ts_rem : forall s, r = Some s -> w_rem w' = w_rem w \/ holds (w_rem w') (m_hash (w_mem w)) s;
  (* local first: the remote is written only after the local holds the value *)
  ts_order : forall s, r = Some s -> w_rem w' <> w_rem w -> holds (w_loc w') (m_hash (w_mem w)) s;
  (* the local write succeeds whenever the store is up, whatever rev id was remembered *)
  ts_loc_up : forall s, r = Some s -> ld = false -> holds (w_loc w') (m_hash (w_mem w)) s;
  ts_loc_down : forall s, r = Some s -> ld = true -> w_loc w' = w_loc w /\ w_rem w' = w_rem w;
  (* both up: the remote write succeeds unless the remote document vanished under a remembered rev id *)
  ts_rem_up : forall s, r = Some s -> ld = false -> rd = false -> (w_rem w <> None \/ m_rrev (w_mem w) = 0) ->
      holds (w_rem w') (m_hash (w_mem w)) s /\ m_last (w_mem w') = s /\
      n_set (m_stats (w_mem w')) = n_set (m_stats (w_mem w)) + 1;
  ts_rem_gone : forall s, r = Some s -> ld = false -> rd = false -> w_rem w = None -> m_rrev (w_mem w) <> 0 ->
      w_rem w' = None /\ m_last (w_mem w') = m_last (w_mem w) /\ m_rrev (w_mem w') = 0;
  (* lastCheckpointSeq and SetCheckpointCount move together, and only when both documents hold the value *)
  ts_last : (m_last (w_mem w') = m_last (w_mem w) /\ n_set (m_stats (w_mem w')) = n_set (m_stats (w_mem w))) \/
            (exists s, r = Some s /\ m_last (w_mem w') = s /\
                       n_set (m_stats (w_mem w')) = n_set (m_stats (w_mem w)) + 1 /\
                       holds (w_loc w') (m_hash (w_mem w)) s /\ holds (w_rem w') (m_hash (w_mem w)) s);
  (* the notification counters are not touched *)
  ts_counts : n_exp (m_stats (w_mem w')) = n_exp (m_stats (w_mem w)) /\
              n_proc (m_stats (w_mem w')) = n_proc (m_stats (w_mem w)) /\
              n_known (m_stats (w_mem w')) = n_known (m_stats (w_mem w)) /\
              n_hit (m_stats (w_mem w')) = n_hit (m_stats (w_mem w)) /\
              n_miss (m_stats (w_mem w')) = n_miss (m_stats (w_mem w))
}.

Ltac ts_simpl :=
  cbn [w_mem w_loc w_rem set_mem_st m_st m_hash m_last m_stats m_rrev m_lrev
       n_set n_exp n_proc n_known n_hit n_miss].
Ltac ts_auto Hstep :=
  ts_simpl; try discriminate; try tauto;
  try (eexists; split; [exact Hstep|reflexivity]);
  try (left; split; reflexivity);
  try (intros; congruence).

Lemma tick_ok thr ld rd w w' r : tick thr ld rd w = (w', r) -> tick_spec thr ld rd w w' r.
Proof.
  unfold tick. destruct w as [m L R]; cbn [w_mem w_loc w_rem].
  destruct (update_lists thr (expected (m_st m)) (processed (m_st m))) as [[r0 e] p] eqn:Hu.
  assert (Hstep : step thr (m_st m) Tick = (mkSt e p (lookup (m_st m)), obs r0 (mkSt e p (lookup (m_st m)))))
    by (cbn [step]; rewrite Hu; reflexivity).
  destruct r0 as [s|].
  2:{ intros H; inversion H; subst; clear H. constructor; ts_auto Hstep. }
  destruct (set_retry retry_attempts SLocal ld L (m_lrev m) (m_hash m) (Some (canon s))) as [L' lres] eqn:HL.
  pose proof (set_retry_shape _ _ _ _ _ _ _ _ _ HL) as HLs.
  destruct lres as [lr|].
  2:{ intros H; inversion H; subst; clear H.
      destruct HLs as [[-> _]|[r1 [_ [Hx _]]]]; [|discriminate].
      assert (Hld : ld = true).
      { destruct ld; [reflexivity|]. destruct (set_retry_local_ok L (m_lrev m) (m_hash m) (Some (canon s))) as [r1 Hr].
        rewrite Hr in HL; inversion HL. }
      constructor; ts_auto Hstep. }
  destruct HLs as [[_ Hx]|[r1 [-> [Hr1 Hld]]]]; [discriminate|]. inversion Hr1; subst r1; clear Hr1.
  destruct (set_retry retry_attempts SRemote rd R (m_rrev m) (m_hash m) (Some (canon s))) as [R' rres] eqn:HR.
  pose proof (set_retry_shape _ _ _ _ _ _ _ _ _ HR) as HRs.
  assert (HLh : holds (Some (mkDoc lr (m_hash m) (Some (canon s)))) (m_hash m) s) by (eexists; reflexivity).
  destruct rres as [rr|].
  2:{ intros H; inversion H; subst; clear H.
      destruct HRs as [[-> _]|[r1 [_ [Hx _]]]]; [|discriminate].
      constructor; ts_auto Hstep.
      - intros s0 E; inversion E; subst. right; exact HLh.
      - intros s0 E _ -> Hc. exfalso.
        destruct (set_retry_remote_ok R (m_rrev m) (m_hash m) (Some (canon s)) Hc) as [r1 Hr].
        rewrite Hr in HR; inversion HR. }
  destruct HRs as [[_ Hx]|[r1 [-> [Hr1 Hrd]]]]; [discriminate|]. inversion Hr1; subst r1; clear Hr1.
  assert (HRh : holds (Some (mkDoc rr (m_hash m) (Some (canon s)))) (m_hash m) s) by (eexists; reflexivity).
  intros H; inversion H; subst; clear H.
  constructor; ts_auto Hstep.
  - intros s0 E; inversion E; subst. right; exact HLh.
  - intros s0 E; inversion E; subst. right; exact HRh.
  - intros s0 E _ _ _; inversion E; subst. repeat split. exact HRh.
  - intros s0 E _ _ -> Hne. exfalso. rewrite set_retry_remote_gone in HR by exact Hne. inversion HR.
  - right. exists s. repeat split; [exact HLh|exact HRh].
Qed.

(* ---------- setLastCheckpointSeq ---------- *)
Lemma put_down d mrev h sq : put true d mrev h sq = (d, WErr).
Proof. reflexivity. Qed.

Record rollback_spec (wd : bool) (L R : store) (cp : option seqid) (L' R' : store) (lr rr : N) : Prop := {
  rb_pick : cp = seq_of L \/ cp = seq_of R;
  rb_lower : val_of cp = (if before (val_of (seq_of R)) (val_of (seq_of L)) then val_of (seq_of R) else val_of (seq_of L));
  rb_le_l : sle (val_of cp) (val_of (seq_of L));
  rb_le_r : sle (val_of cp) (val_of (seq_of R));
  rb_loc : L' = L \/ exists r, L' = Some (mkDoc r (hash_of R) (seq_of R));
  rb_rem : R' = R \/ exists r, R' = Some (mkDoc r (hash_of L) (seq_of L));
  rb_agree : wd = false -> seq_of L' = cp /\ seq_of R' = cp /\ lr = rev_of L' /\ rr = rev_of R';
  rb_down : wd = true -> L' = L /\ R' = R;
  rb_same : seq_of L = seq_of R -> L' = L /\ R' = R /\ lr = rev_of L /\ rr = rev_of R
}.

Lemma rollback_ok wd L R cp L' R' lr rr : rollback wd L R = (cp, L', R', lr, rr) -> rollback_spec wd L R cp L' R' lr rr.
Proof.
  unfold rollback. destruct (oseq_eqb (seq_of L) (seq_of R)) eqn:Heq.
  - apply oseq_eqb_eq in Heq. intros H; injection H as H1 H2 H3 H4 H5; subst cp L' R' lr rr.
    constructor; try tauto; try (rewrite <- Heq); try apply sle_refl.
    + destruct (before (val_of (seq_of L)) (val_of (seq_of L))); reflexivity.
    + intros _. repeat split; congruence.
  - assert (Hne : seq_of L <> seq_of R) by (intros E; apply oseq_eqb_eq in E; congruence).
    destruct (before (val_of (seq_of R)) (val_of (seq_of L))) eqn:Hb.
    + assert (Hle : sle (val_of (seq_of R)) (val_of (seq_of L))) by (apply before_asym; exact Hb).
      destruct wd.
      * rewrite put_down. intros H; injection H as H1 H2 H3 H4 H5; subst cp L' R' lr rr.
        constructor; try tauto; try discriminate; try apply sle_refl; try exact Hle; try (rewrite Hb; reflexivity); try (right; eexists; reflexivity); try (intros _; repeat split; reflexivity).
      * destruct (put_matching L (hash_of R) (seq_of R)) as [r Hp]. rewrite Hp.
        intros H; injection H as H1 H2 H3 H4 H5; subst cp L' R' lr rr.
        constructor; try tauto; try discriminate; try apply sle_refl; try exact Hle; try (rewrite Hb; reflexivity); try (right; eexists; reflexivity); try (intros _; repeat split; reflexivity).
    + assert (Hle : sle (val_of (seq_of L)) (val_of (seq_of R))) by exact Hb.
      destruct wd.
      * rewrite put_down. intros H; injection H as H1 H2 H3 H4 H5; subst cp L' R' lr rr.
        constructor; try tauto; try discriminate; try apply sle_refl; try exact Hle; try (rewrite Hb; reflexivity); try (right; eexists; reflexivity); try (intros _; repeat split; reflexivity).
      * destruct (put_matching R (hash_of L) (seq_of L)) as [r Hp]. rewrite Hp.
        intros H; injection H as H1 H2 H3 H4 H5; subst cp L' R' lr rr.
        constructor; try tauto; try discriminate; try apply sle_refl; try exact Hle; try (rewrite Hb; reflexivity); try (right; eexists; reflexivity); try (intros _; repeat split; reflexivity).
Qed.

Definition lower_of (L R : store) : seqid :=
  if before (val_of (seq_of R)) (val_of (seq_of L)) then val_of (seq_of R) else val_of (seq_of L).

Lemma resume_text_ok h wd L R :
  sle (val_of (resume_text h wd L R)) (val_of (seq_of L)) /\
  sle (val_of (resume_text h wd L R)) (val_of (seq_of R)) /\
  (resume_text h wd L R = None \/
   (hash_of L = h /\ hash_of R = h /\
    (resume_text h wd L R = seq_of L \/ resume_text h wd L R = seq_of R) /\
    val_of (resume_text h wd L R) = lower_of L R)) /\
  (hash_of L <> h \/ hash_of R <> h -> resume_text h wd L R = None) /\
  (hash_of L = h -> hash_of R = h -> val_of (resume_text h wd L R) = lower_of L R).
Proof.
  unfold resume_text, lower_of. destruct (rollback wd L R) as [[[[cp L'] R'] lr] rr] eqn:Hr.
  destruct (rollback_ok _ _ _ _ _ _ _ _ Hr) as [Hpick Hlow Hl Hrr _ _ _ _ _].
  destruct ((hash_of L =? h) && (hash_of R =? h)) eqn:Hh.
  - apply andb_true_iff in Hh. destruct Hh as [H1 H2]. apply N.eqb_eq in H1, H2.
    repeat split; try assumption.
    + right. repeat split; assumption.
    + intros [H|H]; congruence.
    + intros _ _; exact Hlow.
  - cbn [val_of]. repeat split; try apply sle_zero.
    + left; reflexivity.
    + intros H1 H2. rewrite H1, H2, !N.eqb_refl in Hh. discriminate.
Qed.

Record restart_spec (h : N) (wd : bool) (w w' : world) : Prop := {
  rs_last : m_last (w_mem w') = val_of (resume_text h wd (w_loc w) (w_rem w));
  rs_hash : m_hash (w_mem w') = h;
  rs_lists : m_st (w_mem w') = init;
  rs_roll : exists cp, rollback wd (w_loc w) (w_rem w) = (cp, w_loc w', w_rem w', m_lrev (w_mem w'), m_rrev (w_mem w'));
  rs_counts : n_exp (m_stats (w_mem w')) = 0 /\ n_proc (m_stats (w_mem w')) = 0 /\ n_known (m_stats (w_mem w')) = 0 /\
              n_set (m_stats (w_mem w')) = 0;
  rs_hit : (resume_text h wd (w_loc w) (w_rem w) <> None -> n_hit (m_stats (w_mem w')) = 1 /\ n_miss (m_stats (w_mem w')) = 0) /\
           (resume_text h wd (w_loc w) (w_rem w) = None -> n_hit (m_stats (w_mem w')) = 0 /\ n_miss (m_stats (w_mem w')) = 1)
}.

Lemma restart_ok h wd w : restart_spec h wd w (restart h wd w).
Proof.
  unfold restart. destruct (rollback wd (w_loc w) (w_rem w)) as [[[[cp L'] R'] lr] rr] eqn:Hr.
  constructor; cbn [w_mem w_loc w_rem m_last m_hash m_st m_lrev m_rrev m_stats].
  - reflexivity.
  - reflexivity.
  - reflexivity.
  - exists cp; exact Hr.
  - destruct (resume_text h wd (w_loc w) (w_rem w)); cbn; repeat split.
  - destruct (resume_text h wd (w_loc w) (w_rem w)); cbn; split; intros H; try congruence; split; reflexivity.
Qed.

(* ---------- what holds of every history, whatever the peer does ---------- *)
Definition doc_ok (rets : list (N * seqid)) (d : store) : Prop :=
  forall x c, d = Some x -> d_seq x = Some c -> exists s, c = canon s /\ In (d_hash x, s) rets.

Lemma doc_ok_mono rets rets' d : (forall p, In p rets -> In p rets') -> doc_ok rets d -> doc_ok rets' d.
Proof. intros Hm Hd x c Hx Hc. destruct (Hd x c Hx Hc) as [s [E Hin]]. exists s; split; [exact E|apply Hm; exact Hin]. Qed.

Lemma doc_ok_none rets : doc_ok rets None.
Proof. intros x c H; discriminate. Qed.

Lemma doc_ok_holds rets d h s : holds d h s -> In (h, s) rets -> doc_ok rets d.
Proof.
  intros [r ->] Hin x c Hx Hc. inversion Hx; subst; clear Hx. cbn in Hc. inversion Hc; subst.
  exists s; split; [reflexivity|exact Hin].
Qed.

Lemma doc_ok_copy rets d r : doc_ok rets d -> doc_ok rets (Some (mkDoc r (hash_of d) (seq_of d))).
Proof.
  intros Hd x c Hx Hc. inversion Hx; subst; clear Hx. cbn [d_seq d_hash] in *.
  destruct d as [y|]; cbn [seq_of hash_of] in *; [|discriminate]. exact (Hd y c eq_refl Hc).
Qed.

Lemma doc_ok_touch rets d : doc_ok rets d -> doc_ok rets (touch d).
Proof.
  intros Hd x c Hx Hc. destruct d as [y|]; cbn [touch] in Hx; [|discriminate].
  inversion Hx; subst; clear Hx. cbn [d_seq d_hash] in *. exact (Hd y c eq_refl Hc).
Qed.

Record UInv (w : world) (g : ghost) : Prop := {
  ui_lists : Inv (m_st (w_mem w)) (g_Ei g) (g_Pi g);
  ui_loc : doc_ok (g_rets g) (w_loc w);
  ui_rem : doc_ok (g_rets g) (w_rem w)
}.

Lemma UInv_init : UInv winit ghost0.
Proof. constructor; cbn; [exact Inv_init|apply doc_ok_none|apply doc_ok_none]. Qed.

Lemma pstep_PL thr w lo : lo <> Tick ->
  pstep thr w (PL lo) =
  (mkW (set_mem_st (w_mem w) (fst (step thr (m_st (w_mem w)) lo)) (bump lo (m_stats (w_mem w)))) (w_loc w) (w_rem w), None, None).
Proof. destruct lo; intros H; try reflexivity. congruence. Qed.

Lemma gstep_PL w lo r g : lo <> Tick ->
  gstep w (PL lo) r g =
  mkG (tag (m_hash (w_mem w)) (op_expected lo) ++ g_E g) (tag (m_hash (w_mem w)) (op_processed (m_st (w_mem w)) lo) ++ g_P g)
      (op_expected lo ++ g_Ei g) (op_processed (m_st (w_mem w)) lo ++ g_Pi g) (g_rets g).
Proof. destruct lo; intros H; try reflexivity. congruence. Qed.

Definition is_tick (o : pop) : option (bool * bool) :=
  match o with PL Tick => Some (false, false) | PTick a b => Some (a, b) | _ => None end.

Lemma pstep_tick thr w o a b : is_tick o = Some (a, b) -> pstep thr w o = (tick thr a b w, None).
Proof. destruct o as [lo| | | | | | |]; try discriminate; [destruct lo; try discriminate|]; intros H; inversion H; reflexivity. Qed.

Lemma gstep_tick w o a b r g : is_tick o = Some (a, b) ->
  gstep w o r g = match r with
                  | Some s => mkG (g_E g) (g_P g) (g_Ei g) (g_Pi g) ((m_hash (w_mem w), s) :: g_rets g)
                  | None => g
                  end.
Proof. destruct o as [lo| | | | | | |]; try discriminate; [destruct lo; try discriminate|]; intros H; reflexivity. Qed.

Lemma Inv_sort st E P : Inv st E P -> Inv (mkSt (sort (expected st)) (processed st) (lookup st)) E P.
Proof.
  intros [I1 I2 I3]. constructor; cbn [expected processed].
  - intros e He. destruct (I1 e He) as [H|H]; [left; apply sort_perm; exact H|right; exact H].
  - exact I2.
  - intros x Hx. apply I3. apply sort_perm. exact Hx.
Qed.

(* the position a restart resumes from is zero or the text of a value some tick computed under the same hash *)
Definition resume_from_rets (h : N) (rets : list (N * seqid)) (r : seqid) : Prop :=
  r = zero_seq \/ exists s, r = canon s /\ In (h, s) rets.

Lemma pstep_uinv thr w g o w' r st : UInv w g -> pstep thr w o = (w', r, st) ->
  UInv w' (gstep w o r g) /\
  (forall s, r = Some s -> safe_at s (g_Ei g) (g_Pi g)) /\
  (forall h wd, o = PRestart h wd -> resume_from_rets h (g_rets g) (m_last (w_mem w'))).
Proof.
  intros [U1 U2 U3] Hstep.
  destruct (is_tick o) as [[a b]|] eqn:Htick.
  { rewrite (pstep_tick _ _ _ _ _ Htick) in Hstep. rewrite (gstep_tick _ _ _ _ _ _ Htick).
    destruct (tick thr a b w) as [w1 r1] eqn:Ht. inversion Hstep; subst; clear Hstep.
    destruct (tick_ok _ _ _ _ _ _ Ht) as [[ou [Hl Hr]] _ _ Hloc Hrem _ _ _ _ _ _ _].
    destruct (step_inv _ _ _ _ _ _ _ U1 Hl) as [HI Hsafe]. cbn [op_expected op_processed app] in *.
    split; [|split].
    - destruct r as [s|].
      + constructor; cbn [g_Ei g_Pi g_rets].
        * exact HI.
        * destruct (Hloc s eq_refl) as [-> |Hh].
          -- eapply doc_ok_mono; [|exact U2]. intros p Hp; right; exact Hp.
          -- eapply doc_ok_holds; [exact Hh|left; reflexivity].
        * destruct (Hrem s eq_refl) as [-> |Hh].
          -- eapply doc_ok_mono; [|exact U3]. intros p Hp; right; exact Hp.
          -- eapply doc_ok_holds; [exact Hh|left; reflexivity].
      + destruct (tick_ok _ _ _ _ _ _ Ht) as [_ _ Hnone _ _ _ _ _ _ _ _ _].
        destruct (Hnone eq_refl) as [E1 [E2 _]]. constructor; [exact HI|rewrite E1; exact U2|rewrite E2; exact U3].
    - intros s E. apply Hsafe. rewrite Hr. exact E.
    - intros h wd E; subst o; discriminate. }
  destruct o as [lo|ld rd|h wd| | | | |]; try discriminate.
  - assert (Hnt : lo <> Tick) by (intros ->; discriminate).
    rewrite (pstep_PL _ _ _ Hnt) in Hstep. rewrite (gstep_PL _ _ _ _ Hnt). inversion Hstep; subst; clear Hstep.
    destruct (step thr (m_st (w_mem w)) lo) as [st' ou] eqn:Hl.
    destruct (step_inv _ _ _ _ _ _ _ U1 Hl) as [HI _].
    split; [|split; [discriminate|discriminate]].
    constructor; cbn [w_mem w_loc w_rem set_mem_st m_st g_Ei g_Pi g_rets fst]; assumption.
  - cbn [pstep] in Hstep. inversion Hstep; subst; clear Hstep. cbn [gstep].
    destruct (restart_ok h wd w) as [Hlast _ Hlists [cp Hroll] _ _].
    destruct (rollback_ok _ _ _ _ _ _ _ _ Hroll) as [_ _ _ _ Hl Hr _ _ _].
    split; [|split; [discriminate|]].
    + constructor; cbn [g_Ei g_Pi g_rets].
      * rewrite Hlists. exact Inv_init.
      * destruct Hl as [-> |[r ->]]; [exact U2|apply doc_ok_copy; exact U3].
      * destruct Hr as [-> |[r ->]]; [exact U3|apply doc_ok_copy; exact U2].
    + intros h0 wd0 E; inversion E; subst h0 wd0; clear E. rewrite Hlast.
      destruct (resume_text_ok h wd (w_loc w) (w_rem w)) as [_ [_ [[-> |[H1 [H2 [Hp _]]]] _]]]; [left; reflexivity|].
      destruct (resume_text h wd (w_loc w) (w_rem w)) as [c|] eqn:Hc; [|left; reflexivity].
      right. cbn [val_of].
      destruct Hp as [Hp|Hp]; symmetry in Hp.
      * destruct (w_loc w) as [x|] eqn:Hx; cbn [seq_of hash_of] in *; [|discriminate].
        destruct (U2 x c eq_refl Hp) as [s [E Hin]]. exists s; split; [exact E|rewrite <- H1; exact Hin].
      * destruct (w_rem w) as [x|] eqn:Hx; cbn [seq_of hash_of] in *; [|discriminate].
        destruct (U3 x c eq_refl Hp) as [s [E Hin]]. exists s; split; [exact E|rewrite <- H2; exact Hin].
  - cbn [pstep] in Hstep. inversion Hstep; subst; clear Hstep. cbn [gstep].
    split; [|split; discriminate]. constructor; cbn [w_mem w_loc w_rem]; [exact U1|apply doc_ok_none|exact U3].
  - cbn [pstep] in Hstep. inversion Hstep; subst; clear Hstep. cbn [gstep].
    split; [|split; discriminate]. constructor; cbn [w_mem w_loc w_rem]; [exact U1|exact U2|apply doc_ok_none].
  - cbn [pstep] in Hstep. inversion Hstep; subst; clear Hstep. cbn [gstep].
    split; [|split; discriminate]. constructor; cbn [w_mem w_loc w_rem]; [exact U1|apply doc_ok_touch; exact U2|exact U3].
  - cbn [pstep] in Hstep. inversion Hstep; subst; clear Hstep. cbn [gstep].
    split; [|split; discriminate]. constructor; cbn [w_mem w_loc w_rem]; [exact U1|exact U2|apply doc_ok_touch; exact U3].
  - cbn [pstep] in Hstep. inversion Hstep; subst; clear Hstep. cbn [gstep].
    split; [|split; discriminate]. constructor; cbn [w_mem w_loc w_rem set_mem_st m_st]; [apply Inv_sort; exact U1|exact U2|exact U3].
Qed.

Lemma pstep_ret_tick thr w o w' s st : pstep thr w o = (w', Some s, st) -> exists a b, is_tick o = Some (a, b).
Proof.
  destruct (is_tick o) as [[a b]|] eqn:Ht; [intros _; exists a, b; reflexivity|].
  destruct o as [lo| | | | | | |]; try discriminate; try (cbn [pstep]; intros H; inversion H; fail).
  assert (Hnt : lo <> Tick) by (intros ->; discriminate).
  rewrite (pstep_PL _ _ _ Hnt). intros H; inversion H.
Qed.

Lemma prun_uinv thr ops : forall w g, UInv w g ->
  forall sn, In sn (prun thr w g ops) ->
    UInv (ps_w sn) (ps_g sn) /\
    (forall s, ps_ret sn = Some s -> safe_at s (g_Ei (ps_g sn)) (g_Pi (ps_g sn))) /\
    (forall h wd, ps_op sn = PRestart h wd -> resume_from_rets h (g_rets (ps_g sn)) (m_last (w_mem (ps_w sn)))).
Proof.
  induction ops as [|o ops IH]; intros w g HU sn Hin; cbn [prun] in Hin; [destruct Hin|].
  destruct (pstep thr w o) as [[w' r] st] eqn:Hstep.
  destruct (pstep_uinv _ _ _ _ _ _ _ HU Hstep) as [HU' [Hsafe Hres]].
  destruct Hin as [<-|Hin]; [|exact (IH _ _ HU' sn Hin)].
  cbn [ps_w ps_g ps_ret ps_op]. split; [exact HU'|split].
  - intros s E. subst r. destruct (pstep_ret_tick _ _ _ _ _ _ Hstep) as [a [b Ht]].
    rewrite (gstep_tick _ _ _ _ _ _ Ht). cbn [g_Ei g_Pi]. apply Hsafe; reflexivity.
  - intros h wd E. subst o. cbn [gstep g_rets]. apply (Hres h wd); reflexivity.
Qed.

(* ---------- what holds when the peer keeps its side ([peer_ok]) ---------- *)
Lemma in_tag h' x h l : In (h', x) (tag h l) <-> h' = h /\ In x l.
Proof.
  unfold tag. rewrite in_map_iff. split.
  - intros [y [E Hy]]. inversion E; subst. split; [reflexivity|exact Hy].
  - intros [-> Hx]. exists x; split; [reflexivity|exact Hx].
Qed.

Record GInv (w : world) (g : ghost) : Prop := {
  gi_u : UInv w g;
  gi_Ei : forall x, In x (g_Ei g) -> In (m_hash (w_mem w), x) (g_E g);
  gi_Pi : forall x, In x (g_Pi g) -> In (m_hash (w_mem w), x) (g_P g);
  gi_canon : forall h x, In (h, x) (g_E g) -> canon x = x;
  (* every value a tick ever computed under h is handled and strictly below everything unhandled under h *)
  gi_rets : forall h s, In (h, s) (g_rets g) ->
              In (h, s) (g_E g) /\ In (h, s) (g_P g) /\
              forall e, In (h, e) (g_E g) -> ~ In (h, e) (g_P g) -> before s e = true;
  (* the current Checkpointer has been told of everything unhandled below what it has been told *)
  gi_gap : forall x e, In x (g_Ei g) -> In (m_hash (w_mem w), e) (g_E g) -> ~ In (m_hash (w_mem w), e) (g_P g) ->
              before e x = true -> In e (g_Ei g)
}.

Lemma GInv_init : GInv winit ghost0.
Proof. constructor; cbn; try tauto; try exact UInv_init; try (intros h s []).
Qed.

Lemma pstep_ginv thr w g o w' r st :
  GInv w g -> (forall lo, o = PL lo -> peer_step_ok (m_hash (w_mem w)) g lo) ->
  pstep thr w o = (w', r, st) -> GInv w' (gstep w o r g).
Proof.
  intros HG Hpeer Hstep. pose proof HG as [G0 G1 G2 G3 G4 G5].
  destruct (pstep_uinv _ _ _ _ _ _ _ G0 Hstep) as [HU' [Hsafe _]].
  destruct (is_tick o) as [[a b]|] eqn:Htick.
  { rewrite (pstep_tick _ _ _ _ _ Htick) in Hstep. rewrite (gstep_tick _ _ _ _ _ _ Htick) in *.
    destruct (tick thr a b w) as [w1 r1] eqn:Ht. inversion Hstep; subst; clear Hstep.
    destruct (tick_ok _ _ _ _ _ _ Ht) as [_ Hh _ _ _ _ _ _ _ _ _ _].
    destruct r as [s|]; [|constructor; rewrite ?Hh; assumption].
    constructor; cbn [g_E g_P g_Ei g_Pi g_rets] in *; rewrite ?Hh; try assumption.
    intros h s0 [E|Hin]; [|apply G4; exact Hin]. inversion E; subst h s0; clear E.
    destruct (Hsafe s eq_refl) as [HsE [HsP Hall]].
    split; [apply G1; exact HsE|]. split; [apply G2; exact HsP|].
    intros e HeE HeP. destruct (before s e) eqn:Hb; [reflexivity|exfalso].
    destruct (sle_cases e s Hb) as [Hbe| ->]; [|apply HeP; apply G2; exact HsP].
    apply HeP. apply G2. apply Hall; [|left; exact Hbe].
    exact (G5 s e HsE HeE HeP Hbe). }
  destruct o as [lo|ld rd|h wd| | | | |]; try discriminate.
  - assert (Hnt : lo <> Tick) by (intros ->; discriminate).
    specialize (Hpeer lo eq_refl).
    rewrite (pstep_PL _ _ _ Hnt) in Hstep. rewrite (gstep_PL _ _ _ _ Hnt) in *. inversion Hstep; subst; clear Hstep.
    set (h := m_hash (w_mem w)) in *.
    constructor; cbn [w_mem set_mem_st m_hash g_E g_P g_Ei g_Pi g_rets]; fold h.
    + exact HU'.
    + intros x Hx. apply in_or_app. apply in_app_or in Hx. destruct Hx as [Hx|Hx]; [left; apply in_tag; tauto|right; apply G1; exact Hx].
    + intros x Hx. apply in_or_app. apply in_app_or in Hx. destruct Hx as [Hx|Hx]; [left; apply in_tag; tauto|right; apply G2; exact Hx].
    + intros h0 x Hx. apply in_app_or in Hx. destruct Hx as [Hx|Hx]; [|eapply G3; exact Hx].
      apply in_tag in Hx. destruct Hx as [_ Hx]. destruct (Hpeer x Hx) as [Hc _]. exact Hc.
    + intros h0 s Hs. destruct (G4 h0 s Hs) as [HsE [HsP Hbelow]].
      split; [apply in_or_app; right; exact HsE|]. split; [apply in_or_app; right; exact HsP|].
      intros e HeE HeP. assert (HeP0 : ~ In (h0, e) (g_P g)) by (intros H; apply HeP; apply in_or_app; right; exact H).
      apply in_app_or in HeE. destruct HeE as [HeE|HeE]; [|apply Hbelow; assumption].
      apply in_tag in HeE. destruct HeE as [-> HeE].
      destruct (Hpeer e HeE) as [_ [[Hp|Hord] _]]; [contradiction|].
      specialize (Hord s Hs). destruct (sle_cases s e Hord) as [Hb| ->]; [exact Hb|contradiction].
    + intros x e Hx HeE HeP Hb.
      assert (HeP0 : ~ In (h, e) (g_P g)) by (intros H; apply HeP; apply in_or_app; right; exact H).
      apply in_or_app. apply in_app_or in HeE. destruct HeE as [HeE|HeE]; [left; apply in_tag in HeE; tauto|].
      apply in_app_or in Hx. destruct Hx as [Hx|Hx].
      * destruct (Hpeer x Hx) as [_ [_ Hgap]]. specialize (Hgap e HeE HeP0 Hb).
        apply in_app_or in Hgap. tauto.
      * right. exact (G5 x e Hx HeE HeP0 Hb).
  - cbn [pstep] in Hstep. inversion Hstep; subst; clear Hstep. cbn [gstep] in *.
    constructor; cbn [g_E g_P g_Ei g_Pi g_rets]; try assumption.
    + intros x Hx; destruct Hx.
    + intros x Hx; destruct Hx.
    + intros x e Hx; destruct Hx.
  - cbn [pstep] in Hstep. inversion Hstep; subst; clear Hstep. cbn [gstep] in *. constructor; assumption.
  - cbn [pstep] in Hstep. inversion Hstep; subst; clear Hstep. cbn [gstep] in *. constructor; assumption.
  - cbn [pstep] in Hstep. inversion Hstep; subst; clear Hstep. cbn [gstep] in *. constructor; assumption.
  - cbn [pstep] in Hstep. inversion Hstep; subst; clear Hstep. cbn [gstep] in *. constructor; assumption.
  - cbn [pstep] in Hstep. inversion Hstep; subst; clear Hstep. cbn [gstep] in *. constructor; assumption.
Qed.

Lemma prun_ginv thr ops : forall w g, GInv w g -> peer_ok_from thr w g ops ->
  forall sn, In sn (prun thr w g ops) -> GInv (ps_w sn) (ps_g sn).
Proof.
  induction ops as [|o ops IH]; intros w g HG Hpeer sn Hin; cbn [prun peer_ok_from] in *; [destruct Hin|].
  destruct (pstep thr w o) as [[w' r] st] eqn:Hstep. destruct Hpeer as [Hp Hrest].
  assert (HG' : GInv w' (gstep w o r g)).
  { eapply pstep_ginv; [exact HG| |exact Hstep]. intros lo ->. exact Hp. }
  destruct Hin as [<-|Hin]; [exact HG'|exact (IH _ _ HG' Hrest sn Hin)].
Qed.

(* RESTART NEVER SKIPS *)
Lemma restart_never_skips thr ops : peer_ok thr ops ->
  forall sn h wd, In sn (prun0 thr ops) -> ps_op sn = PRestart h wd ->
  forall e, In (h, e) (g_E (ps_g sn)) -> ~ In (h, e) (g_P (ps_g sn)) ->
    sle (m_last (w_mem (ps_w sn))) e /\
    (m_last (w_mem (ps_w sn)) = zero_seq \/ before (m_last (w_mem (ps_w sn))) e = true).
Proof.
  intros Hpeer sn h wd Hin Hop e HeE HeP.
  pose proof (prun_ginv thr ops winit ghost0 GInv_init Hpeer sn Hin) as [_ _ _ G3 G4 _].
  destruct (prun_uinv thr ops winit ghost0 UInv_init sn Hin) as [_ [_ Hres]].
  destruct (Hres h wd Hop) as [-> |[s [Hr Hs]]].
  - split; [apply sle_zero|left; reflexivity].
  - destruct (G4 h s Hs) as [HsE [_ Hbelow]]. rewrite (G3 h s HsE) in Hr. rewrite Hr.
    pose proof (Hbelow e HeE HeP) as Hb. split; [apply before_asym; exact Hb|right; exact Hb].
Qed.

(* ---------- statistics and status ---------- *)
Definition counts_ok (m : ckp) (acc : list pop) : Prop :=
  n_exp (m_stats m) = count_exp acc /\ n_proc (m_stats m) = count_proc acc /\ n_known (m_stats m) = count_known acc.

Lemma count_exp_snoc acc o : count_exp (acc ++ [o]) =
  match o with PL (Expect l) => count_exp acc + len l | PL (ExpectDocs l) => count_exp acc + N.of_nat (length l) | _ => count_exp acc end.
Proof. unfold count_exp. rewrite fold_left_app. reflexivity. Qed.
Lemma count_proc_snoc acc o : count_proc (acc ++ [o]) =
  match o with PL (Processed _) | PL (ProcessedDoc _ _) => count_proc acc + 1 | _ => count_proc acc end.
Proof. unfold count_proc. rewrite fold_left_app. reflexivity. Qed.
Lemma count_known_snoc acc o : count_known (acc ++ [o]) =
  match o with PL (Known l) => count_known acc + len l | _ => count_known acc end.
Proof. unfold count_known. rewrite fold_left_app. reflexivity. Qed.

Lemma pstep_counts thr w o w' r st acc : counts_ok (w_mem w) acc -> pstep thr w o = (w', r, st) ->
  counts_ok (w_mem w') (if is_restart o then [] else acc ++ [o]).
Proof.
  intros [C1 [C2 C3]] Hstep. unfold counts_ok.
  destruct (is_tick o) as [[a b]|] eqn:Htick.
  { rewrite (pstep_tick _ _ _ _ _ Htick) in Hstep.
    destruct (tick thr a b w) as [w1 r1] eqn:Ht. inversion Hstep; subst; clear Hstep.
    destruct (tick_ok _ _ _ _ _ _ Ht) as [_ _ _ _ _ _ _ _ _ _ _ [T1 [T2 [T3 _]]]].
    rewrite T1, T2, T3.
    destruct o as [lo| | | | | | |]; try discriminate; [destruct lo; try discriminate|]; cbn [is_restart];
      rewrite count_exp_snoc, count_proc_snoc, count_known_snoc; tauto. }
  destruct o as [lo|ld rd|h wd| | | | |]; try discriminate; cbn [is_restart].
  - assert (Hnt : lo <> Tick) by (intros ->; discriminate).
    rewrite (pstep_PL _ _ _ Hnt) in Hstep. inversion Hstep; subst; clear Hstep.
    rewrite count_exp_snoc, count_proc_snoc, count_known_snoc.
    cbn [w_mem set_mem_st m_stats]. destruct lo; cbn [bump n_exp n_proc n_known]; try congruence; repeat split; congruence.
  - cbn [pstep] in Hstep. inversion Hstep; subst; clear Hstep.
    destruct (restart_ok h wd w) as [_ _ _ _ [R1 [R2 [R3 _]]] _]. rewrite R1, R2, R3. repeat split.
  - cbn [pstep] in Hstep. inversion Hstep; subst; clear Hstep.
    rewrite count_exp_snoc, count_proc_snoc, count_known_snoc. cbn [w_mem]. tauto.
  - cbn [pstep] in Hstep. inversion Hstep; subst; clear Hstep.
    rewrite count_exp_snoc, count_proc_snoc, count_known_snoc. cbn [w_mem]. tauto.
  - cbn [pstep] in Hstep. inversion Hstep; subst; clear Hstep.
    rewrite count_exp_snoc, count_proc_snoc, count_known_snoc. cbn [w_mem]. tauto.
  - cbn [pstep] in Hstep. inversion Hstep; subst; clear Hstep.
    rewrite count_exp_snoc, count_proc_snoc, count_known_snoc. cbn [w_mem]. tauto.
  - cbn [pstep] in Hstep. inversion Hstep; subst; clear Hstep.
    rewrite count_exp_snoc, count_proc_snoc, count_known_snoc. cbn [w_mem set_mem_st m_stats]. tauto.
Qed.

Lemma pexec_counts thr ops : forall w acc, counts_ok (w_mem w) acc ->
  counts_ok (w_mem (pexec thr w ops)) (since_restart acc ops).
Proof.
  induction ops as [|o ops IH]; intros w acc HC; cbn [pexec fold_left since_restart]; [exact HC|].
  destruct (pstep thr w o) as [[w' r] st] eqn:Hstep. cbn [fst].
  pose proof (pstep_counts _ _ _ _ _ _ _ HC Hstep) as HC'.
  destruct (is_restart o); exact (IH _ _ HC').
Qed.

Lemma stats_count_history thr ops :
  counts_ok (w_mem (pexec thr winit ops)) (since_restart [] ops).
Proof. apply pexec_counts. repeat split. Qed.

(* the status sequence is what the next tick would hand to _setCheckpoints, else the last checkpoint *)
Lemma safe_processed_next thr m :
  safe_processed m =
  match fst (fst (update_lists thr (expected (m_st m)) (processed (m_st m)))) with
  | Some s => s
  | None => m_last m
  end.
Proof.
  unfold safe_processed, update_lists, trim.
  destruct (span_proc (sort (expected (m_st m))) (processed (m_st m))) as [pre rest]. cbn [fst].
  destruct (last_opt pre) as [x|].
  - destruct (thr <? len rest); [destruct (compact rest _)|]; reflexivity.
  - destruct (thr <? len (sort (expected (m_st m)))); [destruct (compact _ _)|]; reflexivity.
Qed.

Lemma status_safe m E P : Inv (m_st m) E P -> safe_processed m = m_last m \/ safe_at (safe_processed m) E P.
Proof.
  intros HI. rewrite (safe_processed_next 0 m).
  destruct (step 0 (m_st m) Tick) as [st' ou] eqn:Hstep.
  destruct (step_inv _ _ _ _ _ _ _ HI Hstep) as [_ Hsafe]. cbn [op_expected op_processed app] in Hsafe.
  cbn [step] in Hstep. destruct (update_lists 0 (expected (m_st m)) (processed (m_st m))) as [[r e] p].
  inversion Hstep; subst; clear Hstep. cbn [fst ret obs] in *.
  destruct r as [s|]; [right; apply Hsafe; reflexivity|left; reflexivity].
Qed.

Lemma prun_pre thr ops : forall w g, UInv w g -> forall sn, In sn (prun thr w g ops) ->
  exists g0, UInv (ps_pre sn) g0 /\ ps_g sn = gstep (ps_pre sn) (ps_op sn) (ps_ret sn) g0 /\
             pstep thr (ps_pre sn) (ps_op sn) = (ps_w sn, ps_ret sn, ps_status sn).
Proof.
  induction ops as [|o ops IH]; intros w g HU sn Hin; cbn [prun] in Hin; [destruct Hin|].
  destruct (pstep thr w o) as [[w' r] st] eqn:Hstep.
  destruct Hin as [<-|Hin].
  - exists g. split; [exact HU|split; [reflexivity|exact Hstep]].
  - destruct (pstep_uinv _ _ _ _ _ _ _ HU Hstep) as [HU' _]. exact (IH _ _ HU' sn Hin).
Qed.

Lemma status_is_safe thr ops sn x : In sn (prun0 thr ops) -> ps_status sn = Some (Some x) ->
  ps_op sn = PStatus /\
  x = safe_processed (w_mem (ps_pre sn)) /\
  (x = m_last (w_mem (ps_pre sn)) \/ safe_at x (g_Ei (ps_g sn)) (g_Pi (ps_g sn))).
Proof.
  intros Hin Hst. destruct (prun_pre thr ops winit ghost0 UInv_init sn Hin) as [g0 [[U1 _ _] [Hg Hstep]]].
  rewrite Hst in Hstep.
  destruct (ps_op sn) as [lo|ld rd|h wd| | | | |] eqn:Hop.
  - destruct (is_tick (PL lo)) as [[a b]|] eqn:Ht.
    + rewrite (pstep_tick _ _ _ _ _ Ht) in Hstep. inversion Hstep.
    + assert (Hnt : lo <> Tick) by (intros ->; discriminate). rewrite (pstep_PL _ _ _ Hnt) in Hstep. inversion Hstep.
  - cbn [pstep] in Hstep. inversion Hstep.
  - cbn [pstep] in Hstep. inversion Hstep.
  - cbn [pstep] in Hstep. inversion Hstep.
  - cbn [pstep] in Hstep. inversion Hstep.
  - cbn [pstep] in Hstep. inversion Hstep.
  - cbn [pstep] in Hstep. inversion Hstep.
  - cbn [pstep] in Hstep. inversion Hstep as [[Hw Hr Hh]]. cbn [gstep] in Hg. rewrite Hg.
    unfold high_seq in Hh. destruct (0 <? Seq (safe_processed (w_mem (ps_pre sn)))); inversion Hh; subst x.
    split; [reflexivity|]. split; [reflexivity|]. apply status_safe. exact U1.
Qed.

(* ---------- boolean reflection of the peer contract (for the non-vacuity example) ---------- *)
Definition pair_mem (h : N) (x : seqid) (l : list (N * seqid)) : bool :=
  existsb (fun p => (fst p =? h) && seqid_eqb (snd p) x) l.

Lemma pair_mem_In h x l : pair_mem h x l = true <-> In (h, x) l.
Proof.
  unfold pair_mem. rewrite existsb_exists. split.
  - intros [[h' y] [Hin Hb]]. cbn [fst snd] in Hb. apply andb_true_iff in Hb. destruct Hb as [H1 H2].
    apply N.eqb_eq in H1. apply seqid_eqb_eq in H2. subst. exact Hin.
  - intros Hin. exists (h, x). split; [exact Hin|]. cbn [fst snd]. rewrite N.eqb_refl. cbn. apply seqid_eqb_eq. reflexivity.
Qed.

Definition peer_step_okb (h : N) (g : ghost) (lo : op) : bool :=
  forallb (fun x =>
    seqid_eqb (canon x) x &&
    (pair_mem h x (g_P g) || forallb (fun p => negb (fst p =? h) || negb (before x (snd p))) (g_rets g)) &&
    forallb (fun p => negb (fst p =? h) || pair_mem h (snd p) (g_P g) || negb (before (snd p) x) ||
                      mem (snd p) (g_Ei g ++ op_expected lo)) (g_E g))
  (op_expected lo).

Lemma peer_step_okb_ok h g lo : peer_step_okb h g lo = true -> peer_step_ok h g lo.
Proof.
  unfold peer_step_okb, peer_step_ok. rewrite forallb_forall. intros H x Hx.
  specialize (H x Hx). apply andb_true_iff in H. destruct H as [H H3]. apply andb_true_iff in H. destruct H as [H1 H2].
  split; [apply seqid_eqb_eq; exact H1|]. split.
  - apply orb_true_iff in H2. destruct H2 as [H2|H2]; [left; apply pair_mem_In; exact H2|right].
    rewrite forallb_forall in H2. intros s Hs. specialize (H2 (h, s) Hs). cbn [fst snd] in H2.
    rewrite N.eqb_refl in H2. cbn in H2. destruct (before x s); [discriminate|reflexivity].
  - rewrite forallb_forall in H3. intros e HeE HeP Hb. specialize (H3 (h, e) HeE). cbn [fst snd] in H3.
    rewrite N.eqb_refl, Hb in H3. cbn in H3.
    destruct (pair_mem h e (g_P g)) eqn:Hp; [exfalso; apply HeP; apply pair_mem_In; exact Hp|].
    cbn in H3. apply mem_In. exact H3.
Qed.

Fixpoint peer_okb_from (thr : N) (w : world) (g : ghost) (ops : list pop) : bool :=
  match ops with
  | [] => true
  | o :: rest =>
      (match o with PL lo => peer_step_okb (m_hash (w_mem w)) g lo | _ => true end) &&
      match pstep thr w o with
      | (w', r, _) => peer_okb_from thr w' (gstep w o r g) rest
      end
  end.

Lemma peer_okb_from_ok thr ops : forall w g, peer_okb_from thr w g ops = true -> peer_ok_from thr w g ops.
Proof.
  induction ops as [|o ops IH]; intros w g H; cbn [peer_okb_from peer_ok_from] in *; [exact I|].
  apply andb_true_iff in H. destruct H as [H1 H2]. split.
  - destruct o; try exact I. apply peer_step_okb_ok. exact H1.
  - destruct (pstep thr w o) as [[w' r] st]. apply IH. exact H2.
Qed.

Lemma peer_okb_ok thr ops : peer_okb_from thr winit ghost0 ops = true -> peer_ok thr ops.
Proof. apply peer_okb_from_ok. Qed.
