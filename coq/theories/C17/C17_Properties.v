(* C17 -- Replication checkpoints never run ahead of processed changes.
   Nothing but the property theorems.  [run0 thr ops] is the model of the Checkpointer
   (Checkpointer.v) started empty with compaction threshold [thr] and driven by the operation list
   [ops]; each entry carries the value returned for persistence ([ret]), and the ghost sets [s_E]
   (every sequence the replicator was told to expect so far) and [s_P] (every sequence completely
   processed or reported as already known so far).  [before] is SequenceID.Before (C20).
   All statements quantify over every threshold (below and above it) and every operation list:
   any interleaving of expect / processed / already-known notifications and ticks, duplicates and
   compound sequence values included. *)
From SG Require Import Base.Prelude C20.SeqIdGen C20.SeqId C17.Checkpointer C17.CheckpointerProofs.
Open Scope N_scope.

(* SAFETY (first sentence of the property), unconditional: whenever a tick returns [s] for persistence,
   every sequence ever expected that is before or equal to [s] has been processed or was already known *)
Theorem C17_checkpoint_safe : forall thr ops sn s,
  In sn (run0 thr ops) -> ret (s_out sn) = Some s ->
  forall e, In e (s_E sn) -> (before e s = true \/ e = s) -> In e (s_P sn).
Proof. intros thr ops sn s Hin Hr. exact (proj2 (proj2 (run_safe thr ops init [] [] Inv_init sn Hin s Hr))). Qed.
Print Assumptions C17_checkpoint_safe.

(* the persisted position is itself a sequence that was expected and has been handled *)
Theorem C17_checkpoint_is_handled_expected : forall thr ops sn s,
  In sn (run0 thr ops) -> ret (s_out sn) = Some s -> In s (s_E sn) /\ In s (s_P sn).
Proof.
  intros thr ops sn s Hin Hr. destruct (run_safe thr ops init [] [] Inv_init sn Hin s Hr) as [H1 [H2 _]].
  split; assumption.
Qed.
Print Assumptions C17_checkpoint_is_handled_expected.

(* RESTART (third sentence), at the moment of persisting, unconditional: a peer resuming after [s]
   re-sends everything after [s]; every expected sequence not yet handled is after [s], so none is skipped,
   and whatever else is re-sent had been handled *)
Theorem C17_restart_no_skip : forall thr ops sn s,
  In sn (run0 thr ops) -> ret (s_out sn) = Some s ->
  forall e, In e (s_E sn) -> In e (s_P sn) \/ before s e = true.
Proof.
  intros thr ops sn s Hin Hr e He.
  destruct (run_safe thr ops init [] [] Inv_init sn Hin s Hr) as [_ [_ Hs]].
  destruct (before s e) eqn:Hb; [right; reflexivity|left]. apply Hs; [exact He|apply sle_cases; exact Hb].
Qed.
Print Assumptions C17_restart_no_skip.

(* MONOTONICITY (second half of the first sentence) under the explicit feed-order hypothesis: if nothing
   newly expected is [before] a checkpoint already returned, the returned checkpoints never decrease.
   WITHOUT the hypothesis the statement is false of the unchanged code: C17_Refuted.v *)
Theorem C17_checkpoint_monotone : forall thr ops,
  feed_ordered (run0 thr ops) -> StronglySorted sle (returns (run0 thr ops)).
Proof.
  intros thr ops H. refine (proj1 (run_mono thr ops init [] [] [] _ H)). intros x s [].
Qed.
Print Assumptions C17_checkpoint_monotone.

(* the same from a condition on the inputs alone: the announced sequences never decrease *)
Theorem C17_in_order_feed_is_feed_ordered : forall thr ops, in_order_feed ops -> feed_ordered (run0 thr ops).
Proof.
  intros thr ops H. apply run_in_order; [exact Inv_init|intros s []|exact H|intros x e _ []].
Qed.
Print Assumptions C17_in_order_feed_is_feed_ordered.

Theorem C17_checkpoint_monotone_in_order_feed : forall thr ops,
  in_order_feed ops -> StronglySorted sle (returns (run0 thr ops)).
Proof. intros thr ops H. apply C17_checkpoint_monotone. apply C17_in_order_feed_is_feed_ordered. exact H. Qed.
Print Assumptions C17_checkpoint_monotone_in_order_feed.

(* RESTART at any later moment, under feed order: for every checkpoint [s] persisted so far (not only the
   last one) every sequence expected up to now and not yet handled is after [s] *)
Theorem C17_restart_no_skip_later : forall thr ops t1 b t2 s,
  feed_ordered (run0 thr ops) -> run0 thr ops = t1 ++ b :: t2 -> In s (returns (t1 ++ [b])) ->
  forall e, In e (s_E b) -> In e (s_P b) \/ before s e = true.
Proof.
  intros thr ops t1 b t2 s Hfo Hsplit Hs e He.
  refine (run_restart thr ops init [] [] [] Inv_init _ _ Hfo t1 b t2 Hsplit s (or_introl Hs) e He).
  - intros ? ? [].
  - intros ? [].
Qed.
Print Assumptions C17_restart_no_skip_later.

(* EXACTNESS of a tick on any state (so the safety theorems are not satisfied by lagging behind): the value
   returned is the greatest expected sequence up to which everything expected is processed, what stays
   expected is at or above it, the processed marks at or below it are released, and nothing is returned only
   when the smallest expected sequence is unprocessed (or nothing is expected) *)
Theorem C17_tick_exact : forall thr st st' ou, step thr st Tick = (st', ou) ->
  match ret ou with
  | Some s =>
      In s (expected st) /\ In s (processed st) /\
      (forall x, In x (expected st) -> (before x s = true \/ x = s) -> In x (processed st)) /\
      (forall y, In y (expected st) ->
         (forall x, In x (expected st) -> (before x y = true \/ x = y) -> In x (processed st)) -> sle y s) /\
      (forall x, In x (expected st') -> In x (expected st) /\ sle s x) /\
      (forall x, In x (expected st) -> (before x s = true \/ x = s) -> ~ In x (processed st'))
  | None =>
      expected st = [] \/
      exists m, In m (expected st) /\ ~ In m (processed st) /\ forall x, In x (expected st) -> sle m x
  end.
Proof.
  intros thr st st' ou H. cbn [step] in H.
  destruct (update_lists thr (expected st) (processed st)) as [[r e2] p2] eqn:Hu.
  inversion H; subst; clear H. cbn [ret obs expected].
  destruct (update_lists_spec _ _ _ _ _ _ Hu) as [S1 S2 S3 S4 S5 S6 S7 S8 S9 S10].
  destruct r as [s|].
  - split; [apply S4; reflexivity|]. split; [apply S5; reflexivity|].
    split; [apply S7; reflexivity|]. split; [apply S8; reflexivity|].
    split; [|cbn [processed]; apply S10; reflexivity].
    intros x Hx. split; [apply S1; exact Hx|apply (S6 s eq_refl); exact Hx].
  - apply S9; reflexivity.
Qed.
Print Assumptions C17_tick_exact.

(* The property text at full strength also demands monotonicity with no hypothesis on the feed.  That
   statement is kept here; it is REFUTED for the unchanged code (C17_Refuted.v, witness
   expect 20, processed 20, tick, expect 5, processed 5, tick), so what is proved is the partial form
   below: safety always, monotonicity when the feed is ordered. *)
Definition C17_full_statement : Prop :=
  forall thr ops,
    (forall sn s, In sn (run0 thr ops) -> ret (s_out sn) = Some s ->
       forall e, In e (s_E sn) -> (before e s = true \/ e = s) -> In e (s_P sn)) /\
    StronglySorted sle (returns (run0 thr ops)).

Theorem C17_statement_partial : forall thr ops,
  (forall sn s, In sn (run0 thr ops) -> ret (s_out sn) = Some s ->
     forall e, In e (s_E sn) -> (before e s = true \/ e = s) -> In e (s_P sn)) /\
  (feed_ordered (run0 thr ops) -> StronglySorted sle (returns (run0 thr ops))).
Proof.
  intros thr ops. split; [intros sn s; apply C17_checkpoint_safe|apply C17_checkpoint_monotone].
Qed.
Print Assumptions C17_statement_partial.

(* non-vacuity: an ordered feed with compound tokens (1::3, 2:1), out-of-order completion, a tick that
   returns a checkpoint while a later expected sequence is still unprocessed, above the threshold *)
Definition c17_example_ops : list op :=
  [Expect [mk 0 0 1; mk 0 1 3; mk 2 0 1]; Processed (mk 2 0 1); Processed (mk 0 0 1); Tick;
   Expect [mk 0 0 2; mk 0 0 3]; Known [mk 0 0 4]; Processed (mk 0 1 3); Tick; Processed (mk 0 0 3); Tick].

Example C17_nonvacuous :
  in_order_feed c17_example_ops /\ feed_ordered (run0 1 c17_example_ops) /\
  returns (run0 1 c17_example_ops) = [mk 0 0 1; mk 2 0 1] /\
  map (fun sn => lenE (s_out sn)) (run0 1 c17_example_ops) = [3; 3; 3; 2; 4; 5; 5; 3; 3; 2].
Proof.
  assert (H : in_order_feed c17_example_ops) by (apply sorted_le_b_ok; vm_compute; reflexivity).
  split; [exact H|]. split; [apply C17_in_order_feed_is_feed_ordered; exact H|].
  split; vm_compute; reflexivity.
Qed.
