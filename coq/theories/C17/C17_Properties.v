(* C17 -- Replication checkpoints never run ahead of processed changes.
   Nothing but the property theorems.  [run0 thr ops] is the model of the Checkpointer
   (Checkpointer.v) started empty with compaction threshold [thr] and driven by the operation list
   [ops]; each entry carries the value returned for persistence ([ret]), and the ghost sets [s_E]
   (every sequence the replicator was told to expect so far) and [s_P] (every sequence completely
   processed or reported as already known so far).  [before] is SequenceID.Before (C20).
   All statements quantify over every threshold (below and above it) and every operation list:
   any interleaving of expect / processed / already-known notifications and ticks, duplicates and
   compound sequence values included. *)
From SG Require Import Base.Prelude C20.SeqIdGen C20.SeqId C20.SeqIdOrder C20.SeqIdCodec C17.Checkpointer C17.CheckpointerProofs
  C17.Persist C17.PersistProofs C17.RegressProofs.
Open Scope N_scope.

(* SAFETY (first sentence of the property), unconditional: whenever a tick returns [s] for persistence,
   every sequence ever expected that is before or equal to [s] has been processed or was already known *)
Theorem C17_checkpoint_safe : forall thr ops sn s,
  In sn (run0 thr ops) -> ret (s_out sn) = Some s ->
  forall e, In e (s_E sn) -> (before e s = true \/ e = s) -> In e (s_P sn).
Proof. intros thr ops sn s Hin Hr. exact (proj2 (proj2 (run_safe thr ops init [] [] Inv_init sn Hin s Hr))). Qed.
Print Assumptions C17_checkpoint_safe.

(* the persisted position is itself a sequence that was expected and has been handled *)
Theorem C17_checkpoint_is_handled_expected : forall thr ops sn s,
  In sn (run0 thr ops) -> ret (s_out sn) = Some s -> In s (s_E sn) /\ In s (s_P sn).
Proof.
  intros thr ops sn s Hin Hr. destruct (run_safe thr ops init [] [] Inv_init sn Hin s Hr) as [H1 [H2 _]].
  split; assumption.
Qed.
Print Assumptions C17_checkpoint_is_handled_expected.

(* RESTART (third sentence), at the moment of persisting, unconditional: a peer resuming after [s]
   re-sends everything after [s]; every expected sequence not yet handled is after [s], so none is skipped,
   and whatever else is re-sent had been handled *)
Theorem C17_restart_no_skip : forall thr ops sn s,
  In sn (run0 thr ops) -> ret (s_out sn) = Some s ->
  forall e, In e (s_E sn) -> In e (s_P sn) \/ before s e = true.
Proof.
  intros thr ops sn s Hin Hr e He.
  destruct (run_safe thr ops init [] [] Inv_init sn Hin s Hr) as [_ [_ Hs]].
  destruct (before s e) eqn:Hb; [right; reflexivity|left]. apply Hs; [exact He|apply sle_cases; exact Hb].
Qed.
Print Assumptions C17_restart_no_skip.

(* MONOTONICITY (second half of the first sentence) under the explicit feed-order hypothesis: if nothing
   newly expected is [before] a checkpoint already returned, the returned checkpoints never decrease.
   WITHOUT the hypothesis the statement is false of the unchanged code: C17_Refuted.v *)
Theorem C17_checkpoint_monotone : forall thr ops,
  feed_ordered (run0 thr ops) -> StronglySorted sle (returns (run0 thr ops)).
Proof.
  intros thr ops H. refine (proj1 (run_mono thr ops init [] [] [] _ H)). intros x s [].
Qed.
Print Assumptions C17_checkpoint_monotone.

(* the same from a condition on the inputs alone: the announced sequences never decrease *)
Theorem C17_in_order_feed_is_feed_ordered : forall thr ops, in_order_feed ops -> feed_ordered (run0 thr ops).
Proof.
  intros thr ops H. apply run_in_order; [exact Inv_init|intros s []|exact H|intros x e _ []].
Qed.
Print Assumptions C17_in_order_feed_is_feed_ordered.

Theorem C17_checkpoint_monotone_in_order_feed : forall thr ops,
  in_order_feed ops -> StronglySorted sle (returns (run0 thr ops)).
Proof. intros thr ops H. apply C17_checkpoint_monotone. apply C17_in_order_feed_is_feed_ordered. exact H. Qed.
Print Assumptions C17_checkpoint_monotone_in_order_feed.

(* RESTART at any later moment, under feed order: for every checkpoint [s] persisted so far (not only the
   last one) every sequence expected up to now and not yet handled is after [s] *)
Theorem C17_restart_no_skip_later : forall thr ops t1 b t2 s,
  feed_ordered (run0 thr ops) -> run0 thr ops = t1 ++ b :: t2 -> In s (returns (t1 ++ [b])) ->
  forall e, In e (s_E b) -> In e (s_P b) \/ before s e = true.
Proof.
  intros thr ops t1 b t2 s Hfo Hsplit Hs e He.
  refine (run_restart thr ops init [] [] [] Inv_init _ _ Hfo t1 b t2 Hsplit s (or_introl Hs) e He).
  - intros ? ? [].
  - intros ? [].
Qed.
Print Assumptions C17_restart_no_skip_later.

(* EXACTNESS of a tick on any state (so the safety theorems are not satisfied by lagging behind): the value
   returned is the greatest expected sequence up to which everything expected is processed, what stays
   expected is at or above it, the processed marks at or below it are released, and nothing is returned only
   when the smallest expected sequence is unprocessed (or nothing is expected) *)
Theorem C17_tick_exact : forall thr st st' ou, step thr st Tick = (st', ou) ->
  match ret ou with
  | Some s =>
      In s (expected st) /\ In s (processed st) /\
      (forall x, In x (expected st) -> (before x s = true \/ x = s) -> In x (processed st)) /\
      (forall y, In y (expected st) ->
         (forall x, In x (expected st) -> (before x y = true \/ x = y) -> In x (processed st)) -> sle y s) /\
      (forall x, In x (expected st') -> In x (expected st) /\ sle s x) /\
      (forall x, In x (expected st) -> (before x s = true \/ x = s) -> ~ In x (processed st'))
  | None =>
      expected st = [] \/
      exists m, In m (expected st) /\ ~ In m (processed st) /\ forall x, In x (expected st) -> sle m x
  end.
Proof.
  intros thr st st' ou H. cbn [step] in H.
  destruct (update_lists thr (expected st) (processed st)) as [[r e2] p2] eqn:Hu.
  inversion H; subst; clear H. cbn [ret obs expected].
  destruct (update_lists_spec _ _ _ _ _ _ Hu) as [S1 S2 S3 S4 S5 S6 S7 S8 S9 S10].
  destruct r as [s|].
  - split; [apply S4; reflexivity|]. split; [apply S5; reflexivity|].
    split; [apply S7; reflexivity|]. split; [apply S8; reflexivity|].
    split; [|cbn [processed]; apply S10; reflexivity].
    intros x Hx. split; [apply S1; exact Hx|apply (S6 s eq_refl); exact Hx].
  - apply S9; reflexivity.
Qed.
Print Assumptions C17_tick_exact.

(* The property text at full strength also demands monotonicity with no hypothesis on the feed.  That
   statement is kept here; it is REFUTED for the unchanged code (C17_Refuted.v, witness
   expect 20, processed 20, tick, expect 5, processed 5, tick), so what is proved is the partial form
   below: safety always, monotonicity when the feed is ordered. *)
Definition C17_full_statement : Prop :=
  forall thr ops,
    (forall sn s, In sn (run0 thr ops) -> ret (s_out sn) = Some s ->
       forall e, In e (s_E sn) -> (before e s = true \/ e = s) -> In e (s_P sn)) /\
    StronglySorted sle (returns (run0 thr ops)).

Theorem C17_statement_partial : forall thr ops,
  (forall sn s, In sn (run0 thr ops) -> ret (s_out sn) = Some s ->
     forall e, In e (s_E sn) -> (before e s = true \/ e = s) -> In e (s_P sn)) /\
  (feed_ordered (run0 thr ops) -> StronglySorted sle (returns (run0 thr ops))).
Proof.
  intros thr ops. split; [intros sn s; apply C17_checkpoint_safe|apply C17_checkpoint_monotone].
Qed.
Print Assumptions C17_statement_partial.

(* ====================================================================================================
   PERSISTENCE, RESTART, STATUS (model: Persist.v).  [prun0 thr ops] runs a history of notifications,
   CheckpointNow calls with either store failing ([PTick ldown rdown]; a crash between the two writes of
   _setCheckpoints is [PTick false true] followed by [PRestart]), restarts ([PRestart h wdown]: a new
   Checkpointer with config hash h over the same two documents), deletions and foreign rewrites of either
   document and status calls, from two missing documents.  Each entry carries the world before and after
   the call, the value the tick handed to _setCheckpoints ([ps_ret]) and the ghost history: [g_E]/[g_P]
   = (config hash, sequence) ever announced / ever processed or already known; [g_Ei]/[g_Pi] = the same
   for the current Checkpointer only; [g_rets] = (hash, value) of every value a tick computed.
   ==================================================================================================== *)

(* CheckpointNow, exactly: the lists move as in the list calculus; nothing is written when there is nothing to
   checkpoint; the local document is written first and - whatever rev id is remembered - always when its store
   is up; the remote one only after it, and when both stores are up unless the remote document vanished under
   a remembered rev id (the peer's 404 is not recognised by setRetry: that tick gives up, the next one
   re-creates the document); lastCheckpointSeq and SetCheckpointCount move only when both documents hold the
   value under the current config hash.  (Fields of [tick_spec]: PersistProofs.v.) *)
Theorem C17_tick_persist_exact : forall thr ldown rdown w w' r,
  tick thr ldown rdown w = (w', r) -> tick_spec thr ldown rdown w w' r.
Proof. exact tick_ok. Qed.
Print Assumptions C17_tick_persist_exact.

(* LOCAL / REMOTE MISMATCH IS SAFE: for ANY two documents (crash between the writes, failed roll-backs,
   deletions, foreign rewrites, another configuration's checkpoint) a new Checkpointer never starts above
   either stored position; when both carry its config hash it starts from the lower of the two; when the
   roll-back write goes through the two documents then hold the same text and the remembered rev ids are
   the documents' revs; each document is left alone or becomes a copy of the other *)
Theorem C17_local_remote_mismatch_is_safe : forall h wdown w,
  let w' := restart h wdown w in
  let r := m_last (w_mem w') in
  sle r (val_of (seq_of (w_loc w))) /\ sle r (val_of (seq_of (w_rem w))) /\
  (hash_of (w_loc w) = h -> hash_of (w_rem w) = h -> r = lower_of (w_loc w) (w_rem w)) /\
  (wdown = false -> seq_of (w_loc w') = seq_of (w_rem w') /\
                    m_lrev (w_mem w') = rev_of (w_loc w') /\ m_rrev (w_mem w') = rev_of (w_rem w')) /\
  (w_loc w' = w_loc w \/ exists n, w_loc w' = Some (mkDoc n (hash_of (w_rem w)) (seq_of (w_rem w)))) /\
  (w_rem w' = w_rem w \/ exists n, w_rem w' = Some (mkDoc n (hash_of (w_loc w)) (seq_of (w_loc w)))).
Proof.
  intros h wd w. cbv zeta. destruct (restart_ok h wd w) as [Hlast _ _ [cp Hroll] _ _].
  destruct (rollback_ok _ _ _ _ _ _ _ _ Hroll) as [_ _ _ _ Hl Hr Hag _ _].
  destruct (resume_text_ok h wd (w_loc w) (w_rem w)) as [H1 [H2 [_ [_ H5]]]]. rewrite Hlast.
  split; [exact H1|]. split; [exact H2|]. split; [exact H5|]. split; [|split; assumption].
  intros E. destruct (Hag E) as [A1 [A2 [A3 A4]]]. split; [congruence|split; assumption].
Qed.
Print Assumptions C17_local_remote_mismatch_is_safe.

(* the "lower of the two" is the minimum in SequenceID.Before (C20's order on tokens of every shape: seq,
   trig:seq, low::seq, low:trig:seq) - not in any numeric projection such as SafeSequence, which orders
   4 and 7:3 the other way round (C17_Refuted.lower_by_safe_sequence_would_skip) *)
Theorem C17_mismatch_lower_is_before_minimum : forall L R,
  (lower_of L R = val_of (seq_of L) \/ lower_of L R = val_of (seq_of R)) /\
  before (val_of (seq_of L)) (lower_of L R) = false /\ before (val_of (seq_of R)) (lower_of L R) = false.
Proof.
  intros L R. unfold lower_of. destruct (before (val_of (seq_of R)) (val_of (seq_of L))) eqn:Hb.
  - split; [right; reflexivity|]. split; [apply before_asym; exact Hb|apply before_irrefl].
  - split; [left; reflexivity|]. split; [apply before_irrefl|exact Hb].
Qed.
Print Assumptions C17_mismatch_lower_is_before_minimum.

(* CONFIG CHANGE RESETS: a document missing or stamped with another config hash makes the new Checkpointer
   start from zero and count a miss; conversely a non-zero start means both documents carry its hash.  (The
   first tick that stores then stamps both documents with the new hash: C17_tick_persist_exact.) *)
Theorem C17_config_change_resets : forall h wdown w,
  let m' := w_mem (restart h wdown w) in
  ((hash_of (w_loc w) <> h \/ hash_of (w_rem w) <> h) ->
     m_last m' = zero_seq /\ n_miss (m_stats m') = 1 /\ n_hit (m_stats m') = 0) /\
  (m_last m' <> zero_seq -> hash_of (w_loc w) = h /\ hash_of (w_rem w) = h) /\
  m_hash m' = h /\ n_hit (m_stats m') + n_miss (m_stats m') = 1 /\ m_st m' = init.
Proof.
  intros h wd w. cbv zeta. destruct (restart_ok h wd w) as [Hlast Hh Hl _ _ [Hhit Hmiss]].
  destruct (resume_text_ok h wd (w_loc w) (w_rem w)) as [_ [_ [H3 [H4 _]]]]. rewrite Hlast.
  split; [|split; [|split; [exact Hh|split; [|exact Hl]]]].
  - intros Hne. rewrite (H4 Hne) in *. destruct (Hmiss eq_refl) as [A B]. repeat split; assumption.
  - intros Hnz. destruct H3 as [E|[A [B _]]]; [rewrite E in Hnz; exfalso; apply Hnz; reflexivity|split; assumption].
  - destruct (resume_text h wd (w_loc w) (w_rem w)) as [c|].
    + destruct Hhit as [A B]; [discriminate|]. rewrite A, B. reflexivity.
    + destruct (Hmiss eq_refl) as [A B]. rewrite A, B. reflexivity.
Qed.
Print Assumptions C17_config_change_resets.

(* SAFETY over whole histories, unconditional: whatever failed, crashed, was deleted or restarted, every value a
   tick hands to _setCheckpoints was announced to the current Checkpointer and handled, and so was every
   sequence announced to it at or below that value *)
Theorem C17_persist_tick_safe : forall thr ops sn s,
  In sn (prun0 thr ops) -> ps_ret sn = Some s ->
  In s (g_Ei (ps_g sn)) /\ In s (g_Pi (ps_g sn)) /\
  forall e, In e (g_Ei (ps_g sn)) -> (before e s = true \/ e = s) -> In e (g_Pi (ps_g sn)).
Proof.
  intros thr ops sn s Hin Hr.
  exact (proj1 (proj2 (prun_uinv thr ops winit ghost0 UInv_init sn Hin)) s Hr).
Qed.
Print Assumptions C17_persist_tick_safe.

(* and, unconditional: the position a restart resumes from is zero or the stored text (canonical form) of a value
   some tick computed under the same config hash - never anything else *)
Theorem C17_resume_is_persisted_checkpoint : forall thr ops sn h wdown,
  In sn (prun0 thr ops) -> ps_op sn = PRestart h wdown ->
  m_last (w_mem (ps_w sn)) = zero_seq \/
  exists s, m_last (w_mem (ps_w sn)) = canon s /\ In (h, s) (g_rets (ps_g sn)).
Proof.
  intros thr ops sn h wd Hin Hop.
  exact (proj2 (proj2 (prun_uinv thr ops winit ghost0 UInv_init sn Hin)) h wd Hop).
Qed.
Print Assumptions C17_resume_is_persisted_checkpoint.

(* RESTART NEVER SKIPS: for every history of announcements, completions, ticks, write failures, crashes between
   the two writes, restarts, config changes, deletions and foreign rewrites in which the peer keeps its side
   ([peer_ok]: printable tokens, feed order, no gaps - Persist.v), the position every restart resumes from is
   not after - and, unless it is zero, strictly before - every sequence announced under that config hash and
   neither processed nor already known: nothing is skipped, at worst re-sent.  Without feed order the statement
   is false of the unchanged code (C17_Refuted.v). *)
Theorem C17_restart_never_skips : forall thr ops, peer_ok thr ops ->
  forall sn h wdown, In sn (prun0 thr ops) -> ps_op sn = PRestart h wdown ->
  forall e, In (h, e) (g_E (ps_g sn)) -> ~ In (h, e) (g_P (ps_g sn)) ->
    sle (m_last (w_mem (ps_w sn))) e /\
    (m_last (w_mem (ps_w sn)) = zero_seq \/ before (m_last (w_mem (ps_w sn))) e = true).
Proof. exact restart_never_skips. Qed.
Print Assumptions C17_restart_never_skips.

(* ====================================================================================================
   THE KNOWN REGRESS, EXACTLY (list calculus, [run0]): a returned checkpoint below an earlier one was itself
   announced after the earlier one was returned - any other regress is impossible.
   ==================================================================================================== *)
Theorem C17_regress_only_by_late_expected : forall thr ops t1 a t2 b t3 s1 s2,
  run0 thr ops = t1 ++ a :: t2 ++ b :: t3 ->
  ret (s_out a) = Some s1 -> ret (s_out b) = Some s2 -> before s2 s1 = true ->
  In s2 (announced_in t2).
Proof. intros thr ops. exact (regress_only_by_late thr ops init [] []). Qed.
Print Assumptions C17_regress_only_by_late_expected.

(* the values handed to _setCheckpoints move backwards iff a sequence below an already returned checkpoint is
   announced after it and later checkpointed itself.  (The mere arrival of such a sequence is not enough: if it
   and everything up to a higher position are handled by the next tick, that tick moves forwards -
   C17_Refuted.late_arrival_without_regress.) *)
Theorem C17_regress_iff_late_expected : forall thr ops,
  regresses (run0 thr ops) <-> late_checkpointed (run0 thr ops).
Proof. exact regress_iff_late. Qed.
Print Assumptions C17_regress_iff_late_expected.

(* and the regress is forced by safety: while such a late sequence is unhandled, the next value returned is
   below it, hence below the earlier checkpoint *)
Theorem C17_late_unhandled_forces_regress : forall thr ops t1 a t2 b t3 s1 s2 x,
  run0 thr ops = t1 ++ a :: t2 ++ b :: t3 ->
  ret (s_out a) = Some s1 -> ret (s_out b) = Some s2 ->
  In x (announced_in t2) -> before x s1 = true -> ~ In x (s_P b) ->
  before s2 x = true /\ before s2 s1 = true.
Proof. exact late_unhandled_forces_regress. Qed.
Print Assumptions C17_late_unhandled_forces_regress.

(* ====================================================================================================
   STATISTICS AND STATUS as functions of the history
   ==================================================================================================== *)
(* ExpectedSequenceCount / ProcessedSequenceCount / AlreadyKnownSequenceCount are the sizes of the
   announcement / completion / already-known calls made since the last restart (SetCheckpointCount and the
   hit / miss counters: C17_tick_persist_exact, C17_config_change_resets) *)
Theorem C17_stats_count_history : forall thr ops,
  let m := w_mem (pexec thr winit ops) in
  let cur := since_restart [] ops in
  n_exp (m_stats m) = count_exp cur /\ n_proc (m_stats m) = count_proc cur /\ n_known (m_stats m) = count_known cur.
Proof. exact stats_count_history. Qed.
Print Assumptions C17_stats_count_history.

(* the sequence reported by GetStatus (LastSeqPull / LastSeqPush) is lastCheckpointSeq or a position up to which
   everything announced to the current Checkpointer is handled - the status never runs ahead either *)
Theorem C17_status_is_safe : forall thr ops sn x,
  In sn (prun0 thr ops) -> ps_status sn = Some (Some x) ->
  ps_op sn = PStatus /\ x = safe_processed (w_mem (ps_pre sn)) /\
  (x = m_last (w_mem (ps_pre sn)) \/
   (In x (g_Ei (ps_g sn)) /\ In x (g_Pi (ps_g sn)) /\
    forall e, In e (g_Ei (ps_g sn)) -> (before e x = true \/ e = x) -> In e (g_Pi (ps_g sn)))).
Proof. exact status_is_safe. Qed.
Print Assumptions C17_status_is_safe.

(* precisely: it is what the next tick would hand to _setCheckpoints, else the last checkpoint *)
Theorem C17_status_is_next_checkpoint : forall thr m,
  safe_processed m =
  match fst (fst (update_lists thr (expected (m_st m)) (processed (m_st m)))) with
  | Some s => s
  | None => m_last m
  end.
Proof. exact safe_processed_next. Qed.
Print Assumptions C17_status_is_next_checkpoint.

(* non-vacuity: an ordered feed with compound tokens (1::3, 2:1), out-of-order completion, a tick that
   returns a checkpoint while a later expected sequence is still unprocessed, above the threshold *)
Definition c17_example_ops : list op :=
  [Expect [mk 0 0 1; mk 0 1 3; mk 2 0 1]; Processed (mk 2 0 1); Processed (mk 0 0 1); Tick;
   Expect [mk 0 0 2; mk 0 0 3]; Known [mk 0 0 4]; Processed (mk 0 1 3); Tick; Processed (mk 0 0 3); Tick].

Example C17_nonvacuous :
  in_order_feed c17_example_ops /\ feed_ordered (run0 1 c17_example_ops) /\
  returns (run0 1 c17_example_ops) = [mk 0 0 1; mk 2 0 1] /\
  map (fun sn => lenE (s_out sn)) (run0 1 c17_example_ops) = [3; 3; 3; 2; 4; 5; 5; 3; 3; 2].
Proof.
  assert (H : in_order_feed c17_example_ops) by (apply sorted_le_b_ok; vm_compute; reflexivity).
  split; [exact H|]. split; [apply C17_in_order_feed_is_feed_ordered; exact H|].
  split; vm_compute; reflexivity.
Qed.

(* non-vacuity of the persistence theorems: checkpoint 5 stored on both sides, 8 only locally (the remote write
   fails = crash between the two writes), restart: resumes from 5 with the local document rolled back, the feed
   re-sends 8 and announces 9; 9 stays unhandled across the next crash; the peer contract holds throughout *)
Definition c17_world_example : list pop :=
  [PRestart 1 false; PL (Expect [mk 0 0 5; mk 0 0 8]); PL (Processed (mk 0 0 5)); PTick false false;
   PL (Processed (mk 0 0 8)); PTick false true; PRestart 1 false;
   PL (Expect [mk 0 0 8; mk 0 0 9]); PL (Processed (mk 0 0 8)); PTick false false; PRestart 1 false].

Example C17_world_nonvacuous :
  peer_ok 100 c17_world_example /\
  map (fun sn => (seq_of (w_loc (ps_w sn)), seq_of (w_rem (ps_w sn)), m_last (w_mem (ps_w sn)))) (prun0 100 c17_world_example) =
    [(None, None, mk 0 0 0); (None, None, mk 0 0 0); (None, None, mk 0 0 0);
     (Some (mk 0 0 5), Some (mk 0 0 5), mk 0 0 5); (Some (mk 0 0 5), Some (mk 0 0 5), mk 0 0 5);
     (Some (mk 0 0 8), Some (mk 0 0 5), mk 0 0 5);
     (Some (mk 0 0 5), Some (mk 0 0 5), mk 0 0 5);
     (Some (mk 0 0 5), Some (mk 0 0 5), mk 0 0 5); (Some (mk 0 0 5), Some (mk 0 0 5), mk 0 0 5);
     (Some (mk 0 0 8), Some (mk 0 0 8), mk 0 0 8); (Some (mk 0 0 8), Some (mk 0 0 8), mk 0 0 8)] /\
  (exists sn, last_opt (prun0 100 c17_world_example) = Some sn /\
              In (1, mk 0 0 9) (g_E (ps_g sn)) /\ ~ In (1, mk 0 0 9) (g_P (ps_g sn))).
Proof.
  split; [apply peer_okb_ok; vm_compute; reflexivity|]. split; [vm_compute; reflexivity|].
  eexists. split; [vm_compute; reflexivity|]. split; [vm_compute; tauto|].
  vm_compute. intros H. repeat (destruct H as [H|H]; [discriminate H|]). exact H.
Qed.
