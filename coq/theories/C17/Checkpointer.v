(* C17 model: the replication Checkpointer (db/active_replicator_checkpointer.go).

   Executable, total Gallina transcription of
     AddExpectedSeqs / AddAlreadyKnownSeq / AddProcessedSeq / AddExpectedSeqIDAndRevs /
     AddProcessedSeqIDAndRev / _calculateSafeExpectedSeqsIdx / _updateCheckpointLists / CheckpointNow
   as they are in the unchanged tree.  Sequence tokens and their order [before] come from C20
   (SequenceID.Before regenerated from db/sequence_id.go; strict total order proved there).

   No proofs in this file. *)
From Coq Require Export Sorting.Sorted.
From SG Require Import Base.Prelude C20.SeqIdGen C20.SeqId.
Open Scope N_scope.

(* ---------- processedSeqs : map[SequenceID]struct{} ---------- *)
Definition pset := list seqid.                    (* kept duplicate-free by [padd] *)
Definition mem (x : seqid) (p : pset) : bool := existsb (seqid_eqb x) p.
Definition padd (x : seqid) (p : pset) : pset := if mem x p then p else x :: p.
Definition pdel (x : seqid) (p : pset) : pset := filter (fun y => negb (seqid_eqb x y)) p.
Definition pdel_all (l : list seqid) (p : pset) : pset := fold_left (fun q x => pdel x q) l p.
Definition padd_all (l : list seqid) (p : pset) : pset := fold_left (fun q x => padd x q) l p.

(* ---------- idAndRevLookup : map[IDAndRev]SequenceID (keys interned as numbers) ---------- *)
Definition lmap := list (N * seqid).
Fixpoint lget (d : N) (m : lmap) : option seqid :=
  match m with
  | [] => None
  | (k, v) :: r => if k =? d then Some v else lget d r
  end.
Definition ldel (d : N) (m : lmap) : lmap := filter (fun kv => negb (fst kv =? d)) m.
Definition lset (d : N) (v : seqid) (m : lmap) : lmap := (d, v) :: ldel d m.

(* ---------- sort.Slice(expectedSeqs, Before) ----------
   [before] is a strict total order and equal tokens are identical values, so every correct sorting
   algorithm returns the same list; insertion sort is the executable representative
   (CheckpointerProofs.sort_sorted / sort_perm). *)
Fixpoint insert (x : seqid) (l : list seqid) : list seqid :=
  match l with
  | [] => [x]
  | y :: r => if before y x then y :: insert x r else x :: y :: r
  end.
Definition sort (l : list seqid) : list seqid := fold_right insert [] l.

(* _calculateSafeExpectedSeqsIdx: longest prefix of the sorted list whose members are all processed;
   returned as (prefix, remainder) *)
Fixpoint span_proc (e : list seqid) (p : pset) : list seqid * list seqid :=
  match e with
  | [] => ([], [])
  | x :: r => if mem x p then (let (a, b) := span_proc r p in (x :: a, b)) else ([], e)
  end.

Fixpoint last_opt {A} (l : list A) : option A :=
  match l with
  | [] => None
  | [x] => Some x
  | _ :: r => last_opt r
  end.

(* first half of _updateCheckpointLists: sort, take expectedSeqs[maxI], delete expectedSeqs[0..maxI]
   from processedSeqs, expectedSeqs = expectedSeqs[maxI+1:] *)
Definition trim (e : list seqid) (p : pset) : option seqid * list seqid * pset :=
  let s := sort e in
  let (pre, rest) := span_proc s p in
  match last_opt pre with
  | None => (None, s, p)
  | Some x => (Some x, rest, pdel_all pre p)
  end.

(* the backward compaction loop
     for i := len-2; i >= 0; i-- { current, next := e[i], e[i+1];
        if processed[current] && processed[next] { delete(processed, current); e = e[:i] ++ e[i+1:] } }
   processed right to left; [next] is the head of what the loop has already produced; the processed
   set is threaded because deleting [current] is visible to the iterations that follow *)
Fixpoint compact (e : list seqid) (p : pset) : list seqid * pset :=
  match e with
  | [] => ([], p)
  | x :: r =>
      let (r', p') := compact r p in
      match r' with
      | [] => ([x], p')
      | n :: _ => if mem x p' && mem n p' then (r', pdel x p') else (x :: r', p')
      end
  end.

Definition len (l : list seqid) : N := N.of_nat (length l).

(* _updateCheckpointLists with expectedSeqCompactionThreshold = thr *)
Definition update_lists (thr : N) (e : list seqid) (p : pset) : option seqid * list seqid * pset :=
  match trim e p with
  | (r, e1, p1) =>
      if thr <? len e1 then (let (e2, p2) := compact e1 p1 in (r, e2, p2)) else (r, e1, p1)
  end.

(* ---------- state, operations, observables ---------- *)
Record state := mkSt { expected : list seqid; processed : pset; lookup : lmap }.
Definition init : state := mkSt [] [] [].

Inductive op :=
| Expect (l : list seqid)                     (* AddExpectedSeqs(l...) *)
| Known (l : list seqid)                      (* AddAlreadyKnownSeq(l...) *)
| Processed (s : seqid)                       (* AddProcessedSeq(s) *)
| ExpectDocs (l : list (N * seqid))           (* AddExpectedSeqIDAndRevs(map) ; keys distinct *)
| ProcessedDoc (s : option seqid) (d : N)     (* AddProcessedSeqIDAndRev(seq-or-nil, idAndRev) *)
| Tick.                                       (* CheckpointNow: _updateCheckpointLists, then persist *)

(* observable after each call: value returned for persistence (ticks only), len(expectedSeqs),
   len(processedSeqs) *)
Record out := mkOut { ret : option seqid; lenE : N; lenP : N }.

Definition zero_seq : seqid := mk 0 0 0.

(* the sequence an AddProcessedSeqIDAndRev call marks: the one given, else the looked-up one, else the
   zero value of SequenceID (the code only logs a warning when the lookup fails) *)
Definition doc_seq (st : state) (s : option seqid) (d : N) : seqid :=
  match s with
  | Some x => x
  | None => match lget d (lookup st) with Some x => x | None => zero_seq end
  end.

Definition obs (r : option seqid) (st : state) : out := mkOut r (len (expected st)) (len (processed st)).

Definition step (thr : N) (st : state) (o : op) : state * out :=
  match o with
  | Expect l =>
      let st' := mkSt (expected st ++ l) (processed st) (lookup st) in (st', obs None st')
  | Known l =>
      let st' := mkSt (expected st ++ l) (padd_all l (processed st)) (lookup st) in (st', obs None st')
  | Processed s =>
      let st' := mkSt (expected st) (padd s (processed st)) (lookup st) in (st', obs None st')
  | ExpectDocs l =>
      let st' := mkSt (expected st ++ map snd l) (processed st)
                      (fold_left (fun m kv => lset (fst kv) (snd kv) m) l (lookup st)) in
      (st', obs None st')
  | ProcessedDoc s d =>
      let st' := mkSt (expected st) (padd (doc_seq st s d) (processed st)) (ldel d (lookup st)) in
      (st', obs None st')
  | Tick =>
      match update_lists thr (expected st) (processed st) with
      | (r, e, p) => let st' := mkSt e p (lookup st) in (st', obs r st')
      end
  end.

(* ---------- ghost history ----------
   what the operation announces ("told to expect") and what it completes ("completely processed or
   already known") *)
Definition op_expected (o : op) : list seqid :=
  match o with
  | Expect l => l
  | Known l => l
  | ExpectDocs l => map snd l
  | _ => []
  end.
Definition op_processed (st : state) (o : op) : list seqid :=
  match o with
  | Known l => l
  | Processed s => [s]
  | ProcessedDoc s d => [doc_seq st s d]
  | _ => []
  end.

(* one entry per operation: the operation, the observable, and the ghost sets E (ever expected) and
   P (ever processed or known) as they stand when the operation has been applied *)
Record snap := mkSnap { s_op : op; s_out : out; s_E : list seqid; s_P : list seqid }.

Fixpoint run (thr : N) (st : state) (E P : list seqid) (ops : list op) : list snap :=
  match ops with
  | [] => []
  | o :: r =>
      let E' := op_expected o ++ E in
      let P' := op_processed st o ++ P in
      let (st', ou) := step thr st o in
      mkSnap o ou E' P' :: run thr st' E' P' r
  end.
Definition run0 (thr : N) (ops : list op) : list snap := run thr init [] [] ops.

(* the values handed to _setCheckpoints, in order: CheckpointNow persists exactly the non-nil results
   of _updateCheckpointLists, unconditionally *)
Fixpoint returns (tr : list snap) : list seqid :=
  match tr with
  | [] => []
  | a :: t => match ret (s_out a) with Some s => s :: returns t | None => returns t end
  end.

(* persisted checkpoint after each operation (None until the first successful tick) *)
Fixpoint persisted_from (cur : option seqid) (tr : list snap) : list (option seqid) :=
  match tr with
  | [] => []
  | a :: t => let cur' := match ret (s_out a) with Some s => Some s | None => cur end in
              cur' :: persisted_from cur' t
  end.
Definition persisted (tr : list snap) := persisted_from None tr.

(* ---------- the order on checkpoints ---------- *)
Definition sle (a b : seqid) : Prop := before b a = false.      (* a is not after b *)

(* the peer announces changes in feed order: nothing newly expected is [before] a checkpoint that was
   already returned *)
Fixpoint feed_ordered_from (rets : list seqid) (tr : list snap) : Prop :=
  match tr with
  | [] => True
  | a :: t =>
      (forall x s, In x (op_expected (s_op a)) -> In s rets -> before x s = false) /\
      feed_ordered_from (match ret (s_out a) with Some s => s :: rets | None => rets end) t
  end.
Definition feed_ordered (tr : list snap) : Prop := feed_ordered_from [] tr.

(* input-only sufficient condition: the announced sequences, in announcement order, never decrease *)
Definition announced (ops : list op) : list seqid := flat_map op_expected ops.
Definition in_order_feed (ops : list op) : Prop := StronglySorted sle (announced ops).
