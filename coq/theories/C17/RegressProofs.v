(* C17 proofs, part 3: the exact shape of a checkpoint regress (list calculus of Checkpointer.v). *)
From SG Require Import Base.Prelude C20.SeqIdGen C20.SeqId C20.SeqIdOrder C17.Checkpointer C17.CheckpointerProofs.
Open Scope N_scope.

(* the sequences announced by the calls of a stretch of the history *)
Definition announced_in (t : list snap) : list seqid := flat_map (fun c => op_expected (s_op c)) t.

(* relative to a checkpoint value [s1]: everything still expected is at or above it, or was announced since *)
Definition floor_inv (st : state) (s1 : seqid) (late : list seqid) : Prop :=
  forall x, In x (expected st) -> sle s1 x \/ In x late.

Lemma step_floor thr st o st' ou s1 late :
  floor_inv st s1 late -> step thr st o = (st', ou) ->
  floor_inv st' s1 (late ++ op_expected o) /\
  (forall s2, ret ou = Some s2 -> sle s1 s2 \/ In s2 late).
Proof.
  intros HF Hstep. destruct o as [l|l|s|l|s d|]; cbn [step op_expected] in *.
  - inversion Hstep; subst; clear Hstep. split; [|cbn; discriminate].
    intros x Hx; cbn [expected] in Hx. apply in_app_or in Hx. rewrite in_app_iff.
    destruct Hx as [Hx|Hx]; [destruct (HF x Hx); tauto|tauto].
  - inversion Hstep; subst; clear Hstep. split; [|cbn; discriminate].
    intros x Hx; cbn [expected] in Hx. apply in_app_or in Hx. rewrite in_app_iff.
    destruct Hx as [Hx|Hx]; [destruct (HF x Hx); tauto|tauto].
  - inversion Hstep; subst; clear Hstep. rewrite app_nil_r. split; [exact HF|cbn; discriminate].
  - inversion Hstep; subst; clear Hstep. split; [|cbn; discriminate].
    intros x Hx; cbn [expected] in Hx. apply in_app_or in Hx. rewrite in_app_iff.
    destruct Hx as [Hx|Hx]; [destruct (HF x Hx); tauto|tauto].
  - inversion Hstep; subst; clear Hstep. rewrite app_nil_r. split; [exact HF|cbn; discriminate].
  - destruct (update_lists thr (expected st) (processed st)) as [[r e2] p2] eqn:Hu.
    inversion Hstep; subst; clear Hstep. destruct (update_lists_spec _ _ _ _ _ _ Hu) as [S1 S2 S3 S4 S5 S6 S7 S8 S9 S10].
    rewrite app_nil_r. cbn [ret obs]. split.
    + intros x Hx; cbn [expected] in Hx. apply HF. apply S1. exact Hx.
    + intros s2 Hr. apply HF. apply (S4 s2 Hr).
Qed.

(* after a tick that returned s1 nothing expected is below s1 *)
Lemma tick_floor thr st st' ou s1 : step thr st Tick = (st', ou) -> ret ou = Some s1 -> floor_inv st' s1 [].
Proof.
  cbn [step]. destruct (update_lists thr (expected st) (processed st)) as [[r e2] p2] eqn:Hu.
  intros H Hr; inversion H; subst; clear H. cbn [ret obs] in Hr. destruct (update_lists_spec _ _ _ _ _ _ Hu) as [S1 S2 S3 S4 S5 S6 S7 S8 S9 S10].
  intros x Hx; cbn [expected] in Hx. left. exact (S6 s1 Hr x Hx).
Qed.

Lemma run_floor thr ops : forall st E P s1 late t2 b t3,
  floor_inv st s1 late -> run thr st E P ops = t2 ++ b :: t3 ->
  forall s2, ret (s_out b) = Some s2 -> sle s1 s2 \/ In s2 (late ++ announced_in t2).
Proof.
  induction ops as [|o ops IH]; intros st E P s1 late t2 b t3 HF Hsplit s2 Hr; cbn [run] in Hsplit.
  - destruct t2; discriminate.
  - destruct (step thr st o) as [st' ou] eqn:Hstep.
    destruct (step_floor _ _ _ _ _ _ _ HF Hstep) as [HF' Hnow].
    destruct t2 as [|a t2]; cbn [app] in Hsplit; inversion Hsplit; subst; clear Hsplit.
    + cbn [s_out] in Hr. cbn [announced_in flat_map]. rewrite app_nil_r. apply Hnow; exact Hr.
    + destruct (IH _ _ _ _ _ _ _ _ HF' H1 s2 Hr) as [H|H]; [left; exact H|right].
      cbn [announced_in flat_map s_op]. rewrite <- app_assoc in H. exact H.
Qed.

(* who returned what: a snapshot that returns a value is a tick *)
Lemma run_ret_is_tick thr ops : forall st E P sn, In sn (run thr st E P ops) ->
  forall s, ret (s_out sn) = Some s -> s_op sn = Tick.
Proof.
  induction ops as [|o ops IH]; intros st E P sn Hin s Hr; cbn [run] in Hin; [destruct Hin|].
  destruct (step thr st o) as [st' ou] eqn:Hstep. destruct Hin as [<-|Hin]; [|eapply IH; eassumption].
  cbn [s_out s_op] in *. destruct o; cbn [step] in Hstep; try (inversion Hstep; subst; cbn in Hr; discriminate).
  reflexivity.
Qed.

(* REGRESS ONLY BY A LATE ANNOUNCEMENT: a later checkpoint below an earlier one was itself announced in between *)
Lemma regress_only_by_late thr ops : forall st E P t1 a t2 b t3 s1 s2,
  run thr st E P ops = t1 ++ a :: t2 ++ b :: t3 ->
  ret (s_out a) = Some s1 -> ret (s_out b) = Some s2 -> before s2 s1 = true ->
  In s2 (announced_in t2).
Proof.
  induction ops as [|o ops IH]; intros st E P t1 a t2 b t3 s1 s2 Hsplit Ha Hb Hlt; cbn [run] in Hsplit.
  - destruct t1; discriminate.
  - destruct (step thr st o) as [st' ou] eqn:Hstep.
    destruct t1 as [|a0 t1]; cbn [app] in Hsplit; inversion Hsplit; subst; clear Hsplit.
    + cbn [s_out] in Ha.
      assert (Ho : o = Tick).
      { destruct o; cbn [step] in Hstep; try (inversion Hstep; subst; cbn in Ha; discriminate). reflexivity. }
      subst o. pose proof (tick_floor _ _ _ _ _ Hstep Ha) as HF.
      destruct (run_floor _ _ _ _ _ _ _ _ _ _ HF H1 s2 Hb) as [Hle|Hin]; [unfold sle in Hle; congruence|exact Hin].
    + eapply IH; eassumption.
Qed.

Definition regresses (tr : list snap) : Prop :=
  exists t1 a t2 b t3 s1 s2, tr = t1 ++ a :: t2 ++ b :: t3 /\
    ret (s_out a) = Some s1 /\ ret (s_out b) = Some s2 /\ before s2 s1 = true.

(* a sequence below an already returned checkpoint is announced afterwards and later returned itself *)
Definition late_checkpointed (tr : list snap) : Prop :=
  exists t1 a t2 b t3 s1 s2, tr = t1 ++ a :: t2 ++ b :: t3 /\
    ret (s_out a) = Some s1 /\ In s2 (announced_in t2) /\ before s2 s1 = true /\ ret (s_out b) = Some s2.

Lemma regress_iff_late thr ops : regresses (run0 thr ops) <-> late_checkpointed (run0 thr ops).
Proof.
  split.
  - intros (t1 & a & t2 & b & t3 & s1 & s2 & Hs & Ha & Hb & Hlt).
    exists t1, a, t2, b, t3, s1, s2. repeat split; try assumption.
    eapply regress_only_by_late; eassumption.
  - intros (t1 & a & t2 & b & t3 & s1 & s2 & Hs & Ha & _ & Hlt & Hb).
    exists t1, a, t2, b, t3, s1, s2. repeat split; assumption.
Qed.

(* what is announced accumulates in the ghost set *)
Lemma run_E_accum thr ops : forall st E P t2 b t3, run thr st E P ops = t2 ++ b :: t3 ->
  forall x, In x (announced_in t2) \/ In x E -> In x (s_E b).
Proof.
  induction ops as [|o ops IH]; intros st E P t2 b t3 Hsplit x Hx; cbn [run] in Hsplit.
  - destruct t2; discriminate.
  - destruct (step thr st o) as [st' ou] eqn:Hstep.
    destruct t2 as [|a t2]; cbn [app] in Hsplit; inversion Hsplit; subst; clear Hsplit.
    + cbn [s_E]. destruct Hx as [[]|Hx]. apply in_or_app; right; exact Hx.
    + apply (IH _ _ _ _ _ _ H1). cbn [announced_in flat_map s_op] in Hx. rewrite in_app_iff in *. tauto.
Qed.

(* THE REGRESS IS FORCED BY SAFETY: a late announcement below the last checkpoint that is still unhandled at the
   next tick that returns anything makes that tick return a value below the last checkpoint *)
Lemma late_unhandled_forces_regress thr ops : forall t1 a t2 b t3 s1 s2 x,
  run0 thr ops = t1 ++ a :: t2 ++ b :: t3 ->
  ret (s_out a) = Some s1 -> ret (s_out b) = Some s2 ->
  In x (announced_in t2) -> before x s1 = true -> ~ In x (s_P b) ->
  before s2 x = true /\ before s2 s1 = true.
Proof.
  intros t1 a t2 b t3 s1 s2 x Hsplit Ha Hb Hx Hlt HnP.
  assert (Hin : In b (run0 thr ops)).
  { rewrite Hsplit. apply in_or_app; right; right. apply in_or_app; right; left; reflexivity. }
  destruct (run_safe thr ops init [] [] Inv_init b Hin s2 Hb) as [_ [_ Hs]].
  assert (HxE : In x (s_E b)).
  { unfold run0 in Hsplit. clear Hin Hs.
    assert (Hgen : forall ops st E P t1, run thr st E P ops = t1 ++ a :: t2 ++ b :: t3 -> In x (s_E b)).
    { clear - Hx. induction ops as [|o ops IH]; intros st E P t1 Hs; cbn [run] in Hs; [destruct t1; discriminate|].
      destruct (step thr st o) as [st' ou] eqn:Hstep.
      destruct t1 as [|a0 t1]; cbn [app] in Hs; inversion Hs; subst; clear Hs.
      - eapply run_E_accum; [exact H1|]. left. assumption.
      - eapply IH; eassumption. }
    eapply Hgen; exact Hsplit. }
  assert (Hb2 : before s2 x = true).
  { destruct (before s2 x) eqn:E; [reflexivity|exfalso]. apply HnP. apply Hs; [exact HxE|]. apply sle_cases. exact E. }
  split; [exact Hb2|]. eapply before_trans; eassumption.
Qed.
