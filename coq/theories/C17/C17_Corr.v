(* C17 correspondence: cases observed on the real db.Checkpointer by the Go harness
   (harness/db/verif_c17_test.go) are re-evaluated here on the model with vm_compute. *)
From Coq Require Import String.
From SG Require Export Base.Prelude Base.Bytes C20.SeqIdGen C20.SeqId C20.SeqIdCodec C17.Checkpointer C17.Persist.
Open Scope N_scope.

Inductive case :=
(* one run from the empty checkpointer: after each call, (value returned by _updateCheckpointLists or
   None, len(expectedSeqs), len(processedSeqs)) *)
| CRun (thr : N) (ops : list op) (obs : list (option seqid * N * N))
(* the same run through CheckpointNow with real stores: after each call, the last_sequence string held by
   the local checkpoint document and by the remote peer (None while there is no checkpoint) *)
| CPersist (thr : N) (ops : list op) (loc rem : list (option (list N)))
(* exhaustive sub-tree: run [pre], then every operation sequence of length <= depth over [alpha]
   (depth-first, in the order of [alpha]); digest of all observables in visiting order *)
| CDfs (thr : N) (alpha : list op) (pre : list op) (depth : N) (digest : N)
(* a history of notifications, CheckpointNow calls with either store failing, restarts (a new Checkpointer
   over the same two documents), deletions and foreign rewrites of the documents, status calls: after each
   call (len(expectedSeqs), len(processedSeqs), local document, remote document, lastCheckpointSeq,
   lastLocalCheckpointRevID, lastRemoteCheckpointRevID, the ten statistics, the reported status sequence).
   A document is (generation of "_rev", config hash interned, last_sequence parsed or None for "") *)
| CWorld (thr : N) (ops : list pop) (obs : list wobs)
with wobs :=
| WObs (lenE lenP : N) (loc rem : option (N * N * option seqid)) (last : seqid) (lrev rrev : N)
       (st : list N) (status : option (option seqid)).

Definition T (t l s : N) : seqid := mk t l s.

Definition obs_eqb (o : out) (x : option seqid * N * N) : bool :=
  match x with
  | (r, e, p) => option_eqb seqid_eqb (ret o) r && (lenE o =? e) && (lenP o =? p)
  end.

Fixpoint list_eqb2 {A B} (f : A -> B -> bool) (a : list A) (b : list B) : bool :=
  match a, b with
  | [], [] => true
  | x :: a', y :: b' => f x y && list_eqb2 f a' b'
  | _, _ => false
  end.

Definition str_eqb (m : option seqid) (i : option (list N)) : bool :=
  match m, i with
  | None, None => true
  | Some s, Some b => String.eqb (print_token s) (B b)
  | _, _ => false
  end.

(* digest: h := (33 * h + v + 1) mod 2^40 over the encoded observables (shift/add/mask only: N.modulo and
   N.mul would dominate the evaluation; an odd multiplier modulo a power of two never hides a single
   differing observable) *)
Definition enc_out (o : out) : N :=
  let c := match ret o with
           | None => 0
           | Some s => 1 + TriggeredBy s + 16 * LowSeq s + 256 * Seq s
           end in
  (c * 64 + lenE o) * 64 + lenP o.
Definition mix (h v : N) : N := N.land (N.shiftl h 5 + h + v + 1) 1099511627775.

Fixpoint dfs (thr : N) (alpha : list op) (d : nat) (st : state) (h : N) : N :=
  match d with
  | O => h
  | S d' =>
      fold_left (fun h o => let (st', ou) := step thr st o in dfs thr alpha d' st' (mix h (enc_out ou))) alpha h
  end.

Fixpoint run_pre (thr : N) (st : state) (h : N) (ops : list op) : state * N :=
  match ops with
  | [] => (st, h)
  | o :: r => let (st', ou) := step thr st o in run_pre thr st' (mix h (enc_out ou)) r
  end.

Definition doc_eqb (d : store) (x : option (N * N * option seqid)) : bool :=
  match d, x with
  | None, None => true
  | Some a, Some (r, h, q) => (d_rev a =? r) && (d_hash a =? h) && oseq_eqb (d_seq a) q
  | _, _ => false
  end.

Definition stats_list (s : stats) : list N :=
  [n_exp s; n_proc s; n_known s; n_set s; n_hit s; n_miss s; g_plen s; g_elen s; g_plen_post s; g_elen_post s].

Definition wobs_eqb (sn : psnap) (x : wobs) : bool :=
  match x with
  | WObs le lp loc rem last lrev rrev st status =>
      let w := ps_w sn in
      let m := w_mem w in
      (len (expected (m_st m)) =? le) && (len (processed (m_st m)) =? lp) &&
      doc_eqb (w_loc w) loc && doc_eqb (w_rem w) rem &&
      seqid_eqb (m_last m) last && (m_lrev m =? lrev) && (m_rrev m =? rrev) &&
      list_eqb N.eqb (stats_list (m_stats m)) st &&
      option_eqb (fun a b => oseq_eqb (option_map canon a) b) (ps_status sn) status
  end.

Definition check (c : case) : bool :=
  match c with
  | CRun thr ops obs => list_eqb2 obs_eqb (map s_out (run0 thr ops)) obs
  | CPersist thr ops loc rem =>
      let p := persisted (run0 thr ops) in
      list_eqb2 str_eqb p loc && list_eqb2 str_eqb p rem
  | CDfs thr alpha pre depth digest =>
      let (st, h) := run_pre thr init 0 pre in
      dfs thr alpha (N.to_nat depth) st h =? digest
  | CWorld thr ops obs => list_eqb2 wobs_eqb (prun0 thr ops) obs
  end.

Definition mismatches (cs : list case) : list N := failing check cs.
