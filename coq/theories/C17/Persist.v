(* C17 model, part 2: persistence, restart, status (db/active_replicator_checkpointer.go).

   Executable, total Gallina transcription of
     CheckpointNow -> _setCheckpoints -> setLocalCheckpointWithRetry / setRemoteCheckpointWithRetry (setRetry),
     putDocWithRevision (db/special_docs.go: the "_rev" compare-and-swap both checkpoint documents go through),
     fetchDefaultCollectionCheckpoints -> setLastCheckpointSeq (lower-of-the-two rollback, config-hash reset),
     resetLocalCheckpoint, calculateSafeProcessedSeq / getCheckpointHighSeq (status), CheckpointerStats
   on top of the list calculus of Checkpointer.v ([step]).

   Conventions
   * a checkpoint document is (rev, config_hash, last_sequence): rev n stands for the string "0-n" (0 for ""),
     hashes are interned as numbers (0 for ""), last_sequence is [None] for "" and [Some c] for the text
     [print_token c] with c canonical (C20: parse (print_token s) = canon s for 64-bit tokens, so equality of
     the stored strings is equality of the canonical tokens);
   * "down" flags are the failure injections of the harness: the local data store refusing Update, the remote
     peer answering 503 to setCheckpoint.  A crash between the two writes of _setCheckpoints leaves exactly
     the documents of a tick with the remote down; the crash itself is the [PRestart] that follows (a new
     Checkpointer over the same documents: all in-memory state is lost).
   No proofs in this file. *)
From SG Require Import Base.Prelude C20.SeqIdGen C20.SeqId C20.SeqIdCodec C17.Checkpointer.
Open Scope N_scope.

(* ---------- checkpoint documents and putDocWithRevision ---------- *)
Record cdoc := mkDoc { d_rev : N; d_hash : N; d_seq : option seqid }.
Definition store := option cdoc.
Definition rev_of (d : store) : N := match d with Some x => d_rev x | None => 0 end.
Definition hash_of (d : store) : N := match d with Some x => d_hash x | None => 0 end.
Definition seq_of (d : store) : option seqid := match d with Some x => d_seq x | None => None end.
(* parseIntegerSequenceID of a stored last_sequence ("" parses to the zero value) *)
Definition val_of (o : option seqid) : seqid := match o with Some s => s | None => zero_seq end.
Definition oseq_eqb (a b : option seqid) : bool := option_eqb seqid_eqb a b.

Inductive wres := WOk (rev : N) | W404 | W409 | WErr.

(* putDocWithRevision(matchRev, body): missing document: 404 unless matchRev = ""; existing document: 409
   unless matchRev is its "_rev"; the new rev is "0-(generation of matchRev + 1)" *)
Definition put (down : bool) (d : store) (mrev h : N) (sq : option seqid) : store * wres :=
  if down then (d, WErr) else
  match d with
  | None => if mrev =? 0 then (Some (mkDoc 1 h sq), WOk 1) else (d, W404)
  | Some x => if mrev =? d_rev x then (Some (mkDoc (mrev + 1) h sq), WOk (mrev + 1)) else (d, W409)
  end.

(* setRetry: at most [fuel] (= 10) attempts.  409: adopt the rev of the existing document (getFn) and retry.
   404: only an error whose text starts with "404" clears the rev; that is what the LOCAL putSpecial returns,
   whereas the remote path (SetSGR2CheckpointRequest.Response) turns every error response other than 409
   into "unexpected error response: ...", so a remote 404 is retried with the same rev until the attempts
   are used up.  Result: the rev of the written checkpoint, or None = "failed to write checkpoint". *)
Inductive side := SLocal | SRemote.
Fixpoint set_retry (fuel : nat) (sd : side) (down : bool) (d : store) (rev h : N) (sq : option seqid)
  : store * option N :=
  match fuel with
  | O => (d, None)
  | S f =>
      match put down d rev h sq with
      | (d', WOk r) => (d', Some r)
      | (d', W409) => set_retry f sd down d' (rev_of d') h sq
      | (d', W404) => set_retry f sd down d' (match sd with SLocal => 0 | SRemote => rev end) h sq
      | (d', WErr) => set_retry f sd down d' rev h sq
      end
  end.
Definition retry_attempts : nat := 10.

(* ---------- CheckpointerStats ---------- *)
Record stats := mkStats {
  n_exp : N;        (* ExpectedSequenceCount *)
  n_proc : N;       (* ProcessedSequenceCount *)
  n_known : N;      (* AlreadyKnownSequenceCount *)
  n_set : N;        (* SetCheckpointCount *)
  n_hit : N;        (* GetCheckpointHitCount *)
  n_miss : N;       (* GetCheckpointMissCount *)
  g_plen : N; g_elen : N;             (* ProcessedSequenceLen / ExpectedSequenceLen: lengths when the last tick began *)
  g_plen_post : N; g_elen_post : N    (* ...PostCleanup: lengths when it ended *)
}.
Definition stats0 : stats := mkStats 0 0 0 0 0 0 0 0 0 0.

(* ---------- the Checkpointer in memory, and the two stores ---------- *)
Record ckp := mkMem {
  m_st : state;        (* expectedSeqs / processedSeqs / idAndRevLookup *)
  m_lrev : N;          (* lastLocalCheckpointRevID *)
  m_rrev : N;          (* lastRemoteCheckpointRevID *)
  m_last : seqid;      (* lastCheckpointSeq: where the replication (re)starts from *)
  m_hash : N;          (* configHash *)
  m_stats : stats
}.
Record world := mkW { w_mem : ckp; w_loc : store; w_rem : store }.
Definition mem0 : ckp := mkMem init 0 0 zero_seq 0 stats0.
Definition winit : world := mkW mem0 None None.

Inductive pop :=
| PL (o : op)                          (* a notification (or, for [Tick], CheckpointNow with both stores up) *)
| PTick (ldown rdown : bool)           (* CheckpointNow; local store refusing writes / remote peer refusing setCheckpoint *)
| PRestart (h : N) (wdown : bool)      (* crash + start: NewCheckpointer with config hash h, fetchDefaultCollectionCheckpoints;
                                          wdown: the roll-back write of setLastCheckpointSeq fails *)
| PDelLocal                            (* resetLocalCheckpoint (replication reset) *)
| PDelRemote                           (* the peer's copy disappears (expiry, purge) *)
| PTouchLocal | PTouchRemote           (* another writer rewrote the document (same content, new rev) *)
| PStatus.                             (* getCheckpointHighSeq -> calculateSafeProcessedSeq (GetStatus.LastSeqPull/Push) *)

(* counters bumped by the notification calls *)
Definition bump (o : op) (s : stats) : stats :=
  match o with
  | Expect l => mkStats (n_exp s + len l) (n_proc s) (n_known s) (n_set s) (n_hit s) (n_miss s)
                        (g_plen s) (g_elen s) (g_plen_post s) (g_elen_post s)
  | ExpectDocs l => mkStats (n_exp s + N.of_nat (length l)) (n_proc s) (n_known s) (n_set s) (n_hit s) (n_miss s)
                        (g_plen s) (g_elen s) (g_plen_post s) (g_elen_post s)
  | Known l => mkStats (n_exp s) (n_proc s) (n_known s + len l) (n_set s) (n_hit s) (n_miss s)
                        (g_plen s) (g_elen s) (g_plen_post s) (g_elen_post s)
  | Processed _ | ProcessedDoc _ _ =>
                mkStats (n_exp s) (n_proc s + 1) (n_known s) (n_set s) (n_hit s) (n_miss s)
                        (g_plen s) (g_elen s) (g_plen_post s) (g_elen_post s)
  | Tick => s
  end.

Definition set_mem_st (m : ckp) (st : state) (s : stats) : ckp :=
  mkMem st (m_lrev m) (m_rrev m) (m_last m) (m_hash m) s.

(* CheckpointNow.  Returns the world and the value _updateCheckpointLists handed to _setCheckpoints. *)
Definition tick (thr : N) (ldown rdown : bool) (w : world) : world * option seqid :=
  let m := w_mem w in
  let st := m_st m in
  match update_lists thr (expected st) (processed st) with
  | (r, e, p) =>
      let st' := mkSt e p (lookup st) in
      let s0 := m_stats m in
      let s1 := mkStats (n_exp s0) (n_proc s0) (n_known s0) (n_set s0) (n_hit s0) (n_miss s0)
                        (len (processed st)) (len (expected st)) (len p) (len e) in
      match r with
      | None => (mkW (set_mem_st m st' s1) (w_loc w) (w_rem w), None)
      | Some s =>
          let sq := Some (canon s) in
          match set_retry retry_attempts SLocal ldown (w_loc w) (m_lrev m) (m_hash m) sq with
          | (loc', None) =>
              (mkW (mkMem st' 0 (m_rrev m) (m_last m) (m_hash m) s1) loc' (w_rem w), r)
          | (loc', Some lr) =>
              match set_retry retry_attempts SRemote rdown (w_rem w) (m_rrev m) (m_hash m) sq with
              | (rem', None) =>
                  (mkW (mkMem st' lr 0 (m_last m) (m_hash m) s1) loc' rem', r)
              | (rem', Some rr) =>
                  let s2 := mkStats (n_exp s1) (n_proc s1) (n_known s1) (n_set s1 + 1) (n_hit s1) (n_miss s1)
                                    (g_plen s1) (g_elen s1) (g_plen_post s1) (g_elen_post s1) in
                  (mkW (mkMem st' lr rr s (m_hash m) s2) loc' rem', r)
              end
          end
      end
  end.

(* what setLastCheckpointSeq decides and writes, given the two documents it fetched:
   (checkpoint text before the config check, local', remote', lastLocalRev, lastRemoteRev) *)
Definition rollback (wdown : bool) (L R : store) : option seqid * store * store * N * N :=
  let lseq := seq_of L in
  let rseq := seq_of R in
  if oseq_eqb lseq rseq then (lseq, L, R, rev_of L, rev_of R)
  else if before (val_of rseq) (val_of lseq) then
    match put wdown L (rev_of L) (hash_of R) rseq with
    | (L1, WOk r) => (rseq, L1, R, r, rev_of R)
    | (L1, _) => (rseq, L1, R, 0, rev_of R)
    end
  else
    match put wdown R (rev_of R) (hash_of L) lseq with
    | (R1, WOk r) => (lseq, L, R1, rev_of L, r)
    | (R1, _) => (lseq, L, R1, rev_of L, 0)
    end.

(* the position a new Checkpointer with config hash h starts from, as text (None = "") *)
Definition resume_text (h : N) (wdown : bool) (L R : store) : option seqid :=
  match rollback wdown L R with
  | (cp, _, _, _, _) => if (hash_of L =? h) && (hash_of R =? h) then cp else None
  end.

Definition restart (h : N) (wdown : bool) (w : world) : world :=
  let L := w_loc w in
  let R := w_rem w in
  match rollback wdown L R with
  | (_, L', R', lr, rr) =>
      let cp := resume_text h wdown L R in
      let s := match cp with
               | Some _ => mkStats 0 0 0 0 1 0 0 0 0 0
               | None => mkStats 0 0 0 0 0 1 0 0 0 0
               end in
      mkW (mkMem init lr rr (val_of cp) h s) L' R'
  end.

Definition touch (d : store) : store :=
  match d with Some x => Some (mkDoc (d_rev x + 1) (d_hash x) (d_seq x)) | None => None end.

(* _calculateSafeProcessedSeq: the head of the processed prefix of the sorted expected list, else the last
   checkpoint; getCheckpointHighSeq prints it unless its Seq is zero *)
Definition safe_processed (m : ckp) : seqid :=
  match last_opt (fst (span_proc (sort (expected (m_st m))) (processed (m_st m)))) with
  | Some x => x
  | None => m_last m
  end.
Definition high_seq (m : ckp) : option seqid :=
  let x := safe_processed m in if 0 <? Seq x then Some x else None.

(* one call: new world, the value a tick handed to _setCheckpoints, the status text of a PStatus *)
Definition pstep (thr : N) (w : world) (o : pop) : world * option seqid * option (option seqid) :=
  match o with
  | PL Tick => (tick thr false false w, None)
  | PL lo =>
      let m := w_mem w in
      (mkW (set_mem_st m (fst (step thr (m_st m) lo)) (bump lo (m_stats m))) (w_loc w) (w_rem w), None, None)
  | PTick ld rd => (tick thr ld rd w, None)
  | PRestart h wd => (restart h wd w, None, None)
  | PDelLocal => (mkW (w_mem w) None (w_rem w), None, None)
  | PDelRemote => (mkW (w_mem w) (w_loc w) None, None, None)
  | PTouchLocal => (mkW (w_mem w) (touch (w_loc w)) (w_rem w), None, None)
  | PTouchRemote => (mkW (w_mem w) (w_loc w) (touch (w_rem w)), None, None)
  | PStatus =>
      let m := w_mem w in
      let st := m_st m in
      (* _calculateSafeExpectedSeqsIdx sorts expectedSeqs in place *)
      (mkW (set_mem_st m (mkSt (sort (expected st)) (processed st) (lookup st)) (m_stats m)) (w_loc w) (w_rem w),
       None, Some (high_seq m))
  end.

(* ---------- ghost history ----------
   Announcements and completions are kept per config hash (a changed configuration is a different logical
   replication: its checkpoint is not usable by the other, see [resume_text]) and, separately, for the
   current Checkpointer only ([g_Ei], [g_Pi]: what the list calculus of Checkpointer.v talks about). *)
Record ghost := mkG {
  g_E : list (N * seqid);       (* (hash, sequence) ever announced *)
  g_P : list (N * seqid);       (* (hash, sequence) ever processed or already known *)
  g_Ei : list seqid;            (* announced to the current Checkpointer *)
  g_Pi : list seqid;            (* completed on the current Checkpointer *)
  g_rets : list (N * seqid)     (* (hash, value) of every value a tick handed to _setCheckpoints *)
}.
Definition ghost0 : ghost := mkG [] [] [] [] [].

Definition tag (h : N) (l : list seqid) : list (N * seqid) := map (pair h) l.

Definition gstep (w : world) (o : pop) (r : option seqid) (g : ghost) : ghost :=
  let h := m_hash (w_mem w) in
  match o with
  | PL Tick | PTick _ _ =>
      match r with
      | Some s => mkG (g_E g) (g_P g) (g_Ei g) (g_Pi g) ((h, s) :: g_rets g)
      | None => g
      end
  | PL lo =>
      let st := m_st (w_mem w) in
      mkG (tag h (op_expected lo) ++ g_E g) (tag h (op_processed st lo) ++ g_P g)
          (op_expected lo ++ g_Ei g) (op_processed st lo ++ g_Pi g) (g_rets g)
  | PRestart _ _ => mkG (g_E g) (g_P g) [] [] (g_rets g)
  | _ => g
  end.

(* one entry per call: the call, the world it ran in, the world and ghost history after it, what a tick
   handed to _setCheckpoints, what a status call reported *)
Record psnap := mkPS {
  ps_op : pop; ps_pre : world; ps_w : world; ps_g : ghost;
  ps_ret : option seqid; ps_status : option (option seqid)
}.

Fixpoint prun (thr : N) (w : world) (g : ghost) (ops : list pop) : list psnap :=
  match ops with
  | [] => []
  | o :: rest =>
      match pstep thr w o with
      | (w', r, s) =>
          let g' := gstep w o r g in
          mkPS o w w' g' r s :: prun thr w' g' rest
      end
  end.
Definition prun0 (thr : N) (ops : list pop) : list psnap := prun thr winit ghost0 ops.

(* ---------- the peer's side of the contract ----------
   What a changes feed resumed from the checkpoint does, stated on the history alone.  For every sequence x
   announced under config hash h:
   - it is a token SequenceID.String can print (canonical), so the stored text denotes it;
   - feed order: x was already handled (a re-send), or x is not before any checkpoint value computed so far
     under h (without this the unchanged code regresses and a restart can skip: C17_Refuted.v);
   - no gaps: every sequence announced earlier under h, still unhandled and before x, has been (re-)announced
     to the current Checkpointer before x (the feed is resumed from the checkpoint and sends in order). *)
Definition peer_step_ok (h : N) (g : ghost) (lo : op) : Prop :=
  forall x, In x (op_expected lo) ->
    canon x = x /\
    (In (h, x) (g_P g) \/ forall s, In (h, s) (g_rets g) -> before x s = false) /\
    (forall e, In (h, e) (g_E g) -> ~ In (h, e) (g_P g) -> before e x = true ->
               In e (g_Ei g ++ op_expected lo)).

Fixpoint peer_ok_from (thr : N) (w : world) (g : ghost) (ops : list pop) : Prop :=
  match ops with
  | [] => True
  | o :: rest =>
      (match o with PL lo => peer_step_ok (m_hash (w_mem w)) g lo | _ => True end) /\
      match pstep thr w o with
      | (w', r, _) => peer_ok_from thr w' (gstep w o r g) rest
      end
  end.
Definition peer_ok (thr : N) (ops : list pop) : Prop := peer_ok_from thr winit ghost0 ops.

(* ---------- counting the history (stats as functions of the calls) ---------- *)
Definition is_restart (o : pop) : bool := match o with PRestart _ _ => true | _ => false end.

(* the calls made on the current Checkpointer: everything after the last PRestart *)
Fixpoint since_restart (acc : list pop) (ops : list pop) : list pop :=
  match ops with
  | [] => acc
  | o :: r => if is_restart o then since_restart [] r else since_restart (acc ++ [o]) r
  end.

Definition count_exp (ops : list pop) : N :=
  fold_left (fun n o => match o with
                        | PL (Expect l) => n + len l
                        | PL (ExpectDocs l) => n + N.of_nat (length l)
                        | _ => n end) ops 0.
Definition count_known (ops : list pop) : N :=
  fold_left (fun n o => match o with PL (Known l) => n + len l | _ => n end) ops 0.
Definition count_proc (ops : list pop) : N :=
  fold_left (fun n o => match o with PL (Processed _) | PL (ProcessedDoc _ _) => n + 1 | _ => n end) ops 0.

(* the world after a history *)
Definition pexec (thr : N) (w : world) (ops : list pop) : world :=
  fold_left (fun w o => fst (fst (pstep thr w o))) ops w.
