(* C17, not property obligations: statements the faithful model of the UNCHANGED code violates, with
   witnesses by vm_compute.  The same inputs are replayed on the real Checkpointer by the harness
   (corpus stream of harness/db/verif_c17_test.go; monitor signature checkpoint-regress-late-expected). *)
From SG Require Import Base.Prelude C20.SeqIdGen C20.SeqId C20.SeqIdCodec C17.Checkpointer C17.CheckpointerProofs
  C17.Persist C17.PersistProofs C17.RegressProofs C17.C17_Properties.
Open Scope N_scope.

Definition regress_ops : list op :=
  [Expect [mk 0 0 20]; Processed (mk 0 0 20); Tick; Expect [mk 0 0 5]; Processed (mk 0 0 5); Tick].

(* unconditional monotonicity is false: CheckpointNow persists 20 and then 5 *)
Lemma C17_checkpoint_monotone_unconditional_refuted :
  exists thr ops s1 s2, returns (run0 thr ops) = [s1; s2] /\ before s2 s1 = true /\
                        persisted (run0 thr ops) = [None; None; Some s1; Some s1; Some s1; Some s2].
Proof. exists 100, regress_ops, (mk 0 0 20), (mk 0 0 5). vm_compute. repeat split. Qed.

Lemma C17_full_statement_refuted : ~ C17_full_statement.
Proof.
  intros H. destruct (H 100 regress_ops) as [_ Hs].
  assert (E : returns (run0 100 regress_ops) = [mk 0 0 20; mk 0 0 5]) by (vm_compute; reflexivity).
  rewrite E in Hs. inversion Hs as [|? ? _ Hall]; subst. inversion Hall as [|? ? Hle _]; subst.
  unfold sle in Hle. vm_compute in Hle. discriminate.
Qed.

(* the witness is exactly a feed that is not ordered: 5 is announced after 20 was returned *)
Lemma regress_ops_not_feed_ordered : ~ feed_ordered (run0 100 regress_ops).
Proof.
  intros H. apply C17_checkpoint_monotone in H.
  assert (E : returns (run0 100 regress_ops) = [mk 0 0 20; mk 0 0 5]) by (vm_compute; reflexivity).
  rewrite E in H. inversion H as [|? ? _ Hall]; subst. inversion Hall as [|? ? Hle _]; subst.
  unfold sle in Hle. vm_compute in Hle. discriminate.
Qed.

(* without feed order a restart at a later moment can skip: 5 is announced after 20 was persisted and the
   process stops before 5 is handled (the peer, not the checkpointer, broke the order) *)
Lemma C17_restart_later_without_order_refuted :
  exists thr ops b s e, last_opt (run0 thr ops) = Some b /\ In s (returns (run0 thr ops)) /\
     In e (s_E b) /\ ~ In e (s_P b) /\ before s e = false.
Proof.
  exists 100, [Expect [mk 0 0 20]; Processed (mk 0 0 20); Tick; Expect [mk 0 0 5]].
  exists (mkSnap (Expect [mk 0 0 5]) (mkOut None 1 0) [mk 0 0 5; mk 0 0 20] [mk 0 0 20]), (mk 0 0 20), (mk 0 0 5).
  split; [vm_compute; reflexivity|]. split; [vm_compute; left; reflexivity|].
  split; [left; reflexivity|]. split; [|vm_compute; reflexivity].
  cbn [s_P]. intros [H|[]]. discriminate H.
Qed.

(* DESIGN's compaction_transparent does not hold without feed order either: a sequence announced between two
   processed neighbours after the first of them was compacted away lowers the next checkpoint (1 instead of 3;
   both are safe) *)
Definition compaction_ops : list op :=
  [Expect [mk 0 0 1; mk 0 0 3; mk 0 0 5]; Processed (mk 0 0 3); Processed (mk 0 0 5); Tick;
   Expect [mk 0 0 4]; Processed (mk 0 0 1); Tick].
Lemma compaction_transparent_without_order_refuted :
  returns (run0 2 compaction_ops) = [mk 0 0 1] /\ returns (run0 100 compaction_ops) = [mk 0 0 3].
Proof. vm_compute. split; reflexivity. Qed.

(* liveness note (not a violation of C17): with a sequence expected twice, compaction un-marks the surviving
   copy, so the checkpoint stalls below it until it is reported processed again *)
Definition dup_ops : list op :=
  [Expect [mk 0 0 1; mk 0 0 2; mk 0 0 2; mk 0 0 3]; Processed (mk 0 0 2); Processed (mk 0 0 3); Tick;
   Processed (mk 0 0 1); Tick].
Example compaction_dup_stalls :
  returns (run0 2 dup_ops) = [mk 0 0 1] /\ returns (run0 100 dup_ops) = [mk 0 0 3].
Proof. vm_compute. split; reflexivity. Qed.

(* ---------- the minimal repair (not applied; see the report) ----------
   CheckpointNow skipping a value that is Before the last persisted one:
       if seq.Before(c.lastCheckpointSeq) { return }
   [guarded cur rets] is what would then be persisted out of the returned values [rets].  It is a sub-list
   of the returned values (so every persisted value is still safe when it is persisted, by
   C17_checkpoint_safe) and it never decreases, for EVERY operation list: the full statement would hold. *)
Fixpoint guarded (cur : option seqid) (rets : list seqid) : list seqid :=
  match rets with
  | [] => []
  | s :: r =>
      match cur with
      | Some c => if before s c then guarded cur r else s :: guarded (Some s) r
      | None => s :: guarded (Some s) r
      end
  end.

Lemma guarded_incl rets : forall cur s, In s (guarded cur rets) -> In s rets.
Proof.
  induction rets as [|x r IH]; cbn [guarded]; intros cur s H; [destruct H|].
  destruct cur as [c|]; [destruct (before x c)|]; cbn [In] in *.
  - right; eapply IH; exact H.
  - destruct H as [H|H]; [left; exact H|right; eapply IH; exact H].
  - destruct H as [H|H]; [left; exact H|right; eapply IH; exact H].
Qed.

Lemma guarded_sorted rets : forall cur,
  StronglySorted sle (guarded cur rets) /\
  Forall (fun s => forall c, cur = Some c -> sle c s) (guarded cur rets).
Proof.
  induction rets as [|x r IH]; cbn [guarded]; intros cur; [split; constructor|].
  assert (Hkeep : (forall c, cur = Some c -> sle c x) ->
            StronglySorted sle (x :: guarded (Some x) r) /\
            Forall (fun s => forall c, cur = Some c -> sle c s) (x :: guarded (Some x) r)).
  { intros Hcx. destruct (IH (Some x)) as [Hs Hall]. rewrite Forall_forall in Hall. split.
    - constructor; [exact Hs|]. apply Forall_forall; intros s Hs'. apply (Hall s Hs'); reflexivity.
    - constructor; [exact Hcx|]. apply Forall_forall; intros s Hs' c Hc.
      eapply sle_trans; [apply Hcx; exact Hc|apply (Hall s Hs'); reflexivity]. }
  destruct cur as [c|].
  - destruct (before x c) eqn:Hb.
    + apply IH.
    + apply Hkeep. intros c0 E; inversion E; subst. exact Hb.
  - apply Hkeep. intros c0 E; discriminate E.
Qed.

Lemma repaired_persist_monotone_unconditionally : forall thr ops,
  StronglySorted sle (guarded None (returns (run0 thr ops))) /\
  (forall s, In s (guarded None (returns (run0 thr ops))) -> In s (returns (run0 thr ops))).
Proof.
  intros thr ops. split; [apply guarded_sorted|apply guarded_incl].
Qed.

Example repaired_on_the_witness : guarded None (returns (run0 100 regress_ops)) = [mk 0 0 20].
Proof. vm_compute. reflexivity. Qed.

(* ====================================================================================================
   Persistence / restart (Persist.v): why each clause of the peer contract [peer_ok] is there, and two
   observations on the unchanged code.  All replayed on the real Checkpointer by the "world-corpus" stream.
   ==================================================================================================== *)

(* the arrival of a late sequence alone does not make the checkpoint regress (so the naive
   "regress iff a lower sequence is added" is false; the exact statement is C17_regress_iff_late_expected) *)
Definition late_ok_ops : list op :=
  [Expect [mk 0 0 20]; Processed (mk 0 0 20); Tick; Expect [mk 0 0 5; mk 0 0 30]; Processed (mk 0 0 5);
   Processed (mk 0 0 30); Tick].
Lemma late_arrival_without_regress :
  returns (run0 100 late_ok_ops) = [mk 0 0 20; mk 0 0 30] /\ ~ regresses (run0 100 late_ok_ops).
Proof.
  split; [vm_compute; reflexivity|]. intros Hr. apply regress_iff_late in Hr.
  destruct Hr as (t1 & a & t2 & b & t3 & s1 & s2 & Hs & Ha & Hin & Hlt & Hb).
  assert (Hret : forall sn s, In sn (run0 100 late_ok_ops) -> ret (s_out sn) = Some s -> s = mk 0 0 20 \/ s = mk 0 0 30).
  { vm_compute. intros sn s H. repeat (destruct H as [H|H]; [subst sn; cbn; intros E; try discriminate E; inversion E; tauto|]). destruct H. }
  assert (Ia : In a (run0 100 late_ok_ops)) by (rewrite Hs; apply in_or_app; right; left; reflexivity).
  assert (Ib : In b (run0 100 late_ok_ops)).
  { rewrite Hs; apply in_or_app; right; right; apply in_or_app; right; left; reflexivity. }
  destruct (Hret a s1 Ia Ha) as [-> | ->], (Hret b s2 Ib Hb) as [-> | ->]; try (vm_compute in Hlt; discriminate Hlt).
  (* s1 = 30, s2 = 20: 30 is returned last, nothing follows it *)
  assert (Hlen : length (run0 100 late_ok_ops) = 7%nat) by (vm_compute; reflexivity).
  assert (Hlast : forall pre x post, run0 100 late_ok_ops = pre ++ x :: post -> ret (s_out x) = Some (mk 0 0 30) -> post = []).
  { vm_compute. intros pre x post H.
    do 7 (destruct pre as [|? pre]; [inversion H; subst; cbn; intros E; try discriminate E; reflexivity|inversion H; subst; clear H; rename H2 into H]).
    destruct pre; discriminate H. }
  specialize (Hlast t1 a (t2 ++ b :: t3) Hs Ha). destruct t2; discriminate Hlast.
Qed.

(* FEED ORDER is needed: 5 is announced after 20 was stored and the process stops before 5 is handled *)
Definition world_late_ops : list pop :=
  [PRestart 1 false; PL (Expect [mk 0 0 20]); PL (Processed (mk 0 0 20)); PTick false false;
   PL (Expect [mk 0 0 5]); PRestart 1 false].
Lemma restart_skips_without_feed_order :
  exists sn, last_opt (prun0 100 world_late_ops) = Some sn /\ ps_op sn = PRestart 1 false /\
    m_last (w_mem (ps_w sn)) = mk 0 0 20 /\
    In (1, mk 0 0 5) (g_E (ps_g sn)) /\ ~ In (1, mk 0 0 5) (g_P (ps_g sn)) /\
    before (mk 0 0 5) (m_last (w_mem (ps_w sn))) = true.
Proof.
  eexists. split; [vm_compute; reflexivity|]. repeat split; try (vm_compute; tauto).
  vm_compute. intros H. repeat (destruct H as [H|H]; [discriminate H|]). exact H.
Qed.

(* NO GAPS is needed: after the restart from 1 the peer announces 3 without re-announcing 2 *)
Definition world_gap_ops : list pop :=
  [PRestart 1 false; PL (Expect [mk 0 0 1; mk 0 0 2; mk 0 0 3]); PL (Processed (mk 0 0 1)); PTick false false;
   PRestart 1 false; PL (Expect [mk 0 0 3]); PL (Processed (mk 0 0 3)); PTick false false; PRestart 1 false].
Lemma restart_skips_when_peer_leaves_gaps :
  exists sn, last_opt (prun0 100 world_gap_ops) = Some sn /\
    m_last (w_mem (ps_w sn)) = mk 0 0 3 /\
    In (1, mk 0 0 2) (g_E (ps_g sn)) /\ ~ In (1, mk 0 0 2) (g_P (ps_g sn)).
Proof.
  eexists. split; [vm_compute; reflexivity|]. repeat split; try (vm_compute; tauto).
  vm_compute. intros H. repeat (destruct H as [H|H]; [discriminate H|]). exact H.
Qed.

(* PRINTABLE TOKENS are needed: SequenceID.String prints 5:7 as "7" (TriggeredBy is dropped once Seq has
   reached it), and "7" is after 6:3.  The checkpoint text loses the position; no Sync Gateway feed emits
   such a token (C20: [emitted]), so this is a limit of the statement, not a reachable defect *)
Definition world_unprintable_ops : list pop :=
  [PRestart 1 false; PL (Expect [mk 5 0 7; mk 6 0 3]); PL (Processed (mk 5 0 7)); PTick false false; PRestart 1 false].
Lemma restart_skips_with_unprintable_token :
  exists sn, last_opt (prun0 100 world_unprintable_ops) = Some sn /\
    m_last (w_mem (ps_w sn)) = mk 0 0 7 /\
    In (1, mk 6 0 3) (g_E (ps_g sn)) /\ ~ In (1, mk 6 0 3) (g_P (ps_g sn)) /\
    before (mk 6 0 3) (mk 0 0 7) = true /\ canon (mk 5 0 7) <> mk 5 0 7.
Proof.
  eexists. split; [vm_compute; reflexivity|]. repeat split; try (vm_compute; tauto); try (vm_compute; discriminate).
  vm_compute. intros H. repeat (destruct H as [H|H]; [discriminate H|]). exact H.
Qed.

(* OBSERVATION (liveness, not a violation of C17): when the remote checkpoint document disappears while its rev
   id is remembered, the peer answers 404; SetSGR2CheckpointRequest.Response wraps it as "unexpected error
   response: ...", which setRetry's strings.HasPrefix(err, "404") branch never sees: all ten attempts re-send
   the same rev, the tick stores 6 locally only.  The failure clears the remembered rev, so the NEXT tick
   re-creates the document.  The local path recognises 404 at once. *)
Definition world_remote_gone_ops : list pop :=
  [PRestart 1 false; PL (Expect [mk 0 0 4]); PL (Processed (mk 0 0 4)); PTick false false; PDelRemote;
   PL (Expect [mk 0 0 6]); PL (Processed (mk 0 0 6)); PTick false false;
   PL (Expect [mk 0 0 9]); PL (Processed (mk 0 0 9)); PTick false false].
Example remote_404_not_recognised :
  map (fun sn => (seq_of (w_loc (ps_w sn)), seq_of (w_rem (ps_w sn)), m_last (w_mem (ps_w sn)), m_rrev (w_mem (ps_w sn))))
      (skipn 7 (prun0 100 world_remote_gone_ops)) =
  [(Some (mk 0 0 6), None, mk 0 0 4, 0); (Some (mk 0 0 6), None, mk 0 0 4, 0); (Some (mk 0 0 6), None, mk 0 0 4, 0);
   (Some (mk 0 0 9), Some (mk 0 0 9), mk 0 0 9, 1)] /\
  (forall rev h sq, exists r, set_retry retry_attempts SLocal false None rev h sq = (Some (mkDoc r h sq), Some r)).
Proof. split; [vm_compute; reflexivity|]. intros rev h sq. apply set_retry_local_ok. Qed.

(* choosing the "lower" checkpoint by SafeSequence instead of Before (seeded regression C17-3) takes the LATER one
   whenever a backfill token trig:seq meets a plain sequence between seq and trig: local "4", remote "7:3" *)
Lemma lower_by_safe_sequence_would_skip :
  let lv := mk 0 0 4 in let rv := mk 7 0 3 in
  canon lv = lv /\ canon rv = rv /\ before lv rv = true /\ SafeSequence rv < SafeSequence lv /\
  (let r := if SafeSequence rv <? SafeSequence lv then rv else lv in before lv r = true).
Proof. vm_compute. repeat split; reflexivity. Qed.
