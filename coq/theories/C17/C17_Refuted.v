(* C17, not property obligations: statements the faithful model of the UNCHANGED code violates, with
   witnesses by vm_compute.  The same inputs are replayed on the real Checkpointer by the harness
   (corpus stream of harness/db/verif_c17_test.go; monitor signature checkpoint-regress-late-expected). *)
From SG Require Import Base.Prelude C20.SeqIdGen C20.SeqId C17.Checkpointer C17.CheckpointerProofs C17.C17_Properties.
Open Scope N_scope.

Definition regress_ops : list op :=
  [Expect [mk 0 0 20]; Processed (mk 0 0 20); Tick; Expect [mk 0 0 5]; Processed (mk 0 0 5); Tick].

(* unconditional monotonicity is false: CheckpointNow persists 20 and then 5 *)
Lemma C17_checkpoint_monotone_unconditional_refuted :
  exists thr ops s1 s2, returns (run0 thr ops) = [s1; s2] /\ before s2 s1 = true /\
                        persisted (run0 thr ops) = [None; None; Some s1; Some s1; Some s1; Some s2].
Proof. exists 100, regress_ops, (mk 0 0 20), (mk 0 0 5). vm_compute. repeat split. Qed.

Lemma C17_full_statement_refuted : ~ C17_full_statement.
Proof.
  intros H. destruct (H 100 regress_ops) as [_ Hs].
  assert (E : returns (run0 100 regress_ops) = [mk 0 0 20; mk 0 0 5]) by (vm_compute; reflexivity).
  rewrite E in Hs. inversion Hs as [|? ? _ Hall]; subst. inversion Hall as [|? ? Hle _]; subst.
  unfold sle in Hle. vm_compute in Hle. discriminate.
Qed.

(* the witness is exactly a feed that is not ordered: 5 is announced after 20 was returned *)
Lemma regress_ops_not_feed_ordered : ~ feed_ordered (run0 100 regress_ops).
Proof.
  intros H. apply C17_checkpoint_monotone in H.
  assert (E : returns (run0 100 regress_ops) = [mk 0 0 20; mk 0 0 5]) by (vm_compute; reflexivity).
  rewrite E in H. inversion H as [|? ? _ Hall]; subst. inversion Hall as [|? ? Hle _]; subst.
  unfold sle in Hle. vm_compute in Hle. discriminate.
Qed.

(* without feed order a restart at a later moment can skip: 5 is announced after 20 was persisted and the
   process stops before 5 is handled (the peer, not the checkpointer, broke the order) *)
Lemma C17_restart_later_without_order_refuted :
  exists thr ops b s e, last_opt (run0 thr ops) = Some b /\ In s (returns (run0 thr ops)) /\
     In e (s_E b) /\ ~ In e (s_P b) /\ before s e = false.
Proof.
  exists 100, [Expect [mk 0 0 20]; Processed (mk 0 0 20); Tick; Expect [mk 0 0 5]].
  exists (mkSnap (Expect [mk 0 0 5]) (mkOut None 1 0) [mk 0 0 5; mk 0 0 20] [mk 0 0 20]), (mk 0 0 20), (mk 0 0 5).
  split; [vm_compute; reflexivity|]. split; [vm_compute; left; reflexivity|].
  split; [left; reflexivity|]. split; [|vm_compute; reflexivity].
  cbn [s_P]. intros [H|[]]. discriminate H.
Qed.

(* DESIGN's compaction_transparent does not hold without feed order either: a sequence announced between two
   processed neighbours after the first of them was compacted away lowers the next checkpoint (1 instead of 3;
   both are safe) *)
Definition compaction_ops : list op :=
  [Expect [mk 0 0 1; mk 0 0 3; mk 0 0 5]; Processed (mk 0 0 3); Processed (mk 0 0 5); Tick;
   Expect [mk 0 0 4]; Processed (mk 0 0 1); Tick].
Lemma compaction_transparent_without_order_refuted :
  returns (run0 2 compaction_ops) = [mk 0 0 1] /\ returns (run0 100 compaction_ops) = [mk 0 0 3].
Proof. vm_compute. split; reflexivity. Qed.

(* liveness note (not a violation of C17): with a sequence expected twice, compaction un-marks the surviving
   copy, so the checkpoint stalls below it until it is reported processed again *)
Definition dup_ops : list op :=
  [Expect [mk 0 0 1; mk 0 0 2; mk 0 0 2; mk 0 0 3]; Processed (mk 0 0 2); Processed (mk 0 0 3); Tick;
   Processed (mk 0 0 1); Tick].
Example compaction_dup_stalls :
  returns (run0 2 dup_ops) = [mk 0 0 1] /\ returns (run0 100 dup_ops) = [mk 0 0 3].
Proof. vm_compute. split; reflexivity. Qed.

(* ---------- the minimal repair (not applied; see the report) ----------
   CheckpointNow skipping a value that is Before the last persisted one:
       if seq.Before(c.lastCheckpointSeq) { return }
   [guarded cur rets] is what would then be persisted out of the returned values [rets].  It is a sub-list
   of the returned values (so every persisted value is still safe when it is persisted, by
   C17_checkpoint_safe) and it never decreases, for EVERY operation list: the full statement would hold. *)
Fixpoint guarded (cur : option seqid) (rets : list seqid) : list seqid :=
  match rets with
  | [] => []
  | s :: r =>
      match cur with
      | Some c => if before s c then guarded cur r else s :: guarded (Some s) r
      | None => s :: guarded (Some s) r
      end
  end.

Lemma guarded_incl rets : forall cur s, In s (guarded cur rets) -> In s rets.
Proof.
  induction rets as [|x r IH]; cbn [guarded]; intros cur s H; [destruct H|].
  destruct cur as [c|]; [destruct (before x c)|]; cbn [In] in *.
  - right; eapply IH; exact H.
  - destruct H as [H|H]; [left; exact H|right; eapply IH; exact H].
  - destruct H as [H|H]; [left; exact H|right; eapply IH; exact H].
Qed.

Lemma guarded_sorted rets : forall cur,
  StronglySorted sle (guarded cur rets) /\
  Forall (fun s => forall c, cur = Some c -> sle c s) (guarded cur rets).
Proof.
  induction rets as [|x r IH]; cbn [guarded]; intros cur; [split; constructor|].
  assert (Hkeep : (forall c, cur = Some c -> sle c x) ->
            StronglySorted sle (x :: guarded (Some x) r) /\
            Forall (fun s => forall c, cur = Some c -> sle c s) (x :: guarded (Some x) r)).
  { intros Hcx. destruct (IH (Some x)) as [Hs Hall]. rewrite Forall_forall in Hall. split.
    - constructor; [exact Hs|]. apply Forall_forall; intros s Hs'. apply (Hall s Hs'); reflexivity.
    - constructor; [exact Hcx|]. apply Forall_forall; intros s Hs' c Hc.
      eapply sle_trans; [apply Hcx; exact Hc|apply (Hall s Hs'); reflexivity]. }
  destruct cur as [c|].
  - destruct (before x c) eqn:Hb.
    + apply IH.
    + apply Hkeep. intros c0 E; inversion E; subst. exact Hb.
  - apply Hkeep. intros c0 E; discriminate E.
Qed.

Lemma repaired_persist_monotone_unconditionally : forall thr ops,
  StronglySorted sle (guarded None (returns (run0 thr ops))) /\
  (forall s, In s (guarded None (returns (run0 thr ops))) -> In s (returns (run0 thr ops))).
Proof.
  intros thr ops. split; [apply guarded_sorted|apply guarded_incl].
Qed.

Example repaired_on_the_witness : guarded None (returns (run0 100 regress_ops)) = [mk 0 0 20].
Proof. vm_compute. reflexivity. Qed.
