(* C17 proofs: invariants of the Checkpointer model.  Everything is by induction over arbitrary
   operation lists; the order facts used are exactly the four strict-total-order laws of [before]
   proved in C20 on the definition regenerated from SequenceID.Before. *)
From SG Require Import Base.Prelude C20.SeqIdGen C20.SeqId C20.SeqIdOrder C17.Checkpointer.
Open Scope N_scope.

(* ---------- equality and order helpers ---------- *)
Lemma seqid_eqb_eq a b : seqid_eqb a b = true <-> a = b.
Proof.
  destruct a as [t l s], b as [t2 l2 s2]; unfold seqid_eqb; cbn [TriggeredBy LowSeq Seq].
  rewrite !andb_true_iff, !N.eqb_eq. split.
  - intros [[-> ->] ->]; reflexivity.
  - intros H; inversion H; auto.
Qed.

Lemma seqid_eq_dec (a b : seqid) : {a = b} + {a <> b}.
Proof.
  destruct (seqid_eqb a b) eqn:H.
  - left; apply seqid_eqb_eq; exact H.
  - right; intros E; apply seqid_eqb_eq in E; congruence.
Qed.

Lemma sle_refl a : sle a a.
Proof. apply before_irrefl. Qed.

(* negative transitivity, from totality + transitivity *)
Lemma nbefore_trans x y z : before y x = false -> before z y = false -> before z x = false.
Proof.
  intros Hyx Hzy. destruct (before z x) eqn:Hzx; [|reflexivity]. exfalso.
  destruct (seqid_eq_dec y z) as [->|Hne]; [congruence|].
  destruct (before_total y z Hne) as [Hyz|Hzy']; [|congruence].
  pose proof (before_trans y z x Hyz Hzx); congruence.
Qed.

Lemma sle_trans a b c : sle a b -> sle b c -> sle a c.
Proof. unfold sle; intros Hab Hbc. exact (nbefore_trans a b c Hab Hbc). Qed.

(* a <= b as "before or equal" versus "not after" *)
Lemma sle_cases a b : sle a b -> before a b = true \/ a = b.
Proof.
  unfold sle; intros H. destruct (seqid_eq_dec a b) as [->|Hne]; [right; reflexivity|].
  destruct (before_total a b Hne) as [H1|H1]; [left; exact H1|congruence].
Qed.

Lemma le_not_sle_strict a b : (before a b = true \/ a = b) -> sle b a -> a = b.
Proof.
  unfold sle; intros [H|H] Hs; [congruence|exact H].
Qed.

(* ---------- processed set ---------- *)
Lemma mem_In x p : mem x p = true <-> In x p.
Proof.
  unfold mem. rewrite existsb_exists. split.
  - intros [y [Hy He]]. apply seqid_eqb_eq in He. subst; exact Hy.
  - intros H; exists x; split; [exact H|apply seqid_eqb_eq; reflexivity].
Qed.

Lemma mem_false_In x p : mem x p = false <-> ~ In x p.
Proof. rewrite <- mem_In. destruct (mem x p); split; intros; congruence. Qed.

Lemma In_pdel x y p : In x (pdel y p) -> In x p.
Proof. unfold pdel; intros H; apply filter_In in H; tauto. Qed.

Lemma In_pdel_all x l : forall p, In x (pdel_all l p) -> In x p.
Proof.
  unfold pdel_all; induction l as [|y l IH]; cbn [fold_left]; intros p H; [exact H|].
  apply IH in H. eapply In_pdel; exact H.
Qed.

Lemma In_pdel_neq x y p : In x (pdel y p) -> x <> y.
Proof.
  unfold pdel; intros H; apply filter_In in H. destruct H as [_ H]. intros ->.
  assert (E : seqid_eqb y y = true) by (apply seqid_eqb_eq; reflexivity). rewrite E in H. discriminate.
Qed.

Lemma In_pdel_all_not x l : forall p, In x (pdel_all l p) -> ~ In x l.
Proof.
  unfold pdel_all; induction l as [|y l IH]; cbn [fold_left In]; intros p H; [tauto|].
  intros [<-|Hx].
  - apply In_pdel_all in H. apply In_pdel_neq in H. congruence.
  - exact (IH _ H Hx).
Qed.

Lemma In_padd x y p : In x (padd y p) -> x = y \/ In x p.
Proof. unfold padd; destruct (mem y p); cbn [In]; intuition. Qed.

Lemma In_padd_all x l : forall p, In x (padd_all l p) -> In x l \/ In x p.
Proof.
  unfold padd_all; induction l as [|y l IH]; cbn [fold_left In]; intros p H; [right; exact H|].
  apply IH in H. destruct H as [H|H]; [left; right; exact H|].
  apply In_padd in H. destruct H as [->|H]; [left; left; reflexivity|right; exact H].
Qed.

(* ---------- sorting ---------- *)
Lemma In_insert x y l : In x (insert y l) <-> x = y \/ In x l.
Proof.
  induction l as [|z l IH]; cbn [insert In]; [intuition|].
  destruct (before z y); cbn [In]; rewrite ?IH; intuition.
Qed.

Lemma sort_perm x l : In x (sort l) <-> In x l.
Proof.
  unfold sort; induction l as [|y l IH]; cbn [fold_right In]; [tauto|].
  rewrite In_insert, IH. intuition.
Qed.

Lemma insert_sorted x l : StronglySorted sle l -> StronglySorted sle (insert x l).
Proof.
  induction l as [|y r IH]; cbn [insert]; intros Hs.
  - constructor; constructor.
  - inversion Hs as [|? ? Hr Hall]; subst.
    destruct (before y x) eqn:Hyx.
    + constructor; [apply IH; exact Hr|].
      apply Forall_forall; intros z Hz. apply In_insert in Hz. destruct Hz as [->|Hz].
      * unfold sle. apply before_asym; exact Hyx.
      * rewrite Forall_forall in Hall; apply Hall; exact Hz.
    + constructor; [exact Hs|].
      constructor; [exact Hyx|].
      apply Forall_forall; intros z Hz. rewrite Forall_forall in Hall.
      unfold sle. eapply nbefore_trans; [exact Hyx|apply Hall; exact Hz].
Qed.

Lemma sort_sorted l : StronglySorted sle (sort l).
Proof.
  unfold sort; induction l as [|y l IH]; cbn [fold_right]; [constructor|].
  apply insert_sorted; exact IH.
Qed.

Lemma sorted_app_inv {A} (R : A -> A -> Prop) a : forall b,
  StronglySorted R (a ++ b) ->
  StronglySorted R a /\ StronglySorted R b /\ (forall x y, In x a -> In y b -> R x y).
Proof.
  induction a as [|h a IH]; cbn [app]; intros b H.
  - split; [constructor|]. split; [exact H|]. intros x y [].
  - inversion H as [|? ? Hs Hall]; subst. destruct (IH b Hs) as [Ha [Hb Hab]].
    rewrite Forall_forall in Hall.
    split; [constructor; [exact Ha|apply Forall_forall; intros z Hz; apply Hall; apply in_or_app; left; exact Hz]|].
    split; [exact Hb|].
    intros x y [->|Hx] Hy; [apply Hall; apply in_or_app; right; exact Hy|apply Hab; assumption].
Qed.

(* ---------- the safe prefix ---------- *)
Lemma span_proc_spec e p : forall a b, span_proc e p = (a, b) ->
  e = a ++ b /\ (forall x, In x a -> In x p) /\ (b = [] \/ exists h t, b = h :: t /\ ~ In h p).
Proof.
  induction e as [|x r IH]; cbn [span_proc]; intros a b H.
  - inversion H; subst. split; [reflexivity|]. split; [intros ? []|left; reflexivity].
  - destruct (mem x p) eqn:Hm.
    + destruct (span_proc r p) as [a' b'] eqn:Hsp. inversion H; subst.
      destruct (IH a' b eq_refl) as [He [Ha Hb]]. subst r.
      split; [reflexivity|]. split; [|exact Hb].
      intros y [<-|Hy]; [apply mem_In; exact Hm|apply Ha; exact Hy].
    + inversion H; subst. split; [reflexivity|]. split; [intros ? []|].
      right; exists x, r; split; [reflexivity|apply mem_false_In; exact Hm].
Qed.

Lemma last_opt_spec {A} (l : list A) :
  match last_opt l with
  | None => l = []
  | Some x => exists l', l = l' ++ [x]
  end.
Proof.
  induction l as [|a l IH]; cbn [last_opt]; [reflexivity|].
  destruct l as [|b l]; [exists []; reflexivity|].
  destruct (last_opt (b :: l)) as [x|]; [|discriminate IH].
  destruct IH as [l' Hl]. exists (a :: l'). rewrite Hl; reflexivity.
Qed.

(* ---------- trim (first half of _updateCheckpointLists) ---------- *)
Definition le_tok (x s : seqid) : Prop := before x s = true \/ x = s.

Record lists_spec (e : list seqid) (p : pset) (r : option seqid) (e1 : list seqid) (p1 : pset) : Prop := {
  ls_sub_e : forall x, In x e1 -> In x e;
  ls_sub_p : forall x, In x p1 -> In x p;
  ls_keep  : forall x, In x e -> In x e1 \/ In x p;
  ls_in_e  : forall s, r = Some s -> In s e;
  ls_in_p  : forall s, r = Some s -> In s p;
  ls_above : forall s, r = Some s -> forall x, In x e1 -> sle s x;
  ls_safe  : forall s, r = Some s -> forall x, In x e -> le_tok x s -> In x p;
  ls_max   : forall s, r = Some s -> forall y, In y e -> (forall x, In x e -> le_tok x y -> In x p) -> sle y s;
  ls_none  : r = None -> e = [] \/ exists m, In m e /\ ~ In m p /\ forall x, In x e -> sle m x;
  ls_free  : forall s, r = Some s -> forall x, In x e -> le_tok x s -> ~ In x p1
}.

Lemma trim_spec e p r e1 p1 : trim e p = (r, e1, p1) -> lists_spec e p r e1 p1 /\ StronglySorted sle e1.
Proof.
  unfold trim. destruct (span_proc (sort e) p) as [pre rest] eqn:Hsp.
  destruct (span_proc_spec _ _ _ _ Hsp) as [Hsplit [Hpre Hrest]].
  pose proof (sort_sorted e) as Hsorted. rewrite Hsplit in Hsorted.
  destruct (sorted_app_inv _ _ _ Hsorted) as [Hspre [Hsrest Hcross]].
  assert (Hin : forall x, In x e <-> In x pre \/ In x rest).
  { intros x. rewrite <- sort_perm, Hsplit, in_app_iff. tauto. }
  pose proof (last_opt_spec pre) as Hlast.
  destruct (last_opt pre) as [s|]; intros H; inversion H; subst; clear H.
  - destruct Hlast as [pre' Hpre'].
    assert (Hs_pre : In s pre) by (rewrite Hpre'; apply in_or_app; right; left; reflexivity).
    assert (Hpre_le : forall x, In x pre -> sle x s).
    { intros x Hx. rewrite Hpre' in Hx, Hspre. apply in_app_or in Hx. destruct Hx as [Hx|[<-|[]]].
      - destruct (sorted_app_inv _ _ _ Hspre) as [_ [_ Hc]]. apply Hc; [exact Hx|left; reflexivity].
      - apply sle_refl. }
    split; [|exact Hsrest]. constructor.
    + intros x Hx. apply Hin; right; exact Hx.
    + intros x Hx. eapply In_pdel_all; exact Hx.
    + intros x Hx. apply Hin in Hx. destruct Hx as [Hx|Hx]; [right; apply Hpre; exact Hx|left; exact Hx].
    + intros s0 E; inversion E; subst. apply Hin; left; exact Hs_pre.
    + intros s0 E; inversion E; subst. apply Hpre; exact Hs_pre.
    + intros s0 E x Hx; inversion E; subst. apply Hcross; assumption.
    + intros s0 E x Hx Hle; inversion E; subst. apply Hin in Hx. destruct Hx as [Hx|Hx]; [apply Hpre; exact Hx|].
      pose proof (Hcross s0 x Hs_pre Hx) as Hsx.
      rewrite (le_not_sle_strict x s0 Hle Hsx). apply Hpre; exact Hs_pre.
    + intros s0 E y Hy Hall; inversion E; subst. apply Hin in Hy. destruct Hy as [Hy|Hy]; [apply Hpre_le; exact Hy|].
      exfalso. destruct Hrest as [->|[h [t [-> Hh]]]]; [destruct Hy|].
      apply Hh. apply Hall; [apply Hin; right; left; reflexivity|].
      destruct Hy as [->|Hy]; [right; reflexivity|].
      inversion Hsrest as [|? ? _ Hall2]; subst. rewrite Forall_forall in Hall2.
      apply sle_cases. apply Hall2; exact Hy.
    + discriminate.
    + intros s0 E x Hx Hle; inversion E; subst. intros Hp. apply In_pdel_all_not in Hp. apply Hp.
      apply Hin in Hx. destruct Hx as [Hx|Hx]; [exact Hx|].
      pose proof (Hcross s0 x Hs_pre Hx) as Hsx.
      rewrite (le_not_sle_strict x s0 Hle Hsx). exact Hs_pre.
  - cbn [app] in *. split; [|rewrite Hsplit; exact Hsrest]. constructor.
    + intros x Hx. apply sort_perm; exact Hx.
    + intros x Hx; exact Hx.
    + intros x Hx. left. apply sort_perm; exact Hx.
    + discriminate.
    + discriminate.
    + discriminate.
    + discriminate.
    + discriminate.
    + intros _. destruct Hrest as [->|[h [t [-> Hh]]]].
      * left. destruct e as [|a e']; [reflexivity|]. exfalso.
        assert (Ha : In a (sort (a :: e'))) by (apply sort_perm; left; reflexivity).
        rewrite Hsplit in Ha; destruct Ha.
      * right. exists h. split; [apply Hin; right; left; reflexivity|]. split; [exact Hh|].
        intros x Hx. apply Hin in Hx. destruct Hx as [[]|[<-|Hx]]; [apply sle_refl|].
        inversion Hsrest as [|? ? _ Hall2]; subst. rewrite Forall_forall in Hall2. apply Hall2; exact Hx.
    + discriminate.
Qed.

(* ---------- compaction ---------- *)
Lemma compact_spec e : forall p e2 p2, compact e p = (e2, p2) ->
  (forall x, In x e2 -> In x e) /\ (forall x, In x p2 -> In x p) /\ (forall x, In x e -> In x e2 \/ In x p).
Proof.
  induction e as [|x r IH]; cbn [compact]; intros p e2 p2 H.
  - inversion H; subst. repeat split; auto.
  - destruct (compact r p) as [r' p'] eqn:Hc. destruct (IH p r' p' Hc) as [H1 [H2 H3]].
    destruct r' as [|n r''].
    + inversion H; subst. repeat split.
      * intros y [<-|[]]; left; reflexivity.
      * exact H2.
      * intros y [<-|Hy]; [left; left; reflexivity|]. destruct (H3 y Hy) as [[]|Hp]; right; exact Hp.
    + destruct (mem x p' && mem n p') eqn:Hb; inversion H; subst; clear H.
      * apply andb_true_iff in Hb. destruct Hb as [Hx _]. apply mem_In in Hx.
        repeat split.
        -- intros y Hy; right; apply H1; exact Hy.
        -- intros y Hy. apply H2. eapply In_pdel; exact Hy.
        -- intros y [<-|Hy]; [right; apply H2; exact Hx|apply H3; exact Hy].
      * repeat split.
        -- intros y [<-|Hy]; [left; reflexivity|right; apply H1; exact Hy].
        -- exact H2.
        -- intros y [<-|Hy]; [left; left; reflexivity|].
           destruct (H3 y Hy) as [Hy'|Hp]; [left; right; exact Hy'|right; exact Hp].
Qed.

(* the whole of _updateCheckpointLists, for every threshold *)
Lemma update_lists_spec thr e p r e2 p2 : update_lists thr e p = (r, e2, p2) -> lists_spec e p r e2 p2.
Proof.
  unfold update_lists. destruct (trim e p) as [[r1 e1] p1] eqn:Ht.
  destruct (trim_spec _ _ _ _ _ Ht) as [Hs _].
  destruct (thr <? len e1).
  - destruct (compact e1 p1) as [e3 p3] eqn:Hc. intros H; inversion H; subst; clear H.
    destruct (compact_spec _ _ _ _ Hc) as [C1 [C2 C3]]. destruct Hs as [S1 S2 S3 S4 S5 S6 S7 S8 S9 S10]. constructor.
    + intros x Hx. apply S1. apply C1. exact Hx.
    + intros x Hx. apply S2. apply C2. exact Hx.
    + intros x Hx. destruct (S3 x Hx) as [H1|H1]; [|right; exact H1].
      destruct (C3 x H1) as [H2|H2]; [left; exact H2|right; apply S2; exact H2].
    + exact S4.
    + exact S5.
    + intros s E x Hx. eapply S6; [exact E|apply C1; exact Hx].
    + exact S7.
    + exact S8.
    + exact S9.
    + intros s E x Hx Hle Hp. apply (S10 s E x Hx Hle). apply C2. exact Hp.
  - intros H; inversion H; subst; exact Hs.
Qed.

(* ---------- the invariant tying the state to the ghost history ---------- *)
Record Inv (st : state) (E P : list seqid) : Prop := {
  inv_cover : forall e, In e E -> In e (expected st) \/ In e P;   (* expected but dropped => handled *)
  inv_proc  : forall x, In x (processed st) -> In x P;             (* marked => really handled *)
  inv_exp   : forall x, In x (expected st) -> In x E
}.

Lemma Inv_init : Inv init [] [].
Proof. constructor; cbn; intros; tauto. Qed.

Definition safe_at (s : seqid) (E P : list seqid) : Prop :=
  In s E /\ In s P /\ forall e, In e E -> le_tok e s -> In e P.

Lemma step_inv thr st E P o st' ou :
  Inv st E P -> step thr st o = (st', ou) ->
  Inv st' (op_expected o ++ E) (op_processed st o ++ P) /\
  (forall s, ret ou = Some s -> safe_at s (op_expected o ++ E) (op_processed st o ++ P)).
Proof.
  intros [I1 I2 I3] Hstep. destruct o as [l|l|s|l|s d|]; cbn [step op_expected op_processed app] in *.
  - inversion Hstep; subst; clear Hstep. split; [|cbn; discriminate].
    constructor; cbn [expected processed].
    + intros e He. apply in_app_or in He. rewrite in_app_iff. destruct He as [He|He]; [left; right; exact He|].
      destruct (I1 e He); tauto.
    + exact I2.
    + intros x Hx. apply in_app_or in Hx. apply in_or_app. destruct Hx as [Hx|Hx]; [right; apply I3; exact Hx|left; exact Hx].
  - inversion Hstep; subst; clear Hstep. split; [|cbn; discriminate].
    constructor; cbn [expected processed].
    + intros e He. apply in_app_or in He. rewrite !in_app_iff. destruct He as [He|He]; [left; right; exact He|].
      destruct (I1 e He); tauto.
    + intros x Hx. apply In_padd_all in Hx. apply in_or_app. destruct Hx as [Hx|Hx]; [left; exact Hx|right; apply I2; exact Hx].
    + intros x Hx. apply in_app_or in Hx. apply in_or_app. destruct Hx as [Hx|Hx]; [right; apply I3; exact Hx|left; exact Hx].
  - inversion Hstep; subst; clear Hstep. split; [|cbn; discriminate].
    constructor; cbn [expected processed].
    + intros e He. destruct (I1 e He); [left; assumption|right; right; assumption].
    + intros x Hx. apply In_padd in Hx. destruct Hx as [->|Hx]; [left; reflexivity|right; apply I2; exact Hx].
    + exact I3.
  - inversion Hstep; subst; clear Hstep. split; [|cbn; discriminate].
    constructor; cbn [expected processed].
    + intros e He. apply in_app_or in He. rewrite in_app_iff. destruct He as [He|He]; [left; right; exact He|].
      destruct (I1 e He); tauto.
    + exact I2.
    + intros x Hx. apply in_app_or in Hx. apply in_or_app. destruct Hx as [Hx|Hx]; [right; apply I3; exact Hx|left; exact Hx].
  - inversion Hstep; subst; clear Hstep. split; [|cbn; discriminate].
    constructor; cbn [expected processed].
    + intros e He. destruct (I1 e He); [left; assumption|right; right; assumption].
    + intros x Hx. apply In_padd in Hx. destruct Hx as [->|Hx]; [left; reflexivity|right; apply I2; exact Hx].
    + exact I3.
  - destruct (update_lists thr (expected st) (processed st)) as [[r e2] p2] eqn:Hu.
    inversion Hstep; subst; clear Hstep. destruct (update_lists_spec _ _ _ _ _ _ Hu).
    split.
    + constructor; cbn [expected processed].
      * intros e He. destruct (I1 e He) as [H|H]; [|right; exact H].
        destruct (ls_keep0 e H) as [H'|H']; [left; exact H'|right; apply I2; exact H'].
      * intros x Hx. apply I2. apply ls_sub_p0; exact Hx.
      * intros x Hx. apply I3. apply ls_sub_e0; exact Hx.
    + cbn [ret obs]. intros s Hr. split; [apply I3; apply (ls_in_e0 s Hr)|].
      split; [apply I2; apply (ls_in_p0 s Hr)|].
      intros e He Hle. destruct (I1 e He) as [H|H]; [|exact H].
      apply I2. exact (ls_safe0 s Hr e H Hle).
Qed.

Lemma run_safe thr ops : forall st E P, Inv st E P ->
  forall sn, In sn (run thr st E P ops) -> forall s, ret (s_out sn) = Some s -> safe_at s (s_E sn) (s_P sn).
Proof.
  induction ops as [|o ops IH]; intros st E P HI sn Hin s Hr; cbn [run] in Hin; [destruct Hin|].
  destruct (step thr st o) as [st' ou] eqn:Hstep.
  destruct (step_inv _ _ _ _ _ _ _ HI Hstep) as [HI' Hsafe].
  destruct Hin as [<-|Hin]; cbn [s_out s_E s_P] in *.
  - apply Hsafe; exact Hr.
  - eapply IH; eassumption.
Qed.

(* ---------- monotonicity under feed order ---------- *)
Definition low_water (st : state) (rets : list seqid) : Prop :=
  forall x s, In x (expected st) -> In s rets -> before x s = false.

Definition push_ret (r : option seqid) (rets : list seqid) : list seqid :=
  match r with Some s => s :: rets | None => rets end.

Lemma step_low_water thr st o st' ou rets :
  low_water st rets ->
  (forall x s, In x (op_expected o) -> In s rets -> before x s = false) ->
  step thr st o = (st', ou) ->
  low_water st' (push_ret (ret ou) rets) /\
  (forall s, ret ou = Some s -> forall s1, In s1 rets -> before s s1 = false).
Proof.
  intros HJ Hfeed Hstep. destruct o as [l|l|s|l|s d|]; cbn [step op_expected] in *.
  - inversion Hstep; subst; clear Hstep. cbn [ret obs push_ret]. split; [|discriminate].
    intros x s Hx Hs; cbn [expected] in Hx. apply in_app_or in Hx. destruct Hx; [apply HJ|apply Hfeed]; assumption.
  - inversion Hstep; subst; clear Hstep. cbn [ret obs push_ret]. split; [|discriminate].
    intros x s Hx Hs; cbn [expected] in Hx. apply in_app_or in Hx. destruct Hx; [apply HJ|apply Hfeed]; assumption.
  - inversion Hstep; subst; clear Hstep. cbn [ret obs push_ret]. split; [exact HJ|discriminate].
  - inversion Hstep; subst; clear Hstep. cbn [ret obs push_ret]. split; [|discriminate].
    intros x s Hx Hs; cbn [expected] in Hx. apply in_app_or in Hx. destruct Hx; [apply HJ|apply Hfeed]; assumption.
  - inversion Hstep; subst; clear Hstep. cbn [ret obs push_ret]. split; [exact HJ|discriminate].
  - destruct (update_lists thr (expected st) (processed st)) as [[r e2] p2] eqn:Hu.
    inversion Hstep; subst; clear Hstep. destruct (update_lists_spec _ _ _ _ _ _ Hu).
    cbn [ret obs]. split.
    + intros x s Hx Hs; cbn [expected] in Hx. destruct r as [s0|]; cbn [push_ret] in Hs.
      * destruct Hs as [<-|Hs]; [apply (ls_above0 s0 eq_refl); exact Hx|apply HJ; [apply ls_sub_e0; exact Hx|exact Hs]].
      * apply HJ; [apply ls_sub_e0; exact Hx|exact Hs].
    + intros s Hr s1 Hs1. apply HJ; [apply (ls_in_e0 s Hr)|exact Hs1].
Qed.

Lemma run_mono thr ops : forall st E P rets,
  low_water st rets -> feed_ordered_from rets (run thr st E P ops) ->
  StronglySorted sle (returns (run thr st E P ops)) /\
  Forall (fun s2 => forall s1, In s1 rets -> before s2 s1 = false) (returns (run thr st E P ops)).
Proof.
  induction ops as [|o ops IH]; intros st E P rets HJ Hfo; cbn [run] in *.
  - split; constructor.
  - destruct (step thr st o) as [st' ou] eqn:Hstep. cbn [feed_ordered_from returns s_out s_op] in *.
    destruct Hfo as [Hfeed Hrest].
    destruct (step_low_water _ _ _ _ _ _ HJ Hfeed Hstep) as [HJ' Hnew].
    destruct (IH st' (op_expected o ++ E) (op_processed st o ++ P) _ HJ' Hrest) as [Hs Hall].
    destruct (ret ou) as [s|]; cbn [push_ret] in *.
    + rewrite Forall_forall in Hall. split.
      * constructor; [exact Hs|]. apply Forall_forall; intros s2 Hs2. unfold sle. apply (Hall s2 Hs2); left; reflexivity.
      * constructor; [apply Hnew; reflexivity|]. apply Forall_forall; intros s2 Hs2 s1 Hs1. apply (Hall s2 Hs2); right; exact Hs1.
    + split; assumption.
Qed.

(* an in-order announcement stream is feed-ordered, whatever the completions and ticks do *)
Lemma run_in_order thr ops : forall st E P rets,
  Inv st E P -> (forall s, In s rets -> In s E) ->
  StronglySorted sle (announced ops) ->
  (forall x e, In x (announced ops) -> In e E -> before x e = false) ->
  feed_ordered_from rets (run thr st E P ops).
Proof.
  induction ops as [|o ops IH]; intros st E P rets HI Hrets Hsorted Hab; cbn [run]; [exact I|].
  destruct (step thr st o) as [st' ou] eqn:Hstep. cbn [feed_ordered_from s_out s_op].
  unfold announced in *; cbn [flat_map] in *.
  destruct (sorted_app_inv _ _ _ Hsorted) as [_ [Hsrest Hcross]].
  destruct (step_inv _ _ _ _ _ _ _ HI Hstep) as [HI' Hsafe].
  split.
  - intros x s Hx Hs. apply Hab; [apply in_or_app; left; exact Hx|apply Hrets; exact Hs].
  - apply IH; [exact HI'| |exact Hsrest|].
    + intros s Hs. destruct (ret ou) as [s0|] eqn:Hr.
      * destruct Hs as [<-|Hs]; [destruct (Hsafe s0 eq_refl) as [HE _]; exact HE|apply in_or_app; right; apply Hrets; exact Hs].
      * apply in_or_app; right; apply Hrets; exact Hs.
    + intros x e Hx He. apply in_app_or in He. destruct He as [He|He].
      * apply (Hcross e x He Hx).
      * apply Hab; [apply in_or_app; right; exact Hx|exact He].
Qed.

(* ---------- restart at any later moment (needs feed order) ---------- *)
Definition resume_ok (E P rets : list seqid) : Prop :=
  forall s e, In s rets -> In e E -> In e P \/ before s e = true.

Lemma run_restart thr ops : forall st E P rets,
  Inv st E P -> resume_ok E P rets -> (forall s, In s rets -> In s P) ->
  feed_ordered_from rets (run thr st E P ops) ->
  forall t1 b t2, run thr st E P ops = t1 ++ b :: t2 ->
  forall s, In s (returns (t1 ++ [b])) \/ In s rets ->
  forall e, In e (s_E b) -> In e (s_P b) \/ before s e = true.
Proof.
  induction ops as [|o ops IH]; intros st E P rets HI HK HretsP Hfo t1 b t2 Hsplit s Hs e He; cbn [run] in *.
  - destruct t1; discriminate.
  - destruct (step thr st o) as [st' ou] eqn:Hstep. cbn [feed_ordered_from s_out s_op] in Hfo.
    destruct Hfo as [Hfeed Hrest].
    destruct (step_inv _ _ _ _ _ _ _ HI Hstep) as [HI' Hsafe].
    set (E' := op_expected o ++ E) in *. set (P' := op_processed st o ++ P) in *.
    set (rets' := match ret ou with Some s0 => s0 :: rets | None => rets end) in *.
    assert (HretsP' : forall s0, In s0 rets' -> In s0 P').
    { intros s0 H0. subst rets'. destruct (ret ou) as [s1|] eqn:Hr.
      - destruct H0 as [<-|H0]; [destruct (Hsafe s1 eq_refl) as [_ [HP _]]; exact HP|apply in_or_app; right; apply HretsP; exact H0].
      - apply in_or_app; right; apply HretsP; exact H0. }
    assert (HK' : resume_ok E' P' rets').
    { intros s0 e0 Hs0 He0.
      assert (Hold : In s0 rets -> In e0 P' \/ before s0 e0 = true).
      { intros Hs0'. subst E'. apply in_app_or in He0. destruct He0 as [He0|He0].
        - pose proof (Hfeed e0 s0 He0 Hs0') as Hnb.
          destruct (sle_cases s0 e0 Hnb) as [Hb | ->]; [right; exact Hb|left; apply in_or_app; right; apply HretsP; exact Hs0'].
        - destruct (HK s0 e0 Hs0' He0) as [Hp|Hb]; [left; apply in_or_app; right; exact Hp|right; exact Hb]. }
      subst rets'. destruct (ret ou) as [s1|] eqn:Hr; [|apply Hold; exact Hs0].
      destruct Hs0 as [<-|Hs0]; [|apply Hold; exact Hs0].
      destruct (Hsafe s1 eq_refl) as [_ [_ Hsf]].
      destruct (before s1 e0) eqn:Hb; [right; reflexivity|left].
      apply Hsf; [exact He0|]. apply sle_cases. exact Hb. }
    destruct t1 as [|a t1]; cbn [app] in Hsplit; inversion Hsplit; subst; clear Hsplit.
    + cbn [s_E s_P] in *. apply (HK' s e); [|exact He].
      cbn [app returns s_out] in Hs. subst rets'. destruct (ret ou) as [s1|].
      * destruct Hs as [[<-|[]]|Hs]; [left; reflexivity|right; exact Hs].
      * destruct Hs as [[]|Hs]; exact Hs.
    + eapply (IH st' E' P' rets' HI' HK' HretsP' Hrest t1 b t2); [eassumption| |exact He].
      cbn [app returns s_out] in Hs. subst rets'. destruct (ret ou) as [s1|].
      * destruct Hs as [[<-|Hs]|Hs]; [right; left; reflexivity|left; exact Hs|right; right; exact Hs].
      * exact Hs.
Qed.

(* ---------- boolean reflections used by the examples and by the correspondence ---------- *)
Definition sorted_le_b (l : list seqid) : bool :=
  (fix go (l : list seqid) : bool :=
     match l with
     | [] => true
     | x :: r => forallb (fun y => negb (before y x)) r && go r
     end) l.

Lemma sorted_le_b_ok l : sorted_le_b l = true -> StronglySorted sle l.
Proof.
  induction l as [|x r IH]; cbn; intros H; [constructor|].
  apply andb_true_iff in H. destruct H as [H1 H2]. constructor; [apply IH; exact H2|].
  apply Forall_forall; intros y Hy. rewrite forallb_forall in H1. specialize (H1 y Hy).
  unfold sle. destruct (before y x); [discriminate|reflexivity].
Qed.
