(* C02 -- proofs about the request kinds (Kinds.v): non-interference of every kind, content only from authorised
   revisions, the shape of what an unauthorised revision yields, existence on listings, negotiation kinds. *)
From SG Require Import Base.Prelude C02.Auth C02.AuthProofs C02.ReadDecision C02.ReadProofs C02.GateProofs C02.Kinds.
Open Scope N_scope.

Lemma rid_eqb_eq : forall a b, rid_eqb a b = true <-> a = b.
Proof.
  intros [a1 a2] [b1 b2]. unfold rid_eqb. cbn [fst snd]. rewrite andb_true_iff, !N.eqb_eq.
  split; [intros [-> ->]; reflexivity | intros E; inversion E; auto].
Qed.

Lemma rid_eqb_refl : forall a, rid_eqb a a = true.
Proof. intros a. apply rid_eqb_eq. reflexivity. Qed.

Lemma F2_length : forall {A B} (R : A -> B -> Prop) l l', Forall2 R l l' -> length l = length l'.
Proof. intros A B R l l' H. induction H; cbn; congruence. Qed.

(* ---------------- similar documents look alike to every function of the tree ---------------- *)
Section Sim.
Variables (named : bool) (u : user).

Lemma find_sim_nodes : forall l l' r, Forall2 (node_sim named u) l l' ->
  match find (fun n => rid_eqb (n_id n) r) l, find (fun n => rid_eqb (n_id n) r) l' with
  | None, None => True
  | Some n, Some n' => node_sim named u n n' /\ In n l /\ In n' l'
  | _, _ => False
  end.
Proof.
  intros l l' r H. induction H as [|m n l l' Hmn Hl IH]; cbn [find]; [exact I|].
  destruct Hmn as (Hid & Hrest). rewrite <- Hid.
  destruct (rid_eqb (n_id m) r).
  - split; [split; [exact Hid | exact Hrest] | split; left; reflexivity].
  - destruct (find _ l) as [x|], (find _ l') as [y|]; try exact IH.
    destruct IH as (A & B & C). split; [exact A | split; right; assumption].
Qed.

Lemma find_sim : forall d d' r, doc_sim named u d d' ->
  match find_node d r, find_node d' r with
  | None, None => True
  | Some n, Some n' => node_sim named u n n' /\ In n (d_nodes d) /\ In n' (d_nodes d')
  | _, _ => False
  end.
Proof. intros d d' r [_ H]. unfold find_node. apply find_sim_nodes. exact H. Qed.

Lemma in_tree_sim : forall d d' r, doc_sim named u d d' -> in_tree d r = in_tree d' r.
Proof.
  intros d d' r H. unfold in_tree. pose proof (find_sim d d' r H) as F.
  destruct (find_node d r), (find_node d' r); tauto.
Qed.

Lemma hist_from_sim : forall fuel d d' r, doc_sim named u d d' -> hist_from fuel d r = hist_from fuel d' r.
Proof.
  induction fuel as [|f IH]; intros d d' r H; cbn [hist_from]; [reflexivity|].
  pose proof (find_sim d d' r H) as F.
  destruct (find_node d r) as [n|], (find_node d' r) as [n'|]; try tauto.
  destruct F as ((_ & Hp & _) & _). rewrite <- Hp. destruct (n_parent n); [rewrite (IH d d' _ H)|]; reflexivity.
Qed.

Lemma history_sim : forall d d' r, doc_sim named u d d' -> history d r = history d' r.
Proof.
  intros d d' r H. unfold history. rewrite (F2_length _ _ _ (proj2 H)). apply hist_from_sim. exact H.
Qed.

Lemma leaves_sim : forall d d', doc_sim named u d d' -> leaves d = leaves d'.
Proof.
  intros d d' [_ H]. unfold leaves. induction H as [|m n l l' Hmn Hl IH]; cbn [filter map]; [reflexivity|].
  destruct Hmn as (Hid & _ & Hlf & _). rewrite <- Hlf. destruct (n_leaf m); cbn [map]; rewrite ?Hid, IH; reflexivity.
Qed.

(* the decision on two similar revisions *)
Lemma decide_sim : forall a b q,
  rev_sim (can_see_any named u (rv_chans a)) a b -> decide named u a q = decide named u b q.
Proof.
  intros a b q (Hc & Hd & Hr & Hb & Hv). destruct (can_see_any named u (rv_chans a)) eqn:E.
  - rewrite (Hv eq_refl). reflexivity.
  - apply decide_noninterference_meta; [exact E | repeat split; tauto].
Qed.

Lemma decide1x_sim : forall a b byrev,
  rev_sim (can_see_any named u (rv_chans a)) a b -> decide1x named u a byrev = decide1x named u b byrev.
Proof.
  intros a b byrev (Hc & Hd & Hr & Hb & Hv). destruct (can_see_any named u (rv_chans a)) eqn:E.
  - rewrite (Hv eq_refl). reflexivity.
  - apply decide1x_noninterference_meta; [exact E | repeat split; tauto].
Qed.

Lemma node_sim_vis : forall d n n', faithful d -> In n (d_nodes d) -> node_sim named u n n' ->
  rev_sim (can_see_any named u (rv_chans (n_rev n))) (n_rev n) (n_rev n').
Proof.
  intros d n n' Hf Hin (_ & _ & _ & _ & H). unfold authorised in H. rewrite <- (Hf n Hin) in H. exact H.
Qed.

Lemma get_answer_sim : forall d d' rev revs, doc_sim named u d d' -> faithful d ->
  get_answer named u (Some d) rev revs = get_answer named u (Some d') rev revs.
Proof.
  intros d d' rev revs H Hf. unfold get_answer. rewrite <- (proj1 H).
  set (r := match rev with Some r => r | None => d_cur d end).
  pose proof (find_sim d d' r H) as F.
  destruct (find_node d r) as [n|], (find_node d' r) as [n'|]; try tauto.
  destruct F as (Hs & Hin & _).
  rewrite (decide_sim _ _ _ (node_sim_vis d n n' Hf Hin Hs)), (history_sim d d' r H). reflexivity.
Qed.

Lemma open_entry_sim : forall d d' revs r, doc_sim named u d d' -> faithful d ->
  open_entry named u (Some d) revs r = open_entry named u (Some d') revs r.
Proof. intros. unfold open_entry. rewrite (get_answer_sim d d' (Some r) revs) by assumption. reflexivity. Qed.

Lemma possible_for_sim : forall d d' asked r, doc_sim named u d d' -> possible_for d asked r = possible_for d' asked r.
Proof.
  intros d d' asked r [_ H]. unfold possible_for. destruct (1 <? gen r); [|reflexivity].
  induction H as [|m n l l' Hmn Hl IH]; cbn [flat_map]; [reflexivity|].
  destruct Hmn as (Hid & Hp & Hlf & _). rewrite <- Hid, <- Hp, <- Hlf, IH. reflexivity.
Qed.

Lemma revs_diff_sim : forall d d' asked, doc_sim named u d d' -> revs_diff (Some d) asked = revs_diff (Some d') asked.
Proof.
  intros d d' asked H. unfold revs_diff.
  assert (E : filter (fun r => negb (in_tree d r)) asked = filter (fun r => negb (in_tree d' r)) asked).
  { apply filter_ext. intros r. rewrite (in_tree_sim d d' r H). reflexivity. }
  rewrite E. f_equal. apply flat_map_ext. intros r. apply possible_for_sim. exact H.
Qed.

Lemma cur_deleted_sim : forall d d', doc_sim named u d d' -> cur_deleted d = cur_deleted d'.
Proof.
  intros d d' H. unfold cur_deleted. rewrite <- (proj1 H).
  pose proof (find_sim d d' (d_cur d) H) as F.
  destruct (find_node d (d_cur d)) as [n|], (find_node d' (d_cur d)) as [n'|]; try tauto.
  destruct F as ((_ & _ & _ & _ & _ & Hd & _) & _). exact Hd.
Qed.

Lemma propose_sim : forall d d' r p i, doc_sim named u d d' -> propose (Some d) r p i = propose (Some d') r p i.
Proof.
  intros d d' r p i H. unfold propose. rewrite <- (proj1 H), (cur_deleted_sim d d' H). reflexivity.
Qed.

Lemma alldocs_row_sim : forall nwe a b f,
  rev_sim (can_see_any named u (rv_chans a)) a b -> alldocs_row named nwe u a f = alldocs_row named nwe u b f.
Proof.
  intros nwe a b f H. pose proof H as (Hc & Hd & Hr & Hb & Hv).
  unfold alldocs_row. rewrite <- Hc, (decide1x_sim a b true H), (decide1x_sim a b false H). reflexivity.
Qed.

End Sim.

(* ---------------- non-interference of every kind ---------------- *)
(* whatever the kind of request, two documents that differ only in the contents of revisions the reader is not
   authorised for get the same response; for a delta this needs the reader to be authorised for the source *)
Theorem respond_noninterference : forall named u k od od',
  odoc_sim named u od od' -> delta_source_ok named u k od ->
  respond named u k od = respond named u k od'.
Proof.
  intros named u k od od' Hs Hdk. destruct od as [d|], od' as [d'|]; cbn [odoc_sim] in Hs; try tauto.
  destruct Hs as (H & Hf & Hf').
  destruct k as [rev revs|spec revs|rev name|nwe f|revs|r| |asked|r|r p i|from to]; cbn [respond].
  - rewrite (get_answer_sim named u d d' rev revs H Hf). reflexivity.
  - f_equal. unfold open_revs. destruct spec as [l|].
    + f_equal. apply map_ext. intros r. apply open_entry_sim; assumption.
    + rewrite (leaves_sim named u d d' H). f_equal. apply map_ext. intros r. apply open_entry_sim; assumption.
  - unfold att_answer. rewrite (get_answer_sim named u d d' rev false H Hf). reflexivity.
  - f_equal. unfold cur_node. rewrite <- (proj1 H). pose proof (find_sim named u d d' (d_cur d) H) as F.
    destruct (find_node d (d_cur d)) as [n|], (find_node d' (d_cur d)) as [n'|]; try tauto.
    destruct F as (Hn & Hin & _). pose proof (node_sim_vis named u d n n' Hf Hin Hn) as Hv.
    pose proof Hv as (_ & Hd & _). rewrite <- Hd. rewrite (alldocs_row_sim named u nwe _ _ f Hv). reflexivity.
  - rewrite <- (proj1 H). rewrite (get_answer_sim named u d d' (Some (d_cur d)) revs H Hf). reflexivity.
  - rewrite (get_answer_sim named u d d' (Some r) true H Hf). reflexivity.
  - rewrite (get_answer_sim named u d d' None false H Hf). reflexivity.
  - rewrite (revs_diff_sim named u d d' asked H). reflexivity.
  - unfold changes_reply. rewrite (revs_diff_sim named u d d' [r] H). reflexivity.
  - rewrite (propose_sim named u d d' r p i H). reflexivity.
  - f_equal. unfold delta. cbn [delta_source_ok] in Hdk.
    pose proof (find_sim named u d d' from H) as F.
    destruct (find_node d from) as [f|], (find_node d' from) as [f'|]; try tauto.
    destruct F as ((_ & _ & _ & _ & _ & _ & _ & _ & Hv) & _). rewrite <- (Hv Hdk).
    destruct (rv_removed (n_rev f)); [reflexivity|]. destruct (rv_deleted (n_rev f)); [reflexivity|].
    destruct (rv_body (n_rev f)) as [fb|]; [|reflexivity].
    pose proof (find_sim named u d d' to H) as T.
    destruct (find_node d to) as [t|], (find_node d' to) as [t'|]; try tauto.
    destruct T as (Ht & Hin & _). pose proof (node_sim_vis named u d t t' Hf Hin Ht) as (Hc & Hd & Hr & Hb & Hvt).
    rewrite <- Hc, <- Hd, <- Hr. destruct (can_see_any named u (rv_chans (n_rev t))); cbn [negb]; [|reflexivity].
    rewrite <- (Hvt eq_refl). reflexivity.
Qed.

(* ---------------- content only from authorised revisions; an unauthorised revision yields a bare stub ---------------- *)
Lemma answer_of_full : forall r o h r' b a dl h',
  answer_of r o h = AFull r' b a dl h' -> o = Body b a dl /\ r' = r /\ h' = h.
Proof. intros r o h r' b a dl h' H. destruct o; cbn in H; inversion H; auto. Qed.

Lemma get_answer_full : forall named u d rev revs r b a dl h,
  get_answer named u (Some d) rev revs = AFull r b a dl h ->
  exists n, find_node d r = Some n /\ r = (match rev with Some x => x | None => d_cur d end) /\
            can_see_any named u (rv_chans (n_rev n)) = true /\ rv_body (n_rev n) = Some b /\
            rv_atts (n_rev n) = a /\ rv_removed (n_rev n) = false.
Proof.
  intros named u d rev revs r b a dl h H. unfold get_answer in H.
  set (r0 := match rev with Some x => x | None => d_cur d end) in *.
  destruct (find_node d r0) as [n|] eqn:F; [|discriminate].
  apply answer_of_full in H. destruct H as (Ho & Hr & _). subst r.
  apply decide_body_visible in Ho. exists n. tauto.
Qed.

(* what [get_answer] says about a revision the cache reports no visible channel for *)
Lemma get_answer_invisible : forall named u d rev revs n,
  find_node d (match rev with Some x => x | None => d_cur d end) = Some n ->
  can_see_any named u (rv_chans (n_rev n)) = false ->
  let r := match rev with Some x => x | None => d_cur d end in
  get_answer named u (Some d) rev revs = AErr 403 \/ get_answer named u (Some d) rev revs = AErr 404 \/
  (rev = Some r /\ get_answer named u (Some d) rev revs = AStub r (rv_deleted (n_rev n)) (if revs then history d r else [])).
Proof.
  intros named u d rev revs n F Hns r. unfold get_answer. fold r in F |- *. rewrite F.
  destruct (decide_unauthorised_shape named u (n_rev n) (mkReq (is_some rev) false) Hns) as [E|[E|[(E & Hq & Hd)|(E & Hq & Hd)]]];
    rewrite E; cbn [answer_of]; auto.
  - right. right. cbn [q_byrev] in Hq. destruct rev; [|discriminate]. rewrite Hd. auto.
  - right. right. cbn [q_byrev] in Hq. destruct rev; [|discriminate]. rewrite Hd. auto.
Qed.

(* every answer of every kind is an answer of getRev + documentRevisionForRequest *)
Lemma open_entry_some : forall named u od revs r r1 a,
  open_entry named u od revs r = (r1, Some a) -> a = get_answer named u od (Some r) revs.
Proof.
  intros named u od revs r r1 a H. unfold open_entry in H.
  destruct (get_answer named u od (Some r) revs); inversion H; reflexivity.
Qed.

Lemma answers_respond : forall named u k od a,
  In a (answers (respond named u k od)) -> exists rev revs, a = get_answer named u od rev revs.
Proof.
  intros named u k od a Hin.
  destruct k as [rev revs|spec revs|rev name|nwe f|revs|r0| |asked|r0|r0 p i|from to]; cbn [respond answers] in Hin.
  - destruct Hin as [E|[]]. eauto.
  - destruct (open_revs named u od spec revs) as [l|] eqn:El; [|destruct Hin].
    apply in_flat_map in Hin. destruct Hin as ([r1 oa] & Hm & Hx). cbn [snd] in Hx.
    destruct oa as [a0|]; [|destruct Hx]. destruct Hx as [Hx|[]]. subst a0.
    unfold open_revs in El.
    assert (exists r2, open_entry named u od revs r2 = (r1, Some a)) as (r2 & Hoe).
    { destruct spec as [l0|]; [|destruct od as [d|]; [|discriminate]]; inversion El; subst l;
        apply in_map_iff in Hm; destruct Hm as (r2 & Hoe & _); eauto. }
    apply open_entry_some in Hoe. eauto.
  - destruct Hin.
  - destruct Hin.
  - destruct od as [d|]; [|destruct Hin].
    destruct (get_answer named u (Some d) (Some (d_cur d)) revs) eqn:E; cbn [answers] in Hin;
      try (destruct Hin; fail); destruct Hin as [Hx|[]]; subst a; rewrite <- E; eauto.
  - destruct Hin as [E|[]]. eauto.
  - destruct Hin as [E|[]]. eauto.
  - destruct (revs_diff od asked). destruct Hin.
  - destruct Hin.
  - destruct (propose od r0 p i). destruct Hin.
  - destruct Hin.
Qed.

(* every answer that carries content is about a revision the reader is authorised for, and carries that
   revision's own body and attachment list *)
Theorem content_only_from_authorised : forall named u k d a r b at' dl h,
  faithful d -> In a (answers (respond named u k (Some d))) -> a = AFull r b at' dl h ->
  exists n, In n (d_nodes d) /\ n_id n = r /\ authorised named u n = true /\
            rv_body (n_rev n) = Some b /\ rv_atts (n_rev n) = at'.
Proof.
  intros named u k d a r b at' dl h Hf Hin Ha. subst a.
  assert (G : forall rev revs, get_answer named u (Some d) rev revs = AFull r b at' dl h ->
              exists n, In n (d_nodes d) /\ n_id n = r /\ authorised named u n = true /\
                        rv_body (n_rev n) = Some b /\ rv_atts (n_rev n) = at').
  { intros rev revs E. apply get_answer_full in E. destruct E as (n & F & _ & Hv & Hb & Hat & _).
    unfold find_node in F. pose proof (find_some _ _ F) as [Hn Hid]. apply rid_eqb_eq in Hid.
    exists n. unfold authorised. rewrite <- (Hf n Hn). tauto. }
  apply answers_respond in Hin. destruct Hin as (rev & revs & E). eapply G. symmetry. exact E.
Qed.

(* removal / tombstone shapes: an answer about a revision the reader is NOT authorised for is a bare stub -- the
   revision id, the deleted flag and (when asked for) the ancestry -- never a body field or an attachment *)
Theorem removed_stub_has_no_body : forall named u k d a r n,
  faithful d -> In a (answers (respond named u k (Some d))) -> answer_rid a = Some r ->
  find_node d r = Some n -> authorised named u n = false ->
  exists h, a = AStub r (rv_deleted (n_rev n)) h.
Proof.
  intros named u k d a r n Hf Hin Hr F Hna.
  assert (Hin_n : In n (d_nodes d)) by (unfold find_node in F; apply (find_some _ _ F)).
  assert (Hns : can_see_any named u (rv_chans (n_rev n)) = false) by (rewrite (Hf n Hin_n); exact Hna).
  assert (G : forall rev revs, a = get_answer named u (Some d) rev revs -> exists h, a = AStub r (rv_deleted (n_rev n)) h).
  { intros rev revs E. subst a. unfold get_answer in *.
    set (r0 := match rev with Some x => x | None => d_cur d end) in *.
    destruct (find_node d r0) as [n0|] eqn:F0; [|discriminate].
    assert (Hr0 : r0 = r).
    { destruct (decide named u (n_rev n0) (mkReq (is_some rev) false)); cbn [answer_of answer_rid] in Hr; congruence. }
    clearbody r0. subst r0. rewrite F in F0. inversion F0; subst n0.
    destruct (decide_unauthorised_shape named u (n_rev n) (mkReq (is_some rev) false) Hns) as [E|[E|[(E & Hq & Hd)|(E & Hq & Hd)]]];
      rewrite E in *; cbn [answer_of answer_rid] in *; try discriminate; rewrite Hd; eexists; reflexivity. }
  apply answers_respond in Hin. destruct Hin as (rev & revs & E). eapply G. exact E.
Qed.

(* the stub is delivered only for an explicitly requested revision: a request for "the document" never gets one *)
Theorem stub_only_by_revision : forall named u d revs r dl h,
  get_answer named u (Some d) None revs <> AStub r dl h.
Proof.
  intros named u d revs r dl h H. unfold get_answer in H.
  destruct (find_node d (d_cur d)) as [n|]; [|discriminate].
  unfold decide in H. cbn [is_some q_byrev q_force403] in H.
  destruct (rv_body (n_rev n)); [|discriminate].
  destruct (can_see_any named u (rv_chans (n_rev n))); cbn [negb] in H; [|discriminate].
  destruct (rv_removed (n_rev n)); [discriminate|]. destruct (rv_deleted (n_rev n)); discriminate.
Qed.

(* attachments: bytes are served only for an attachment of a revision the reader is authorised for *)
Theorem attachment_only_from_authorised : forall named u d rev name dig,
  faithful d -> att_answer named u (Some d) rev name = AttData dig ->
  exists n, In n (d_nodes d) /\ authorised named u n = true /\ In (name, dig) (rv_atts (n_rev n)).
Proof.
  intros named u d rev name dig Hf H. unfold att_answer in H.
  destruct (get_answer named u (Some d) rev false) as [r b a dl h| |] eqn:E; try discriminate.
  destruct (find (fun e => fst e =? name) a) as [[nm dg]|] eqn:Ff; [|discriminate]. inversion H; subst dig.
  apply get_answer_full in E. destruct E as (n & F & _ & Hv & _ & Hat & _).
  unfold find_node in F. pose proof (find_some _ _ F) as [Hn _].
  pose proof (find_some _ _ Ff) as [Hi He]. cbn [fst] in He. apply N.eqb_eq in He. subst nm.
  exists n. unfold authorised. rewrite <- (Hf n Hn), Hat. cbn [snd]. tauto.
Qed.

(* a delta is computed only towards a target the reader is authorised for (the source is NOT checked: Refuted) *)
Theorem delta_target_authorised : forall named u d from to g a sa ta,
  faithful d -> delta named u (Some d) from to = DDelta g a sa ta ->
  exists t, find_node d to = Some t /\ authorised named u t = true.
Proof.
  intros named u d from to g a sa ta Hf H. unfold delta in H.
  destruct (find_node d from) as [f|]; [|discriminate].
  destruct (rv_removed (n_rev f)); [discriminate|]. destruct (rv_deleted (n_rev f)); [discriminate|].
  destruct (rv_body (n_rev f)); [|discriminate].
  destruct (find_node d to) as [t|] eqn:F; [|discriminate].
  destruct (can_see_any named u (rv_chans (n_rev t))) eqn:E; cbn [negb] in H; [|discriminate].
  exists t. split; [reflexivity|]. unfold authorised. unfold find_node in F. rewrite <- (Hf t (proj1 (find_some _ _ F))). exact E.
Qed.

(* with the repaired GetDelta every kind is non-interferent without side condition *)
Theorem delta_repaired_noninterference : forall named u d d' from to,
  doc_sim named u d d' -> faithful d -> faithful d' ->
  delta_repaired named u (Some d) from to = delta_repaired named u (Some d') from to.
Proof.
  intros named u d d' from to H Hf Hf'. unfold delta_repaired.
  pose proof (find_sim named u d d' from H) as F.
  destruct (find_node d from) as [f|] eqn:Ef, (find_node d' from) as [f'|] eqn:Ef'; try tauto.
  destruct F as (Hn & Hin & Hin'). pose proof (node_sim_vis named u d f f' Hf Hin Hn) as (Hc & Hd & Hr & _).
  rewrite <- Hc, <- Hd, <- Hr. destruct (rv_removed (n_rev f)); [reflexivity|]. destruct (rv_deleted (n_rev f)); [reflexivity|].
  destruct (can_see_any named u (rv_chans (n_rev f))) eqn:E; [|reflexivity].
  assert (Hok : delta_source_ok named u (KDelta from to) (Some d)).
  { cbn [delta_source_ok]. rewrite Ef. unfold authorised. rewrite <- (Hf f Hin). exact E. }
  pose proof (respond_noninterference named u (KDelta from to) (Some d) (Some d') (conj H (conj Hf Hf')) Hok) as R.
  cbn [respond] in R. injection R as R'. exact R'.
Qed.

(* ---------------- existence ---------------- *)
(* a listing answers for a document whose current revision the reader is not authorised for exactly as if the
   document did not exist *)
Theorem listing_hides_existence : forall named u k d n,
  listing k = true -> faithful d -> cur_node d = Some n -> authorised named u n = false ->
  respond named u k (Some d) = respond named u k None.
Proof.
  intros named u k d n Hl Hf Hc Hna. destruct k; try discriminate. cbn [listing] in Hl. cbn [respond].
  rewrite Hc. apply negb_true_iff in Hl. rewrite Hl. cbn [negb andb].
  destruct (rv_deleted (n_rev n)); [reflexivity|]. f_equal.
  assert (Hin : In n (d_nodes d)) by (unfold cur_node, find_node in Hc; apply (find_some _ _ Hc)).
  assert (Hns : can_see_any named u (rv_chans (n_rev n)) = false) by (rewrite (Hf n Hin); exact Hna).
  apply alldocs_listing_hides; [exact Hns | eapply invisible_without_star; exact Hns | exact Hl].
Qed.

(* ---------------- write negotiation ---------------- *)
(* _revs_diff, the reply to a changes message and the reply to a proposeChanges message are the same for every
   reader (there is no authorisation) and depend on nothing but the shape of the revision tree: ids, parents,
   leaves, the current revision and whether it is a tombstone *)
Definition same_shape (d d' : doc) : Prop :=
  d_cur d = d_cur d' /\ cur_deleted d = cur_deleted d' /\
  Forall2 (fun m n => n_id m = n_id n /\ n_parent m = n_parent n /\ n_leaf m = n_leaf n) (d_nodes d) (d_nodes d').

Definition negotiation (k : kind) : bool :=
  match k with KRevsDiff _ | KChangesReply _ | KPropose _ _ _ => true | _ => false end.

Lemma in_tree_shape : forall d d' r, same_shape d d' -> in_tree d r = in_tree d' r.
Proof.
  intros d d' r (_ & _ & H). unfold in_tree, find_node.
  induction H as [|m n l l' (Hid & _) Hl IH]; cbn [find]; [reflexivity|].
  rewrite <- Hid. destruct (rid_eqb (n_id m) r); [reflexivity | exact IH].
Qed.

Lemma revs_diff_shape : forall d d' asked, same_shape d d' -> revs_diff (Some d) asked = revs_diff (Some d') asked.
Proof.
  intros d d' asked H. unfold revs_diff.
  assert (E : filter (fun r => negb (in_tree d r)) asked = filter (fun r => negb (in_tree d' r)) asked).
  { apply filter_ext. intros r. rewrite (in_tree_shape d d' r H). reflexivity. }
  rewrite E. f_equal. apply flat_map_ext. intros r. unfold possible_for. destruct (1 <? gen r); [|reflexivity].
  destruct H as (_ & _ & H). induction H as [|m n l l' (Hid & Hp & Hlf) Hl IH]; cbn [flat_map]; [reflexivity|].
  rewrite <- Hid, <- Hp, <- Hlf, IH. reflexivity.
Qed.

Theorem negotiation_ignores_reader_and_content : forall named named' u u' k d d',
  negotiation k = true -> same_shape d d' -> respond named u k (Some d) = respond named' u' k (Some d').
Proof.
  intros named named' u u' k d d' Hk H. destruct k; try discriminate; cbn [respond].
  - rewrite (revs_diff_shape d d' asked H). reflexivity.
  - unfold changes_reply. rewrite (revs_diff_shape d d' [r] H). reflexivity.
  - unfold propose. destruct H as (Hc & Hd & _). rewrite <- Hc, <- Hd. reflexivity.
Qed.

(* what _revs_diff hands out: asked ids back, and ids of leaves of the tree or of parents of leaves *)
Theorem revs_diff_discloses : forall d asked m p,
  revs_diff (Some d) asked = (m, p) ->
  (forall r, In r m -> In r asked /\ in_tree d r = false) /\
  (forall r, In r p -> exists l, In l (d_nodes d) /\ n_leaf l = true /\ (r = n_id l \/ n_parent l = Some r)).
Proof.
  intros d asked m p H. unfold revs_diff in H. inversion H; subst m p; clear H. split.
  - intros r Hr. apply filter_In in Hr. destruct Hr as [Ha Hn]. apply negb_true_iff in Hn. tauto.
  - intros r Hr. apply in_flat_map in Hr. destruct Hr as (r0 & _ & Hr). unfold possible_for in Hr.
    destruct (1 <? gen r0); [|destruct Hr]. apply in_flat_map in Hr. destruct Hr as (l & Hl & Hr).
    destruct (n_leaf l) eqn:Elf; cbn [negb orb] in Hr; [|destruct Hr].
    destruct (rmem (n_id l) asked); [destruct Hr|].
    destruct ((gen (n_id l) <? gen r0) && (gen r0 - 100 <=? gen (n_id l))).
    + destruct Hr as [Hr|[]]. exists l. auto.
    + destruct (gen (n_id l) =? gen r0); [|destruct Hr]. destruct (n_parent l) as [pp|] eqn:Ep; [|destruct Hr].
      destruct Hr as [Hr|[]]. subst pp. exists l. auto.
Qed.

(* ---------------- completeness ---------------- *)
Theorem kinds_complete : forall named u d n b revs,
  faithful d -> cur_node d = Some n -> authorised named u n = true ->
  rv_body (n_rev n) = Some b -> rv_removed (n_rev n) = false -> rv_deleted (n_rev n) = false ->
  respond named u (KGet None revs) (Some d) = ROne (AFull (d_cur d) b (rv_atts (n_rev n)) false (if revs then history d (d_cur d) else [])) /\
  respond named u KGetRev (Some d) = ROne (AFull (d_cur d) b (rv_atts (n_rev n)) false []) /\
  respond named u (KBlipRev (d_cur d)) (Some d) = ROne (AFull (d_cur d) b (rv_atts (n_rev n)) false (history d (d_cur d))).
Proof.
  intros named u d n b revs Hf Hc Ha Hb Hr Hd. unfold cur_node in Hc.
  assert (Hin : In n (d_nodes d)) by (unfold find_node in Hc; apply (find_some _ _ Hc)).
  assert (Hv : can_see_any named u (rv_chans (n_rev n)) = true) by (rewrite (Hf n Hin); exact Ha).
  cbn [respond]. unfold get_answer. rewrite Hc.
  rewrite !(decide_complete named u (n_rev n) _ b Hb Hr Hd Hv). cbn [answer_of]. auto.
Qed.

(* ---------------- proveAttachment ---------------- *)
Lemma cmem_In : forall x l, cmem x l = true <-> In x l.
Proof.
  intros x l. unfold cmem. rewrite existsb_exists. split.
  - intros [y [Hy E]]. apply N.eqb_eq in E. subst. exact Hy.
  - intros H. exists x. split; [exact H | apply N.eqb_refl].
Qed.

(* a proof is handed out only for an attachment of an outstanding, authorised rev message -- or for a legacy one *)
Theorem prove_gate : forall named u pre v3 legacy k,
  let c := fst (gate_run named u conn0 pre) in
  prove_serves v3 (c_gate c) legacy k = true ->
  In k legacy \/
  (v3 = false /\ exists rv, In rv (c_out c) /\ In k (att_keys (rv_atts rv)) /\
                           can_see_any named u (rv_chans rv) = true /\ rv_removed rv = false /\ rv_body rv <> None).
Proof.
  intros named u pre v3 legacy k c H. unfold prove_serves in H. apply orb_true_iff in H. destruct H as [H|H].
  - right. apply andb_true_iff in H. destruct H as [Hv Hg]. split; [destruct v3; [discriminate | reflexivity]|].
    apply (attachment_gate_trace named u pre k). cbn [gate_step]. fold c. rewrite Hg. reflexivity.
  - left. apply cmem_In. exact H.
Qed.

Theorem prove_repaired_gate : forall named u pre v3 legacy k,
  let c := fst (gate_run named u conn0 pre) in
  prove_serves_repaired v3 (c_gate c) legacy k = true ->
  exists rv, In rv (c_out c) /\ In k (att_keys (rv_atts rv)) /\
             can_see_any named u (rv_chans rv) = true /\ rv_removed rv = false /\ rv_body rv <> None.
Proof.
  intros named u pre v3 legacy k c H. apply (attachment_gate_trace named u pre k). cbn [gate_step]. fold c.
  unfold prove_serves_repaired in H. apply andb_true_iff in H. destruct H as [_ H]. rewrite H. reflexivity.
Qed.
